------------------------------ MODULE NodeAlloc ------------------------------
(***************************************************************************)
(* Design model of the application-level placement API                     *)
(*   src/radical/pilot/resource_config.py : Node, NodeList                 *)
(* used by applications which place their tasks themselves                 *)
(* (Pilot.nodelist.find_slots / release_slots, Node.allocate_slot).        *)
(* The API is a sequential library: one action per call, the               *)
(* linearization point is the call's return (also on the error path).      *)
(*                                                                         *)
(* Code-shaped variables: the occupancy map O, the rotating start index    *)
(* idx (NodeList.__index__), the last-failed cache lrr / ln.  Ghost        *)
(* variables: H[holder] = the placement a holder was granted and has not   *)
(* given back, R[holder] = the request it was granted for, out = outcome   *)
(* of the last call.  The properties (C01 C02 C03) are stated over H.      *)
(*                                                                         *)
(* Known deviations of the code from the intended design are boolean       *)
(* constants DevXxx (FALSE = intended design, TRUE = as coded).            *)
(*                                                                         *)
(* Concurrent use (application threads sharing one NodeList): with         *)
(* Callers # {} every call is split into the steps between which another   *)
(* thread may run - the schedule points are the acquisitions of a node     *)
(* lock (Node.__lock__) and the moment between search and record inside    *)
(* Node.find_slot.  NodeList itself has no lock: the rotating index and    *)
(* the last-failed cache are read and written unprotected, one node at a   *)
(* time is locked.  A caller c works for the holder of the same name.      *)
(* The steps are those of the rig (nodealloc_rig.ConcRig), so a behaviour  *)
(* of this model is an exact thread schedule for the real classes.         *)
(***************************************************************************)
EXTENDS NodeAllocOps, TLC

CONSTANTS Holders,             \* who may hold a placement
          Reqs,                \* sequence of [rr |-> request, n |-> n_slots]
          Sups,                \* sequence of application-chosen slots (see SupOutcome)
          DevNoLfsRaises,      \* (a) deallocate_slot: `self.lfs += slot.lfs` unguarded
          DevPosVsIndex,       \* (b) rollback / release look the node up by position
          DevSupDupUnchecked,  \* supplied slot: a resource listed twice is checked per entry
          DevNegIndexPartial,  \* supplied slot: negative index passes the check, raises half-way
          DevCacheInverted,    \* (c) last-failed cache compares the wrong way round
          Callers,             \* application threads (subset of Holders); {} == sequential use
          DevSearchOutsideLock \* find_slot records the slot it found after leaving the node lock

VARIABLES O, idx, lrr, ln, H, R, out,
          lock,                \* [Node -> Callers \cup {"free"}]  (Node.__lock__)
          cs                   \* [Callers -> what the caller is in the middle of]

vars == <<O, idx, lrr, ln, H, R, out, lock, cs>>

Out(k, q) == [k |-> k, q |-> q]
Fails     == {"raise", "cached", "none", "refused"}

\* pc: idle | acq (about to lock a node and search it) | rec (slot found, not yet recorded)
\*     | rb (giving back a partial grant) | rel (release_slots under way) | sup (allocate_slot)
Idle == [pc |-> "idle", q |-> 0, start |-> 0, i |-> 0, got |-> <<>>, cand |-> NoSlot, p |-> <<>>]

Init ==
  /\ O = InitOcc /\ idx = 0 /\ lrr = NoRR /\ ln = 0
  /\ H = [h \in Holders |-> <<>>]
  /\ R = [h \in Holders |-> 0]
  /\ out = Out("init", 0)
  /\ lock = [n \in Node |-> "free"]
  /\ cs = [c \in Callers |-> Idle]

(* ---- NodeList.find_slots(rr, n_slots) ------------------------------------- *)
FindSlots(h, q) ==
  /\ Callers = {}                  \* sequential use: the call is one step
  /\ H[h] = <<>>
  /\ LET rr == Reqs[q].rr
         n  == Reqs[q].n IN
     IF AssertRejects(rr, n)
     THEN /\ out' = Out("raise", q)
          /\ UNCHANGED <<O, idx, lrr, ln, H, R>>
     ELSE IF CacheHit(lrr, ln, rr, n, DevCacheInverted)
     THEN /\ out' = Out("cached", q)
          /\ UNCHANGED <<O, idx, lrr, ln, H, R>>
     ELSE LET sc == Scan(O, idx, 0, rr, n, <<>>) IN
          IF Len(sc.got) = n
          THEN /\ O' = sc.O
               /\ idx' = sc.stop
               /\ H' = [H EXCEPT ![h] = sc.got]
               /\ R' = [R EXCEPT ![h] = q]
               /\ out' = Out("grant", q)
               /\ UNCHANGED <<lrr, ln>>
          ELSE \* free whatever we got
               LET rb == RelSeq(sc.O, sc.got, 1, DevPosVsIndex, DevNoLfsRaises) IN
               /\ O' = rb.O
               /\ IF rb.ok THEN lrr' = rr /\ ln' = n /\ out' = Out("none", q)
                           ELSE UNCHANGED <<lrr, ln>> /\ out' = Out("raise", q)
               /\ UNCHANGED <<idx, H, R>>
  /\ UNCHANGED <<lock, cs>>

(* ---- Node.allocate_slot(slot, _check=True) with an application-chosen slot - *)
Supply(h, k) ==
  /\ Callers = {}
  /\ R[h] = 0 /\ Len(H[h]) < 2
  /\ LET r == SupOutcome(O, Sups[k], DevSupDupUnchecked, DevNegIndexPartial) IN
     /\ O' = r.O
     /\ IF r.ok THEN H' = [H EXCEPT ![h] = Append(@, ToGhost(Sups[k]))] /\ out' = Out("ok", k)
                ELSE UNCHANGED H /\ out' = Out("refused", k)
  /\ UNCHANGED <<idx, lrr, ln, R, lock, cs>>

(* ---- NodeList.release_slots(slots) ---------------------------------------- *)
Release(h) ==
  /\ Callers = {}
  /\ H[h] # <<>>
  /\ LET r == RelSeq(O, H[h], 1, DevPosVsIndex, DevNoLfsRaises) IN
     /\ O' = r.O
     /\ IF r.ok THEN /\ idx' = IF lrr.nc # -1 THEN MinNode(H[h]) - 1 ELSE idx
                     /\ lrr' = NoRR /\ ln' = 0
                     /\ out' = Out("released", 0)
                ELSE UNCHANGED <<idx, lrr, ln>> /\ out' = Out("relraise", 0)
  \* the application has given the placement back, whatever the call did
  /\ H' = [H EXCEPT ![h] = <<>>]
  /\ R' = [R EXCEPT ![h] = 0]
  /\ UNCHANGED <<lock, cs>>

(* ------------------------------------------------------------------------ *)
(* concurrent callers: the same calls, one step per schedule point           *)
(* (the give-back steps are those of the repaired code: node looked up by    *)
(* its index, lfs / mem guarded)                                             *)
(* ------------------------------------------------------------------------ *)
Set(c, r)   == cs' = [cs EXCEPT ![c] = r]
NodeOf(c)   == IdAt(WrapPos(cs[c].start + cs[c].i))
RRof(c)     == Reqs[cs[c].q].rr
Nof(c)      == Reqs[cs[c].q].n

\* find_slots up to the first node lock: _assert_rr, last-failed cache, start index
CFindStart(c, q) ==
  /\ cs[c].pc = "idle" /\ H[c] = <<>>
  /\ LET rr == Reqs[q].rr  n == Reqs[q].n IN
     IF AssertRejects(rr, n)
     THEN out' = Out("raise", q) /\ UNCHANGED cs
     ELSE IF CacheHit(lrr, ln, rr, n, DevCacheInverted)
     THEN out' = Out("cached", q) /\ UNCHANGED cs
     ELSE /\ Set(c, [Idle EXCEPT !.pc = "acq", !.q = q, !.start = idx])
          /\ UNCHANGED out
  /\ UNCHANGED <<O, idx, lrr, ln, H, R, lock>>

\* Node.find_slot, first half: take the node lock and search
CAcqSearch(c) ==
  /\ cs[c].pc = "acq" /\ lock[NodeOf(c)] = "free"
  /\ LET n == NodeOf(c)
         s == FindSlot(O, n, RRof(c)) IN
     IF s.node # -1
     THEN \* found: the lock is kept until the slot is recorded (intended)
          /\ Set(c, [cs[c] EXCEPT !.pc = "rec", !.cand = s])
          /\ lock' = IF DevSearchOutsideLock THEN lock ELSE [lock EXCEPT ![n] = c]
          /\ UNCHANGED <<lrr, ln, out>>
     ELSE \* this node offers nothing (more): lock released, next node
          /\ UNCHANGED lock
          /\ IF cs[c].i + 1 < NNodes
             THEN Set(c, [cs[c] EXCEPT !.i = @ + 1]) /\ UNCHANGED <<lrr, ln, out>>
             ELSE IF cs[c].got # <<>>
             THEN Set(c, [cs[c] EXCEPT !.pc = "rb"]) /\ UNCHANGED <<lrr, ln, out>>
             ELSE /\ Set(c, Idle)
                  /\ lrr' = RRof(c) /\ ln' = Nof(c) /\ out' = Out("none", cs[c].q)
  /\ UNCHANGED <<O, idx, H, R>>

\* Node.find_slot, second half: allocate_slot(slot, _check=False) adds the occupations
\* blindly; the node lock is released on the way out
CRecord(c) ==
  /\ cs[c].pc = "rec"
  /\ LET s == cs[c].cand  n == cs[c].cand.node  g == Append(cs[c].got, cs[c].cand) IN
     /\ \/ lock[n] = c
        \/ DevSearchOutsideLock /\ lock[n] = "free"
     /\ lock' = [lock EXCEPT ![n] = "free"]
     /\ O' = Apply1(O, s, 1)
     /\ H' = [H EXCEPT ![c] = Append(@, s)]
     /\ IF Len(g) = Nof(c)
        THEN /\ Set(c, Idle)
             /\ idx' = WrapPos(cs[c].start + cs[c].i)
             /\ R' = [R EXCEPT ![c] = cs[c].q]
             /\ out' = Out("grant", cs[c].q)
        ELSE /\ Set(c, [cs[c] EXCEPT !.pc = "acq", !.got = g, !.cand = NoSlot])
             /\ UNCHANGED <<idx, R, out>>
  /\ UNCHANGED <<lrr, ln>>

\* find_slots, not enough slots: free whatever we got, one deallocate_slot per step
CRollback(c) ==
  /\ cs[c].pc = "rb"
  /\ LET s == Head(cs[c].got) IN
     /\ lock[s.node] = "free"
     /\ O' = Apply1(O, s, -1)
     /\ H' = [H EXCEPT ![c] = Tail(@)]
     /\ IF Tail(cs[c].got) = <<>>
        THEN /\ Set(c, Idle)
             /\ lrr' = RRof(c) /\ ln' = Nof(c) /\ out' = Out("none", cs[c].q)
        ELSE /\ Set(c, [cs[c] EXCEPT !.got = Tail(@)])
             /\ UNCHANGED <<lrr, ln, out>>
  /\ UNCHANGED <<idx, R, lock>>

\* release_slots: one deallocate_slot per step, cache and index at the end
CRelStart(c) ==
  /\ cs[c].pc = "idle" /\ H[c] # <<>>
  /\ Set(c, [Idle EXCEPT !.pc = "rel", !.got = H[c], !.p = H[c]])
  /\ R' = [R EXCEPT ![c] = 0]
  /\ UNCHANGED <<O, idx, lrr, ln, H, out, lock>>

CRelStep(c) ==
  /\ cs[c].pc = "rel"
  /\ LET s == Head(cs[c].got) IN
     /\ lock[s.node] = "free"
     /\ O' = Apply1(O, s, -1)
     /\ H' = [H EXCEPT ![c] = Tail(@)]
     /\ IF Tail(cs[c].got) = <<>>
        THEN /\ Set(c, Idle)
             /\ idx' = IF lrr.nc # -1 THEN MinNode(cs[c].p) - 1 ELSE idx
             /\ lrr' = NoRR /\ ln' = 0 /\ out' = Out("released", 0)
        ELSE /\ Set(c, [cs[c] EXCEPT !.got = Tail(@)])
             /\ UNCHANGED <<idx, lrr, ln, out>>
  /\ UNCHANGED <<R, lock>>

\* allocate_slot(slot, _check=True): node index / name are compared before the lock
CSupStart(c, k) ==
  /\ cs[c].pc = "idle" /\ R[c] = 0 /\ Len(H[c]) < 2
  /\ IF Sups[k].at \in Pos /\ IdAt(Sups[k].at) = Sups[k].node
     THEN Set(c, [Idle EXCEPT !.pc = "sup", !.q = k]) /\ UNCHANGED out
     ELSE out' = Out("refused", k) /\ UNCHANGED cs
  /\ UNCHANGED <<O, idx, lrr, ln, H, R, lock>>

CSupApply(c) ==
  /\ cs[c].pc = "sup" /\ lock[Sups[cs[c].q].node] = "free"
  /\ LET r == SupOutcome(O, Sups[cs[c].q], DevSupDupUnchecked, DevNegIndexPartial) IN
     /\ O' = r.O
     /\ IF r.ok THEN H' = [H EXCEPT ![c] = Append(@, ToGhost(Sups[cs[c].q]))] /\ out' = Out("ok", cs[c].q)
                ELSE UNCHANGED H /\ out' = Out("refused", cs[c].q)
  /\ Set(c, Idle)
  /\ UNCHANGED <<idx, lrr, ln, R, lock>>

\* (one flat disjunction: TLC names the sub-actions and their arguments in its behaviour dumps)
Next == \/ \E h \in Holders :
              \/ \E q \in 1 .. Len(Reqs) : FindSlots(h, q)
              \/ \E k \in 1 .. Len(Sups) : Supply(h, k)
              \/ Release(h)
        \/ \E c \in Callers :
              \/ \E q \in 1 .. Len(Reqs) : CFindStart(c, q)
              \/ CAcqSearch(c) \/ CRecord(c) \/ CRollback(c)
              \/ CRelStart(c) \/ CRelStep(c)
              \/ \E k \in 1 .. Len(Sups) : CSupStart(c, k)
              \/ CSupApply(c)
Spec == Init /\ [][Next]_vars

(* ------------------------------------------------------------------------ *)
(* properties                                                               *)
(* ------------------------------------------------------------------------ *)
TypeOK == /\ out.k \in {"init", "raise", "cached", "none", "grant", "ok", "refused", "released", "relraise"}
          /\ \A h \in Holders : R[h] \in 0 .. Len(Reqs)
          /\ ln \in Nat
          /\ \A n \in Node : lock[n] \in Callers \cup {"free"}
          /\ \A c \in Callers : cs[c].pc \in {"idle", "acq", "rec", "rb", "rel", "sup"}

\* C01
InvNoCoreShared   == NoCoreShared(H)
InvCoreShareBound == CoreShareBound(H)
InvGpuShareBound  == GpuShareBound(H)
InvLfsBound       == LfsBound(H)
InvMemBound       == MemBound(H)
InvNoBlocked      == NoBlocked(H)
InvOnlyKnown      == OnlyKnown(H)
InvOccMatchesHeld == OccMatchesHeld(O, H)

\* C02
InvShape == \A h \in Holders : (R[h] # 0 /\ H[h] # <<>>) => ShapeOK(Reqs[R[h]].rr, Reqs[R[h]].n, H[h])
InvRejectOversize == \A h \in Holders : (R[h] # 0 /\ H[h] # <<>>) => ~Oversize(Reqs[R[h]].rr)

\* C03
InvIdleIsInitial == (Holding(H) = {}) => O = InitOcc
ActRestores      == [][\A h \in Holders : (H[h] # <<>> /\ H'[h] = <<>>) => O' = Credit(O, H[h])]_vars
\* a call that grants nothing leaves the map unchanged (partial grants are rolled back)
ActFailedUnchanged == [][(out'.k \in Fails) => O' = O]_vars
ActReleaseClean    == [][(out'.k \in {"released", "relraise"}) => out'.k = "released"]_vars

\* concurrent use: no resource is ever occupied beyond one whole, a lock is held only
\* between search and record, and what a caller records is what it still finds free
InvOccBound == /\ \A n \in Node : \A c \in Core : O.cores[n][c] = DOWNV \/ O.cores[n][c] \in 0 .. SU
               /\ \A n \in Node : \A g \in Gpu  : O.gpus[n][g]  = DOWNV \/ O.gpus[n][g]  \in 0 .. SU
               /\ HasLfs => \A n \in Node : O.lfs[n] \in 0 .. LfsCap /\ O.mem[n] \in 0 .. MemCap
InvLockDiscipline == \A n \in Node : lock[n] # "free" => (cs[lock[n]].pc = "rec" /\ cs[lock[n]].cand.node = n)
InvRecordStillFree == \A c \in Callers : cs[c].pc = "rec" => Room(O, cs[c].cand)
\* a caller that is not in the middle of a call holds a complete placement or nothing
InvCallerShape == \A c \in Callers : (cs[c].pc = "idle" /\ R[c] # 0 /\ H[c] # <<>>)
                     => ShapeOK(Reqs[R[c]].rr, Reqs[R[c]].n, H[c])

\* not part of C01-C03 (progress): a request refused without a search does not fit
NoteCacheSound == (out.k = "cached") => ~SearchFits(O, Reqs[out.q].rr, Reqs[out.q].n)
=============================================================================
