------------------------------ MODULE NodeAlloc ------------------------------
(***************************************************************************)
(* Design model of the application-level placement API                     *)
(*   src/radical/pilot/resource_config.py : Node, NodeList                 *)
(* used by applications which place their tasks themselves                 *)
(* (Pilot.nodelist.find_slots / release_slots, Node.allocate_slot).        *)
(* The API is a sequential library: one action per call, the               *)
(* linearization point is the call's return (also on the error path).      *)
(*                                                                         *)
(* Code-shaped variables: the occupancy map O, the rotating start index    *)
(* idx (NodeList.__index__), the last-failed cache lrr / ln.  Ghost        *)
(* variables: H[holder] = the placement a holder was granted and has not   *)
(* given back, R[holder] = the request it was granted for, out = outcome   *)
(* of the last call.  The properties (C01 C02 C03) are stated over H.      *)
(*                                                                         *)
(* Known deviations of the code from the intended design are boolean       *)
(* constants DevXxx (FALSE = intended design, TRUE = as coded).            *)
(***************************************************************************)
EXTENDS NodeAllocOps, TLC

CONSTANTS Holders,             \* who may hold a placement
          Reqs,                \* sequence of [rr |-> request, n |-> n_slots]
          Sups,                \* sequence of application-chosen slots (see SupOutcome)
          DevNoLfsRaises,      \* (a) deallocate_slot: `self.lfs += slot.lfs` unguarded
          DevPosVsIndex,       \* (b) rollback / release look the node up by position
          DevSupDupUnchecked,  \* supplied slot: a resource listed twice is checked per entry
          DevNegIndexPartial,  \* supplied slot: negative index passes the check, raises half-way
          DevCacheInverted     \* (c) last-failed cache compares the wrong way round

VARIABLES O, idx, lrr, ln, H, R, out

vars == <<O, idx, lrr, ln, H, R, out>>

Out(k, q) == [k |-> k, q |-> q]
Fails     == {"raise", "cached", "none", "refused"}

Init ==
  /\ O = InitOcc /\ idx = 0 /\ lrr = NoRR /\ ln = 0
  /\ H = [h \in Holders |-> <<>>]
  /\ R = [h \in Holders |-> 0]
  /\ out = Out("init", 0)

(* ---- NodeList.find_slots(rr, n_slots) ------------------------------------- *)
FindSlots(h, q) ==
  /\ H[h] = <<>>
  /\ LET rr == Reqs[q].rr
         n  == Reqs[q].n IN
     IF AssertRejects(rr, n)
     THEN /\ out' = Out("raise", q)
          /\ UNCHANGED <<O, idx, lrr, ln, H, R>>
     ELSE IF CacheHit(lrr, ln, rr, n, DevCacheInverted)
     THEN /\ out' = Out("cached", q)
          /\ UNCHANGED <<O, idx, lrr, ln, H, R>>
     ELSE LET sc == Scan(O, idx, 0, rr, n, <<>>) IN
          IF Len(sc.got) = n
          THEN /\ O' = sc.O
               /\ idx' = sc.stop
               /\ H' = [H EXCEPT ![h] = sc.got]
               /\ R' = [R EXCEPT ![h] = q]
               /\ out' = Out("grant", q)
               /\ UNCHANGED <<lrr, ln>>
          ELSE \* free whatever we got
               LET rb == RelSeq(sc.O, sc.got, 1, DevPosVsIndex, DevNoLfsRaises) IN
               /\ O' = rb.O
               /\ IF rb.ok THEN lrr' = rr /\ ln' = n /\ out' = Out("none", q)
                           ELSE UNCHANGED <<lrr, ln>> /\ out' = Out("raise", q)
               /\ UNCHANGED <<idx, H, R>>

(* ---- Node.allocate_slot(slot, _check=True) with an application-chosen slot - *)
Supply(h, k) ==
  /\ R[h] = 0 /\ Len(H[h]) < 2
  /\ LET r == SupOutcome(O, Sups[k], DevSupDupUnchecked, DevNegIndexPartial) IN
     /\ O' = r.O
     /\ IF r.ok THEN H' = [H EXCEPT ![h] = Append(@, ToGhost(Sups[k]))] /\ out' = Out("ok", k)
                ELSE UNCHANGED H /\ out' = Out("refused", k)
  /\ UNCHANGED <<idx, lrr, ln, R>>

(* ---- NodeList.release_slots(slots) ---------------------------------------- *)
Release(h) ==
  /\ H[h] # <<>>
  /\ LET r == RelSeq(O, H[h], 1, DevPosVsIndex, DevNoLfsRaises) IN
     /\ O' = r.O
     /\ IF r.ok THEN /\ idx' = IF lrr.nc # -1 THEN MinNode(H[h]) - 1 ELSE idx
                     /\ lrr' = NoRR /\ ln' = 0
                     /\ out' = Out("released", 0)
                ELSE UNCHANGED <<idx, lrr, ln>> /\ out' = Out("relraise", 0)
  \* the application has given the placement back, whatever the call did
  /\ H' = [H EXCEPT ![h] = <<>>]
  /\ R' = [R EXCEPT ![h] = 0]

Next == \E h \in Holders :
           \/ \E q \in 1 .. Len(Reqs) : FindSlots(h, q)
           \/ \E k \in 1 .. Len(Sups) : Supply(h, k)
           \/ Release(h)
Spec == Init /\ [][Next]_vars

(* ------------------------------------------------------------------------ *)
(* properties                                                               *)
(* ------------------------------------------------------------------------ *)
TypeOK == /\ out.k \in {"init", "raise", "cached", "none", "grant", "ok", "refused", "released", "relraise"}
          /\ \A h \in Holders : R[h] \in 0 .. Len(Reqs)
          /\ ln \in Nat

\* C01
InvNoCoreShared   == NoCoreShared(H)
InvCoreShareBound == CoreShareBound(H)
InvGpuShareBound  == GpuShareBound(H)
InvLfsBound       == LfsBound(H)
InvMemBound       == MemBound(H)
InvNoBlocked      == NoBlocked(H)
InvOnlyKnown      == OnlyKnown(H)
InvOccMatchesHeld == OccMatchesHeld(O, H)

\* C02
InvShape == \A h \in Holders : (R[h] # 0 /\ H[h] # <<>>) => ShapeOK(Reqs[R[h]].rr, Reqs[R[h]].n, H[h])
InvRejectOversize == \A h \in Holders : (R[h] # 0 /\ H[h] # <<>>) => ~Oversize(Reqs[R[h]].rr)

\* C03
InvIdleIsInitial == (Holding(H) = {}) => O = InitOcc
ActRestores      == [][\A h \in Holders : (H[h] # <<>> /\ H'[h] = <<>>) => O' = Credit(O, H[h])]_vars
\* a call that grants nothing leaves the map unchanged (partial grants are rolled back)
ActFailedUnchanged == [][(out'.k \in Fails) => O' = O]_vars
ActReleaseClean    == [][(out'.k \in {"released", "relraise"}) => out'.k = "released"]_vars

\* not part of C01-C03 (progress): a request refused without a search does not fit
NoteCacheSound == (out.k = "cached") => ~SearchFits(O, Reqs[out.q].rr, Reqs[out.q].n)
=============================================================================
