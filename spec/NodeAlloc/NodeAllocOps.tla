---------------------------- MODULE NodeAllocOps ----------------------------
(***************************************************************************)
(* Pure operators shared by the design model (NodeAlloc) and the trace     *)
(* monitor (NodeAllocTrace) of the APPLICATION-LEVEL placement API of      *)
(* src/radical/pilot/resource_config.py:                                   *)
(*   RO, RankRequirements, Slot, Node.find_slot / allocate_slot /          *)
(*   deallocate_slot, NodeList._assert_rr / find_slots / release_slots.    *)
(*                                                                         *)
(* Units: occupations are integers in share units, SU units == one whole   *)
(* core / GPU (the code uses floats 0.0 .. 1.0); DOWNV marks a blocked     *)
(* (DOWN == None) resource; NOINFO marks a node without lfs / mem          *)
(* information (Node.lfs == None).                                         *)
(*                                                                         *)
(* Occupancy O == [cores : [Node -> [Core -> Int]], gpus : [Node -> [Gpu   *)
(*                 -> Int]], lfs : [Node -> Int], mem : [Node -> Int]]     *)
(*   keyed by the node INDEX attribute (the identity a Slot names), not by *)
(*   the position in NodeList.nodes.  cores / gpus count what is occupied, *)
(*   lfs / mem what is left.                                               *)
(* Request rr == [nc, co, ng, go, lfs, mem]    (co, go in share units)     *)
(* Slot (ghost form) == [node, cores : SUBSET (Int \X Int), gpus : same,   *)
(*                       lfs, mem]   with pairs <<index, units>>           *)
(* Placement == sequence of slots.                                         *)
(***************************************************************************)
EXTENDS Naturals, Integers, Sequences, FiniteSets, SequencesExt, FiniteSetsExt

CONSTANTS NodeIds,        \* index attributes of the nodes (listed in ascending order)
          NCores, NGpus,  \* per node (uniform node list)
          LfsCap, MemCap, \* per node; meaningless unless HasLfs
          HasLfs,         \* FALSE: nodes carry no lfs / mem information (None)
          BlockedCores, BlockedGpus,
          SU

\* NodeIdx[k] == index attribute of the node at position k-1 of NodeList.nodes
NodeIdx  == SetToSortSeq(NodeIds, <)
NNodes   == Len(NodeIdx)
Pos      == 0 .. (NNodes - 1)
IdAt(p)  == NodeIdx[p + 1]
Node     == {NodeIdx[k] : k \in 1 .. NNodes}
Core     == 0 .. (NCores - 1)
Gpu      == 0 .. (NGpus  - 1)
DOWNV    == 9999
NOINFO   == -7777

SumOver(S, f(_)) == FoldSet(LAMBDA x, acc : acc + f(x), 0, S)

InitOcc ==
  [cores |-> [n \in Node |-> [c \in Core |-> IF c \in BlockedCores THEN DOWNV ELSE 0]],
   gpus  |-> [n \in Node |-> [g \in Gpu  |-> IF g \in BlockedGpus  THEN DOWNV ELSE 0]],
   lfs   |-> [n \in Node |-> IF HasLfs THEN LfsCap ELSE NOINFO],
   mem   |-> [n \in Node |-> IF HasLfs THEN MemCap ELSE NOINFO]]

(* ---- slots --------------------------------------------------------------- *)
IdxSet(S)      == {x[1] : x \in S}
UnitsOf(S, i)  == SumOver({x \in S : x[1] = i}, LAMBDA x : x[2])
Idx(p)         == 1 .. Len(p)
OnNode(p, n)   == {i \in Idx(p) : p[i].node = n}
NodesOf(p)     == {p[i].node : i \in Idx(p)}
NoSlot         == [node |-> -1, cores |-> {}, gpus |-> {}, lfs |-> 0, mem |-> 0]

\* every name in the slot exists
SlotKnown(s) == /\ s.node \in Node
                /\ IdxSet(s.cores) \subseteq Core
                /\ IdxSet(s.gpus)  \subseteq Gpu
Known(p) == \A i \in Idx(p) : SlotKnown(p[i])

(* ---- C01: may slot s be taken from occupancy O?  (needs SlotKnown) ------- *)
CoresRoom(O, s) == \A c \in IdxSet(s.cores) :
                      /\ O.cores[s.node][c] # DOWNV
                      /\ O.cores[s.node][c] + UnitsOf(s.cores, c) <= SU
GpusRoom(O, s)  == \A g \in IdxSet(s.gpus) :
                      /\ O.gpus[s.node][g] # DOWNV
                      /\ O.gpus[s.node][g] + UnitsOf(s.gpus, g) <= SU
\* a node without lfs / mem information has no known capacity to exceed
LfsRoom(O, s)   == ~HasLfs \/ s.lfs <= O.lfs[s.node]
MemRoom(O, s)   == ~HasLfs \/ s.mem <= O.mem[s.node]
UnitsPositive(s) == /\ \A x \in s.cores \cup s.gpus : x[2] >= 1
                    /\ s.lfs >= 0 /\ s.mem >= 0
Room(O, s) == CoresRoom(O, s) /\ GpusRoom(O, s) /\ LfsRoom(O, s) /\ MemRoom(O, s)

(* ---- effect of Node.allocate_slot / deallocate_slot as intended ---------- *)
\* sgn = 1: take, sgn = -1: give back                        (needs SlotKnown)
Apply1(O, s, sgn) ==
  [cores |-> [n \in Node |-> [c \in Core |->
                 IF n = s.node /\ c \in IdxSet(s.cores) /\ O.cores[n][c] # DOWNV
                 THEN O.cores[n][c] + sgn * UnitsOf(s.cores, c) ELSE O.cores[n][c]]],
   gpus  |-> [n \in Node |-> [g \in Gpu |->
                 IF n = s.node /\ g \in IdxSet(s.gpus) /\ O.gpus[n][g] # DOWNV
                 THEN O.gpus[n][g] + sgn * UnitsOf(s.gpus, g) ELSE O.gpus[n][g]]],
   lfs   |-> [n \in Node |-> IF n = s.node /\ HasLfs THEN O.lfs[n] - sgn * s.lfs ELSE O.lfs[n]],
   mem   |-> [n \in Node |-> IF n = s.node /\ HasLfs THEN O.mem[n] - sgn * s.mem ELSE O.mem[n]]]

RECURSIVE ApplyFrom(_, _, _, _)
ApplyFrom(O, p, k, sgn) == IF k > Len(p) THEN O ELSE ApplyFrom(Apply1(O, p[k], sgn), p, k + 1, sgn)
Take(O, p)   == ApplyFrom(O, p, 1, 1)
Credit(O, p) == ApplyFrom(O, p, 1, -1)

\* a placement can be taken when its slots can be taken one after the other
RECURSIVE CanTakeFrom(_, _, _)
CanTakeFrom(O, p, k) ==
  IF k > Len(p) THEN TRUE
  ELSE Room(O, p[k]) /\ CanTakeFrom(Apply1(O, p[k], 1), p, k + 1)
CanTake(O, p) == CanTakeFrom(O, p, 1)

(* ---- C02: the shape of a granted placement ------------------------------- *)
ShapeSlots(rr, n, p)  == Len(p) = n
ShapeNodes(rr, n, p)  == \A i \in Idx(p) : p[i].node \in Node
ShapeCores(rr, n, p)  == \A i \in Idx(p) :
                            /\ IdxSet(p[i].cores) \subseteq Core
                            /\ Cardinality(p[i].cores) = rr.nc
                            /\ Cardinality(IdxSet(p[i].cores)) = rr.nc       \* distinct cores
                            /\ \A x \in p[i].cores : x[2] = rr.co
ShapeGpus(rr, n, p)   == \A i \in Idx(p) :
                            /\ IdxSet(p[i].gpus) \subseteq Gpu
                            /\ Cardinality(p[i].gpus) = rr.ng
                            /\ Cardinality(IdxSet(p[i].gpus)) = rr.ng
                            /\ \A x \in p[i].gpus : x[2] = rr.go
ShapeLfsMem(rr, n, p) == \A i \in Idx(p) : p[i].lfs = rr.lfs /\ p[i].mem = rr.mem
ShapeOK(rr, n, p) == /\ ShapeSlots(rr, n, p) /\ ShapeNodes(rr, n, p) /\ ShapeCores(rr, n, p)
                     /\ ShapeGpus(rr, n, p)  /\ ShapeLfsMem(rr, n, p)

\* per-rank needs exceed what a single node offers: never granted
Oversize(rr) == \/ rr.nc < 1
                \/ rr.nc > NCores
                \/ rr.ng > NGpus
                \/ (HasLfs /\ rr.lfs > LfsCap)
                \/ (HasLfs /\ rr.mem > MemCap)

(* ---- ghost state: H == [Holders -> placement]  (<<>> == holds nothing) --- *)
HeldIdx(H)   == UNION {{<<h, i>> : i \in Idx(H[h])} : h \in DOMAIN H}
Holding(H)   == {h \in DOMAIN H : H[h] # <<>>}
SlotAt(H, x) == H[x[1]][x[2]]
HeldOn(H, n) == {x \in HeldIdx(H) : SlotAt(H, x).node = n}
HeldNodes(H) == {SlotAt(H, x).node : x \in HeldIdx(H)}
HeldCoreUnits(H, n, c) == SumOver(HeldOn(H, n), LAMBDA x : UnitsOf(SlotAt(H, x).cores, c))
HeldGpuUnits(H, n, g)  == SumOver(HeldOn(H, n), LAMBDA x : UnitsOf(SlotAt(H, x).gpus, g))
HeldLfs(H, n) == SumOver(HeldOn(H, n), LAMBDA x : SlotAt(H, x).lfs)
HeldMem(H, n) == SumOver(HeldOn(H, n), LAMBDA x : SlotAt(H, x).mem)
HeldCoreIdx(H, n) == UNION {IdxSet(SlotAt(H, x).cores) : x \in HeldOn(H, n)}
HeldGpuIdx(H, n)  == UNION {IdxSet(SlotAt(H, x).gpus)  : x \in HeldOn(H, n)}

\* a core taken whole is shared with nobody (other holder or other rank)
NoCoreShared(H) ==
  \A x, y \in HeldIdx(H) :
     (x # y /\ SlotAt(H, x).node = SlotAt(H, y).node) =>
        \A c \in IdxSet(SlotAt(H, x).cores) \cap IdxSet(SlotAt(H, y).cores) :
           UnitsOf(SlotAt(H, x).cores, c) < SU /\ UnitsOf(SlotAt(H, y).cores, c) < SU

CoreShareBound(H) == \A n \in HeldNodes(H) : \A c \in HeldCoreIdx(H, n) : HeldCoreUnits(H, n, c) <= SU
GpuShareBound(H)  == \A n \in HeldNodes(H) : \A g \in HeldGpuIdx(H, n)  : HeldGpuUnits(H, n, g)  <= SU
LfsBound(H) == HasLfs => \A n \in HeldNodes(H) : HeldLfs(H, n) <= LfsCap
MemBound(H) == HasLfs => \A n \in HeldNodes(H) : HeldMem(H, n) <= MemCap
NoBlocked(H) == \A x \in HeldIdx(H) : /\ IdxSet(SlotAt(H, x).cores) \cap BlockedCores = {}
                                      /\ IdxSet(SlotAt(H, x).gpus)  \cap BlockedGpus  = {}
OnlyKnown(H) == \A x \in HeldIdx(H) : SlotKnown(SlotAt(H, x))

\* what the map must show for H (blocked stay DOWN)
ExpectedOcc(H) ==
  [cores |-> [n \in Node |-> [c \in Core |-> IF c \in BlockedCores THEN DOWNV ELSE HeldCoreUnits(H, n, c)]],
   gpus  |-> [n \in Node |-> [g \in Gpu  |-> IF g \in BlockedGpus  THEN DOWNV ELSE HeldGpuUnits(H, n, g)]],
   lfs   |-> [n \in Node |-> IF HasLfs THEN LfsCap - HeldLfs(H, n) ELSE NOINFO],
   mem   |-> [n \in Node |-> IF HasLfs THEN MemCap - HeldMem(H, n) ELSE NOINFO]]
OccMatchesHeld(O, H) == O = ExpectedOcc(H)

\* one-sided versions for the monitor: the map shows at least / at most what is held
OccCovers(O, H) ==
  LET X == ExpectedOcc(H) IN
  /\ \A n \in Node : \A c \in Core : O.cores[n][c] >= X.cores[n][c]
  /\ \A n \in Node : \A g \in Gpu  : O.gpus[n][g]  >= X.gpus[n][g]
  /\ \A n \in Node : O.lfs[n] <= X.lfs[n] /\ O.mem[n] <= X.mem[n]
OccNoMore(O, H) ==
  LET X == ExpectedOcc(H) IN
  /\ \A n \in Node : \A c \in Core : O.cores[n][c] <= X.cores[n][c]
  /\ \A n \in Node : \A g \in Gpu  : O.gpus[n][g]  <= X.gpus[n][g]
  /\ \A n \in Node : O.lfs[n] >= X.lfs[n] /\ O.mem[n] >= X.mem[n]

(* ---- the code: NodeList._assert_rr ---------------------------------------- *)
\* ranks_per_node = min(cores_per_node / n_cores, gpus_per_node / n_gpus, ...) as a real
\* number; rejected when < 1 or when n_slots > len(nodes) * ranks_per_node.  The
\* counts include blocked cores / GPUs, occupations are not considered.  A node
\* list without lfs / mem information raises (None / int) for lfs / mem requests.
AssertPairs(rr) ==
     {<<NCores, rr.nc>>}
  \cup (IF rr.ng  > 0 THEN {<<NGpus, rr.ng>>} ELSE {})
  \cup (IF rr.lfs > 0 /\ HasLfs THEN {<<LfsCap, rr.lfs>>} ELSE {})
  \cup (IF rr.mem > 0 /\ HasLfs THEN {<<MemCap, rr.mem>>} ELSE {})
AssertRejects(rr, n) ==
  \/ rr.nc = 0
  \/ (~HasLfs /\ (rr.lfs > 0 \/ rr.mem > 0))
  \/ \E x \in AssertPairs(rr) : x[2] > x[1] \/ n * x[2] > NNodes * x[1]

(* ---- the code: Node.find_slot --------------------------------------------- *)
FirstK(S, k) == LET sq == SetToSortSeq(S, <) IN {sq[j] : j \in 1 .. k}
FindSlot(O, n, rr) ==
  LET okc == {c \in Core : O.cores[n][c] # DOWNV /\ rr.co <= SU - O.cores[n][c]}
      okg == {g \in Gpu  : O.gpus[n][g]  # DOWNV /\ rr.go <= SU - O.gpus[n][g]}
  IN IF \/ Cardinality(okc) < rr.nc
        \/ Cardinality(okg) < rr.ng
        \/ (HasLfs /\ rr.lfs > 0 /\ O.lfs[n] < rr.lfs)
        \/ (HasLfs /\ rr.mem > 0 /\ O.mem[n] < rr.mem)
     THEN NoSlot
     ELSE [node  |-> n,
           cores |-> {<<c, rr.co>> : c \in FirstK(okc, rr.nc)},
           gpus  |-> {<<g, rr.go>> : g \in FirstK(okg, rr.ng)},
           lfs   |-> rr.lfs, mem |-> rr.mem]

\* NodeList.find_slots, search part: nodes from the rotating start index, each
\* node filled until it offers no further slot
RECURSIVE FillNode(_, _, _, _, _)
FillNode(O, n, rr, need, acc) ==
  IF need = 0 THEN [O |-> O, got |-> acc]
  ELSE LET s == FindSlot(O, n, rr) IN
       IF s.node = -1 THEN [O |-> O, got |-> acc]
       ELSE FillNode(Apply1(O, s, 1), n, rr, need - 1, Append(acc, s))

WrapPos(x) == ((x % NNodes) + NNodes) % NNodes
RECURSIVE Scan(_, _, _, _, _, _)
Scan(O, start, i, rr, n, acc) ==
  IF i >= NNodes THEN [O |-> O, got |-> acc, stop |-> -1]
  ELSE LET pos == WrapPos(start + i)
           r   == FillNode(O, IdAt(pos), rr, n - Len(acc), acc)
       IN IF Len(r.got) = n THEN [O |-> r.O, got |-> r.got, stop |-> pos]
          ELSE Scan(r.O, start, i + 1, rr, n, r.got)

\* would the code's own search succeed on O (whatever the start index)?
SearchFits(O, rr, n) == Len(Scan(O, 0, 0, rr, n, <<>>).got) = n

(* ---- the code: giving slots back (rollback in find_slots, release_slots) -- *)
\* units of the listed resources are taken off one after the other; a DOWN
\* resource hit on the way raises (None -= float)
DeallocRes(row, S, Dom) ==
  LET bad == {i \in IdxSet(S) \cap Dom : row[i] = DOWNV}
      lim == IF bad = {} THEN DOWNV ELSE Min(bad)
  IN [row |-> [i \in Dom |-> IF i \in IdxSet(S) /\ i < lim THEN row[i] - UnitsOf(S, i) ELSE row[i]],
      ok  |-> bad = {}]

\* slots k .. Len(p) in order; byPos: the node is looked up as nodes[slot.node_index]
\* (position), else by its index attribute; lfsRaises: `self.lfs += slot.lfs`
\* unguarded raises on a node without lfs information, after cores and GPUs
\* of that slot were given back
RECURSIVE RelSeq(_, _, _, _, _)
RelSeq(O, p, k, byPos, lfsRaises) ==
  IF k > Len(p) THEN [O |-> O, ok |-> TRUE]
  ELSE LET s   == p[k]
           tgt == IF byPos THEN (IF s.node \in Pos THEN IdAt(s.node) ELSE -1) ELSE s.node
       IN IF tgt \notin Node THEN [O |-> O, ok |-> FALSE]
          ELSE LET dc == DeallocRes(O.cores[tgt], s.cores, Core)
                   dg == DeallocRes(O.gpus[tgt],  s.gpus,  Gpu)
                   O1 == [O  EXCEPT !.cores[tgt] = dc.row]
                   O2 == [O1 EXCEPT !.gpus[tgt]  = dg.row]
                   O3 == [O2 EXCEPT !.lfs[tgt] = @ + s.lfs, !.mem[tgt] = @ + s.mem]
               IN IF ~dc.ok THEN [O |-> O1, ok |-> FALSE]
                  ELSE IF ~dg.ok THEN [O |-> O2, ok |-> FALSE]
                  ELSE IF ~HasLfs THEN (IF lfsRaises THEN [O |-> O2, ok |-> FALSE]
                                        ELSE RelSeq(O2, p, k + 1, byPos, lfsRaises))
                  ELSE RelSeq(O3, p, k + 1, byPos, lfsRaises)

MinNode(p) == Min(NodesOf(p))

(* ---- the code: last-failed cache ------------------------------------------ *)
NoRR == [nc |-> -1, co |-> 0, ng |-> 0, go |-> 0, lfs |-> 0, mem |-> 0]
Ge(a, b) == /\ a.nc >= b.nc /\ a.ng >= b.ng /\ a.lfs >= b.lfs /\ a.mem >= b.mem
            /\ a.co >= b.co /\ a.go >= b.go
\* intended: a request at least as large as the one that just failed is refused
\* without a search; as coded the comparison runs the other way
CacheHit(lrr, ln, rr, n, inverted) ==
  /\ lrr.nc # -1
  /\ IF inverted THEN Ge(lrr, rr) /\ ln >= n ELSE Ge(rr, lrr) /\ n >= ln

(* ---- application-supplied slots: Node.allocate_slot(slot, _check=True) ---- *)
\* e == [at, node, cores, gpus, lfs, mem]: the application calls
\* nodes[at].allocate_slot(Slot(node_index = node, cores = <<<<index, units>>, ..>>, ..))
SeqSet(s)     == {s[i] : i \in 1 .. Len(s)}
EntryIdx(q)   == {q[i][1] : i \in 1 .. Len(q)}
EntryUnits(q, j) == SumOver({i \in 1 .. Len(q) : q[i][1] = j}, LAMBDA i : q[i][2])
\* ghost form: one pair per index with the sum of what is listed for it
ToGhost(e) == [node  |-> e.node,
               cores |-> {<<j, EntryUnits(e.cores, j)>> : j \in EntryIdx(e.cores)},
               gpus  |-> {<<j, EntryUnits(e.gpus, j)>>  : j \in EntryIdx(e.gpus)},
               lfs   |-> e.lfs, mem |-> e.mem]
SupIntendedOK(O, e) ==
  /\ e.at \in Pos /\ IdAt(e.at) = e.node
  /\ SlotKnown(ToGhost(e)) /\ UnitsPositive(ToGhost(e)) /\ Room(O, ToGhost(e))
  /\ (~HasLfs => (e.lfs = 0 /\ e.mem = 0))

\* as coded: every listed entry is checked on its own (`index < len`, python
\* wraps negative indexes; DOWN raises a TypeError; room for this entry alone),
\* then the entries are applied in order, an unknown index raising on the way
PyIdx(j, N)  == IF j < 0 THEN N + j ELSE j
EntryCheck(row, q, N, dupUnchecked, negPasses) ==
  \A i \in 1 .. Len(q) :
     LET j == q[i][1] IN
     /\ j < N
     /\ (j >= 0 \/ (negPasses /\ N + j >= 0))
     /\ row[PyIdx(j, N)] # DOWNV
     /\ SU - row[PyIdx(j, N)] >= (IF dupUnchecked THEN q[i][2] ELSE EntryUnits(q, j))
RECURSIVE EntryApply(_, _, _, _)
EntryApply(row, q, k, Dom) ==
  IF k > Len(q) THEN [row |-> row, ok |-> TRUE]
  ELSE IF q[k][1] \notin Dom THEN [row |-> row, ok |-> FALSE]
  ELSE EntryApply([row EXCEPT ![q[k][1]] = @ + q[k][2]], q, k + 1, Dom)

SupOutcome(O, e, dupUnchecked, negPasses) ==
  LET n == e.node IN
  IF ~(e.at \in Pos /\ IdAt(e.at) = n) THEN [O |-> O, ok |-> FALSE]
  ELSE IF ~(/\ EntryCheck(O.cores[n], e.cores, NCores, dupUnchecked, negPasses)
            /\ EntryCheck(O.gpus[n],  e.gpus,  NGpus,  dupUnchecked, negPasses)
            /\ (e.lfs > 0 => (HasLfs /\ O.lfs[n] >= e.lfs))
            /\ (e.mem > 0 => (HasLfs /\ O.mem[n] >= e.mem)))
       THEN [O |-> O, ok |-> FALSE]
  ELSE LET ac == EntryApply(O.cores[n], e.cores, 1, Core)
           O1 == [O EXCEPT !.cores[n] = ac.row]
           ag == EntryApply(O1.gpus[n], e.gpus, 1, Gpu)
           O2 == [O1 EXCEPT !.gpus[n] = ag.row]
           O3 == IF HasLfs THEN [O2 EXCEPT !.lfs[n] = @ - e.lfs, !.mem[n] = @ - e.mem] ELSE O2
       IN IF ~ac.ok THEN [O |-> O1, ok |-> FALSE]
          ELSE IF ~ag.ok THEN [O |-> O2, ok |-> FALSE]
          ELSE [O |-> O3, ok |-> TRUE]
=============================================================================
