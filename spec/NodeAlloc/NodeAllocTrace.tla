--------------------------- MODULE NodeAllocTrace ---------------------------
(***************************************************************************)
(* Trace monitor for the application-level placement API                   *)
(* (resource_config.Node / NodeList): consumes the events recorded from    *)
(* the real classes by nodealloc_rig.py - one event per call, logged at    *)
(* the call's return, also on the error path - and checks every step       *)
(* against the contract of NodeAlloc / NodeAllocOps.                       *)
(*                                                                         *)
(* The monitor is total: a failing clause is added to errs as              *)
(* "<property>.<clause>" and the monitor re-synchronises on the logged     *)
(* map.  It demands safety only (C01 C02 C03): any valid placement is      *)
(* accepted, whatever the search order; a refusal of a request that would  *)
(* fit is recorded as a note "N.<what>", never as a violation.             *)
(*                                                                         *)
(* Traces of several application threads sharing the node list (ConcRig)   *)
(* are merged traces: CTake / CGive are logged atomically with every slot  *)
(* recorded / given back under the node lock, CFind / CRelease / Alloc at  *)
(* the return of the calls.  A slot counts as held by the holder of the    *)
(* call from the moment it is recorded.                                    *)
(***************************************************************************)
EXTENDS NodeAllocOps, TLC, Json, IOUtils

Batch  == JsonDeserialize(IOEnv.TRACE_FILE)
Traces == Batch.traces

VARIABLES tid, l, O, H, errs, fin

vars == <<tid, l, O, H, errs, fin>>

T    == Traces[tid]
Ev   == T.events
Uids == {T.uids[i] : i \in 1 .. Len(T.uids)}

E(cond, name) == IF cond THEN {} ELSE {name}
N(cond, name) == IF cond THEN {name} ELSE {}

\* logged slots -> placement
Pairs(q)   == {<<q[i][1], q[i][2]>> : i \in 1 .. Len(q)}
ToSlot(s)  == [node |-> s.node, cores |-> Pairs(s.cores), gpus |-> Pairs(s.gpus),
               lfs |-> s.lfs, mem |-> s.mem]
ToPlacement(ss) == [i \in 1 .. Len(ss) |-> ToSlot(ss[i])]

\* logged node map (position order) -> occupancy keyed by node index
MapSized(nn) == /\ Len(nn) = NNodes
                /\ \A k \in 1 .. Len(nn) : /\ nn[k].id = NodeIdx[k]
                                           /\ Len(nn[k].cores) = NCores
                                           /\ Len(nn[k].gpus)  = NGpus
PosOf(n) == CHOOSE k \in 1 .. NNodes : NodeIdx[k] = n
ToOcc(nn) ==
  [cores |-> [n \in Node |-> [c \in Core |-> nn[PosOf(n)].cores[c + 1]]],
   gpus  |-> [n \in Node |-> [g \in Gpu  |-> nn[PosOf(n)].gpus[g + 1]]],
   lfs   |-> [n \in Node |-> nn[PosOf(n)].lfs],
   mem   |-> [n \in Node |-> nn[PosOf(n)].mem]]

Init ==
  /\ tid \in 1 .. Len(Traces)
  /\ l = 1
  /\ O = InitOcc
  /\ H = [h \in Uids |-> <<>>]
  /\ errs = {} /\ fin = FALSE

(* ---- ghost invariants over what is held (C01) -------------------------- *)
GhostErrs(h) ==
       E(NoCoreShared(h),   "C01.NoCoreShared")
  \cup E(CoreShareBound(h), "C01.CoreShareBound")
  \cup E(GpuShareBound(h),  "C01.GpuShareBound")
  \cup E(LfsBound(h),       "C01.LfsBound")
  \cup E(MemBound(h),       "C01.MemBound")
  \cup E(NoBlocked(h),      "C01.NoBlocked")
  \cup E(OnlyKnown(h),      "C01.OnlyKnown")

\* the slots of a granted placement are taken one after the other
RECURSIVE TakeErrs(_, _, _)
TakeErrs(o, p, k) ==
  IF k > Len(p) THEN {}
  ELSE      E(CoresRoom(o, p[k]), "C01.GrantedBusyCore")
       \cup E(GpusRoom(o, p[k]),  "C01.GrantedBusyGpu")
       \cup E(LfsRoom(o, p[k]),   "C01.LfsOverdraw")
       \cup E(MemRoom(o, p[k]),   "C01.MemOverdraw")
       \cup TakeErrs(Apply1(o, p[k], 1), p, k + 1)

ShareOK(h) == NoCoreShared(h) /\ CoreShareBound(h) /\ GpuShareBound(h)

\* the map against what is held, after every call
MapErrs(lo, h) == E(OccCovers(lo, h), "C01.OccMatchesHeld") \cup E(OccNoMore(lo, h), "C03.Leak")

(* ---- one monitor step per event ---------------------------------------- *)
Step ==
  /\ ~fin /\ l <= Len(Ev)
  /\ LET e  == Ev[l]
         ms == MapSized(e.nodes)
         lo == IF ms THEN ToOcc(e.nodes) ELSE O
         e0 == E(ms /\ e.exact, "C01.MapShape")
     IN
     /\ l' = l + 1
     /\ O' = lo
     /\ fin' = FALSE
     /\ CASE e.ev = "Find" ->
               LET h == e.h  rr == e.rr  n == e.n IN
               IF e.res = "grant" THEN
                 LET p  == ToPlacement(e.slots)
                     h2 == [H EXCEPT ![h] = p] IN
                 /\ H' = h2
                 /\ errs' = errs \cup e0
                      \cup E(ShapeSlots(rr, n, p),  "C02.Slots")
                      \cup E(ShapeNodes(rr, n, p) /\ \A i \in 1 .. Len(e.slots) : e.slots[i].name_ok,
                                                    "C02.NodeExists")
                      \cup E(ShapeCores(rr, n, p),  "C02.CoresPerSlot")
                      \cup E(ShapeGpus(rr, n, p),   "C02.GpusPerSlot")
                      \cup E(ShapeLfsMem(rr, n, p), "C02.LfsMemPerSlot")
                      \cup E(~Oversize(rr),         "C02.OversizeGranted")
                      \cup E(H[h] = <<>>,           "C03.GrantedWhileHolding")
                      \cup (IF Known(p)
                            THEN TakeErrs(O, p, 1)
                                 \cup E(lo = Take(O, p), "C01.MapNotMarked")
                                 \cup GhostErrs(h2)
                                 \* what somebody holds is part of this grant as well
                                 \cup E(ShareOK(h2) \/ ~ShareOK(H), "C03.HeldOfferedAgain")
                            ELSE {"C01.OnlyKnown"})
                      \cup MapErrs(lo, h2)
               ELSE
                 /\ H' = H
                 /\ errs' = errs \cup e0
                      \cup E(lo = O, "C03.FailedFindChangedMap")
                      \cup MapErrs(lo, H)
                      \* notes (progress, not C01-C03)
                      \cup N(e.res = "none" /\ ~e.searched /\ rr.nc >= 1 /\ SearchFits(O, rr, n),
                             "N.CachedRefusalOfFittingRequest")
                      \* ... with nothing held nobody will ever call release_slots, which is
                      \* the only place where the cache is reset
                      \cup N(e.res = "none" /\ ~e.searched /\ rr.nc >= 1 /\ Holding(H) = {}
                                /\ SearchFits(O, rr, n), "N.CachedRefusalOnIdleNodeList")
                      \cup N(e.res = "none" /\ e.searched /\ rr.nc >= 1 /\ SearchFits(O, rr, n),
                             "N.SearchMissedFittingRequest")
                      \cup N(e.res = "raise" /\ e.exc = "ValueError" /\ rr.nc >= 1 /\ ~Oversize(rr)
                                /\ SearchFits(O, rr, n), "N.AssertRejectsFittingRequest")
                      \cup N(e.res = "raise" /\ e.exc # "ValueError", "N.FindRaisedOtherThanValueError")
          [] e.ev = "Alloc" ->
               LET h == e.h
                   g == ToGhost(e.sup) IN
               IF e.res = "ok" THEN
                 LET h2 == [H EXCEPT ![h] = Append(@, g)] IN
                 /\ H' = h2
                 /\ errs' = errs \cup e0
                      \cup E(e.name_ok /\ e.sup.at \in Pos /\ SlotKnown(g) /\ UnitsPositive(g),
                             "C01.SuppliedUnknownAccepted")
                      \cup (IF e.sup.at \in Pos THEN E(IdAt(e.sup.at) = e.sup.node, "C01.SuppliedUnknownAccepted")
                                                ELSE {})
                      \cup (IF SlotKnown(g)
                            THEN      E(CoresRoom(O, g), "C01.SuppliedBusyCoreAccepted")
                                 \cup E(GpusRoom(O, g),  "C01.SuppliedBusyGpuAccepted")
                                 \cup E(LfsRoom(O, g),   "C01.LfsOverdraw")
                                 \cup E(MemRoom(O, g),   "C01.MemOverdraw")
                                 \cup E(lo = Apply1(O, g, 1), "C01.MapNotMarked")
                                 \cup GhostErrs(h2)
                            ELSE {})
                      \cup MapErrs(lo, h2)
               ELSE
                 /\ H' = H
                 /\ errs' = errs \cup e0
                      \cup E(lo = O, "C03.RefusedAllocChangedMap")
                      \cup MapErrs(lo, H)
                      \cup N(e.name_ok /\ SupIntendedOK(O, e.sup), "N.ValidSuppliedSlotRefused")
          [] e.ev = "Release" ->
               LET h  == e.h
                   h2 == [H EXCEPT ![h] = <<>>] IN
               /\ H' = h2
               /\ errs' = errs \cup e0
                    \cup E(H[h] # <<>>, "C03.ReleaseNotHeld")
                    \cup (IF Known(H[h]) THEN E(lo = Credit(O, H[h]), "C03.NotRestored") ELSE {})
                    \cup (IF Holding(h2) = {} THEN E(lo = InitOcc, "C03.IdleNotInitial") ELSE {})
                    \cup MapErrs(lo, h2)
                    \cup N(e.res = "raise", "N.ReleaseRaised")
          (* ---- concurrent callers (merged trace of several threads): the node  *)
          (* ---- level steps are the linearization points, the returns of the    *)
          (* ---- calls say what the application was told                         *)
          [] e.ev = "CTake" ->
               \* Node.find_slot has recorded a slot for the call of holder h
               LET h  == e.h
                   s  == ToSlot(e.slot)
                   h2 == [H EXCEPT ![h] = Append(@, s)] IN
               /\ H' = h2
               /\ errs' = errs \cup e0
                    \cup E(e.slot.name_ok, "C02.NodeExists")
                    \cup (IF SlotKnown(s)
                          THEN      E(CoresRoom(O, s), "C01.GrantedBusyCore")
                               \cup E(GpusRoom(O, s),  "C01.GrantedBusyGpu")
                               \cup E(LfsRoom(O, s),   "C01.LfsOverdraw")
                               \cup E(MemRoom(O, s),   "C01.MemOverdraw")
                               \cup E(lo = Apply1(O, s, 1), "C01.MapNotMarked")
                               \cup GhostErrs(h2)
                               \cup E(ShareOK(h2) \/ ~ShareOK(H), "C03.HeldOfferedAgain")
                          ELSE {"C01.OnlyKnown"})
                    \cup MapErrs(lo, h2)
          [] e.ev = "CGive" ->
               \* Node.deallocate_slot has returned (rollback of a partial grant, or release)
               LET h   == e.h
                   s   == ToSlot(e.slot)
                   at  == {i \in 1 .. Len(H[h]) : H[h][i] = s}
                   k   == IF at = {} THEN 0 ELSE Min(at)
                   h2  == IF k = 0 THEN H
                          ELSE [H EXCEPT ![h] = [j \in 1 .. (Len(@) - 1) |-> IF j < k THEN @[j] ELSE @[j + 1]]] IN
               /\ H' = h2
               /\ errs' = errs \cup e0
                    \cup E(k # 0, "C03.ReleaseNotHeld")
                    \cup (IF SlotKnown(s) THEN E(lo = Apply1(O, s, -1), "C03.NotRestored") ELSE {})
                    \cup (IF Holding(h2) = {} THEN E(lo = InitOcc, "C03.IdleNotInitial") ELSE {})
                    \cup MapErrs(lo, h2)
                    \cup N(e.res = "raise", "N.ReleaseRaised")
          [] e.ev = "CFind" ->
               \* find_slots has returned to the application
               LET h == e.h  rr == e.rr  n == e.n IN
               IF e.res = "grant" THEN
                 LET p == ToPlacement(e.slots) IN
                 /\ H' = H
                 /\ errs' = errs \cup e0
                      \cup E(H[h] = p,              "C02.GrantIsNotWhatWasTaken")
                      \cup E(ShapeSlots(rr, n, p),  "C02.Slots")
                      \cup E(ShapeNodes(rr, n, p),  "C02.NodeExists")
                      \cup E(ShapeCores(rr, n, p),  "C02.CoresPerSlot")
                      \cup E(ShapeGpus(rr, n, p),   "C02.GpusPerSlot")
                      \cup E(ShapeLfsMem(rr, n, p), "C02.LfsMemPerSlot")
                      \cup E(~Oversize(rr),         "C02.OversizeGranted")
                      \cup E(lo = O, "C01.MapChangedSilently")
                      \cup MapErrs(lo, H)
               ELSE
                 \* nothing granted: whatever was taken on the way has been given back
                 /\ H' = [H EXCEPT ![h] = <<>>]
                 /\ errs' = errs \cup e0
                      \cup E(H[h] = <<>>, "C03.FailedFindChangedMap")
                      \cup E(lo = O, "C01.MapChangedSilently")
                      \cup MapErrs(lo, H')
                      \cup N(e.res = "raise" /\ e.exc # "ValueError", "N.FindRaisedOtherThanValueError")
          [] e.ev = "CRelease" ->
               \* release_slots has returned: every slot of the placement was given back
               LET h  == e.h
                   h2 == [H EXCEPT ![h] = <<>>] IN
               /\ H' = h2
               /\ errs' = errs \cup e0
                    \cup E(H[h] = <<>>, "C03.NotRestored")
                    \cup E(lo = O, "C01.MapChangedSilently")
                    \cup (IF Holding(h2) = {} THEN E(lo = InitOcc, "C03.IdleNotInitial") ELSE {})
                    \cup MapErrs(lo, h2)
                    \cup N(e.res = "raise", "N.ReleaseRaised")
          [] OTHER ->
               /\ errs' = errs \cup {"X.UnknownEvent"}
               /\ H' = H
  /\ UNCHANGED tid

Finish ==
  /\ ~fin /\ l > Len(Ev)
  /\ fin' = TRUE
  /\ PrintT(<<"RESULT", T.tid, errs>>)
  /\ UNCHANGED <<tid, l, O, H, errs>>

Next == Step \/ Finish
Spec == Init /\ [][Next]_vars
=============================================================================
