----------------------------- MODULE TmgrSched -----------------------------
(***************************************************************************)
(* Design model of the client side (task manager) scheduler                *)
(*   tmgr/scheduler/base.py        TMGRSchedulingComponent                 *)
(*   tmgr/scheduler/round_robin.py RoundRobin                              *)
(*   tmgr/scheduler/backfilling.py Backfilling                             *)
(* One action per callback of the component, each atomic (the callbacks    *)
(* run under _pilots_lock / _wait_lock):                                   *)
(*   Submit(B)        work(tasks)              tasks with/without a pilot  *)
(*   AddPilots(f,r)   control_cb add_pilots    f: pilot -> state in the doc*)
(*   RemovePilots(P,r) control_cb remove_pilots  (r: message in reverse    *)
(*                    pilot order)                                          *)
(*   PilotState(p,s)  _base_state_cb, pilot notification                   *)
(*   TaskStates(B)    _base_state_cb, final task notifications (only those *)
(*                    carry the full task dict, see Component.advance)     *)
(* The callback bodies are the pure operators of TmgrOps (shared with the  *)
(* trace monitor).  cs is the code's bookkeeping; the other variables are  *)
(* ghosts which state property C12 independently of it.                    *)
(*                                                                         *)
(* Known deviations of the code from the intended design:                  *)
(*   DevEarlyNotCleared    D14  _early[pid] keeps its tasks after they were *)
(*                              forwarded by add_pilots                    *)
(*   DevBFRaiseSkipsBatch  D15  Backfilling.update_tasks raises on a final  *)
(*                              notification of a task it did not place    *)
(*                              itself (early bound, or placed before the  *)
(*                              pilot was re-added) and drops the rest of  *)
(*                              the batch and the reschedule               *)
(*   DevAddForgetsState    (regression class) add_pilots creates the pilot  *)
(*                              record afresh: the state learnt from        *)
(*                              notifications is dropped and the (possibly  *)
(*                              stale) state of the pilot document wins     *)
(*   DevContradictionRaises     a pilot document / notification whose final *)
(*                              state contradicts a recorded DONE raises in *)
(*                              _pilot_state_progress; inside add_pilots    *)
(*                              that leaves the pilot with role added but   *)
(*                              outside the policy's pid list, its early    *)
(*                              bound tasks unforwarded                     *)
(*                                                                         *)
(*   DevHalfValidAborts         a command which names a pilot that is       *)
(*                              already added (add) / not added (remove)    *)
(*                              raises at that entry: the entries before it *)
(*                              are half applied (role set, policy hook     *)
(*                              never called), the ones after it ignored    *)
(*                                                                         *)
(* With HalfValid commands may name such pilots, in any position.  A pilot  *)
(* named in a remove command counts as removed from that moment on, an      *)
(* addable pilot named in an add command as added (ghost grole).            *)
(*                                                                         *)
(* add_pilots documents carry ANY state, older or newer than what the       *)
(* notifications said (control and state messages travel on different       *)
(* channels).  The ghosts grole / gst hold the role as commanded and the    *)
(* furthest state ever notified or added; eligibility is judged on them,    *)
(* never on the code's record.                                              *)
(***************************************************************************)
EXTENDS TmgrOps, TLC

CONSTANTS Policy,          \* "RR" | "BF"
          TaskSeq,         \* sequence of task ids (batches are delivered in this order)
          PilotSeq,        \* sequence of pilot ids
          Named,           \* [task -> pilot | "none"]
          Cores,           \* [task -> cores]
          Hwm,             \* [pilot -> high water mark in cores]
          BFLo, BFHi,      \* eligible state window (PVal numbers)
          AddStates,       \* states a pilot document may carry when added
          NotifStates,     \* states of pilot notifications
          MaxBatch,        \* tasks per Submit / TaskStates
          MaxPBatch,       \* pilots per add / remove
          DevEarlyNotCleared,
          DevBFRaiseSkipsBatch,
          DevAddForgetsState,
          DevContradictionRaises,
          DevHalfValidAborts,
          DevKnownPilotRaises,  \* (regression class) work() takes the record of a pilot known
                                \* through a notification only for its document and raises
          HalfValid        \* commands may name pilots they cannot be applied to

VARIABLES cs,              \* the code's bookkeeping (see TmgrOps)
          tst,             \* "new" | "sub" (at the scheduler) | "fwd" | "fin" (final notified)
          bound,           \* pilot of the (last) forward, "none"
          fwdCount,        \* number of forwards
          addedAtBind,     \* late bound: was the pilot added when bound? "na" | "yes" | "no"
          gset,            \* backfilling ghost usage (see BFWalk)
          grole,           \* role as commanded by the task manager
          gst,             \* furthest pilot state ever notified or added
          rrBad, bfBad,    \* some scheduling call broke RRBalanced / BFEligible
          failedBy         \* tasks advanced to FAILED by the scheduler component itself

vars == <<cs, tst, bound, fwdCount, addedAtBind, gset, grole, gst, rrBad, bfBad, failedBy>>

Tasks  == SeqSet(TaskSeq)
Pilots == SeqSet(PilotSeq)
K == [policy |-> Policy, named |-> Named, cores |-> Cores, hwm |-> Hwm, lo |-> BFLo, hi |-> BFHi,
      devEarly |-> DevEarlyNotCleared, devRaise |-> DevBFRaiseSkipsBatch,
      devAddFresh |-> DevAddForgetsState, devCtrRaise |-> DevContradictionRaises,
      devHalfValid |-> DevHalfValidAborts, devKnownRaises |-> DevKnownPilotRaises]

TSeqOf(B) == SelectSeq(TaskSeq,  LAMBDA t : t \in B)
PSeqOf(P) == SelectSeq(PilotSeq, LAMBDA p : p \in P)
Reverse(s) == [i \in 1 .. Len(s) |-> s[Len(s) + 1 - i]]
PSeqOfR(P, rev) == IF rev THEN Reverse(PSeqOf(P)) ELSE PSeqOf(P)

Init ==
  /\ cs = [role  |-> [p \in Pilots |-> "none"],
           pst   |-> [p \in Pilots |-> "none"],
           info  |-> [p \in Pilots |-> NoInfo],
           early |-> [p \in Pilots |-> <<>>],
           wait  |-> <<>>, pids |-> <<>>, idx |-> 0]
  /\ tst = [t \in Tasks |-> "new"]
  /\ bound = [t \in Tasks |-> "none"]
  /\ fwdCount = [t \in Tasks |-> 0]
  /\ addedAtBind = [t \in Tasks |-> "na"]
  /\ gset = [p \in Pilots |-> {}]
  /\ grole = [p \in Pilots |-> "none"] /\ gst = [p \in Pilots |-> "none"]
  /\ rrBad = FALSE /\ bfBad = FALSE /\ failedBy = {}

\* ghost update for the result r of one callback; tst1 / gpre: task states and ghost
\* usage after the callback's own effect, before its forwards are accounted
Apply(r, tst1, gpre, role2, st2) ==
  LET fw(t) == CountFwd(r.fwd, t) > 0
      w     == IF Policy = "BF" THEN BFWalk(K, r.fwd, 1, gpre, role2, st2)
               ELSE [gset |-> gpre, bad |-> FALSE]
  IN
  /\ cs' = r.cs
  /\ grole' = role2 /\ gst' = st2
  /\ fwdCount' = [t \in Tasks |-> fwdCount[t] + CountFwd(r.fwd, t)]
  /\ bound' = [t \in Tasks |-> IF fw(t) THEN LastPilot(r.fwd, t) ELSE bound[t]]
  /\ addedAtBind' = [t \in Tasks |->
        IF fw(t) /\ Named[t] = "none"
        THEN (IF role2[LastPilot(r.fwd, t)] = "added" /\ addedAtBind[t] # "no" THEN "yes" ELSE "no")
        ELSE addedAtBind[t]]
  /\ tst' = [t \in Tasks |-> IF fw(t) /\ tst1[t] = "sub" THEN "fwd" ELSE tst1[t]]
  /\ gset' = w.gset
  /\ bfBad' = (bfBad \/ w.bad)
  /\ rrBad' = (rrBad \/ (Policy = "RR" /\ ~Balanced(K, r.fwd, r.cs.pids)))
  /\ failedBy' = failedBy \cup SeqSet(FailOf(r))

(* ------------------------------------------------------------------------ *)
Submit(B) ==
  /\ B # {} /\ Cardinality(B) <= MaxBatch
  /\ \A t \in B : tst[t] = "new"
  /\ Apply(StepSubmit(K, cs, TSeqOf(B)),
           [t \in Tasks |-> IF t \in B THEN "sub" ELSE tst[t]], gset, grole, gst)

\* the task manager facade never adds a pilot twice and removes only added pilots
\* (HalfValid = FALSE); at the scheduler's own interface a command may name any pilot
AddPilots(f, rev) ==
  LET P   == DOMAIN f
      Ps  == PSeqOfR(P, rev)
      add == [i \in 1 .. Len(Ps) |-> <<Ps[i], f[Ps[i]]>>]
      V   == {p \in P : grole[p] # "added"}          \* entries which can be applied
  IN
  /\ P # {} /\ Cardinality(P) <= MaxPBatch
  /\ rev => Cardinality(P) > 1
  /\ (rev \/ V # P) => HalfValid
  /\ Apply(StepAdd(K, cs, add), tst, [p \in Pilots |-> IF p \in V THEN {} ELSE gset[p]],
           [p \in Pilots |-> IF p \in V THEN "added" ELSE grole[p]],
           [p \in Pilots |-> IF p \in V THEN Furthest(gst[p], f[p]) ELSE gst[p]])

RemovePilots(P, rev) ==
  LET V == {p \in P : grole[p] = "added"}
  IN
  /\ P # {} /\ Cardinality(P) <= MaxPBatch
  /\ rev => Cardinality(P) > 1
  /\ (rev \/ V # P) => HalfValid
  /\ Apply(StepRemove(K, cs, PSeqOfR(P, rev)), tst, gset,
           [p \in Pilots |-> IF p \in V THEN "removed" ELSE grole[p]], gst)

PilotState(p, s) ==
  /\ Apply(StepPState(K, cs, p, s), tst, gset, grole, [gst EXCEPT ![p] = Furthest(@, s)])

\* final notifications for tasks which were forwarded (published once per task)
TaskStates(B) ==
  /\ B # {} /\ Cardinality(B) <= MaxBatch
  /\ \A t \in B : tst[t] = "fwd"
  /\ Apply(StepTStates(K, cs, TSeqOf(B), bound),
           [t \in Tasks |-> IF t \in B THEN "fin" ELSE tst[t]],
           [p \in Pilots |-> gset[p] \ B], grole, gst)

Next ==
  \/ \E B \in SUBSET Tasks : Submit(B)
  \/ \E P \in SUBSET Pilots : \E f \in [P -> AddStates], rev \in BOOLEAN : AddPilots(f, rev)
  \/ \E P \in SUBSET Pilots, rev \in BOOLEAN : RemovePilots(P, rev)
  \/ \E p \in Pilots, s \in NotifStates : PilotState(p, s)
  \/ \E B \in SUBSET Tasks : TaskStates(B)

Spec == Init /\ [][Next]_vars

(* ------------------------------------------------------------------------ *)
(* invariants                                                               *)
(* ------------------------------------------------------------------------ *)
Count(s, x) == Cardinality({i \in 1 .. Len(s) : s[i] = x})

TypeOK ==
  /\ cs.role  \in [Pilots -> {"none", "added", "removed"}]
  /\ cs.pst   \in [Pilots -> PStateNames]
  /\ \A p \in Pilots : /\ cs.info[p].used \in Nat
                       /\ cs.info[p].tasks \subseteq Tasks /\ cs.info[p].done \subseteq cs.info[p].tasks
                       /\ SeqSet(cs.early[p]) \subseteq Tasks
  /\ SeqSet(cs.wait) \subseteq Tasks /\ SeqSet(cs.pids) \subseteq Pilots
  /\ cs.idx \in 0 .. Len(PilotSeq)
  /\ tst \in [Tasks -> {"new", "sub", "fwd", "fin"}]
  /\ bound \in [Tasks -> Pilots \cup {"none"}]
  /\ grole \in [Pilots -> {"none", "added", "removed"}]
  /\ gst \in [Pilots -> PStateNames]

\* intended design: the records hold the commanded role and the furthest state, the
\* policy's pid list is the list of added pilots, without duplicates
InvRecords ==
  /\ cs.role = grole /\ cs.pst = gst
  /\ SeqSet(cs.pids) = {p \in Pilots : grole[p] = "added"}
  /\ \A p \in Pilots : Count(cs.pids, p) <= 1

\* C12 ForwardOnce: never forwarded twice ...
InvForwardOnce == \A t \in Tasks : fwdCount[t] <= 1 /\ (tst[t] \in {"fwd", "fin"} <=> fwdCount[t] >= 1)

\* ... and forwarded at quiescence (every state: callbacks are atomic) whenever an
\* eligible pilot exists: a named task waits only for a pilot never added so far,
\* any other task only while no pilot is eligible
Eligible == IF Policy = "RR" THEN EligibleRR(grole) ELSE EligibleBF(K, grole, gst, gset)
InvForwardedIfEligible ==
  \A t \in Tasks : tst[t] = "sub" =>
     IF Named[t] # "none" THEN grole[Named[t]] = "none" ELSE ~Eligible

\* C12 NamedGoesToNamed
InvNamed == \A t \in Tasks : (Named[t] # "none" /\ bound[t] # "none") => bound[t] = Named[t]

\* C12 OnlyAdded: late bound tasks go to a pilot which is added at that time
InvOnlyAdded == \A t \in Tasks : addedAtBind[t] # "no"

\* C12 WaitWithoutPilot: a task which cannot be bound is kept, exactly once, where the
\* next add_pilots / scheduling pass finds it
InvWaitHeld ==
  \A t \in Tasks :
     IF tst[t] = "sub"
     THEN IF Named[t] = "none"
          THEN Count(cs.wait, t) = 1 /\ \A p \in Pilots : Count(cs.early[p], t) = 0
          ELSE Count(cs.wait, t) = 0 /\ \A p \in Pilots : Count(cs.early[p], t) = (IF p = Named[t] THEN 1 ELSE 0)
     ELSE Count(cs.wait, t) = 0

\* C12 RRBalanced / BFEligible
\* C05 / C12: the scheduler fails nobody (an exception leaving work() makes work_cb
\* fail the whole bulk)
InvNoSchedulerFailure == failedBy = {}

InvRRBalanced == ~rrBad
InvBFEligible == ~bfBad

\* C12 BFUsedReturns
InvBFUsedReturns ==
  Policy = "BF" =>
    \A p \in Pilots : (\A t \in Tasks : bound[t] = p => tst[t] = "fin") => cs.info[p].used = 0

\* intended design only: the code's usage figure is the ghost usage
InvUsedIsGhost ==
  Policy = "BF" => \A p \in Pilots : cs.info[p].used = SumCores(Cores, gset[p])
=============================================================================
