------------------------------ MODULE TmgrLocks ------------------------------
(***************************************************************************)
(* Lock granularity of the client side scheduler.  TmgrSched treats the    *)
(* callbacks as atomic; this model checks that assumption for the pair      *)
(* which is NOT serialised by the component (subscriber callbacks share     *)
(* Component._cb_lock, the work() loop does not take it):                   *)
(*                                                                         *)
(*   W  the component thread in work(tasks) for unnamed tasks               *)
(*        RoundRobin:  _schedule_tasks:  with _pilots_lock:                 *)
(*                        if not _pids:  with _wait_lock: park; return      *)
(*                        else assign                                       *)
(*        Backfilling: _work:            with _pilots_lock, _wait_lock: park *)
(*                     _schedule_tasks:  with _pilots_lock, _wait_lock: ...  *)
(*   C  the control subscriber thread in control_cb(add_pilots)             *)
(*        base:        with _pilots_lock: roles, early bound tasks          *)
(*        policy add_pilots:  with _wait_lock: _pids += pids;               *)
(*                     RoundRobin:  if _wait_pool: _schedule_tasks(pool)    *)
(*                     Backfilling: _schedule_tasks()                       *)
(*                     both of which take _pilots_lock inside _wait_lock    *)
(*                                                                         *)
(* pl / wl are the owners of _pilots_lock / _wait_lock (re-entrant).        *)
(* InitWait tasks were parked by an earlier work() call.                    *)
(*                                                                         *)
(* DevAddLockOrder = TRUE is the code: add_pilots takes _wait_lock first    *)
(* and _pilots_lock inside it, the reverse of every other path, and         *)
(* RoundRobin reads _pids under _pilots_lock but writes it under            *)
(* _wait_lock.  FALSE is the intended design: one order, _pilots_lock       *)
(* first.                                                                   *)
(***************************************************************************)
EXTENDS Naturals

CONSTANTS Policy,            \* "RR" | "BF"
          InitWait,          \* tasks already in the wait pool
          DevAddLockOrder

VARIABLES pl, wl, pcW, pcC, pids, wait, fwd

vars == <<pl, wl, pcW, pcC, pids, wait, fwd>>

Init == /\ pl = "none" /\ wl = "none"
        /\ pcW = "sched" /\ pcC = "role"
        /\ pids = FALSE /\ wait = InitWait /\ fwd = 0

(* ---- W: work([t]) ------------------------------------------------------- *)
\* RoundRobin._schedule_tasks / Backfilling._work: with _pilots_lock
WAcqP ==
  /\ pcW = "sched" /\ pl = "none"
  /\ pl' = "W"
  /\ pcW' = IF Policy = "RR" THEN "check" ELSE "park"
  /\ UNCHANGED <<wl, pcC, pids, wait, fwd>>

\* RoundRobin: if not self._pids
WCheck ==
  /\ pcW = "check"
  /\ IF pids THEN /\ fwd' = fwd + 1 /\ pl' = "none" /\ pcW' = "done"
             ELSE /\ pcW' = "park" /\ UNCHANGED <<fwd, pl>>
  /\ UNCHANGED <<wl, pcC, pids, wait>>

\* with self._wait_lock (inside _pilots_lock): the task goes to the wait pool
WPark ==
  /\ pcW = "park" /\ wl = "none"
  /\ wait' = wait + 1
  /\ pl' = "none"
  /\ pcW' = IF Policy = "RR" THEN "done" ELSE "sched2"
  /\ UNCHANGED <<wl, pcC, pids, fwd>>

\* Backfilling._schedule_tasks(): with _pilots_lock, _wait_lock
WAcqP2 ==
  /\ pcW = "sched2" /\ pl = "none"
  /\ pl' = "W" /\ pcW' = "sched3"
  /\ UNCHANGED <<wl, pcC, pids, wait, fwd>>

WSched ==
  /\ pcW = "sched3" /\ wl = "none"
  /\ IF pids THEN fwd' = fwd + wait /\ wait' = 0 ELSE UNCHANGED <<fwd, wait>>
  /\ pl' = "none" /\ pcW' = "done"
  /\ UNCHANGED <<wl, pcC, pids>>

(* ---- C: control_cb(add_pilots) ------------------------------------------- *)
\* with self._pilots_lock: roles, pilot states, early bound tasks
CRole ==
  /\ pcC = "role" /\ pl = "none"
  /\ pcC' = "add"
  /\ UNCHANGED <<pl, wl, pcW, pids, wait, fwd>>

\* the code: add_pilots takes _wait_lock, extends _pids ...
CAddW ==
  /\ DevAddLockOrder
  /\ pcC = "add" /\ wl = "none"
  /\ pids' = TRUE
  /\ IF Policy = "RR" /\ wait = 0
     THEN pcC' = "done" /\ UNCHANGED wl
     ELSE pcC' = "sched" /\ wl' = "C"
  /\ UNCHANGED <<pl, pcW, wait, fwd>>

\* ... and calls _schedule_tasks, which takes _pilots_lock inside _wait_lock
CSched ==
  /\ pcC = "sched" /\ pl = "none"
  /\ fwd' = fwd + wait /\ wait' = 0
  /\ wl' = "none" /\ pcC' = "done"
  /\ UNCHANGED <<pl, pcW, pids>>

\* intended: _pilots_lock first, _wait_lock inside, as everywhere else
CAddP ==
  /\ ~DevAddLockOrder
  /\ pcC = "add" /\ pl = "none" /\ wl = "none"
  /\ pids' = TRUE
  /\ fwd' = fwd + wait /\ wait' = 0
  /\ pcC' = "done"
  /\ UNCHANGED <<pl, wl, pcW>>

Done == pcW = "done" /\ pcC = "done" /\ UNCHANGED vars

Next == WAcqP \/ WCheck \/ WPark \/ WAcqP2 \/ WSched \/ CRole \/ CAddW \/ CSched \/ CAddP \/ Done

Spec == Init /\ [][Next]_vars

(* C12 ForwardOnce at quiescence: nothing waits while a pilot is added (the   *)
(* pilot of this model is always eligible); TLC's deadlock check covers the   *)
(* case in which quiescence is never reached.                                 *)
InvNoLostWakeup == (pcW = "done" /\ pcC = "done") => ~(wait > 0 /\ pids)
InvAllForwarded == (pcW = "done" /\ pcC = "done") => fwd = InitWait + 1
=============================================================================
