----------------------------- MODULE TmgrRemove -----------------------------
(***************************************************************************)
(* Lock granularity of remove_pilots against work().                       *)
(*                                                                         *)
(*   C  control_cb(remove_pilots [p1]):                                    *)
(*        with _pilots_lock:  _pilots[p1][role] = REMOVED                  *)
(*        (lock released)                                                  *)
(*        policy remove_pilots:  with _pilots_lock: _pids.remove(p1)       *)
(*   W  work([t]) -> policy _schedule_tasks:  with _pilots_lock:           *)
(*        take the first usable pilot of _pids (p1 before p2)              *)
(*                                                                         *)
(* _pids is a list derived from the roles.  Between the two critical       *)
(* sections of C it still holds p1 although the record says REMOVED - the  *)
(* moment from which p1 counts as removed.  Backfilling re-checks the role *)
(* of every pid (RoleChecked), RoundRobin does not.                        *)
(*                                                                         *)
(* DevHookOutsideLock = TRUE is the code; FALSE the intended design: role   *)
(* and pid list change in one critical section.                             *)
(***************************************************************************)
CONSTANTS RoleChecked, DevHookOutsideLock

VARIABLES pl, pcW, pcC, role, inPids, bound

vars == <<pl, pcW, pcC, role, inPids, bound>>

Init == /\ pl = "none" /\ pcW = "sched" /\ pcC = "flip"
        /\ role = "added" /\ inPids = TRUE /\ bound = "none"

\* W: one critical section - pick the pilot, bind the task
WSched ==
  /\ pcW = "sched" /\ pl = "none"
  /\ bound' = IF inPids /\ (~RoleChecked \/ role = "added")
              THEN (IF role = "added" THEN "p1" ELSE "p1-removed") ELSE "p2"
  /\ pcW' = "done"
  /\ UNCHANGED <<pl, pcC, role, inPids>>

\* C: the role flips under the lock ...
CFlip ==
  /\ pcC = "flip" /\ pl = "none"
  /\ role' = "removed"
  /\ IF DevHookOutsideLock THEN pcC' = "hook" /\ UNCHANGED inPids
                           ELSE pcC' = "done" /\ inPids' = FALSE
  /\ UNCHANGED <<pl, pcW, bound>>

\* ... the policy hook runs afterwards, in a critical section of its own
CHook ==
  /\ pcC = "hook" /\ pl = "none"
  /\ inPids' = FALSE /\ pcC' = "done"
  /\ UNCHANGED <<pl, pcW, role, bound>>

Done == pcW = "done" /\ pcC = "done" /\ UNCHANGED vars

Next == WSched \/ CFlip \/ CHook \/ Done
Spec == Init /\ [][Next]_vars

\* C12 OnlyAdded: no task is bound to a pilot which is marked removed
InvOnlyAdded == bound # "p1-removed"
=============================================================================
