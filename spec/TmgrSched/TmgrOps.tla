------------------------------ MODULE TmgrOps ------------------------------
(***************************************************************************)
(* Pure operators shared by the design model TmgrSched and the trace       *)
(* monitor TmgrSchedTrace: the callbacks of the client side scheduler      *)
(*   tmgr/scheduler/base.py        TMGRSchedulingComponent                 *)
(*   tmgr/scheduler/round_robin.py RoundRobin                              *)
(*   tmgr/scheduler/backfilling.py Backfilling                             *)
(* as functions  code state -> [cs, fwd, ex]  in the shape of the code.    *)
(*                                                                         *)
(* K  : configuration record                                               *)
(*        policy "RR" | "BF", named [task -> pilot | "none"],              *)
(*        cores [task -> Nat], hwm [pilot -> Nat], lo, hi (eligible state  *)
(*        window as PVal numbers), devEarly, devRaise, devAddFresh,        *)
(*        devCtrRaise, devHalfValid, devKnownRaises (deviations, see       *)
(*        TmgrSched)                                                       *)
(* cs : the scheduler's own bookkeeping                                    *)
(*        role  [pilot -> "none" | "added" | "removed"]    _pilots[p][role]*)
(*        pst   [pilot -> state name]                      _pilots[p][state]*)
(*        info  [pilot -> [used, tasks, done, init]]       _pilots[p][info]*)
(*        early [pilot -> Seq(task)]                       _early          *)
(*        wait  Seq(task)                                  _wait_pool      *)
(*        pids  Seq(pilot), idx Nat                        _pids, _idx     *)
(* fwd: the sequence of <<task, pilot>> advanced to                        *)
(*      TMGR_STAGING_INPUT_PENDING by the callback, in order               *)
(* ex : the callback left with an exception                                *)
(***************************************************************************)
EXTENDS Integers, Sequences, FiniteSets

SeqSet(s)      == {s[i] : i \in 1 .. Len(s)}
Without(s, S)  == SelectSeq(s, LAMBDA x : x \notin S)

(* ---- pilot state model (states.py) -------------------------------------- *)
PStateNames == {"none", "NEW", "PMGR_LAUNCHING_PENDING", "PMGR_LAUNCHING",
                "PMGR_ACTIVE_PENDING", "PMGR_ACTIVE", "DONE", "FAILED", "CANCELED"}
PFinal      == {"DONE", "FAILED", "CANCELED"}

\* _pilot_state_values + 1 (None is -1 in the code)
PVal(s) == CASE s = "none"                   -> 0
             [] s = "NEW"                    -> 1
             [] s = "PMGR_LAUNCHING_PENDING" -> 2
             [] s = "PMGR_LAUNCHING"         -> 3
             [] s = "PMGR_ACTIVE_PENDING"    -> 4
             [] s = "PMGR_ACTIVE"            -> 5
             [] OTHER                        -> 6

\* _pilot_state_progress(pid, current, target): new state, or exception
Progress(cur, tgt) ==
  IF cur = "CANCELED" /\ tgt \in PFinal         THEN [st |-> tgt, ex |-> FALSE]
  ELSE IF cur = "FAILED" /\ tgt \in PFinal      THEN [st |-> tgt, ex |-> FALSE]
  ELSE IF cur \in PFinal /\ tgt # cur /\ tgt \in PFinal
                                                THEN [st |-> cur, ex |-> TRUE]
  ELSE IF PVal(cur) >= PVal(tgt)                THEN [st |-> cur, ex |-> FALSE]
  ELSE                                               [st |-> tgt, ex |-> FALSE]

\* the furthest state seen so far: what a pilot record is meant to keep, whatever
\* the order in which notifications and add_pilots documents arrive (a final state
\* which contradicts DONE is ignored)
Furthest(cur, tgt) == IF Progress(cur, tgt).ex THEN cur ELSE Progress(cur, tgt).st

InWin(K, s) == PVal(s) >= K.lo /\ PVal(s) <= K.hi

\* init: Backfilling.add_pilots filled the info dict (it is {} before)
FreshInfo == [used |-> 0, tasks |-> {}, done |-> {}, init |-> TRUE]
NoInfo    == [used |-> 0, tasks |-> {}, done |-> {}, init |-> FALSE]

(* ---- RoundRobin._schedule_tasks(tasks) ---------------------------------- *)
RECURSIVE RRLoop(_, _, _, _, _)
RRLoop(pids, idx, ts, i, acc) ==
  IF i > Len(ts) THEN [idx |-> idx, fwd |-> acc]
  ELSE LET j == IF idx >= Len(pids) THEN 0 ELSE idx
       IN  RRLoop(pids, j + 1, ts, i + 1, Append(acc, <<ts[i], pids[j + 1]>>))

RRSchedule(cs, ts) ==
  IF cs.pids = <<>>
  THEN [cs |-> [cs EXCEPT !.wait = @ \o ts], fwd |-> <<>>]
  ELSE LET r == RRLoop(cs.pids, cs.idx, ts, 1, <<>>)
       IN  [cs |-> [cs EXCEPT !.idx = r.idx], fwd |-> r.fwd]

(* ---- Backfilling._schedule_tasks() -------------------------------------- *)
\* the filter at the head of _schedule_tasks
BFUsable(K, cs, p) ==
  /\ cs.role[p] = "added"
  /\ InWin(K, cs.pst[p])
  /\ cs.info[p].used < K.hwm[p]

RECURSIVE BFLoop(_, _, _, _, _, _, _)
BFLoop(K, info, elig, wait, i, fwd, uns) ==
  IF i > Len(wait) THEN [info |-> info, fwd |-> fwd, wait |-> uns]
  ELSE LET t    == wait[i]
           cand == SelectSeq(elig, LAMBDA p : info[p].used <= K.hwm[p])
       IN  IF cand = <<>>
           THEN BFLoop(K, info, elig, wait, i + 1, fwd, Append(uns, t))
           ELSE LET p     == cand[1]
                    u     == info[p].used + K.cores[t]
                    info2 == [info EXCEPT ![p] = [used  |-> u,
                                                  tasks |-> info[p].tasks \cup {t},
                                                  done  |-> info[p].done, init |-> info[p].init]]
                    elig2 == IF u >= K.hwm[p] THEN Without(elig, {p}) ELSE elig
                IN  BFLoop(K, info2, elig2, wait, i + 1, Append(fwd, <<t, p>>), uns)

BFSchedule(K, cs) ==
  LET elig == SelectSeq(cs.pids, LAMBDA p : BFUsable(K, cs, p))
  IN  IF elig = <<>> THEN [cs |-> cs, fwd |-> <<>>]
      ELSE LET r == BFLoop(K, cs.info, elig, cs.wait, 1, <<>>, <<>>)
           IN  [cs |-> [cs EXCEPT !.info = r.info, !.wait = r.wait], fwd |-> r.fwd]

(* ---- work(tasks): early binding filter, then the policy's _work ---------- *)
\* A named pilot is in one of three situations: added at some time (role # none: its
\* document is known, the task is bound and forwarded), known through a state
\* notification only (a record exists, pst # none, but no document), or unknown.  In
\* the last two the task is parked in _early.  devKnownRaises: the record of a pilot
\* known through a notification is taken for a document (None): work() leaves with an
\* exception in the middle of the bulk.
RECURSIVE WorkLoop(_, _, _, _, _, _)
WorkLoop(K, cs, B, i, fwd, tos) ==
  IF i > Len(B) THEN [cs |-> cs, fwd |-> fwd, tos |-> tos, ex |-> FALSE]
  ELSE LET t == B[i]
           p == K.named[t]
       IN  IF p = "none" THEN WorkLoop(K, cs, B, i + 1, fwd, Append(tos, t))
           \* _pilots[pid][pilot] is set once the pilot was added (and stays)
           ELSE IF cs.role[p] # "none"
                THEN WorkLoop(K, cs, B, i + 1, Append(fwd, <<t, p>>), tos)
           ELSE IF K.devKnownRaises /\ cs.pst[p] # "none"
                THEN [cs |-> cs, fwd |-> fwd, tos |-> tos, ex |-> TRUE]
                ELSE WorkLoop(K, [cs EXCEPT !.early[p] = Append(@, t)], B, i + 1, fwd, tos)

\* fail: an exception which leaves work() is caught by Component.work_cb, which then
\* advances the WHOLE bulk to FAILED - also the tasks which were pushed on already
FailOf(r) == IF "fail" \in DOMAIN r THEN r.fail ELSE <<>>

StepSubmit(K, cs, B) ==
  LET w == WorkLoop(K, cs, B, 1, <<>>, <<>>)
  IN  IF w.ex THEN [cs |-> w.cs, fwd |-> w.fwd, ex |-> FALSE, fail |-> B]
      ELSE IF K.policy = "RR"
      THEN IF w.tos = <<>> THEN [cs |-> w.cs, fwd |-> w.fwd, ex |-> FALSE]
           ELSE LET r == RRSchedule(w.cs, w.tos)
                IN  [cs |-> r.cs, fwd |-> w.fwd \o r.fwd, ex |-> FALSE]
      ELSE LET r == BFSchedule(K, [w.cs EXCEPT !.wait = @ \o w.tos])
           IN  [cs |-> r.cs, fwd |-> w.fwd \o r.fwd, ex |-> FALSE]

(* ---- control_cb: add_pilots ---------------------------------------------- *)
\* add: sequence of <<pilot, state carried by the pilot document>>
AddPids(add)    == [i \in 1 .. Len(add) |-> add[i][1]]
AddState(add, p) == LET i == CHOOSE i \in 1 .. Len(add) : add[i][1] = p IN add[i][2]

RECURSIVE EarlyFwd(_, _, _)
EarlyFwd(early, P, i) ==
  IF i > Len(P) THEN <<>>
  ELSE [k \in 1 .. Len(early[P[i]]) |-> <<early[P[i]][k], P[i]>>] \o EarlyFwd(early, P, i + 1)

\* The record of a known pilot is reused: the state carried by the pilot document
\* goes through _pilot_state_progress against the state learnt so far, whichever is
\* older.  devAddFresh: the record is created afresh (state None), so the document
\* wins.  A document whose final state contradicts a recorded DONE raises in
\* _update_pilot_states (devCtrRaise, the code): the roles are set, the pilots
\* before it in the message have their state updated, nothing else happens - no
\* early bound tasks, no policy add_pilots.  Intended: the contradiction is ignored.
StepAddValid(K, cs, add) ==
  LET P       == AddPids(add)
      PS      == SeqSet(P)
      All     == DOMAIN cs.role
      base(p) == IF K.devAddFresh THEN "none" ELSE cs.pst[p]
      pr(p)   == Progress(base(p), AddState(add, p))
      bad     == {i \in 1 .. Len(add) : pr(add[i][1]).ex}
      raises  == K.devCtrRaise /\ bad # {}
      upto    == IF raises
                 THEN LET first == CHOOSE i \in bad : \A k \in bad : i <= k
                      IN  {add[k][1] : k \in 1 .. (first - 1)}
                 ELSE PS
      nst(p)  == IF p \in upto THEN (IF pr(p).ex THEN base(p) ELSE pr(p).st) ELSE cs.pst[p]
      changed == {p \in upto : nst(p) # base(p)}
      c2      == [cs EXCEPT !.role = [p \in All |-> IF p \in PS THEN "added" ELSE cs.role[p]],
                            !.pst  = [p \in All |-> IF p \in PS THEN nst(p) ELSE cs.pst[p]],
                            !.info = [p \in All |-> IF p \in PS /\ K.devAddFresh THEN NoInfo
                                                    ELSE cs.info[p]]]
      \* _update_pilot_states -> update_pilots(to_update)
      r3      == IF K.policy = "BF" /\ \E p \in changed : InWin(K, c2.pst[p])
                 THEN BFSchedule(K, c2) ELSE [cs |-> c2, fwd |-> <<>>]
      \* early bound tasks of the added pilots
      efwd    == EarlyFwd(r3.cs.early, P, 1)
      c4      == IF K.devEarly THEN r3.cs
                 ELSE [r3.cs EXCEPT !.early = [p \in All |-> IF p \in PS THEN <<>> ELSE r3.cs.early[p]]]
      \* the policy's add_pilots
      r5      == IF K.policy = "RR"
                 THEN LET c5 == [c4 EXCEPT !.pids = @ \o P]
                      IN  IF c5.wait = <<>> THEN [cs |-> c5, fwd |-> <<>>]
                          ELSE RRSchedule([c5 EXCEPT !.wait = <<>>], c5.wait)
                 ELSE BFSchedule(K, [c4 EXCEPT
                          !.info = [p \in All |-> IF p \in PS THEN FreshInfo ELSE c4.info[p]],
                          !.pids = @ \o P])
  IN  IF raises THEN [cs |-> c2, fwd |-> <<>>, ex |-> TRUE]
      ELSE [cs |-> r5.cs, fwd |-> r3.fwd \o efwd \o r5.fwd, ex |-> FALSE]

\* A command may name pilots which are already added, anywhere in the message.  The
\* code (devHalfValid) raises at the first of them: the pilots before it have their
\* role (and document) set, nothing else happens - no state, no early bound tasks,
\* no policy add_pilots.  Intended: such entries are skipped, the others are added.
MinOf(S) == CHOOSE i \in S : \A k \in S : i <= k

StepAdd(K, cs, add) ==
  LET inval == {i \in 1 .. Len(add) : cs.role[add[i][1]] = "added"}
      All   == DOMAIN cs.role
  IN  IF inval = {} THEN StepAddValid(K, cs, add)
      ELSE IF K.devHalfValid
           THEN LET pre == {add[k][1] : k \in 1 .. (MinOf(inval) - 1)}
                IN  [cs  |-> [cs EXCEPT
                                !.role = [p \in All |-> IF p \in pre THEN "added" ELSE cs.role[p]],
                                !.pst  = [p \in All |-> IF p \in pre /\ K.devAddFresh THEN "none" ELSE cs.pst[p]],
                                !.info = [p \in All |-> IF p \in pre /\ K.devAddFresh THEN NoInfo ELSE cs.info[p]]],
                     fwd |-> <<>>, ex |-> TRUE]
           ELSE LET add2 == SelectSeq(add, LAMBDA x : cs.role[x[1]] # "added")
                IN  IF add2 = <<>> THEN [cs |-> cs, fwd |-> <<>>, ex |-> FALSE]
                    ELSE StepAddValid(K, cs, add2)

(* ---- control_cb: remove_pilots -------------------------------------------- *)
\* Ps: sequence.  The base class sets the roles; the policy's remove_pilots raises at
\* the first pilot which is not in its pid list (only after a half finished add)
\* list.remove(x): the first occurrence only
RemoveFirst(s, x) ==
  LET i == CHOOSE i \in 1 .. Len(s) : s[i] = x /\ \A k \in 1 .. (i - 1) : s[k] # x
  IN  [k \in 1 .. (Len(s) - 1) |-> IF k < i THEN s[k] ELSE s[k + 1]]

RECURSIVE RemoveLoop(_, _, _)
RemoveLoop(pids, Ps, i) ==               \* -> [pids, ex]
  IF i > Len(Ps) THEN [pids |-> pids, ex |-> FALSE]
  ELSE IF Ps[i] \notin SeqSet(pids) THEN [pids |-> pids, ex |-> TRUE]
  ELSE RemoveLoop(RemoveFirst(pids, Ps[i]), Ps, i + 1)

StepRemoveValid(K, cs, Ps) ==
  LET PS == SeqSet(Ps)
      r  == RemoveLoop(cs.pids, Ps, 1)
  IN  [cs  |-> [cs EXCEPT !.role = [p \in DOMAIN cs.role |-> IF p \in PS THEN "removed" ELSE cs.role[p]],
                          !.pids = r.pids],
       fwd |-> <<>>, ex |-> r.ex]

\* A command may name pilots which are not added (never added, or removed already).
\* The code (devHalfValid) raises at the first of them: the pilots before it are
\* marked removed, but the policy's remove_pilots is never called - they stay in its
\* pid list.  Intended: such entries are skipped, the others are removed.
StepRemove(K, cs, Ps) ==
  LET inval == {i \in 1 .. Len(Ps) : cs.role[Ps[i]] # "added"}
  IN  IF inval = {} THEN StepRemoveValid(K, cs, Ps)
      ELSE IF K.devHalfValid
           THEN LET pre == {Ps[k] : k \in 1 .. (MinOf(inval) - 1)}
                IN  [cs  |-> [cs EXCEPT !.role = [p \in DOMAIN cs.role |->
                                                    IF p \in pre THEN "removed" ELSE cs.role[p]]],
                     fwd |-> <<>>, ex |-> TRUE]
           ELSE LET Ps2 == SelectSeq(Ps, LAMBDA p : cs.role[p] = "added")
                IN  IF Ps2 = <<>> THEN [cs |-> cs, fwd |-> <<>>, ex |-> FALSE]
                    ELSE StepRemoveValid(K, cs, Ps2)

(* ---- _base_state_cb: one pilot notification ------------------------------- *)
StepPState(K, cs, p, s) ==
  LET r == Progress(cs.pst[p], s)
  IN  IF r.ex THEN [cs |-> cs, fwd |-> <<>>, ex |-> K.devCtrRaise]
      ELSE IF r.st = cs.pst[p] THEN [cs |-> cs, fwd |-> <<>>, ex |-> FALSE]
      ELSE LET c1 == [cs EXCEPT !.pst[p] = r.st]
           IN  IF K.policy = "BF" /\ InWin(K, r.st)
               THEN LET q == BFSchedule(K, c1) IN [cs |-> q.cs, fwd |-> q.fwd, ex |-> FALSE]
               ELSE [cs |-> c1, fwd |-> <<>>, ex |-> FALSE]

(* ---- _base_state_cb: final notifications of a batch of tasks --------------- *)
\* bnd: the pilot named in the task dict which the notification carries
RECURSIVE TSLoop(_, _, _, _, _, _)
TSLoop(K, info, B, bnd, i, res) ==
  IF i > Len(B) THEN [info |-> info, res |-> res, ex |-> FALSE]
  ELSE LET t == B[i]
           p == bnd[t]
       IN  IF p = "none"                 THEN TSLoop(K, info, B, bnd, i + 1, res)
           \* info is {} for a pilot whose add never got as far as the policy: KeyError
           ELSE IF ~info[p].init         THEN [info |-> info, res |-> res, ex |-> TRUE]
           ELSE IF t \in info[p].done    THEN TSLoop(K, info, B, bnd, i + 1, res)
           ELSE IF t \notin info[p].tasks
                THEN IF K.devRaise THEN [info |-> info, res |-> res, ex |-> TRUE]
                     ELSE TSLoop(K, info, B, bnd, i + 1, res)
           ELSE LET u  == info[p].used - K.cores[t]
                    i2 == [info EXCEPT ![p] = [used  |-> u, tasks |-> info[p].tasks,
                                               done  |-> info[p].done \cup {t}, init |-> TRUE]]
                IN  IF u < 0 THEN [info |-> i2, res |-> TRUE, ex |-> TRUE]
                    ELSE TSLoop(K, i2, B, bnd, i + 1, TRUE)

StepTStates(K, cs, B, bnd) ==
  IF K.policy = "RR" THEN [cs |-> cs, fwd |-> <<>>, ex |-> FALSE]
  ELSE LET r  == TSLoop(K, cs.info, B, bnd, 1, FALSE)
           c1 == [cs EXCEPT !.info = r.info]
       IN  IF r.ex THEN [cs |-> c1, fwd |-> <<>>, ex |-> TRUE]
           ELSE IF r.res THEN LET q == BFSchedule(K, c1) IN [cs |-> q.cs, fwd |-> q.fwd, ex |-> FALSE]
           ELSE [cs |-> c1, fwd |-> <<>>, ex |-> FALSE]

(* ---- ghost side: the property stated on what was forwarded ------------------ *)
RECURSIVE SumCores(_, _)
SumCores(cores, S) == IF S = {} THEN 0
                      ELSE LET t == CHOOSE t \in S : TRUE IN cores[t] + SumCores(cores, S \ {t})

CountFwd(fwd, t)  == Cardinality({i \in 1 .. Len(fwd) : fwd[i][1] = t})
LastPilot(fwd, t) == fwd[CHOOSE i \in 1 .. Len(fwd) : fwd[i][1] = t /\ \A j \in 1 .. Len(fwd) : fwd[j][1] = t => j <= i][2]
LateLoad(K, fwd, p) == Cardinality({i \in 1 .. Len(fwd) : fwd[i][2] = p /\ K.named[fwd[i][1]] = "none"})

\* loads of one round robin scheduling call over the pilot list differ by <= 1
Balanced(K, fwd, pids) ==
  /\ \A p \in SeqSet(pids), q \in SeqSet(pids) : LateLoad(K, fwd, p) <= LateLoad(K, fwd, q) + 1

\* ghost usage of backfilling: gset[p] = tasks the policy placed on p since p was
\* (last) added whose final notification is still outstanding.  Walk the forwards
\* of one callback: every late binding must find the pilot added, inside the state
\* window and below its high-water mark.
RECURSIVE BFWalk(_, _, _, _, _, _)
BFWalk(K, fwd, i, gset, role, pst) ==      \* -> [gset, bad]
  IF i > Len(fwd) THEN [gset |-> gset, bad |-> FALSE]
  ELSE LET t == fwd[i][1]
           p == fwd[i][2]
       IN  IF K.named[t] # "none" THEN BFWalk(K, fwd, i + 1, gset, role, pst)
           ELSE LET ok == /\ role[p] = "added"
                          /\ InWin(K, pst[p])
                          /\ SumCores(K.cores, gset[p]) < K.hwm[p]
                    r  == BFWalk(K, fwd, i + 1, [gset EXCEPT ![p] = @ \cup {t}], role, pst)
                IN  [gset |-> r.gset, bad |-> r.bad \/ ~ok]

\* an eligible pilot exists (independent of the code's pid list and usage figure)
EligibleRR(role)            == \E p \in DOMAIN role : role[p] = "added"
EligibleBF(K, role, pst, gset) ==
  \E p \in DOMAIN role : /\ role[p] = "added" /\ InWin(K, pst[p])
                         /\ SumCores(K.cores, gset[p]) < K.hwm[p]
=============================================================================
