--------------------------- MODULE TmgrSchedTrace ---------------------------
(***************************************************************************)
(* Trace monitor for the client side scheduler: consumes the events which  *)
(* tmgr_rig.py records from the real RoundRobin / Backfilling objects (one *)
(* event per callback: Submit, AddPilots, RemovePilots, PilotState,        *)
(* TaskStates, Noise) and checks property C12 on what was really forwarded.*)
(*                                                                         *)
(* The monitor is total.  Property clauses are "C12.<Clause>"; they are    *)
(* evaluated on the logged forwards and on ghost variables: the role as    *)
(* commanded (grole), the furthest pilot state ever notified or added      *)
(* (gst), the ghost usage (gset) - never on the code's pilot records, pid  *)
(* list or wait pool.  In addition each                                    *)
(* callback is compared with the callback operators of the design model    *)
(* (TmgrOps) for every setting of the known deviations; a mismatch is       *)
(* reported as "M.Conformance" (model fidelity, not a property clause).    *)
(* The monitor re-synchronises on the logged state after every event.      *)
(*                                                                         *)
(* Commands which name a pilot they cannot be applied to (add of an added  *)
(* pilot, remove of a pilot which is not added) are not producible through *)
(* the task manager (its add_pilots / remove_pilots refuse them before     *)
(* publishing): they are outside the property's input space.  From the     *)
(* first such command on, failing clauses are reported as notes            *)
(* "N.HalfValidCommand/<clause>" - never as C12 clauses.                   *)
(*                                                                         *)
(* One TLC run validates a whole batch of traces: tid is chosen in Init.   *)
(***************************************************************************)
EXTENDS TmgrOps, TLC, Json, IOUtils

Batch  == JsonDeserialize(IOEnv.TRACE_FILE)
Traces == Batch.traces

VARIABLES tid, l, cs, tst, bound, fwdCount, gset, grole, gst, hv, errs, fin

vars == <<tid, l, cs, tst, bound, fwdCount, gset, grole, gst, hv, errs, fin>>

T      == Traces[tid]
Ev     == T.events
TS     == SeqSet(T.tasks)
PS     == SeqSet(T.pilots)

KK(dE, dR, dF, dC, dH, dK) == [policy |-> T.policy,
               named  |-> [t \in TS |-> T.named[t]],
               cores  |-> [t \in TS |-> T.cores[t]],
               hwm    |-> [p \in PS |-> T.hwm[p]],
               lo |-> T.lo, hi |-> T.hi, devEarly |-> dE, devRaise |-> dR,
               devAddFresh |-> dF, devCtrRaise |-> dC, devHalfValid |-> dH, devKnownRaises |-> dK]
K == KK(FALSE, FALSE, FALSE, FALSE, FALSE, FALSE)

ToCs(st) == [role  |-> [p \in PS |-> st.role[p]],
             pst   |-> [p \in PS |-> st.pst[p]],
             info  |-> [p \in PS |-> [used  |-> st.used[p],
                                      tasks |-> SeqSet(st.tasks[p]),
                                      done  |-> SeqSet(st.done[p]),
                                      init  |-> st.init[p]]],
             early |-> [p \in PS |-> st.early[p]],
             wait  |-> st.wait, pids |-> st.pids, idx |-> st.idx]

E(cond, name) == IF cond THEN {} ELSE {name}
Count(s, x)   == Cardinality({i \in 1 .. Len(s) : s[i] = x})

Init ==
  /\ tid \in 1 .. Len(Traces)
  /\ l = 1
  /\ cs = [role  |-> [p \in PS |-> "none"], pst |-> [p \in PS |-> "none"],
           info  |-> [p \in PS |-> NoInfo], early |-> [p \in PS |-> <<>>],
           wait  |-> <<>>, pids |-> <<>>, idx |-> 0]
  /\ tst = [t \in TS |-> "new"]
  /\ bound = [t \in TS |-> "none"]
  /\ fwdCount = [t \in TS |-> 0]
  /\ gset = [p \in PS |-> {}]
  /\ grole = [p \in PS |-> "none"] /\ gst = [p \in PS |-> "none"]
  /\ hv = FALSE
  /\ errs = {} /\ fin = FALSE

\* what the design model expects of this callback, for one setting of the deviations
Expect(e, dE, dR, dF, dC, dH, dK) ==
  LET k == KK(dE, dR, dF, dC, dH, dK) IN
  CASE e.ev = "Submit"       -> StepSubmit(k, cs, e.batch)
    [] e.ev = "AddPilots"    -> StepAdd(k, cs, e.add)
    [] e.ev = "RemovePilots" -> StepRemove(k, cs, e.pids)
    [] e.ev = "PilotState"   -> StepPState(k, cs, e.p, e.s)
    [] e.ev = "TaskStates"   -> StepTStates(k, cs, e.batch, bound)
    [] OTHER                 -> [cs |-> cs, fwd |-> <<>>, ex |-> FALSE]

Step ==
  /\ ~fin /\ l <= Len(Ev)
  /\ LET e     == Ev[l]
         lcs   == ToCs(e.st)
         lfwd  == [i \in 1 .. Len(e.fwd) |-> <<e.fwd[i].t, e.fwd[i].p>>]
         lex   == e.raised # "none"
         known == e.ev \in {"Submit", "AddPilots", "RemovePilots", "PilotState", "TaskStates", "Noise"}
         B     == IF e.ev \in {"Submit", "TaskStates"} THEN SeqSet(e.batch) ELSE {}
         \* commands may name pilots they cannot be applied to (an added pilot in an add,
         \* a pilot which is not added in a remove): P / R are the entries which can be
         \* applied, judged on the role as commanded so far
         P     == IF e.ev = "AddPilots" THEN {p \in SeqSet(AddPids(e.add)) : grole[p] # "added"} ELSE {}
         R     == IF e.ev = "RemovePilots" THEN {p \in SeqSet(e.pids) : grole[p] = "added"} ELSE {}
         \* outside the input space from here on?
         hv2   == \/ hv
                  \/ e.ev = "AddPilots"    /\ P # SeqSet(AddPids(e.add))
                  \/ e.ev = "RemovePilots" /\ R # SeqSet(e.pids)
         \* the driver respects the task manager's guards
         input == CASE e.ev = "Submit"       -> \A t \in B : tst[t] = "new"
                    [] e.ev = "TaskStates"   -> \A t \in B : tst[t] = "fwd"
                    [] OTHER                 -> TRUE
         model == \E dE \in BOOLEAN, dR \in BOOLEAN, dF \in BOOLEAN, dC \in BOOLEAN, dH \in BOOLEAN,
                     dK \in BOOLEAN :
                          LET x == Expect(e, dE, dR, dF, dC, dH, dK)
                          IN  x.cs = lcs /\ x.fwd = lfwd /\ x.ex = lex
                              /\ SeqSet(FailOf(x)) = SeqSet(e.failed)
         \* ---- role as commanded, furthest state ever notified or added --------
         role2 == [p \in PS |-> IF p \in P THEN "added"
                                ELSE IF p \in R THEN "removed"
                                ELSE grole[p]]
         st2   == [p \in PS |-> IF p \in P THEN Furthest(gst[p], AddState(e.add, p))
                                ELSE IF e.ev = "PilotState" /\ p = e.p THEN Furthest(gst[p], e.s)
                                ELSE gst[p]]
         \* ---- ghosts, as in TmgrSched!Apply ---------------------------------
         tst1  == [t \in TS |-> IF t \in B THEN (IF e.ev = "Submit" THEN "sub" ELSE "fin") ELSE tst[t]]
         gpre  == [p \in PS |-> IF p \in P THEN {} ELSE gset[p] \ (IF e.ev = "TaskStates" THEN B ELSE {})]
         fw(t) == CountFwd(lfwd, t) > 0
         w     == IF T.policy = "BF" THEN BFWalk(K, lfwd, 1, gpre, role2, st2)
                  ELSE [gset |-> gpre, bad |-> FALSE]
         tst2  == [t \in TS |-> IF fw(t) /\ tst1[t] = "sub" THEN "fwd" ELSE tst1[t]]
         bnd2  == [t \in TS |-> IF fw(t) THEN LastPilot(lfwd, t) ELSE bound[t]]
         added == {p \in PS : role2[p] = "added"}
         elig  == IF T.policy = "RR" THEN EligibleRR(role2)
                  ELSE EligibleBF(K, role2, st2, w.gset)
         \* ---- property clauses ------------------------------------------------
         c12   ==
              \* forwarded at most once ...
              UNION {E(fwdCount[t] + CountFwd(lfwd, t) <= 1, "C12.ForwardOnce") : t \in TS}
              \* ... and forwarded whenever an eligible pilot exists (callbacks are
              \* synchronous: every event boundary is a quiescent point)
         \cup UNION {E(tst2[t] = "sub" =>
                         IF T.named[t] # "none" THEN role2[T.named[t]] = "none" ELSE ~elig,
                       "C12.ForwardOnceMissing") : t \in TS}
         \cup UNION {E(T.named[lfwd[i][1]] # "none" => lfwd[i][2] = T.named[lfwd[i][1]],
                       "C12.NamedGoesToNamed") : i \in 1 .. Len(lfwd)}
              \* a named task waits until its pilot is added
         \cup UNION {E(T.named[lfwd[i][1]] # "none" => role2[lfwd[i][2]] # "none",
                       "C12.NamedBeforeAdded") : i \in 1 .. Len(lfwd)}
              \* any other task goes to a pilot which is added at that time
         \cup UNION {E(T.named[lfwd[i][1]] = "none" => role2[lfwd[i][2]] = "added",
                       "C12.OnlyAdded") : i \in 1 .. Len(lfwd)}
         \cup UNION {E(e.fwd[i].sbx = "ok", "C12.SandboxOfBoundPilot") : i \in 1 .. Len(lfwd)}
              \* tasks wait while they cannot be bound: not failed, not lost, not twice
         \cup E(Len(e.failed) = 0, "C12.FailedByScheduler")
         \cup UNION {E(tst2[t] = "sub" =>
                         IF T.named[t] = "none"
                         THEN Count(lcs.wait, t) = 1
                         ELSE Count(lcs.early[T.named[t]], t) = 1 /\ Count(lcs.wait, t) = 0,
                       "C12.WaitWithoutPilot") : t \in TS}
         \cup (IF T.policy = "RR"
               THEN E(\A p \in added, q \in added : LateLoad(K, lfwd, p) <= LateLoad(K, lfwd, q) + 1,
                      "C12.RRBalanced")
               ELSE E(~w.bad, "C12.BFEligible")
                    \cup UNION {E((\A t \in TS : bnd2[t] = p => tst2[t] = "fin") => lcs.info[p].used = 0,
                                  "C12.BFUsedReturns") : p \in PS})
     IN
     /\ l' = l + 1
     /\ cs' = lcs
     /\ tst' = tst2
     /\ bound' = bnd2
     /\ fwdCount' = [t \in TS |-> fwdCount[t] + CountFwd(lfwd, t)]
     /\ gset' = w.gset
     /\ grole' = role2 /\ gst' = st2
     /\ hv' = hv2
     /\ errs' = errs \cup (IF hv2 THEN {"N.HalfValidCommand/" \o c : c \in c12} ELSE c12)
                     \cup E(known, "M.UnknownEvent")
                     \cup E(input, "M.BadInput")
                     \cup E(\A i \in 1 .. Len(lfwd) : tst1[lfwd[i][1]] # "new", "M.ForwardUnsubmitted")
                     \cup E(\A p \in PS : e.st.hwm[p] = T.hwm[p] \/ e.st.hwm[p] = -1, "M.Hwm")
                     \cup (IF known /\ input THEN E(model, "M.Conformance") ELSE {})
     /\ fin' = FALSE
  /\ UNCHANGED tid

Finish ==
  /\ ~fin /\ l > Len(Ev)
  /\ fin' = TRUE
  /\ PrintT(<<"RESULT", T.tid, errs>>)
  /\ UNCHANGED <<tid, l, cs, tst, bound, fwdCount, gset, grole, gst, hv, errs>>

Next == Step \/ Finish
Spec == Init /\ [][Next]_vars
=============================================================================
