------------------------------- MODULE Proxy -------------------------------
(***************************************************************************)
(* Design model of Agent_0's two proxy hops (agent/agent_0.py):            *)
(*   input hop  : proxy task queue [qname = pilot id]  --_proxy_input_cb-->*)
(*                agent staging input queue                                *)
(*   output hop : agent collecting queue  --_proxy_output_cb-->            *)
(*                proxy task queue [qname = session id]                    *)
(* Both hops are served by ONE thread: BaseComponent.work_cb polls the     *)
(* registered inputs in turn (get_nowait), sorts the bulk by state, takes  *)
(* out the tasks found on the cancel list (is_canceled: advance CANCELED,  *)
(* published in full, not pushed) and calls the hop's callback with the    *)
(* rest.  A callback which raises makes work_cb advance the things it was  *)
(* given to FAILED.  _proxy_input_cb forwards the ordinary tasks as one    *)
(* bulk and then launches the service tasks of the bulk one by one         *)
(* (_launch_service_task: forward the task, then wait for the service to   *)
(* report that it is up).                                                  *)
(*                                                                         *)
(* Environment: the client puts bulks, the agent pipeline takes bulks from *)
(* the staging input queue and later emits any group of the tasks it holds *)
(* to the collecting queue, cancel messages arrive at any time.            *)
(*                                                                         *)
(* Ghosts count, per task and hop, every way of leaving the hop: forwarded *)
(* (fwd), canceled (canc), failed (fail).  C05 in the sense of these hops: *)
(* every task entering a hop leaves it exactly once.                       *)
(*                                                                         *)
(* Deviation constants (FALSE == intended design):                         *)
(*   DevSvcFailsBulk : a service start which times out raises out of       *)
(*                     _proxy_input_cb, so work_cb fails the whole bulk -  *)
(*                     including the tasks already forwarded               *)
(*   DevSvcHang      : a service which never reports 'up' (and has no      *)
(*                     startup timeout) blocks the one thread for ever     *)
(*   DevOutWrongQname: the output hop puts to the pilot's own sub-queue    *)
(*   DevDropTail     : the input hop forwards only the first ordinary task *)
(*   DevCancelFwd    : a task found on the cancel list is forwarded too    *)
(***************************************************************************)
EXTENDS Naturals, Sequences, FiniteSets, TLC

CONSTANTS T,            \* task ids
          Ord,          \* sequence of all task ids (order inside emitted bulks)
          InBulks,      \* sequence of bulks (sequences of ids) the client puts
          CancelMsgs,   \* sequence of sets of ids (control messages)
          Service,      \* [T -> {"no", "up", "timeout", "never"}]
          DevSvcFailsBulk, DevSvcHang, DevOutWrongQname, DevDropTail, DevCancelFwd

VARIABLES pin, ain, inagent, coll, pout, clist, nput, ncan, stuck,
          entIn, entOut, fwdIn, fwdOut, cancIn, cancOut, failIn, misrouted, named

vars == <<pin, ain, inagent, coll, pout, clist, nput, ncan, stuck,
          entIn, entOut, fwdIn, fwdOut, cancIn, cancOut, failIn, misrouted, named>>

SeqSet(s) == {s[i] : i \in 1 .. Len(s)}
Inc(f, S) == [t \in T |-> IF t \in S THEN f[t] + 1 ELSE f[t]]
Flat(q)   == UNION {SeqSet(q[i]) : i \in 1 .. Len(q)}

Init ==
  /\ pin = <<>> /\ ain = <<>> /\ inagent = {} /\ coll = <<>> /\ pout = <<>>
  /\ clist = {} /\ nput = 1 /\ ncan = 1 /\ stuck = FALSE
  /\ entIn = [t \in T |-> 0] /\ entOut = [t \in T |-> 0]
  /\ fwdIn = [t \in T |-> 0] /\ fwdOut = [t \in T |-> 0]
  /\ cancIn = [t \in T |-> 0] /\ cancOut = [t \in T |-> 0] /\ failIn = [t \in T |-> 0]
  /\ misrouted = {} /\ named = {}

ghosts == <<entIn, entOut, fwdIn, fwdOut, cancIn, cancOut, failIn, misrouted>>

-----------------------------------------------------------------------------
(* environment *)
ClientPut ==
  /\ nput <= Len(InBulks)
  /\ pin' = Append(pin, InBulks[nput]) /\ nput' = nput + 1
  /\ entIn' = Inc(entIn, SeqSet(InBulks[nput]))
  /\ UNCHANGED <<ain, inagent, coll, pout, clist, ncan, stuck, entOut, fwdIn, fwdOut,
                 cancIn, cancOut, failIn, misrouted, named>>

Cancel ==
  /\ ncan <= Len(CancelMsgs)
  /\ clist' = clist \cup CancelMsgs[ncan] /\ named' = named \cup CancelMsgs[ncan]
  /\ ncan' = ncan + 1
  /\ UNCHANGED <<pin, ain, inagent, coll, pout, nput, stuck>> /\ UNCHANGED ghosts

AgentTake ==
  /\ ain # <<>>
  /\ inagent' = inagent \cup SeqSet(Head(ain)) /\ ain' = Tail(ain)
  /\ UNCHANGED <<pin, coll, pout, clist, nput, ncan, stuck, named>> /\ UNCHANGED ghosts

AgentEmit(S) ==
  /\ S # {} /\ S \subseteq inagent
  /\ inagent' = inagent \ S
  /\ coll' = Append(coll, SelectSeq(Ord, LAMBDA t : t \in S))
  /\ entOut' = Inc(entOut, S)
  /\ UNCHANGED <<pin, ain, pout, clist, nput, ncan, stuck, entIn, fwdIn, fwdOut,
                 cancIn, cancOut, failIn, misrouted, named>>

-----------------------------------------------------------------------------
(* the one work_cb thread *)
Effect(s) == IF Service[s] = "timeout" /\ DevSvcFailsBulk THEN "raise"
             ELSE IF Service[s] = "never" /\ DevSvcHang   THEN "hang"
             ELSE "ok"

\* index of the first service whose start does not come back normally (0: none)
FirstBad(svcs) == IF \E i \in 1 .. Len(svcs) : Effect(svcs[i]) # "ok"
                    THEN CHOOSE i \in 1 .. Len(svcs) :
                           /\ Effect(svcs[i]) # "ok"
                           /\ \A j \in 1 .. i - 1 : Effect(svcs[j]) = "ok"
                    ELSE 0

WorkIn ==
  /\ ~stuck /\ pin # <<>>
  /\ LET B      == Head(pin)
         hit    == SeqSet(B) \cap clist
         acc    == SelectSeq(B, LAMBDA t : DevCancelFwd \/ t \notin clist)
         normal == SelectSeq(acc, LAMBDA t : Service[t] = "no")
         svcs   == SelectSeq(acc, LAMBDA t : Service[t] # "no")
         k      == FirstBad(svcs)
         launched == IF k = 0 THEN svcs ELSE SubSeq(svcs, 1, k)
         nfwd   == IF DevDropTail /\ normal # <<>> THEN <<Head(normal)>> ELSE normal
         pushes == (IF nfwd = <<>> THEN <<>> ELSE <<nfwd>>)
                   \o [i \in 1 .. Len(launched) |-> <<launched[i]>>]
         how    == IF k = 0 THEN "ok" ELSE Effect(svcs[k])
     IN
     /\ pin' = Tail(pin)
     /\ clist' = clist \ hit
     /\ cancIn' = Inc(cancIn, hit)
     /\ ain' = ain \o pushes
     /\ fwdIn' = Inc(fwdIn, SeqSet(nfwd) \cup SeqSet(launched))
     /\ failIn' = IF how = "raise" THEN Inc(failIn, SeqSet(acc)) ELSE failIn
     /\ stuck' = (how = "hang")
  /\ UNCHANGED <<inagent, coll, pout, nput, ncan, entIn, entOut, fwdOut, cancOut, misrouted, named>>

WorkOut ==
  /\ ~stuck /\ coll # <<>>
  /\ LET B   == Head(coll)
         hit == SeqSet(B) \cap clist
         acc == SelectSeq(B, LAMBDA t : DevCancelFwd \/ t \notin clist)
     IN
     /\ coll' = Tail(coll)
     /\ clist' = clist \ hit
     /\ cancOut' = Inc(cancOut, hit)
     /\ IF acc = <<>> THEN UNCHANGED <<pout, fwdOut, misrouted>>
        ELSE IF DevOutWrongQname
          THEN misrouted' = misrouted \cup SeqSet(acc) /\ UNCHANGED <<pout, fwdOut>>
          ELSE pout' = Append(pout, acc) /\ fwdOut' = Inc(fwdOut, SeqSet(acc))
                                         /\ UNCHANGED misrouted
  /\ UNCHANGED <<pin, ain, inagent, nput, ncan, stuck, entIn, entOut, fwdIn, cancIn, failIn, named>>

Env  == ClientPut \/ Cancel \/ AgentTake \/ \E S \in SUBSET inagent : AgentEmit(S)
Work == WorkIn \/ WorkOut
Next == Env \/ Work
Spec == Init /\ [][Next]_vars /\ WF_vars(Work) /\ WF_vars(ClientPut) /\ WF_vars(Cancel)
             /\ WF_vars(AgentTake) /\ WF_vars(AgentEmit(inagent))

-----------------------------------------------------------------------------
LeftIn(t)  == fwdIn[t] + cancIn[t] + failIn[t]
LeftOut(t) == fwdOut[t] + cancOut[t]

Drained == /\ nput > Len(InBulks) /\ ncan > Len(CancelMsgs)
           /\ pin = <<>> /\ ain = <<>> /\ inagent = {} /\ coll = <<>>

\* a task leaves a hop at most once, and only after it entered
InOnce  == \A t \in T : LeftIn(t)  <= entIn[t]  /\ LeftIn(t)  <= 1
OutOnce == \A t \in T : LeftOut(t) <= entOut[t] /\ LeftOut(t) <= 1
\* a task which entered a hop is waiting in the hop's queue or has left: none vanishes
NoLossIn  == \A t \in T : entIn[t]  = 1 /\ t \notin Flat(pin)  => LeftIn(t)  >= 1
NoLossOut == \A t \in T : entOut[t] = 1 /\ t \notin Flat(coll) => LeftOut(t) >= 1
Routed    == misrouted = {}
NotStuck  == ~stuck
CanceledOnlyNamed == \A t \in T : cancIn[t] + cancOut[t] > 0 => t \in named
\* what reaches the client queue is what the agent emitted, once
ClientGetsOnce == \A t \in T : Cardinality({i \in 1 .. Len(pout) : t \in SeqSet(pout[i])}) <= 1
TypeOK == /\ inagent \subseteq T /\ clist \subseteq T /\ stuck \in BOOLEAN

Termination == <>Drained
=============================================================================
