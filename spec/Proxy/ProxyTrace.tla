----------------------------- MODULE ProxyTrace -----------------------------
(***************************************************************************)
(* Trace monitor for Agent_0's proxy hops: consumes the events recorded by *)
(* proxy_rig.py from the REAL Agent_0.initialize (queue registration),     *)
(* BaseComponent.work_cb, _proxy_input_cb, _proxy_output_cb and            *)
(* _launch_service_task running on in-memory queues, and maintains the     *)
(* ghost counters of the design model (Proxy.tla): per task and hop how    *)
(* often it entered (ent), was forwarded (fwd), canceled (canc), failed    *)
(* (fail).  Total: a failing clause is added to errs, the monitor carries  *)
(* on.                                                                     *)
(*                                                                         *)
(* Demanded (C05 in the sense of these hops): every task entering a hop    *)
(* leaves it exactly once - forwarded to the right queue unchanged in      *)
(* identity and state, or CANCELED if (and only if) a cancel message named *)
(* it, or FAILED if the hop's callback raised before forwarding it.        *)
(* Accepted: the input hop adds the configured task environment to the     *)
(* description; a service task's description is rewritten (wrapper).       *)
(***************************************************************************)
EXTENDS Naturals, Integers, Sequences, FiniteSets, TLC, Json, IOUtils

Batch  == JsonDeserialize(IOEnv.TRACE_FILE)
Traces == Batch.traces

VARIABLES tid, l, ent, fwd, canc, fail, named, got, errs, fin

vars == <<tid, l, ent, fwd, canc, fail, named, got, errs, fin>>

T      == Traces[tid]
Ev     == T.events
Uids   == {T.uids[i] : i \in 1 .. Len(T.uids)}
Hops   == {"in", "out"}
SeqSet(s) == {s[i] : i \in 1 .. Len(s)}
E(cond, name) == IF cond THEN {} ELSE {name}

Zero == [h \in Hops |-> [t \in Uids |-> 0]]
Inc(f, h, S) == [f EXCEPT ![h] = [t \in Uids |-> IF t \in S THEN f[h][t] + 1 ELSE f[h][t]]]
Left(h, t) == fwd[h][t] + canc[h][t] + fail[h][t]

\* where a hop has to deliver, and in which state
GoodRoute(h, chan, qname) ==
  IF h = "in" THEN chan = "agent_staging_input_queue" /\ qname = "none"
              ELSE chan = "proxy_task_queue" /\ qname = T.sid
GoodState(h, st) ==
  IF h = "in" THEN st = "AGENT_STAGING_INPUT_PENDING" ELSE st = "TMGR_STAGING_OUTPUT_PENDING"
\* keys of the task dict which may differ between what entered and what left
Allowed(h, t) ==
  IF h = "in" /\ T.svc[t] # "no" THEN {"description"}
  ELSE IF h = "in" /\ T.taskenv THEN {"description.environment"}
  ELSE {}

Init ==
  /\ tid \in 1 .. Len(Traces) /\ l = 1
  /\ ent = Zero /\ fwd = Zero /\ canc = Zero /\ fail = Zero
  /\ named = {} /\ got = [h \in Hops |-> {}]
  /\ errs = {} /\ fin = FALSE

Step ==
  /\ ~fin /\ l <= Len(Ev)
  /\ LET e == Ev[l] IN
     /\ l' = l + 1 /\ fin' = FALSE
     /\ CASE e.ev = "Put" ->          \* the environment put a bulk into the hop's input queue
               /\ ent' = Inc(ent, e.hop, SeqSet(e.uids))
               /\ UNCHANGED <<fwd, canc, fail, named, got, errs>>
          [] e.ev = "CancelMsg" ->
               /\ named' = named \cup SeqSet(e.uids)
               /\ UNCHANGED <<ent, fwd, canc, fail, got, errs>>
          [] e.ev = "Got" ->          \* work_cb took a bulk from the hop's input queue
               /\ got' = [got EXCEPT ![e.hop] = SeqSet(e.uids)]
               /\ errs' = errs \cup UNION {E(ent[e.hop][u] >= 1, "C05.HopGotUnknown") : u \in SeqSet(e.uids)}
               /\ UNCHANGED <<ent, fwd, canc, fail, named>>
          [] e.ev = "Fwd" ->          \* a put on an output queue
               /\ fwd' = Inc(fwd, e.hop, SeqSet(e.uids))
               /\ errs' = errs
                    \cup UNION {E(Left(e.hop, u) = 0, "C05.HopDuplicate") : u \in SeqSet(e.uids)}
                    \cup UNION {E(u \in got[e.hop], "C05.HopForwardedUnknown") : u \in SeqSet(e.uids)}
                    \cup E(GoodRoute(e.hop, e.chan, e.qname), "C05.HopMisrouted")
                    \cup UNION {E(GoodState(e.hop, e.states[i]), "C05.HopChanged") : i \in 1 .. Len(e.states)}
                    \cup UNION {E(SeqSet(e.changed[i]) \subseteq Allowed(e.hop, e.uids[i]), "C05.HopChanged")
                                : i \in 1 .. Len(e.uids)}
                    \cup E(Cardinality(SeqSet(e.uids)) = Len(e.uids), "C05.HopDuplicate")
               /\ UNCHANGED <<ent, canc, fail, named, got>>
          [] e.ev = "PubState" /\ e.uid \in Uids /\ e.state = "CANCELED" ->
               /\ canc' = Inc(canc, e.hop, {e.uid})
               /\ errs' = errs
                    \cup E(Left(e.hop, e.uid) = 0, "C05.HopDuplicate")
                    \cup E(e.uid \in named, "C05.HopCanceledNotNamed")
                    \cup E(e.full /\ e.target = "CANCELED", "C05.HopFinalNotFull")
               /\ UNCHANGED <<ent, fwd, fail, named, got>>
          [] e.ev = "PubState" /\ e.uid \in Uids /\ e.state = "FAILED" ->
               /\ fail' = Inc(fail, e.hop, {e.uid})
               /\ errs' = errs
                    \* a task which was already forwarded lives on in the pipeline: failing it
                    \* as well gives it two ways out of the hop (and later two final states)
                    \cup E(Left(e.hop, e.uid) = 0, "C05.HopDuplicate")
                    \cup E(e.raised, "C05.HopFailedWithoutError")
                    \cup E(e.full /\ e.target = "FAILED", "C05.HopFinalNotFull")
               /\ UNCHANGED <<ent, fwd, canc, named, got>>
          [] e.ev = "PubState" /\ e.uid \in Uids /\ e.state \notin {"CANCELED", "FAILED"} ->
               /\ errs' = errs \cup {"C05.HopStateChanged"}
               /\ UNCHANGED <<ent, fwd, canc, fail, named, got>>
          [] e.ev = "WorkEnd" ->      \* a work_cb round returned: the bulks it took are accounted for
               /\ errs' = errs
                    \cup UNION {UNION {E(Left(h, u) >= 1, "C05.HopLost") : u \in got[h]} : h \in Hops}
               /\ got' = [h \in Hops |-> {}]
               /\ UNCHANGED <<ent, fwd, canc, fail, named>>
          [] e.ev = "Stuck" ->        \* the work_cb thread blocks for ever inside a callback
               /\ errs' = errs \cup {"C05.HopStuck"}
               /\ UNCHANGED <<ent, fwd, canc, fail, named, got>>
          [] e.ev = "End" ->
               /\ errs' = errs
                    \cup E(e.error = "none", "C05.HopCallbackDied")
                    \* the script served both hops until nothing moved: whatever entered has left
                    \cup UNION {UNION {E(ent[h][u] >= 1 => Left(h, u) >= 1, "C05.HopLost") : u \in Uids} : h \in Hops}
                    \cup UNION {UNION {E(Left(h, u) <= ent[h][u], "C05.HopDuplicate") : u \in Uids} : h \in Hops}
               /\ UNCHANGED <<ent, fwd, canc, fail, named, got>>
          [] OTHER ->
               UNCHANGED <<ent, fwd, canc, fail, named, got, errs>>
  /\ UNCHANGED tid

Finish ==
  /\ ~fin /\ l > Len(Ev) /\ fin' = TRUE
  /\ PrintT(<<"RESULT", T.tid, errs>>)
  /\ UNCHANGED <<tid, l, ent, fwd, canc, fail, named, got, errs>>

Next == Step \/ Finish
Spec == Init /\ [][Next]_vars
=============================================================================
