-------------------------- MODULE ClientStateTrace --------------------------
(***************************************************************************)
(* Trace monitor for the client-side notification path: consumes the       *)
(* events recorded by client_rig.py from the real TaskManager /            *)
(* PilotManager / Task / Pilot and judges every step with the operators    *)
(* of the design model (ClientStateOps).                                   *)
(*                                                                         *)
(* Total: a failing clause is added to errs as "<property>.<clause>" and   *)
(* the monitor re-synchronises on the logged state.  Entries "N.<note>"    *)
(* are not violations: they tell which named deviation of the design       *)
(* model explains an observation that differs from the reference.          *)
(*                                                                         *)
(* Events (all carry raised, tpost = per task [st, cbs, at, tcbs, pilot,   *)
(* det, exc], ppost = per pilot [st, cbs, at, pcbs]):                      *)
(*   Notify     batch = <<uid, state>>* (docs labels the other fields of   *)
(*              the task documents), iso = <<[rm, post]>>*  (the real      *)
(*              code re-run on the batch without the entries of rm)        *)
(*   Bind       uid, pilot, state: Notify of a full dict carrying 'pilot'  *)
(*   PilotFinal pilot: _pilot_state_cb called directly for a final pilot   *)
(*   RemovePilots pilots: TaskManager.remove_pilots                        *)
(*   PNotify    batch = <<type, pid, state>>*, calls = pilots whose state  *)
(*              callbacks ran with a final state, npilots, stray; docs     *)
(*              labels the other fields of the pilot documents (they are   *)
(*              input space only: the verdict is on states and callbacks)  *)
(***************************************************************************)
EXTENDS ClientStateOps, TLC, Json, IOUtils

Batch  == JsonDeserialize(IOEnv.TRACE_FILE)
Traces == Batch.traces

VARIABLES tid, l, tstate, cbLog, bound, pstate, pcbLog, errs, fin

vars == <<tid, l, tstate, cbLog, bound, pstate, pcbLog, errs, fin>>

T    == Traces[tid]
Ev   == T.events
Uids == SeqToSet(T.tasks)
Pids == SeqToSet(T.pilots)

E(cond, name) == IF cond THEN {} ELSE {name}

RECURSIVE SetToSeq(_)
SetToSeq(S) == IF S = {} THEN <<>>
               ELSE LET x == CHOOSE y \in S : TRUE IN <<x>> \o SetToSeq(S \ {x})
NoDet == [t \in Uids |-> "none"]

Init ==
  /\ tid \in 1 .. Len(Traces)
  /\ l = 1
  /\ tstate = [t \in Uids |-> 0]
  /\ cbLog  = [t \in Uids |-> <<>>]
  /\ bound  = [t \in Uids |-> T.init_bound[t]]
  /\ pstate = [p \in Pids |-> 0]
  /\ pcbLog = [p \in Pids |-> <<>>]
  /\ errs = {} /\ fin = FALSE

(* ---- what the application saw at callback time -------------------------- *)
\* Task.state / Pilot.state read inside the callback is not behind the
\* announced state
AtOK(n, cbs, at) ==
  /\ Len(at) = Len(cbs)
  /\ \A i \in 1 .. Len(cbs) : /\ Val(n, at[i]) >= Val(n, cbs[i])
                              /\ IsFinal(n, cbs[i]) => at[i] = cbs[i]

Sync(s0, s1, d) == (Len(d) = 0 /\ s1 = s0) \/ (Len(d) > 0 /\ d[Len(d)] = s1)

(* ---- C06 clauses on the callback log of one task ------------------------ *)
LogErrs(t, o) ==
  LET log1 == cbLog[t] \o o.cbs IN
       E(MonotoneLog(NT, log1) /\ AtOK(NT, o.cbs, o.at), "C06.Monotone")
  \cup E(AtMostOnceLog(log1),   "C06.AtMostOnce")
  \cup E(GapsFilledLog(NT, log1), "C06.GapsFilled")

NotifyErrs(e, batch) ==
  LET ref == TRes(FALSE, batch, tstate)
      dev == TRes(TRUE,  batch, tstate)
      perTask(t) ==
        LET o == e.tpost[t] IN
             LogErrs(t, o)
        \cup E(IsFinal(NT, tstate[t]) => o.st = tstate[t], "C06.FinalSticky")
        \cup E(Sync(tstate[t], o.st, o.cbs), "C06.GapsFilled")
      isoErr == E(\A k \in 1 .. Len(e.iso) : \A t \in Uids \ {e.iso[k].rm} :
                     /\ e.iso[k].post[t].st  = e.tpost[t].st
                     /\ e.iso[k].post[t].cbs = e.tpost[t].cbs, "C06.BatchIsolation")
      stated == UNION {perTask(t) : t \in Uids} \cup isoErr
      same(r) == \A t \in Uids : /\ e.tpost[t].st = r.st[t] /\ e.tpost[t].cbs = r.cb[t]
                                 /\ e.tpost[t].tcbs = e.tpost[t].cbs
      \* the stated clauses fix the shape of the announcements between the
      \* states before and after the batch; what remains is where the task ends
      \* up (lost or spurious update), and that both callback levels agree
      applied == \A t \in Uids : /\ e.tpost[t].st = ref.st[t]
                                 /\ e.tpost[t].tcbs = e.tpost[t].cbs
  IN stated
     \cup (IF stated = {} /\ ~applied THEN {"C06.NotApplied"} ELSE {})
     \cup (IF same(ref) THEN {} ELSE IF same(dev) THEN {"N.D8"} ELSE {"N.UnmodelledTaskUpdate"})
     \cup (IF e.raised /\ ~dev.raised THEN {"N.UnexplainedRaise"} ELSE {})
     \cup (IF e.raised THEN {"N.NotifyRaised"} ELSE {})

(* ---- C13: the final-pilot callback ran for the pilots in calls ---------- *)
\* refired: pilots that were final before this event (a repeated final
\* notification re-runs the callbacks): nothing is demanded of their tasks
DeathErrs(e, calls, refired) ==
  LET ref == KillSeq(FALSE, FALSE, tstate, NoDet, bound, calls)
      perTask(t) ==
        LET o   == e.tpost[t]
            own == ref.st[t] # tstate[t] IN
        (IF own THEN
           IF bound[t] \in refired
           THEN E(o.st \in {tstate[t], FailedS(NT)}, "C13.OwnFail")
           ELSE E(o.st = FailedS(NT), "C13.OwnFail")
                \cup E(o.det = ref.det[t] /\ o.exc, "C13.OwnFailDetail")
         ELSE E(o.st = tstate[t],
                IF IsFinal(NT, tstate[t])  THEN "C13.OthersKeepFinal"
                ELSE IF bound[t] = "none" THEN "C13.OthersKeepUnbound"
                ELSE "C13.OthersKeepBound"))
        \cup E(IsFinal(NT, tstate[t]) => o.st = tstate[t], "C06.FinalSticky")
        \cup LogErrs(t, o)
      dev == KillSeq(TRUE, TRUE, tstate, NoDet, bound, calls)
      same(r) == \A t \in Uids : e.tpost[t].st = r.st[t]
  IN UNION {perTask(t) : t \in Uids}
     \cup (IF same(ref) THEN {} ELSE IF same(dev) THEN {"N.D9"} ELSE {"N.UnmodelledPilotCb"})

(* ---- C14 (a) ------------------------------------------------------------- *)
PNotifyErrs(e) ==
  LET b     == e.batch
      full  == PRes(FALSE, FALSE, b, pstate)
      first == PRes(TRUE,  FALSE, b, pstate)
      code  == PRes(TRUE,  TRUE,  b, pstate)
      onlyUnk == \A i \in 1 .. Len(b) : b[i][1] = "pilot" => b[i][2] \notin Pids
      perPilot(p) ==
        LET o    == e.ppost[p]
            log1 == pcbLog[p] \o o.cbs IN
             E(PMonotoneLog(NP, log1) /\ AtOK(NP, o.cbs, o.at), "C14.PMonotone")
        \cup E(PGapsFilledLog(NP, log1) /\ Sync(pstate[p], o.st, o.cbs), "C14.PGapsFilled")
        \cup E(PFinalNotLeftLog(NP, log1) /\ (IsFinal(NP, pstate[p]) => IsFinal(NP, o.st)),
               "C14.PFinalNotLeft")
      unk == E(e.stray = 0 /\ e.npilots = Cardinality(Pids), "C14.UnknownIgnored")
             \cup (IF onlyUnk
                   THEN E(~e.raised /\ \A p \in Pids : e.ppost[p].st = pstate[p] /\ Len(e.ppost[p].cbs) = 0,
                          "C14.UnknownIgnored")
                   ELSE {})
      stated == UNION {perPilot(p) : p \in Pids} \cup unk
      same(r) == \A p \in Pids :
                   /\ e.ppost[p].st = r.st[p]
                   /\ Destutter(LastOr(0, pcbLog[p]), e.ppost[p].cbs) = r.cb[p]
                   /\ e.ppost[p].pcbs = e.ppost[p].cbs
      applied(r) == \A p \in Pids : /\ e.ppost[p].st = r.st[p]
                                    /\ e.ppost[p].pcbs = e.ppost[p].cbs
  IN stated
     \cup (IF stated = {} /\ ~applied(full) /\ ~applied(first) /\ ~applied(code)
           THEN {"C14.PNotApplied"} ELSE {})
     \cup (IF same(full) THEN {}
           ELSE IF same(first) THEN {"N.D19"}
           ELSE IF same(code) THEN {"N.D19", "N.PFinalRaise"}
           ELSE {"N.UnmodelledPilotUpdate"})
     \cup (IF e.raised THEN {"N.PNotifyRaised"} ELSE {})
     \cup (IF e.raised /\ ~code.raised THEN {"N.UnexplainedRaise"} ELSE {})

(* ---- one monitor step per event ----------------------------------------- *)
Step ==
  /\ ~fin /\ l <= Len(Ev)
  /\ LET e == Ev[l] IN
     /\ l' = l + 1
     /\ fin' = FALSE
     /\ tstate' = [t \in Uids |-> e.tpost[t].st]
     /\ cbLog'  = [t \in Uids |-> cbLog[t] \o e.tpost[t].cbs]
     /\ pstate' = [p \in Pids |-> e.ppost[p].st]
     /\ pcbLog' = [p \in Pids |-> pcbLog[p] \o e.ppost[p].cbs]
     /\ CASE e.ev = "Notify" ->
               /\ errs' = errs \cup NotifyErrs(e, e.batch)
               /\ UNCHANGED bound
          [] e.ev = "Bind" ->
               LET t  == e.uid
                   ok == t \in Uids /\ ~IsFinal(NT, tstate[t]) /\ tstate[t] < e.state IN
               /\ errs' = errs \cup NotifyErrs(e, <<<<e.uid, e.state>>>>)
                            \cup (IF ok /\ e.tpost[t].pilot # e.pilot THEN {"N.BindingNotVisible"} ELSE {})
               /\ bound' = IF ok THEN [bound EXCEPT ![t] = e.pilot] ELSE bound
          [] e.ev = "PilotFinal" ->
               /\ errs' = errs \cup DeathErrs(e, <<e.pilot>>, {})
               /\ UNCHANGED bound
          [] e.ev = "PNotify" ->
               \* a pilot has reached a final state when the application can
               \* see it final (Pilot.state), whether or not the state callbacks
               \* ran: an exception between the two leaves its tasks unfailed
               LET died == {p \in Pids : ~IsFinal(NP, pstate[p]) /\ IsFinal(NP, e.ppost[p].st)}
                   ends == e.calls \o SetToSeq(died \ SeqToSet(e.calls)) IN
               /\ errs' = errs \cup PNotifyErrs(e)
                            \cup DeathErrs(e, ends, {p \in Pids : IsFinal(NP, pstate[p])})
                            \cup (IF died \subseteq SeqToSet(e.calls) THEN {}
                                  ELSE {"N.FinalWithoutCallback"})
               /\ UNCHANGED bound
          [] e.ev = "RemovePilots" ->
               \* TaskManager.remove_pilots: the tasks bound to the pilot stay
               \* bound (nothing cancels or unbinds them), so the pilot's end is
               \* still judged by C13; a final task stays what it is
               /\ errs' = errs \cup UNION {LogErrs(t, e.tpost[t]) : t \in Uids}
                            \cup UNION {E(IsFinal(NT, tstate[t]) => e.tpost[t].st = tstate[t],
                                          "C06.FinalSticky") : t \in Uids}
                            \cup (IF \A t \in Uids : e.tpost[t].st = tstate[t] THEN {}
                                  ELSE {"N.RemoveChangedTasks"})
                            \cup (IF e.raised THEN {"N.RemoveRaised"} ELSE {})
               /\ UNCHANGED bound
          [] OTHER ->
               /\ errs' = errs \cup {"X.UnknownEvent"}
               /\ UNCHANGED bound
  /\ UNCHANGED tid

Finish ==
  /\ ~fin /\ l > Len(Ev)
  /\ fin' = TRUE
  /\ PrintT(<<"RESULT", T.tid, errs>>)
  /\ UNCHANGED <<tid, l, tstate, cbLog, bound, pstate, pcbLog, errs>>

Next == Step \/ Finish
Spec == Init /\ [][Next]_vars
=============================================================================
