-------------------------- MODULE ClientStateTrace --------------------------
(***************************************************************************)
(* Trace monitor for the client-side notification path: consumes the       *)
(* events recorded by client_rig.py from the real TaskManager /            *)
(* PilotManager / Task / Pilot and judges every step with the operators    *)
(* of the design model (ClientStateOps).                                   *)
(*                                                                         *)
(* Total: a failing clause is added to errs as "<property>.<clause>" and   *)
(* the monitor re-synchronises on the logged state.  Entries "N.<note>"    *)
(* are not violations: they tell which named deviation of the design       *)
(* model explains an observation that differs from the reference.          *)
(*                                                                         *)
(* Events (all carry raised, tpost = per task [st, cbs, at, tcbs, pilot,   *)
(* det, exc, pub (handed to advance as FAILED during the event), asd       *)
(* (as_dict of the task works), inj (as_dict fault injected by the rig)],  *)
(* ppost = per pilot [st, cbs, at, pcbs]):                                 *)
(*   Notify     batch = <<uid, state>>* (docs labels the other fields of   *)
(*              the task documents), iso = <<[rm, post]>>*  (the real      *)
(*              code re-run on the batch without the entries of rm)        *)
(*   Bind       uid, pilot, state: Notify of a full dict carrying 'pilot'  *)
(*   PilotFinal pilot: _pilot_state_cb called directly for a final pilot   *)
(*   RemovePilots pilots: TaskManager.remove_pilots                        *)
(*   AddPilots  pilots: TaskManager.add_pilots (one call for all of them)  *)
(*   TaskUpdate uid, state: Task._update called directly                   *)
(*   DeathBegin pilot / DeathApply pilot, uid / DeathEnd pilot:            *)
(*              _pilot_state_cb as a second writer of Task.state: the      *)
(*              callback started; its Task._update(FAILED) on uid          *)
(*              returned; the callback returned.  Notify events in between *)
(*              are notifications delivered after the callback selected    *)
(*              its victim and before it applied FAILED                    *)
(*   CbRegistry what, name, scope / PilotRegister pilot: callbacks are     *)
(*              registered / unregistered (no task changes state).  Every  *)
(*              task's tpost carries regs = <<name, m, seen>>*: application *)
(*              callback objects registered for the task when the event    *)
(*              started, through m registrations, and the states each was  *)
(*              told during the event.  T.bulk: bulk dispatch (one call    *)
(*              per callback and batch with the tasks that changed; the    *)
(*              announced state is the task's state at that time).         *)
(*   ApiCall name / ServiceInfo uid, info / PilotCancel pilot: application *)
(*              calls and the service_up handler: no task changes state    *)
(*   SubmitBegin uids, pilot / SubmitEnd: submit_tasks for tasks early     *)
(*              bound to pilot; events in between are those of another     *)
(*              thread that ran after some Task objects were created and   *)
(*              before any was registered                                  *)
(* Every event also carries tables (the module level state tables are what *)
(* they were), edges (lock acquisition orders <<held, taken>> seen for the *)
(* first time) and deadlock (two logical threads wait for each other).     *)
(*   NotifyBegin batch / NotifyPartial / NotifyEnd batch:                  *)
(*              _update_tasks interrupted by another thread: the call      *)
(*              started; where it stands when the other thread runs (the   *)
(*              events of that thread follow); the call returned           *)
(*   PNotify    batch = <<type, pid, state>>*, calls = pilots whose state  *)
(*              callbacks ran with a final state, npilots, stray; docs     *)
(*              labels the other fields of the pilot documents (they are   *)
(*              input space only: the verdict is on states and callbacks)  *)
(***************************************************************************)
EXTENDS ClientStateOps, TLC, Json, IOUtils

Batch  == JsonDeserialize(IOEnv.TRACE_FILE)
Traces == Batch.traces

VARIABLES tid, l, tstate, cbLog, bound, pstate, pcbLog, errs, fin,
          added,     \* pilots handed to the task manager
          sel,       \* callback in progress: tasks bound to the pilot, not final at its start
          nb0,       \* _update_tasks in progress: per task state and log length at its start
          ledges,    \* lock acquisition orders seen so far
          insub,     \* submit_tasks in progress: its tasks
          owed       \* ... those whose pilot ended meanwhile: FAILED when submit_tasks is over

vars == <<tid, l, tstate, cbLog, bound, pstate, pcbLog, errs, fin, added, sel, nb0,
          ledges, insub, owed>>

T    == Traces[tid]
Ev   == T.events
Uids == SeqToSet(T.tasks)
Pids == SeqToSet(T.pilots)

E(cond, name) == IF cond THEN {} ELSE {name}

RECURSIVE SetToSeq(_)
SetToSeq(S) == IF S = {} THEN <<>>
               ELSE LET x == CHOOSE y \in S : TRUE IN <<x>> \o SetToSeq(S \ {x})
NoDet == [t \in Uids |-> "none"]

Init ==
  /\ tid \in 1 .. Len(Traces)
  /\ l = 1
  /\ tstate = [t \in Uids |-> 0]
  /\ cbLog  = [t \in Uids |-> <<>>]
  /\ bound  = [t \in Uids |-> T.init_bound[t]]
  /\ pstate = [p \in Pids |-> 0]
  /\ pcbLog = [p \in Pids |-> <<>>]
  /\ errs = {} /\ fin = FALSE
  /\ added = SeqToSet(T.init_added) /\ sel = {}
  /\ nb0 = [t \in Uids |-> [st |-> 0, n |-> 0]]
  /\ ledges = {} /\ insub = {} /\ owed = {}

(* ---- locks: one acquisition order (C13: the pilot's end must reach its tasks *)
(* while application callbacks call into the managers) ------------------------ *)
RECURSIVE Closure(_)
Closure(R) ==
  LET R2 == R \cup {<<q[1][1], q[2][2]>> : q \in {x \in R \X R : x[1][2] = x[2][1]}} IN
  IF R2 = R THEN R ELSE Closure(R2)
Cyclic(R) == \E p \in Closure(R) : p[1] = p[2]

NewEdges(e) == {<<e.edges[i][1], e.edges[i][2]>> : i \in 1 .. Len(e.edges)}

\* clauses every event is checked for
Always(e) ==
       E(e.tables, "C06.TablesUntouched")
  \cup E(~Cyclic(ledges \cup NewEdges(e)), "C13.LockOrder")
  \cup E(~e.deadlock, "C13.LockOrder")
  \cup (IF e.deadlock THEN {"N.Deadlock"} ELSE {})

(* ---- what the application saw at callback time -------------------------- *)
\* Task.state / Pilot.state read inside the callback is not behind the
\* announced state
AtOK(n, cbs, at) ==
  /\ Len(at) = Len(cbs)
  /\ \A i \in 1 .. Len(cbs) : /\ Val(n, at[i]) >= Val(n, cbs[i])
                              /\ IsFinal(n, cbs[i]) => at[i] = cbs[i]

Sync(s0, s1, d) == (Len(d) = 0 /\ s1 = s0) \/ (Len(d) > 0 /\ d[Len(d)] = s1)

(* ---- every registered callback is told what the recorder is told ---------- *)
\* m registrations of one callback object for a task: per state dispatch calls
\* it once per registration, bulk dispatch once
Expect(cbs, m) ==
  LET k == IF T.bulk THEN 1 ELSE m IN
  [i \in 1 .. k * Len(cbs) |-> cbs[((i - 1) \div k) + 1]]

RegErrs(o) ==
  UNION {LET seen == o.regs[i][3]
             want == Expect(o.cbs, o.regs[i][2]) IN
         IF seen = want THEN {}
         ELSE IF Len(seen) < Len(want) THEN {"C06.GapsFilled"}      \* not told / states skipped
         ELSE IF Len(seen) > Len(want) THEN {"C06.AtMostOnce"}      \* told more than once
         ELSE {"C06.Monotone"}                                      \* told something else
         : i \in 1 .. Len(o.regs)}
  \cup (IF o.stale > 0 THEN {"N.UnregisteredCallbackCalled"} ELSE {})

(* ---- C06 clauses on the callback log of one task ------------------------ *)
LogErrs(t, o) ==
  LET log1 == cbLog[t] \o o.cbs IN
       E(MonotoneLog(NT, log1), "C06.Monotone")
  \* a callback is not contradicted by Task.state read inside it
  \cup E(AtOK(NT, o.cbs, o.at), "C06.CbAgrees")
  \cup E(AtMostOnceLog(log1),   "C06.AtMostOnce")
  \* (bulk dispatch announces where a task stands after the batch, not the way there)
  \cup E(T.bulk \/ GapsFilledLog(NT, log1), "C06.GapsFilled")
  \cup RegErrs(o)

NotifyErrs(e, batch) ==
  LET ref == TRes(FALSE, batch, tstate)
      dev == TRes(TRUE,  batch, tstate)
      perTask(t) ==
        LET o == e.tpost[t] IN
             LogErrs(t, o)
        \cup E(IsFinal(NT, tstate[t]) => o.st = tstate[t], "C06.FinalSticky")
        \cup E(Sync(tstate[t], o.st, o.cbs), "C06.GapsFilled")
      isoErr == E(\A k \in 1 .. Len(e.iso) : \A t \in Uids \ {e.iso[k].rm} :
                     /\ e.iso[k].post[t].st  = e.tpost[t].st
                     /\ e.iso[k].post[t].cbs = e.tpost[t].cbs, "C06.BatchIsolation")
      stated == UNION {perTask(t) : t \in Uids} \cup isoErr
      refCb(r, t) == IF T.bulk THEN (IF r.st[t] # tstate[t] THEN <<r.st[t]>> ELSE <<>>) ELSE r.cb[t]
      same(r) == \A t \in Uids : /\ e.tpost[t].st = r.st[t] /\ e.tpost[t].cbs = refCb(r, t)
                                 /\ e.tpost[t].tcbs = e.tpost[t].cbs
      \* the stated clauses fix the shape of the announcements between the
      \* states before and after the batch; what remains is where the task ends
      \* up (lost or spurious update), and that both callback levels agree
      applied == \A t \in Uids : /\ e.tpost[t].st = ref.st[t]
                                 /\ e.tpost[t].tcbs = e.tpost[t].cbs
  IN stated
     \cup (IF stated = {} /\ ~applied THEN {"C06.NotApplied"} ELSE {})
     \cup (IF same(ref) THEN {} ELSE IF same(dev) THEN {"N.D8"} ELSE {"N.UnmodelledTaskUpdate"})
     \cup (IF e.raised /\ ~dev.raised THEN {"N.UnexplainedRaise"} ELSE {})
     \cup (IF e.raised THEN {"N.NotifyRaised"} ELSE {})

(* ---- C13: the final-pilot callback ran for the pilots in calls ---------- *)
\* refired: pilots that were final before this event (a repeated final
\* notification re-runs the callbacks): nothing is demanded of their tasks
DeathErrs(e, calls, refired) ==
  LET ref == KillSeq(FALSE, FALSE, tstate, NoDet, bound, calls)
      perTask(t) ==
        LET o   == e.tpost[t]
            own == ref.st[t] # tstate[t] IN
        \* a task in the middle of its submission is judged when that is over
        (IF t \in insub THEN {}
         ELSE IF own THEN
           IF bound[t] \in refired
           THEN E(o.st \in {tstate[t], FailedS(NT)}, "C13.OwnFail")
           ELSE E(o.st = FailedS(NT), "C13.OwnFail")
                \cup E(o.det = ref.det[t] /\ o.exc, "C13.OwnFailDetail")
                \* reported: the other components hear of it (unless the rig made
                \* the document of this very task unavailable)
                \cup E(o.st = FailedS(NT) /\ ~o.inj => o.pub, "C13.OwnFailPublished")
         ELSE E(o.st = tstate[t],
                IF IsFinal(NT, tstate[t])  THEN "C13.OthersKeepFinal"
                ELSE IF bound[t] = "none" THEN "C13.OthersKeepUnbound"
                ELSE "C13.OthersKeepBound"))
        \cup E(IsFinal(NT, tstate[t]) => o.st = tstate[t], "C06.FinalSticky")
        \cup LogErrs(t, o)
      dev == KillSeq(TRUE, TRUE, tstate, NoDet, bound, calls)
      same(r) == \A t \in Uids \ insub : e.tpost[t].st = r.st[t]
  IN UNION {perTask(t) : t \in Uids}
     \cup (IF same(ref) THEN {} ELSE IF same(dev) THEN {"N.D9"} ELSE {"N.UnmodelledPilotCb"})

(* ---- two writers of Task.state -------------------------------------------- *)
KeepName(t) == IF IsFinal(NT, tstate[t])  THEN "C13.OthersKeepFinal"
               ELSE IF bound[t] = "none" THEN "C13.OthersKeepUnbound"
               ELSE "C13.OthersKeepBound"

\* everybody except `but` is where it was
Untouched(e, but) ==
  UNION {E(e.tpost[t].st = tstate[t], KeepName(t))
         \cup E(IsFinal(NT, tstate[t]) => e.tpost[t].st = tstate[t], "C06.FinalSticky")
         \cup LogErrs(t, e.tpost[t]) : t \in Uids \ but}

\* Task._update(FAILED) by the callback for pilot p returned for task t
ApplyErrs(e, p, t) ==
  LET o == e.tpost[t] IN
  (IF t \notin Uids THEN {"X.UnknownTask"}
   ELSE IF IsFinal(NT, tstate[t])
        \* final by now (the application may have been told): stays what it is
        THEN E(o.st = tstate[t], "C06.FinalSticky") \cup LogErrs(t, o)
   ELSE IF bound[t] = p
        THEN E(o.st = FailedS(NT), "C13.OwnFail")
             \cup E(o.det = p /\ o.exc, "C13.OwnFailDetail") \cup LogErrs(t, o)
   ELSE E(o.st = tstate[t], KeepName(t)) \cup LogErrs(t, o))
  \cup Untouched(e, {t})

\* the callback returned: nobody it had to fail is left behind, and what it
\* failed was handed on
EndErrs(e, p) ==
  UNION {E(IsFinal(NT, e.tpost[t].st), "C13.OwnFail")
         \cup (IF e.tpost[t].st = FailedS(NT) /\ tstate[t] = FailedS(NT) /\ e.tpost[t].det = p
               THEN E(~e.tpost[t].inj => e.tpost[t].pub, "C13.OwnFailPublished") ELSE {})
         : t \in sel}
  \cup Untouched(e, {})
  \cup (IF e.raised THEN {"N.PilotCbRaised"} ELSE {})

\* Task._update called directly: a final task stays what it is
UpdateErrs(e) ==
  LET t == e.uid IN
  (IF t \in Uids
   THEN E(IsFinal(NT, tstate[t]) => e.tpost[t].st = tstate[t], "C06.FinalSticky")
        \cup LogErrs(t, e.tpost[t])
   ELSE {"X.UnknownTask"})
  \cup Untouched(e, {t})
  \cup (IF e.raised THEN {"N.TaskUpdateRaised"} ELSE {})

\* _update_tasks returned after other threads ran in between: judged against
\* where the tasks stood when it started (nb0) and where they stand now
NotifyEndErrs(e) ==
  LET ref == TRes(FALSE, e.batch, tstate)
      perTask(t) ==
        LET o    == e.tpost[t]
            log1 == cbLog[t] \o o.cbs
            d    == SubSeq(log1, nb0[t].n + 1, Len(log1))
            \* failed by the pilot callback in between: that path has no callback
            killed == o.st = FailedS(NT) /\ o.det # "none" /\ tstate[t] = FailedS(NT) IN
             LogErrs(t, o)
        \cup E(IsFinal(NT, tstate[t]) => o.st = tstate[t], "C06.FinalSticky")
        \cup (IF killed THEN {} ELSE E(Sync(nb0[t].st, o.st, d), "C06.GapsFilled"))
      stated == UNION {perTask(t) : t \in Uids}
      \* (the two callback levels are not compared here: an interruption between
      \* them splits their logs over several events)
      applied == \A t \in Uids : e.tpost[t].st = ref.st[t]
  IN stated
     \cup (IF stated = {} /\ ~applied THEN {"C06.NotApplied"} ELSE {})
     \cup (IF e.raised THEN {"N.NotifyRaised"} ELSE {})

(* ---- C14 (a) ------------------------------------------------------------- *)
PNotifyErrs(e) ==
  LET b     == e.batch
      full  == PRes(FALSE, FALSE, b, pstate)
      first == PRes(TRUE,  FALSE, b, pstate)
      code  == PRes(TRUE,  TRUE,  b, pstate)
      onlyUnk == \A i \in 1 .. Len(b) : b[i][1] = "pilot" => b[i][2] \notin Pids
      perPilot(p) ==
        LET o    == e.ppost[p]
            log1 == pcbLog[p] \o o.cbs IN
             E(PMonotoneLog(NP, log1) /\ AtOK(NP, o.cbs, o.at), "C14.PMonotone")
        \cup E(PGapsFilledLog(NP, log1) /\ Sync(pstate[p], o.st, o.cbs), "C14.PGapsFilled")
        \cup E(PFinalNotLeftLog(NP, log1) /\ (IsFinal(NP, pstate[p]) => IsFinal(NP, o.st)),
               "C14.PFinalNotLeft")
      unk == E(e.stray = 0 /\ e.npilots = Cardinality(Pids), "C14.UnknownIgnored")
             \cup (IF onlyUnk
                   THEN E(~e.raised /\ \A p \in Pids : e.ppost[p].st = pstate[p] /\ Len(e.ppost[p].cbs) = 0,
                          "C14.UnknownIgnored")
                   ELSE {})
      stated == UNION {perPilot(p) : p \in Pids} \cup unk
      same(r) == \A p \in Pids :
                   /\ e.ppost[p].st = r.st[p]
                   /\ Destutter(LastOr(0, pcbLog[p]), e.ppost[p].cbs) = r.cb[p]
                   /\ e.ppost[p].pcbs = e.ppost[p].cbs
      applied(r) == \A p \in Pids : /\ e.ppost[p].st = r.st[p]
                                    /\ e.ppost[p].pcbs = e.ppost[p].cbs
  IN stated
     \cup (IF stated = {} /\ ~applied(full) /\ ~applied(first) /\ ~applied(code)
           THEN {"C14.PNotApplied"} ELSE {})
     \cup (IF same(full) THEN {}
           ELSE IF same(first) THEN {"N.D19"}
           ELSE IF same(code) THEN {"N.D19", "N.PFinalRaise"}
           ELSE {"N.UnmodelledPilotUpdate"})
     \cup (IF e.raised THEN {"N.PNotifyRaised"} ELSE {})
     \cup (IF e.raised /\ ~code.raised THEN {"N.UnexplainedRaise"} ELSE {})

\* submit_tasks is over: the tasks exist, and those whose pilot ended while they
\* were created are FAILED (whichever of the two threads went first)
SubmitEndErrs(e) ==
  UNION {E(e.tpost[t].st = FailedS(NT), "C13.OwnFail")
         \cup E(e.tpost[t].det = bound[t] /\ e.tpost[t].exc, "C13.OwnFailDetail") : t \in owed}
  \cup Untouched(e, insub)
  \cup (IF \A t \in insub : e.tpost[t].ex THEN {} ELSE {"N.SubmitIncomplete"})
  \cup (IF e.raised THEN {"N.SubmitRaised"} ELSE {})

DiedIn(e) ==
  IF e.ev = "PilotFinal" THEN {e.pilot}
  ELSE IF e.ev = "PNotify"
       THEN SeqToSet(e.calls) \cup {p \in Pids : ~IsFinal(NP, pstate[p]) /\ IsFinal(NP, e.ppost[p].st)}
  ELSE {}

(* ---- one monitor step per event ----------------------------------------- *)
Step ==
  /\ ~fin /\ l <= Len(Ev)
  /\ LET e == Ev[l] IN
     /\ l' = l + 1
     /\ fin' = FALSE
     /\ ledges' = ledges \cup NewEdges(e)
     /\ insub' = IF e.ev = "SubmitBegin" THEN SeqToSet(e.uids) \cap Uids
                 ELSE IF e.ev = "SubmitEnd" THEN {} ELSE insub
     /\ owed'  = IF e.ev = "SubmitEnd" THEN {}
                 ELSE owed \cup {t \in insub : bound[t] \in DiedIn(e)}
     /\ tstate' = [t \in Uids |-> e.tpost[t].st]
     /\ cbLog'  = [t \in Uids |-> cbLog[t] \o e.tpost[t].cbs]
     /\ pstate' = [p \in Pids |-> e.ppost[p].st]
     /\ pcbLog' = [p \in Pids |-> pcbLog[p] \o e.ppost[p].cbs]
     /\ CASE e.ev = "Notify" ->
               /\ errs' = errs \cup Always(e) \cup NotifyErrs(e, e.batch)
               /\ UNCHANGED <<bound, added, sel, nb0>>
          [] e.ev = "Bind" ->
               LET t  == e.uid
                   ok == t \in Uids /\ ~IsFinal(NT, tstate[t]) /\ tstate[t] < e.state IN
               /\ errs' = errs \cup Always(e) \cup NotifyErrs(e, <<<<e.uid, e.state>>>>)
                            \cup (IF ok /\ e.tpost[t].pilot # e.pilot THEN {"N.BindingNotVisible"} ELSE {})
               /\ bound' = IF ok THEN [bound EXCEPT ![t] = e.pilot] ELSE bound
               /\ UNCHANGED <<added, sel, nb0>>
          [] e.ev = "PilotFinal" ->
               /\ errs' = errs \cup Always(e) \cup DeathErrs(e, <<e.pilot>>, {})
               /\ UNCHANGED <<bound, added, sel, nb0>>
          [] e.ev = "AddPilots" ->
               /\ errs' = errs \cup Always(e) \cup Untouched(e, {})
                            \cup (IF e.raised THEN {"N.AddRaised"} ELSE {})
               /\ added' = added \cup (SeqToSet(e.pilots) \cap Pids)
               /\ UNCHANGED <<bound, sel, nb0>>
          [] e.ev = "TaskUpdate" ->
               /\ errs' = errs \cup Always(e) \cup UpdateErrs(e)
               /\ UNCHANGED <<bound, added, sel, nb0>>
          [] e.ev = "DeathBegin" ->
               /\ errs' = errs \cup Always(e) \cup Untouched(e, {})
               /\ sel' = {t \in Uids : bound[t] = e.pilot /\ ~IsFinal(NT, tstate[t])}
               /\ UNCHANGED <<bound, added, nb0>>
          [] e.ev = "DeathApply" ->
               /\ errs' = errs \cup Always(e) \cup ApplyErrs(e, e.pilot, e.uid)
               /\ UNCHANGED <<bound, added, sel, nb0>>
          [] e.ev \in {"ApiCall", "ServiceInfo", "PilotCancel", "SubmitBegin", "CbRegistry",
                      "PilotRegister"} ->
               /\ errs' = errs \cup Always(e) \cup Untouched(e, {})
                            \cup (IF e.raised THEN {"N.CallRaised"} ELSE {})
               /\ UNCHANGED <<bound, added, sel, nb0>>
          [] e.ev = "SubmitEnd" ->
               /\ errs' = errs \cup Always(e) \cup SubmitEndErrs(e)
               /\ UNCHANGED <<bound, added, sel, nb0>>
          [] e.ev = "NotifyBegin" ->
               /\ errs' = errs \cup Always(e) \cup Untouched(e, {})
               /\ nb0' = [t \in Uids |-> [st |-> tstate[t], n |-> Len(cbLog[t])]]
               /\ UNCHANGED <<bound, added, sel>>
          [] e.ev = "NotifyPartial" ->
               /\ errs' = errs \cup Always(e) \cup UNION {LogErrs(t, e.tpost[t])
                                           \cup E(IsFinal(NT, tstate[t]) => e.tpost[t].st = tstate[t],
                                                  "C06.FinalSticky") : t \in Uids}
               /\ UNCHANGED <<bound, added, sel, nb0>>
          [] e.ev = "NotifyEnd" ->
               /\ errs' = errs \cup Always(e) \cup NotifyEndErrs(e)
               /\ UNCHANGED <<bound, added, sel, nb0>>
          [] e.ev = "DeathEnd" ->
               /\ errs' = errs \cup Always(e) \cup EndErrs(e, e.pilot)
               /\ sel' = {}
               /\ UNCHANGED <<bound, added, nb0>>
          [] e.ev = "PNotify" ->
               \* a pilot has reached a final state when the application can
               \* see it final (Pilot.state), whether or not the state callbacks
               \* ran: an exception between the two leaves its tasks unfailed
               \* C13 speaks of the pilots the task manager was given (add_pilots)
               \* ... or when its final notification was delivered (what the code
               \* makes of the batch: the first pilot entry, see D19): a final state
               \* reached over a gap must not be lost on the client
               LET told == PRes(TRUE, FALSE, e.batch, pstate).st
                   died == {p \in Pids : ~IsFinal(NP, pstate[p])
                                         /\ (IsFinal(NP, e.ppost[p].st) \/ IsFinal(NP, told[p]))}
                   all  == e.calls \o SetToSeq(died \ SeqToSet(e.calls))
                   ends == SelectSeq(all, LAMBDA q : q \in added) IN
               /\ errs' = errs \cup Always(e) \cup PNotifyErrs(e)
                            \cup DeathErrs(e, ends, {p \in Pids : IsFinal(NP, pstate[p])})
                            \cup (IF died \subseteq SeqToSet(e.calls) THEN {}
                                  ELSE {"N.FinalWithoutCallback"})
               /\ UNCHANGED <<bound, added, sel, nb0>>
          [] e.ev = "RemovePilots" ->
               \* TaskManager.remove_pilots: the tasks bound to the pilot stay
               \* bound (nothing cancels or unbinds them), so the pilot's end is
               \* still judged by C13; a final task stays what it is
               /\ errs' = errs \cup Always(e) \cup UNION {LogErrs(t, e.tpost[t]) : t \in Uids}
                            \cup UNION {E(IsFinal(NT, tstate[t]) => e.tpost[t].st = tstate[t],
                                          "C06.FinalSticky") : t \in Uids}
                            \cup (IF \A t \in Uids : e.tpost[t].st = tstate[t] THEN {}
                                  ELSE {"N.RemoveChangedTasks"})
                            \cup (IF e.raised THEN {"N.RemoveRaised"} ELSE {})
               /\ UNCHANGED <<bound, added, sel, nb0>>
          [] OTHER ->
               /\ errs' = errs \cup Always(e) \cup {"X.UnknownEvent"}
               /\ UNCHANGED <<bound, added, sel, nb0>>
  /\ UNCHANGED tid

Finish ==
  /\ ~fin /\ l > Len(Ev)
  /\ fin' = TRUE
  /\ PrintT(<<"RESULT", T.tid, errs>>)
  /\ UNCHANGED <<tid, l, tstate, cbLog, bound, pstate, pcbLog, errs, added, sel, nb0,
                 ledges, insub, owed>>

Next == Step \/ Finish
Spec == Init /\ [][Next]_vars
=============================================================================
