----------------------------- MODULE ClientState -----------------------------
(***************************************************************************)
(* Design model of what an application observes of task and pilot states   *)
(* (C06, C13, C14a), in the shape of the client-side code:                 *)
(*   Notify(b)      TaskManager._update_tasks on a batch of notifications  *)
(*                  (+ _task_cb for every announced state)                 *)
(*   Bind(t, p)     the same path with a full task dict carrying 'pilot':  *)
(*                  the only channel through which Task.pilot is learned   *)
(*   PilotFinal(p)  TaskManager._pilot_state_cb called for a final pilot   *)
(*   PNotify(b)     PilotManager._state_sub_cb / _update_pilot /           *)
(*                  Pilot._update on a batch; the task manager's callback  *)
(*                  is registered on the pilots (add_pilots), so a pilot   *)
(*                  entering a final state runs PilotFinal's effect        *)
(*   RemovePilots(p) TaskManager.remove_pilots: the pilot leaves the task  *)
(*                  manager, the tasks already bound to it stay bound      *)
(*   AddPilots(G)   TaskManager.add_pilots on a list of pilots: each of    *)
(*                  them is watched from then on                           *)
(*   DeathSelect(p), DeathApply(t), DeathEnd                               *)
(*                  _pilot_state_cb as what it is next to the state        *)
(*                  subscriber thread: a second writer of Task.state that  *)
(*                  takes no lock.  It selects its victims (bound to p,    *)
(*                  not final), then applies FAILED to them one by one     *)
(*                  through Task._update; Notify / Bind may happen in      *)
(*                  between, so a victim may be final (and announced) by   *)
(*                  the time FAILED is applied                             *)
(*   DirectUpdate(t, s) Task._update(<final state>) on a final task        *)
(*   CbRegister(c, sc), CbUnregister(c, sc)                                *)
(*                  TaskManager.register_callback / unregister_callback    *)
(*                  for the callback object c and the scope sc (a task, or *)
(*                  "*" for all tasks).  reg[c] are its scopes; clog[c][t] *)
(*                  is what c was told about t since it covers t.  With    *)
(*                  Bulk the dispatch is _bulk_cbs: per batch every        *)
(*                  callback is called once with the tasks that changed    *)
(*                  (cbLog then holds the state after each batch).         *)
(*   ApiCall(s)     wait_tasks(state=s) / list_tasks / get_tasks between   *)
(*                  notifications: reads only; in particular the module    *)
(*                  level state tables stay what they are                  *)
(*   SetInfo(t, k)  a service task reports its startup info (service_up    *)
(*                  handler / Task._set_info), a string or a dict          *)
(*   Register       submit_tasks registers the Task objects it created     *)
(*                  (unreg): the tasks lock is held from creation to       *)
(*                  registration, so the pilot callback's scan comes       *)
(*                  before or after, not in between                        *)
(*   NBegin(b), NSelect, NApply, NToFire, NFire                            *)
(*                  _update_tasks step by step, the other way round of the *)
(*                  same race: for one entry the passed states are         *)
(*                  computed from Task.state, then applied one by one      *)
(*                  through Task._update, and after the whole batch the    *)
(*                  callbacks are fired; the pilot callback may set FAILED *)
(*                  between any two of these steps                         *)
(* Code bookkeeping: tstate (Task._state), bound (Task._pilot), detail     *)
(* (pilot named in Task.exception_detail), pstate (Pilot._state).          *)
(* Ghosts: cbLog / pcbLog (states handed to TASK_STATE / PILOT_STATE       *)
(* callbacks), iso, ownOK, keepOK, unkOK, pcomplete, dead.                 *)
(*                                                                         *)
(* Deviations of the code from the documented design (FALSE = intended):   *)
(*   DevFinalRaise      D8  contradictory final raises, batch abandoned    *)
(*   DevPilotCbAll      D9  pilot callback fails tasks of every pilot      *)
(*   DevPilotCbCanceled D9  ... and turns CANCELED tasks into FAILED       *)
(*   DevPBatchFirst     D19 only the first pilot entry of a batch is used  *)
(*   DevPFinalRaise         DONE pilot + other final raises                *)
(*   DevRemovedUnwatched    (no known defect; seeded regression) a removed *)
(*                          pilot is no longer watched: its end fails nobody *)
(*   DevApplyNoRecheck      (seeded regression) Task._update lets an update *)
(*                          through although the task is final             *)
(*   DevApplyOverCanceled   D23 Task._update copies the notified state over *)
(*                          a CANCELED task (DONE / FAILED are protected)  *)
(*   DevLoopAborts          D24 an exception inside the callback's loop    *)
(*                          (as_dict of one task) shields the later tasks  *)
(*   DevAnnounceUnapplied   D25 _update_tasks announces every passed state *)
(*                          it computed, applied by Task._update or not    *)
(*   DevWaitExtendsFinal    (seeded regression) wait_tasks(state=s) adds s *)
(*                          to the module's list of final states           *)
(*   DevInfoMerge           (seeded regression) finalising a service task  *)
(*                          whose info is a dict raises in Task._update    *)
(*   DevSubmitOtherLock     (seeded regression) submit_tasks does not hold *)
(*                          the tasks lock: the scan may come in between   *)
(*   DevRegisterWipes       (seeded regression) a registration drops the   *)
(*                          other callbacks of the same scope              *)
(*   DevBulkOverwrites      (seeded regression) bulk dispatch tells a      *)
(*                          callback registered on several tasks about one *)
(*                          of them only                                   *)
(*   DevAddLastWatched      (seeded regression) of a list handed to        *)
(*                          add_pilots only one pilot is watched           *)
(* DevPBatchFirst / DevPFinalRaise leave the invariants of C14 intact (they *)
(* break only PBatchComplete, which is not part of any listed property).   *)
(***************************************************************************)
EXTENDS ClientStateOps, TLC

CONSTANTS Tasks, UnknownTasks,      \* known / unknown task ids
          Pilots, UnknownPilots,    \* known / unknown pilot ids
          PTypes,                   \* 'type' values of pilot batch entries
          MaxBatch, MaxPBatch,      \* entries per batch
          BindAt,                   \* state announced together with the binding
          EarlyBind,                \* TRUE: tasks may be born bound (td.pilot)
          DirectFinal,              \* TRUE: PilotFinal may be called directly
          DevFinalRaise, DevPilotCbAll, DevPilotCbCanceled,
          DevPBatchFirst, DevPFinalRaise,
          AllowRemove,              \* TRUE: RemovePilots is part of the action set
          DevRemovedUnwatched,
          Race,                     \* TRUE: two-step pilot death and DirectUpdate
          LateAdd,                  \* TRUE: pilots join the task manager by AddPilots
          DevApplyNoRecheck, DevApplyOverCanceled, DevLoopAborts, DevAddLastWatched,
          DevAnnounceUnapplied,
          Services,                 \* tasks of mode TASK_SERVICE
          Api,                      \* TRUE: ApiCall / SetInfo are part of the action set
          LateSubmit,               \* TRUE: tasks may be in the middle of their submission
          DevWaitExtendsFinal, DevInfoMerge, DevSubmitOtherLock,
          Cbs,                      \* application callback objects (besides the recorder)
          Bulk,                     \* TRUE: bulk dispatch (_USE_BULK_CB)
          DevRegisterWipes, DevBulkOverwrites

VARIABLES tstate, cbLog, bound, detail, pstate, pcbLog, dead, removed,
          iso, ownOK, keepOK, unkOK, pcomplete,
          dying, todo, own,         \* pilot callback in progress: pilot, victims left, reference victims
          added, watched,           \* pilots handed to add_pilots / with _pilot_state_cb registered
          nphase, nb, plan, tonote, \* _update_tasks in progress: phase, entries left, <<uid, states
                                    \* left to apply>>, <<uid, state>> to announce
          atOK,                     \* ghost: a callback never announced a state Task.state contradicts
          tables,                   \* states the module tables list as final beyond the real ones
          info,                     \* startup info of the tasks: "none" | "str" | "dict"
          unreg,                    \* Task objects created by submit_tasks, not yet registered
          reg, clog, since,         \* callback registry: scopes of each callback, what it was told
                                    \* per task, length of cbLog when it began to cover the task
          want                      \* ghost: the scopes the application registered and did not unregister

vars == <<tstate, cbLog, bound, detail, pstate, pcbLog, dead, removed,
          iso, ownOK, keepOK, unkOK, pcomplete, dying, todo, own, added, watched,
          nphase, nb, plan, tonote, atOK, tables, info, unreg, reg, clog, since, want>>

step == <<nphase, nb, plan, tonote, atOK, tables, info, unreg, reg, clog, since, want>>

race == <<dying, todo, own>>
adds == <<added, watched>>

None == "none"

TEntries == (Tasks \cup UnknownTasks) \X AllStates(NT)
TBatches == UNION {[1 .. k -> TEntries] : k \in 1 .. MaxBatch}
PEntries == PTypes \X (Pilots \cup UnknownPilots) \X AllStates(NP)
PBatches == UNION {[1 .. k -> PEntries] : k \in 1 .. MaxPBatch}

TypeOK ==
  /\ tstate \in [Tasks -> AllStates(NT)]
  /\ bound  \in [Tasks -> Pilots \cup {None}]
  /\ detail \in [Tasks -> Pilots \cup {None}]
  /\ pstate \in [Pilots -> AllStates(NP)]
  /\ dead \subseteq Pilots /\ removed \subseteq Pilots
  /\ dying \in Pilots \cup {None} /\ todo \subseteq Tasks /\ own \subseteq Tasks
  /\ watched \subseteq added /\ added \subseteq Pilots
  /\ nphase \in {"idle", "apply", "fire"} /\ atOK \in BOOLEAN
  /\ tables \subseteq AllStates(NT) /\ unreg \subseteq Tasks
  /\ info \in [Tasks -> {"none", "str", "dict"}]
  /\ \A t \in Tasks  : \A i \in 1 .. Len(cbLog[t])  : cbLog[t][i]  \in AllStates(NT)
  /\ \A p \in Pilots : \A i \in 1 .. Len(pcbLog[p]) : pcbLog[p][i] \in AllStates(NP)

Init ==
  /\ tstate = [t \in Tasks |-> 0]
  /\ cbLog  = [t \in Tasks |-> <<>>]
  /\ bound \in [Tasks -> IF EarlyBind THEN Pilots \cup {None} ELSE {None}]
  /\ detail = [t \in Tasks |-> None]
  /\ pstate = [p \in Pilots |-> 0]
  /\ pcbLog = [p \in Pilots |-> <<>>]
  /\ dead = {} /\ removed = {}
  /\ dying = None /\ todo = {} /\ own = {}
  /\ added = (IF LateAdd THEN {} ELSE Pilots) /\ watched = added
  /\ nphase = "idle" /\ nb = <<>> /\ plan = <<>> /\ tonote = <<>> /\ atOK = TRUE
  /\ tables = {} /\ info = [t \in Tasks |-> "none"]
  /\ reg = [c \in Cbs |-> {}] /\ want = [c \in Cbs |-> {}]
  /\ clog = [c \in Cbs |-> [t \in Tasks |-> <<>>]]
  /\ since = [c \in Cbs |-> [t \in Tasks |-> 0]]
  \* tasks in the middle of their submission: early bound, not yet registered
  /\ unreg \in (IF LateSubmit THEN SUBSET {t \in Tasks : bound[t] # None} ELSE {{}})
  /\ iso = TRUE /\ ownOK = TRUE /\ keepOK = TRUE /\ unkOK = TRUE /\ pcomplete = TRUE

(* ------------------------------------------------------------------------ *)
\* service tasks whose finalisation raises in Task._update
Boom == IF DevInfoMerge THEN {t \in Services : info[t] = "dict"} ELSE {}

\* callback c covers task t
Covers(rg, c, t) == t \in rg[c] \/ "*" \in rg[c]

Notify(b) ==
  LET r == TResB(DevFinalRaise, Boom, b, tstate)
      \* what a callback is told about t: per state, or (bulk) where t stands now
      ann(t) == IF Bulk THEN (IF r.st[t] # tstate[t] /\ ~r.raised THEN <<r.st[t]>> ELSE <<>>)
                ELSE r.cb[t]
      \* DevBulkOverwrites: of the tasks a callback is registered on one by one,
      \* the last one of the batch replaces the callback's entry
      mine(c)  == {t \in reg[c] \cap Tasks : ann(t) # <<>>}
      told(c, t) == IF Bulk /\ DevBulkOverwrites /\ mine(c) # {}
                    THEN t = CHOOSE x \in mine(c) : TRUE
                    ELSE Covers(reg, c, t) IN
  /\ nphase = "idle" /\ unreg = {}
  /\ tstate' = r.st
  /\ cbLog'  = [t \in Tasks |-> cbLog[t] \o ann(t)]
  /\ clog'   = [c \in Cbs |-> [t \in Tasks |-> IF told(c, t) THEN clog[c][t] \o ann(t)
                                                 ELSE clog[c][t]]]
  /\ iso'    = IsolatedB(DevFinalRaise, Boom, b, tstate)
  /\ UNCHANGED <<bound, detail, pstate, pcbLog, dead, removed, ownOK, keepOK, unkOK, pcomplete,
                 race, adds, nphase, nb, plan, tonote, atOK, tables, info, unreg, reg, since, want>>

\* the tmgr scheduler binds t to p: full task dict with 'pilot' and the next
\* state; Task._update copies the pilot because the state moves
Bind(t, p) ==
  /\ bound[t] = None /\ tstate[t] < BindAt /\ nphase = "idle" /\ unreg = {}
  /\ p \notin dead /\ p \notin removed /\ ~IsFinal(NP, pstate[p])
  /\ p \in added /\ p # dying
  /\ LET b == <<<<t, BindAt>>>>
         r == TRes(DevFinalRaise, b, tstate) IN
     /\ tstate' = r.st
     /\ cbLog'  = [u \in Tasks |-> cbLog[u] \o r.cb[u]]
     /\ clog'   = [c \in Cbs |-> [u \in Tasks |-> IF Covers(reg, c, u) THEN clog[c][u] \o r.cb[u]
                                                  ELSE clog[c][u]]]
     /\ iso'    = Isolated(DevFinalRaise, b, tstate)
  /\ bound' = [bound EXCEPT ![t] = p]
  /\ UNCHANGED <<detail, pstate, pcbLog, dead, removed, ownOK, keepOK, unkOK, pcomplete,
                 race, adds, nphase, nb, plan, tonote, atOK, tables, info, unreg, reg, since, want>>

\* effect of the final-pilot callback for the pilots in `calls`, and what
\* C13 says about it (reference = KillSeq without deviations)
\* fired: the pilots among calls for which the task manager's callback runs
Deaths(calls, fired) ==
  LET k0  == KillSeq(DevPilotCbAll, DevPilotCbCanceled, tstate, detail, bound, fired)
      r0  == KillSeq(FALSE, FALSE, tstate, detail, bound, calls)
      \* Task objects not yet registered are not in the table the callback scans;
      \* they are judged when their registration is over (Register)
      k   == [st  |-> [t \in Tasks |-> IF t \in unreg THEN tstate[t] ELSE k0.st[t]],
              det |-> [t \in Tasks |-> IF t \in unreg THEN detail[t] ELSE k0.det[t]]]
      ref == [st  |-> [t \in Tasks |-> IF t \in unreg THEN tstate[t] ELSE r0.st[t]],
              det |-> [t \in Tasks |-> IF t \in unreg THEN detail[t] ELSE r0.det[t]]] IN
  \* the scan takes the tasks lock, which a submission holds until it registered
  /\ unreg = {} \/ DevSubmitOtherLock
  /\ tstate' = k.st
  /\ detail' = k.det
  /\ dead'   = dead \cup SeqToSet(calls)
  /\ ownOK'  = \A t \in Tasks : ref.st[t] # tstate[t] => k.st[t] = FailedS(NT) /\ k.det[t] = ref.det[t]
  /\ keepOK' = \A t \in Tasks : ref.st[t] = tstate[t] => k.st[t] = tstate[t]

PilotFinal(p) ==
  /\ DirectFinal /\ p \notin dead /\ dying = None
  /\ Deaths(<<p>>, <<p>>)
  /\ UNCHANGED <<cbLog, bound, pstate, pcbLog, removed, iso, unkOK, pcomplete, race, adds, step>>

PNotify(b) ==
  LET r       == PRes(DevPBatchFirst, DevPFinalRaise, b, pstate)
      onlyUnk == \A i \in 1 .. Len(b) : b[i][1] = "pilot" => b[i][2] \notin Pilots IN
  /\ pstate' = r.st
  /\ pcbLog' = [p \in Pilots |-> pcbLog[p] \o r.cb[p]]
  /\ dying = None
  \* C13 speaks of the pilots the task manager was given; its callback runs for
  \* those it watches
  /\ Deaths(SelectSeq(r.calls, LAMBDA q : q \in added),
            SelectSeq(r.calls, LAMBDA q : q \in watched /\ (DevRemovedUnwatched => q \notin removed)))
  /\ unkOK'  = (onlyUnk => r.st = pstate /\ ~r.raised /\ r.calls = <<>>
                           /\ \A p \in Pilots : r.cb[p] = <<>>)
  /\ pcomplete' = r.complete
  /\ UNCHANGED <<cbLog, bound, removed, iso, race, adds, step>>

\* the pilot leaves the task manager; nothing is said to the tasks bound to it
\* (remove_pilots neither cancels nor unbinds them), so C13 keeps applying
RemovePilots(p) ==
  /\ AllowRemove /\ p \notin removed /\ p \in added /\ unreg = {}
  /\ removed' = removed \cup {p}
  /\ UNCHANGED <<tstate, cbLog, bound, detail, pstate, pcbLog, dead,
                 iso, ownOK, keepOK, unkOK, pcomplete, race, adds, step>>

\* add_pilots(G): every pilot of the list is watched from now on
AddPilots(G) ==
  /\ LateAdd /\ G # {} /\ G \cap added = {} /\ unreg = {}
  /\ \A p \in G : ~IsFinal(NP, pstate[p]) /\ p \notin dead
  /\ added'   = added \cup G
  /\ watched' = watched \cup (IF DevAddLastWatched THEN {CHOOSE p \in G : TRUE} ELSE G)
  /\ UNCHANGED <<tstate, cbLog, bound, detail, pstate, pcbLog, dead, removed,
                 iso, ownOK, keepOK, unkOK, pcomplete, race, step>>

(* ---- the pilot callback as a second writer of Task.state ---------------- *)
\* the callback looks at the tasks: victims are those bound to p and not final
DeathSelect(p) ==
  /\ Race /\ DirectFinal /\ dying = None /\ p \notin dead /\ unreg = {}
  /\ dying' = p
  /\ own'   = {t \in Tasks : Own(tstate, bound, t, p)}
  /\ todo'  = {t \in Tasks : Hit(DevPilotCbAll, DevPilotCbCanceled, tstate, bound, t, p)}
  /\ UNCHANGED <<tstate, cbLog, bound, detail, pstate, pcbLog, dead, removed,
                 iso, ownOK, keepOK, unkOK, pcomplete, adds, step>>

\* Task._update(FAILED) on one victim: it may have become final (and been
\* announced to the application) since it was selected - then nothing changes
Overwrites(cur, tgt) ==
  \/ ~IsFinal(NT, cur)
  \/ DevApplyNoRecheck
  \/ DevApplyOverCanceled /\ cur = CanceledS(NT) /\ tgt # DoneS(NT)

DeathApply(t) ==
  /\ dying # None /\ t \in todo
  /\ LET ch == Overwrites(tstate[t], FailedS(NT)) IN
     /\ tstate' = IF ch THEN [tstate EXCEPT ![t] = FailedS(NT)] ELSE tstate
     /\ detail' = IF ch THEN [detail EXCEPT ![t] = dying] ELSE detail
     /\ keepOK' = (keepOK /\ (ch => t \in own))
  \* an exception after the update (as_dict) ends the loop: the rest is shielded
  /\ todo' \in {todo \ {t}} \cup (IF DevLoopAborts THEN {{}} ELSE {})
  /\ UNCHANGED <<cbLog, bound, pstate, pcbLog, dead, removed, iso, ownOK, unkOK, pcomplete,
                 dying, own, adds, step>>

\* when the callback returns every reference victim is final: FAILED by the
\* callback, or whatever the application was told in between
DeathEnd ==
  /\ dying # None /\ todo = {}
  /\ ownOK' = \A t \in own : IsFinal(NT, tstate[t])
  /\ dead'  = dead \cup {dying}
  /\ dying' = None /\ own' = {}
  /\ UNCHANGED <<tstate, cbLog, bound, detail, pstate, pcbLog, removed,
                 iso, keepOK, unkOK, pcomplete, todo, adds, step>>

\* Task._update with a final state on a task that is final already
DirectUpdate(t, s) ==
  /\ Race /\ IsFinal(NT, tstate[t]) /\ IsFinal(NT, s) /\ s # tstate[t] /\ unreg = {}
  /\ tstate' = IF Overwrites(tstate[t], s) THEN [tstate EXCEPT ![t] = s] ELSE tstate
  /\ UNCHANGED <<cbLog, bound, detail, pstate, pcbLog, dead, removed,
                 iso, ownOK, keepOK, unkOK, pcomplete, race, adds, step>>

(* ---- the callback registry ------------------------------------------------------ *)
CbRegister(c, sc) ==
  /\ sc \notin want[c] /\ nphase = "idle" /\ unreg = {}
  /\ LET rg == [x \in Cbs |-> IF x = c THEN reg[x] \cup {sc}
                             ELSE IF DevRegisterWipes THEN reg[x] \ {sc} ELSE reg[x]] IN
     /\ reg'  = rg
     /\ want' = [want EXCEPT ![c] = @ \cup {sc}]
     \* tasks c covers from now on: it has been told nothing about them yet
     /\ since' = [x \in Cbs |-> [t \in Tasks |->
                    IF x = c /\ ~Covers(want, c, t) THEN Len(cbLog[t]) ELSE since[x][t]]]
     /\ clog'  = [x \in Cbs |-> [t \in Tasks |->
                    IF x = c /\ ~Covers(want, c, t) THEN <<>> ELSE clog[x][t]]]
  /\ UNCHANGED <<tstate, cbLog, bound, detail, pstate, pcbLog, dead, removed,
                 iso, ownOK, keepOK, unkOK, pcomplete, race, adds,
                 nphase, nb, plan, tonote, atOK, tables, info, unreg>>

CbUnregister(c, sc) ==
  /\ sc \in want[c] /\ nphase = "idle" /\ unreg = {}
  /\ reg'  = [reg  EXCEPT ![c] = @ \ {sc}]
  /\ want' = [want EXCEPT ![c] = @ \ {sc}]
  /\ UNCHANGED <<tstate, cbLog, bound, detail, pstate, pcbLog, dead, removed,
                 iso, ownOK, keepOK, unkOK, pcomplete, race, adds,
                 nphase, nb, plan, tonote, atOK, tables, info, unreg, clog, since>>

(* ---- application calls, service info, submission ----------------------------- *)
ApiCall(s) ==
  /\ Api /\ nphase = "idle" /\ unreg = {}
  /\ tables' = IF DevWaitExtendsFinal /\ ~IsFinal(NT, s) THEN tables \cup {s} ELSE tables
  /\ UNCHANGED <<tstate, cbLog, bound, detail, pstate, pcbLog, dead, removed,
                 iso, ownOK, keepOK, unkOK, pcomplete, race, adds,
                 nphase, nb, plan, tonote, atOK, info, unreg, reg, clog, since, want>>

SetInfo(t, k) ==
  /\ Api /\ t \in Services /\ ~IsFinal(NT, tstate[t]) /\ nphase = "idle" /\ unreg = {}
  /\ info' = [info EXCEPT ![t] = k]
  /\ UNCHANGED <<tstate, cbLog, bound, detail, pstate, pcbLog, dead, removed,
                 iso, ownOK, keepOK, unkOK, pcomplete, race, adds,
                 nphase, nb, plan, tonote, atOK, tables, unreg, reg, clog, since, want>>

\* the submission is over: whichever thread went first, a task whose pilot has
\* ended by now is FAILED (the scan that came later found it)
Register ==
  /\ unreg # {}
  /\ ownOK' = \A t \in unreg : bound[t] \in dead => tstate[t] = FailedS(NT)
  /\ unreg' = {}
  /\ UNCHANGED <<tstate, cbLog, bound, detail, pstate, pcbLog, dead, removed,
                 iso, keepOK, unkOK, pcomplete, race, adds,
                 nphase, nb, plan, tonote, atOK, tables, info, reg, clog, since, want>>

(* ---- _update_tasks step by step -------------------------------------------- *)
NBegin(b) ==
  /\ Race /\ nphase = "idle" /\ unreg = {}
  /\ nphase' = "apply" /\ nb' = b /\ plan' = <<>> /\ tonote' = <<>>
  /\ UNCHANGED <<tstate, cbLog, bound, detail, pstate, pcbLog, dead, removed,
                 iso, ownOK, keepOK, unkOK, pcomplete, race, adds, atOK, tables, info, unreg, reg, clog, since, want>>

\* next entry: what _task_state_progress makes of Task.state as it is now
NSelect ==
  /\ nphase = "apply" /\ plan = <<>> /\ nb # <<>>
  /\ LET e  == Head(nb)
         ps == IF e[1] \in Tasks THEN TRes(FALSE, <<e>>, tstate).cb[e[1]] ELSE <<>> IN
     plan' = IF ps = <<>> THEN <<>> ELSE <<e[1], ps>>
  /\ nb' = Tail(nb)
  /\ UNCHANGED <<tstate, cbLog, bound, detail, pstate, pcbLog, dead, removed,
                 iso, ownOK, keepOK, unkOK, pcomplete, race, adds, nphase, tonote, atOK, tables, info, unreg, reg, clog, since, want>>

\* Task._update for the next passed state: a no-op if the task is final by now
NApply ==
  /\ nphase = "apply" /\ plan # <<>>
  /\ LET u  == plan[1]
         ss == plan[2]
         ok == ~IsFinal(NT, tstate[u]) IN
     /\ tstate' = IF ok THEN [tstate EXCEPT ![u] = Head(ss)] ELSE tstate
     /\ tonote' = IF ok \/ DevAnnounceUnapplied THEN Append(tonote, <<u, Head(ss)>>) ELSE tonote
     /\ plan'   = IF Len(ss) = 1 THEN <<>> ELSE <<u, Tail(ss)>>
  /\ UNCHANGED <<cbLog, bound, detail, pstate, pcbLog, dead, removed,
                 iso, ownOK, keepOK, unkOK, pcomplete, race, adds, nphase, nb, atOK, tables, info, unreg, reg, clog, since, want>>

NToFire ==
  /\ nphase = "apply" /\ plan = <<>> /\ nb = <<>>
  /\ nphase' = IF tonote = <<>> THEN "idle" ELSE "fire"
  /\ UNCHANGED <<tstate, cbLog, bound, detail, pstate, pcbLog, dead, removed,
                 iso, ownOK, keepOK, unkOK, pcomplete, race, adds, nb, plan, tonote, atOK, tables, info, unreg, reg, clog, since, want>>

\* one TASK_STATE callback: the application compares it with Task.state
NFire ==
  /\ nphase = "fire"
  /\ LET u == tonote[1][1]
         s == tonote[1][2] IN
     /\ cbLog' = [cbLog EXCEPT ![u] = Append(@, s)]
     /\ clog'  = [c \in Cbs |-> IF Covers(reg, c, u) THEN [clog[c] EXCEPT ![u] = Append(@, s)]
                                 ELSE clog[c]]
     /\ atOK'  = (atOK /\ Val(NT, tstate[u]) >= Val(NT, s) /\ (IsFinal(NT, s) => tstate[u] = s))
  /\ tonote' = Tail(tonote)
  /\ nphase' = IF Len(tonote) = 1 THEN "idle" ELSE "fire"
  /\ UNCHANGED <<tstate, bound, detail, pstate, pcbLog, dead, removed,
                 iso, ownOK, keepOK, unkOK, pcomplete, race, adds, nb, plan, tables, info, unreg, reg, since, want>>

Next ==
  \/ \E b \in TBatches : Notify(b)
  \/ \E t \in Tasks, p \in Pilots : Bind(t, p)
  \/ \E p \in Pilots : PilotFinal(p)
  \/ \E b \in PBatches : PNotify(b)
  \/ \E p \in Pilots : RemovePilots(p)
  \/ \E G \in SUBSET Pilots : AddPilots(G)
  \/ \E p \in Pilots : DeathSelect(p)
  \/ \E t \in Tasks : DeathApply(t)
  \/ DeathEnd
  \/ \E t \in Tasks, s \in AllStates(NT) : DirectUpdate(t, s)
  \/ \E b \in TBatches : NBegin(b)
  \/ NSelect \/ NApply \/ NToFire \/ NFire
  \/ \E s \in AllStates(NT) : ApiCall(s)
  \/ \E t \in Tasks, k \in {"str", "dict"} : SetInfo(t, k)
  \/ Register
  \/ \E c \in Cbs, sc \in Tasks \cup {"*"} : CbRegister(c, sc) \/ CbUnregister(c, sc)

Spec == Init /\ [][Next]_vars

(* ------------------------------------------------------------------------ *)
(* C06                                                                      *)
Monotone   == \A t \in Tasks : MonotoneLog(NT, cbLog[t])
AtMostOnce == \A t \in Tasks : AtMostOnceLog(cbLog[t])
\* every state change is announced, one step at a time (a task failed by the
\* pilot callback is the exception: that path has no callback of its own)
Pending(t) == LET mine == SelectSeq(tonote, LAMBDA x : x[1] = t)
              IN [i \in 1 .. Len(mine) |-> mine[i][2]]
GapsFilled == \A t \in Tasks : /\ GapsFilledLog(NT, cbLog[t] \o Pending(t))
                               /\ tstate[t] = LastOr(0, cbLog[t] \o Pending(t)) \/ detail[t] # None
\* what a callback announces is not contradicted by Task.state: the state is at
\* least that far, and an announced final state is the task's state
CbAgrees == atOK
\* application calls leave the module level tables alone
TablesUntouched == tables = {}
\* every callback still registered has been told every announcement about every
\* task it covers, once and in order, since it covers the task
EveryCallback ==
  \A c \in Cbs, t \in Tasks :
     Covers(want, c, t) => clog[c][t] = SubSeq(cbLog[t], since[c][t] + 1, Len(cbLog[t]))
\* bulk dispatch: the announcements are where the task stood after each batch
GapsFilledBulk == \A t \in Tasks : tstate[t] = LastOr(0, cbLog[t]) \/ detail[t] # None
BatchIsolation == iso
FinalSticky == [][\A t \in Tasks : IsFinal(NT, tstate[t]) => tstate'[t] = tstate[t]]_vars

(* C13                                                                      *)
OwnFail    == ownOK
OthersKeep == keepOK

(* C14 (a)                                                                  *)
PMonotone     == \A p \in Pilots : PMonotoneLog(NP, pcbLog[p])
PGapsFilled   == \A p \in Pilots : /\ PGapsFilledLog(NP, pcbLog[p])
                                   /\ pstate[p] = LastOr(0, pcbLog[p])
PFinalNotLeft == \A p \in Pilots : PFinalNotLeftLog(NP, pcbLog[p])
PFinalNotLeftAct == [][\A p \in Pilots : IsFinal(NP, pstate[p]) => IsFinal(NP, pstate'[p])]_vars
UnknownIgnored == unkOK

(* not part of a listed property: every pilot entry of a batch is used (D19) *)
PBatchComplete == pcomplete
=============================================================================
