----------------------------- MODULE ClientState -----------------------------
(***************************************************************************)
(* Design model of what an application observes of task and pilot states   *)
(* (C06, C13, C14a), in the shape of the client-side code:                 *)
(*   Notify(b)      TaskManager._update_tasks on a batch of notifications  *)
(*                  (+ _task_cb for every announced state)                 *)
(*   Bind(t, p)     the same path with a full task dict carrying 'pilot':  *)
(*                  the only channel through which Task.pilot is learned   *)
(*   PilotFinal(p)  TaskManager._pilot_state_cb called for a final pilot   *)
(*   PNotify(b)     PilotManager._state_sub_cb / _update_pilot /           *)
(*                  Pilot._update on a batch; the task manager's callback  *)
(*                  is registered on the pilots (add_pilots), so a pilot   *)
(*                  entering a final state runs PilotFinal's effect        *)
(*   RemovePilots(p) TaskManager.remove_pilots: the pilot leaves the task  *)
(*                  manager, the tasks already bound to it stay bound      *)
(* Code bookkeeping: tstate (Task._state), bound (Task._pilot), detail     *)
(* (pilot named in Task.exception_detail), pstate (Pilot._state).          *)
(* Ghosts: cbLog / pcbLog (states handed to TASK_STATE / PILOT_STATE       *)
(* callbacks), iso, ownOK, keepOK, unkOK, pcomplete, dead.                 *)
(*                                                                         *)
(* Deviations of the code from the documented design (FALSE = intended):   *)
(*   DevFinalRaise      D8  contradictory final raises, batch abandoned    *)
(*   DevPilotCbAll      D9  pilot callback fails tasks of every pilot      *)
(*   DevPilotCbCanceled D9  ... and turns CANCELED tasks into FAILED       *)
(*   DevPBatchFirst     D19 only the first pilot entry of a batch is used  *)
(*   DevPFinalRaise         DONE pilot + other final raises                *)
(*   DevRemovedUnwatched    (no known defect; seeded regression) a removed *)
(*                          pilot is no longer watched: its end fails nobody *)
(* The last two leave the invariants of C14 intact (they break only        *)
(* PBatchComplete, which is not part of any listed property).              *)
(***************************************************************************)
EXTENDS ClientStateOps, TLC

CONSTANTS Tasks, UnknownTasks,      \* known / unknown task ids
          Pilots, UnknownPilots,    \* known / unknown pilot ids
          PTypes,                   \* 'type' values of pilot batch entries
          MaxBatch, MaxPBatch,      \* entries per batch
          BindAt,                   \* state announced together with the binding
          EarlyBind,                \* TRUE: tasks may be born bound (td.pilot)
          DirectFinal,              \* TRUE: PilotFinal may be called directly
          DevFinalRaise, DevPilotCbAll, DevPilotCbCanceled,
          DevPBatchFirst, DevPFinalRaise,
          AllowRemove,              \* TRUE: RemovePilots is part of the action set
          DevRemovedUnwatched

VARIABLES tstate, cbLog, bound, detail, pstate, pcbLog, dead, removed,
          iso, ownOK, keepOK, unkOK, pcomplete

vars == <<tstate, cbLog, bound, detail, pstate, pcbLog, dead, removed,
          iso, ownOK, keepOK, unkOK, pcomplete>>

None == "none"

TEntries == (Tasks \cup UnknownTasks) \X AllStates(NT)
TBatches == UNION {[1 .. k -> TEntries] : k \in 1 .. MaxBatch}
PEntries == PTypes \X (Pilots \cup UnknownPilots) \X AllStates(NP)
PBatches == UNION {[1 .. k -> PEntries] : k \in 1 .. MaxPBatch}

TypeOK ==
  /\ tstate \in [Tasks -> AllStates(NT)]
  /\ bound  \in [Tasks -> Pilots \cup {None}]
  /\ detail \in [Tasks -> Pilots \cup {None}]
  /\ pstate \in [Pilots -> AllStates(NP)]
  /\ dead \subseteq Pilots /\ removed \subseteq Pilots
  /\ \A t \in Tasks  : \A i \in 1 .. Len(cbLog[t])  : cbLog[t][i]  \in AllStates(NT)
  /\ \A p \in Pilots : \A i \in 1 .. Len(pcbLog[p]) : pcbLog[p][i] \in AllStates(NP)

Init ==
  /\ tstate = [t \in Tasks |-> 0]
  /\ cbLog  = [t \in Tasks |-> <<>>]
  /\ bound \in [Tasks -> IF EarlyBind THEN Pilots \cup {None} ELSE {None}]
  /\ detail = [t \in Tasks |-> None]
  /\ pstate = [p \in Pilots |-> 0]
  /\ pcbLog = [p \in Pilots |-> <<>>]
  /\ dead = {} /\ removed = {}
  /\ iso = TRUE /\ ownOK = TRUE /\ keepOK = TRUE /\ unkOK = TRUE /\ pcomplete = TRUE

(* ------------------------------------------------------------------------ *)
Notify(b) ==
  LET r == TRes(DevFinalRaise, b, tstate) IN
  /\ tstate' = r.st
  /\ cbLog'  = [t \in Tasks |-> cbLog[t] \o r.cb[t]]
  /\ iso'    = Isolated(DevFinalRaise, b, tstate)
  /\ UNCHANGED <<bound, detail, pstate, pcbLog, dead, removed, ownOK, keepOK, unkOK, pcomplete>>

\* the tmgr scheduler binds t to p: full task dict with 'pilot' and the next
\* state; Task._update copies the pilot because the state moves
Bind(t, p) ==
  /\ bound[t] = None /\ tstate[t] < BindAt
  /\ p \notin dead /\ p \notin removed /\ ~IsFinal(NP, pstate[p])
  /\ LET b == <<<<t, BindAt>>>>
         r == TRes(DevFinalRaise, b, tstate) IN
     /\ tstate' = r.st
     /\ cbLog'  = [u \in Tasks |-> cbLog[u] \o r.cb[u]]
     /\ iso'    = Isolated(DevFinalRaise, b, tstate)
  /\ bound' = [bound EXCEPT ![t] = p]
  /\ UNCHANGED <<detail, pstate, pcbLog, dead, removed, ownOK, keepOK, unkOK, pcomplete>>

\* effect of the final-pilot callback for the pilots in `calls`, and what
\* C13 says about it (reference = KillSeq without deviations)
\* fired: the pilots among calls for which the task manager's callback runs
Deaths(calls, fired) ==
  LET k   == KillSeq(DevPilotCbAll, DevPilotCbCanceled, tstate, detail, bound, fired)
      ref == KillSeq(FALSE, FALSE, tstate, detail, bound, calls) IN
  /\ tstate' = k.st
  /\ detail' = k.det
  /\ dead'   = dead \cup SeqToSet(calls)
  /\ ownOK'  = \A t \in Tasks : ref.st[t] # tstate[t] => k.st[t] = FailedS(NT) /\ k.det[t] = ref.det[t]
  /\ keepOK' = \A t \in Tasks : ref.st[t] = tstate[t] => k.st[t] = tstate[t]

PilotFinal(p) ==
  /\ DirectFinal /\ p \notin dead
  /\ Deaths(<<p>>, <<p>>)
  /\ UNCHANGED <<cbLog, bound, pstate, pcbLog, removed, iso, unkOK, pcomplete>>

PNotify(b) ==
  LET r       == PRes(DevPBatchFirst, DevPFinalRaise, b, pstate)
      onlyUnk == \A i \in 1 .. Len(b) : b[i][1] = "pilot" => b[i][2] \notin Pilots IN
  /\ pstate' = r.st
  /\ pcbLog' = [p \in Pilots |-> pcbLog[p] \o r.cb[p]]
  /\ Deaths(r.calls, IF DevRemovedUnwatched
                      THEN SelectSeq(r.calls, LAMBDA q : q \notin removed) ELSE r.calls)
  /\ unkOK'  = (onlyUnk => r.st = pstate /\ ~r.raised /\ r.calls = <<>>
                           /\ \A p \in Pilots : r.cb[p] = <<>>)
  /\ pcomplete' = r.complete
  /\ UNCHANGED <<cbLog, bound, removed, iso>>

\* the pilot leaves the task manager; nothing is said to the tasks bound to it
\* (remove_pilots neither cancels nor unbinds them), so C13 keeps applying
RemovePilots(p) ==
  /\ AllowRemove /\ p \notin removed
  /\ removed' = removed \cup {p}
  /\ UNCHANGED <<tstate, cbLog, bound, detail, pstate, pcbLog, dead,
                 iso, ownOK, keepOK, unkOK, pcomplete>>

Next ==
  \/ \E b \in TBatches : Notify(b)
  \/ \E t \in Tasks, p \in Pilots : Bind(t, p)
  \/ \E p \in Pilots : PilotFinal(p)
  \/ \E b \in PBatches : PNotify(b)
  \/ \E p \in Pilots : RemovePilots(p)

Spec == Init /\ [][Next]_vars

(* ------------------------------------------------------------------------ *)
(* C06                                                                      *)
Monotone   == \A t \in Tasks : MonotoneLog(NT, cbLog[t])
AtMostOnce == \A t \in Tasks : AtMostOnceLog(cbLog[t])
\* every state change is announced, one step at a time (a task failed by the
\* pilot callback is the exception: that path has no callback of its own)
GapsFilled == \A t \in Tasks : /\ GapsFilledLog(NT, cbLog[t])
                               /\ tstate[t] = LastOr(0, cbLog[t]) \/ detail[t] # None
BatchIsolation == iso
FinalSticky == [][\A t \in Tasks : IsFinal(NT, tstate[t]) => tstate'[t] = tstate[t]]_vars

(* C13                                                                      *)
OwnFail    == ownOK
OthersKeep == keepOK

(* C14 (a)                                                                  *)
PMonotone     == \A p \in Pilots : PMonotoneLog(NP, pcbLog[p])
PGapsFilled   == \A p \in Pilots : /\ PGapsFilledLog(NP, pcbLog[p])
                                   /\ pstate[p] = LastOr(0, pcbLog[p])
PFinalNotLeft == \A p \in Pilots : PFinalNotLeftLog(NP, pcbLog[p])
PFinalNotLeftAct == [][\A p \in Pilots : IsFinal(NP, pstate[p]) => IsFinal(NP, pstate'[p])]_vars
UnknownIgnored == unkOK

(* not part of a listed property: every pilot entry of a batch is used (D19) *)
PBatchComplete == pcomplete
=============================================================================
