--------------------------- MODULE ClientStateOps ---------------------------
(***************************************************************************)
(* Pure operators shared by the design model (ClientState) and the trace   *)
(* monitor (ClientStateTrace) of the client-side state notification path   *)
(*   states.py            : _task_state_progress, _pilot_state_progress    *)
(*   task_manager.py      : _update_tasks, _task_cb, _pilot_state_cb       *)
(*   task.py / pilot.py   : Task._update, Pilot._update                    *)
(*   pilot_manager.py     : _state_sub_cb, _update_pilot                   *)
(*                                                                         *)
(* State encoding (tasks and pilots alike, n = number of non-final         *)
(* states, 15 for tasks and 5 for pilots in the real code):                *)
(*    0 .. n-1 : the non-final states in model order, 0 = NEW              *)
(*    n        : DONE       n+1 : FAILED       n+2 : CANCELED              *)
(* so that the numeric value used by the code is Val(n, s) = min(s, n).    *)
(***************************************************************************)
EXTENDS Naturals, Sequences, FiniteSets

CONSTANTS NT,      \* number of non-final task  states
          NP       \* number of non-final pilot states

DoneS(n)      == n
FailedS(n)    == n + 1
CanceledS(n)  == n + 2
AllStates(n)  == 0 .. n + 2
IsFinal(n, s) == s >= n
Val(n, s)     == IF s >= n THEN n ELSE s
Jumpy(n, s)   == s = n + 1 \/ s = n + 2     \* FAILED / CANCELED: entered from anywhere

LastOr(x, s)  == IF Len(s) = 0 THEN x ELSE s[Len(s)]
SeqToSet(s)   == {s[i] : i \in 1 .. Len(s)}

\* states announced when a non-final `cur` progresses to a later `tgt`:
\* the documented semantics replays the skipped states unless the target
\* is FAILED / CANCELED
Passed(n, cur, tgt) ==
  IF Jumpy(n, tgt) THEN <<tgt>>
  ELSE [i \in 1 .. (tgt - cur) |-> cur + i]

(* ------------------------------------------------------------------------ *)
(* what a callback log must look like (the log starts after NEW = 0)        *)
(* ------------------------------------------------------------------------ *)
\* strictly forward, and a final state is the last one
MonotoneLog(n, log) ==
  LET full == <<0>> \o log IN
  \A i \in 1 .. Len(full) - 1 : ~IsFinal(n, full[i]) /\ Val(n, full[i]) < Val(n, full[i + 1])

AtMostOnceLog(log) ==
  \A i, j \in 1 .. Len(log) : i < j => log[i] # log[j]

\* single steps only, unless the step enters FAILED / CANCELED
GapsFilledLog(n, log) ==
  LET full == <<0>> \o log IN
  \A i \in 1 .. Len(full) - 1 : full[i + 1] = full[i] + 1 \/ Jumpy(n, full[i + 1])

\* pilots (C14): never an earlier state after a later one (repeats allowed)
PMonotoneLog(n, log) ==
  LET full == <<0>> \o log IN
  \A i \in 1 .. Len(full) - 1 : Val(n, full[i]) <= Val(n, full[i + 1])

PGapsFilledLog(n, log) ==
  LET full == <<0>> \o log IN
  \A i \in 1 .. Len(full) - 1 :
     \/ full[i + 1] = full[i] + 1 \/ full[i + 1] = full[i]
     \/ Jumpy(n, full[i + 1])
     \/ (IsFinal(n, full[i]) /\ IsFinal(n, full[i + 1]))

PFinalNotLeftLog(n, log) ==
  \A i \in 1 .. Len(log) - 1 : IsFinal(n, log[i]) => IsFinal(n, log[i + 1])

\* drop elements equal to their predecessor (prev = element before the log)
RECURSIVE Destutter(_, _)
Destutter(prev, s) ==
  IF Len(s) = 0 THEN <<>>
  ELSE IF s[1] = prev THEN Destutter(prev, Tail(s))
       ELSE <<s[1]>> \o Destutter(s[1], Tail(s))

(* ------------------------------------------------------------------------ *)
(* TaskManager._update_tasks on one batch.                                  *)
(*   batch : sequence of <<uid, state>>     st : [known uids -> state]      *)
(*   cb    : [known uids -> sequence]  (states announced by this batch)     *)
(*   devRaise (D8): a contradictory final notification for a DONE / FAILED  *)
(*   task raises out of _task_state_progress: the batch is abandoned where  *)
(*   it stands and the callbacks collected so far are never delivered.      *)
(* With devRaise = FALSE this is the documented (reference) semantics.      *)
(* ------------------------------------------------------------------------ *)
(* boom: tasks whose finalisation raises inside Task._update after the state  *)
(* was set (a service task whose info cannot be reset): like devRaise the     *)
(* batch is abandoned and the callbacks collected so far are lost.            *)
RECURSIVE TRunB(_, _, _, _, _, _)
TRunB(devRaise, boom, batch, i, st, cb) ==
  IF i > Len(batch) THEN [st |-> st, cb |-> cb, raised |-> FALSE]
  ELSE
    LET u   == batch[i][1]
        tg  == batch[i][2]
        nxt == TRunB(devRaise, boom, batch, i + 1, st, cb)
    IN
    IF u \notin DOMAIN st THEN nxt                     \* unknown task: ignored
    ELSE
      LET cur == st[u] IN
      IF cur = tg THEN nxt                             \* state known
      ELSE IF IsFinal(NT, cur) THEN
             IF devRaise /\ cur # CanceledS(NT) /\ IsFinal(NT, tg)
             THEN [st |-> st, cb |-> [t \in DOMAIN cb |-> <<>>], raised |-> TRUE]
             ELSE nxt                                  \* final states are sticky
      ELSE IF Val(NT, tg) <= cur THEN nxt              \* late / out of order
      ELSE IF IsFinal(NT, tg) /\ u \in boom
           THEN [st |-> [st EXCEPT ![u] = tg], cb |-> [t \in DOMAIN cb |-> <<>>], raised |-> TRUE]
      ELSE TRunB(devRaise, boom, batch, i + 1,
                 [st EXCEPT ![u] = tg],
                 [cb EXCEPT ![u] = @ \o Passed(NT, cur, tg)])

TRun(devRaise, batch, i, st, cb) == TRunB(devRaise, {}, batch, i, st, cb)

EmptyCb(st)   == [t \in DOMAIN st |-> <<>>]
TRes(dev, batch, st) == TRun(dev, batch, 1, st, EmptyCb(st))
TResB(dev, boom, batch, st) == TRunB(dev, boom, batch, 1, st, EmptyCb(st))

BatchUids(batch)     == {batch[i][1] : i \in 1 .. Len(batch)}
Without(batch, u)    == SelectSeq(batch, LAMBDA e : e[1] # u)

\* BatchIsolation: for every t1 and every t2 # t1 the effect on t2 equals
\* the effect of the batch with t1's entries removed
IsolatedB(dev, boom, batch, st) ==
  \A u \in BatchUids(batch) :
    LET r1 == TResB(dev, boom, batch, st)
        r2 == TResB(dev, boom, Without(batch, u), st)
    IN \A t \in (DOMAIN st) \ {u} : r1.st[t] = r2.st[t] /\ r1.cb[t] = r2.cb[t]
Isolated(dev, batch, st) == IsolatedB(dev, {}, batch, st)

(* ------------------------------------------------------------------------ *)
(* PilotManager._state_sub_cb on one batch.                                 *)
(*   batch : sequence of <<type, pid, state>>; only type "pilot" counts     *)
(*   devFirst (D19): _update_pilot returns None, so the subscriber callback *)
(*   returns after the first pilot entry and drops the rest of the batch    *)
(*   devRaise : DONE followed by FAILED / CANCELED raises                   *)
(*   calls : pilots for which the state callbacks ran with a final state    *)
(*   (transition into a final state, or a repeated final notification:      *)
(*   _update_pilot calls Pilot._update even if the state did not change)    *)
(* The log is kept modulo stuttering: C14 allows repeated announcements.    *)
(* ------------------------------------------------------------------------ *)
RECURSIVE PRun(_, _, _, _, _, _, _)
PRun(devFirst, devRaise, batch, i, st, cb, calls) ==
  LET out(s, c, k, r, full) == [st |-> s, cb |-> c, calls |-> k, raised |-> r, complete |-> full] IN
  IF i > Len(batch) THEN out(st, cb, calls, FALSE, TRUE)
  ELSE
    LET ty == batch[i][1]
        p  == batch[i][2]
        tg == batch[i][3]
    IN
    IF ty # "pilot" THEN PRun(devFirst, devRaise, batch, i + 1, st, cb, calls)
    ELSE
      LET after(s, c, k) ==
            IF devFirst THEN out(s, c, k, FALSE, \A j \in i + 1 .. Len(batch) : batch[j][1] # "pilot")
            ELSE PRun(devFirst, devRaise, batch, i + 1, s, c, k)
      IN
      IF p \notin DOMAIN st THEN after(st, cb, calls)            \* unknown pilot: ignored
      ELSE
        LET cur == st[p] IN
        IF cur = tg THEN after(st, cb, IF IsFinal(NP, cur) THEN Append(calls, p) ELSE calls)
        ELSE IF IsFinal(NP, cur) THEN
               IF devRaise /\ cur = DoneS(NP) /\ IsFinal(NP, tg)
               THEN out(st, cb, calls, TRUE, FALSE)
               ELSE after(st, cb, calls)                         \* a final state is not left
        ELSE IF Val(NP, tg) <= cur THEN after(st, cb, calls)
        ELSE after([st EXCEPT ![p] = tg],
                   [cb EXCEPT ![p] = @ \o Passed(NP, cur, tg)],
                   IF IsFinal(NP, tg) THEN Append(calls, p) ELSE calls)

PRes(devFirst, devRaise, batch, st) ==
  PRun(devFirst, devRaise, batch, 1, st, [p \in DOMAIN st |-> <<>>], <<>>)

(* ------------------------------------------------------------------------ *)
(* TaskManager._pilot_state_cb for a pilot p in a final state.              *)
(*   bnd : [uids -> pilot id or "none"]   det : [uids -> pilot named in the *)
(*   failure detail or "none"]                                              *)
(*   devAll (D9): every task of the manager is hit, bound to p or not       *)
(*   devCanc (D9): Task._update lets the FAILED update through for a        *)
(*   CANCELED task                                                          *)
(* ------------------------------------------------------------------------ *)
Own(st, bnd, t, p) == bnd[t] = p /\ ~IsFinal(NT, st[t])

Hit(devAll, devCanc, st, bnd, t, p) ==
  /\ devAll \/ bnd[t] = p
  /\ ~IsFinal(NT, st[t]) \/ (devCanc /\ st[t] = CanceledS(NT))

Kill(devAll, devCanc, st, det, bnd, p) ==
  [st  |-> [t \in DOMAIN st |-> IF Hit(devAll, devCanc, st, bnd, t, p) THEN FailedS(NT) ELSE st[t]],
   det |-> [t \in DOMAIN st |-> IF Hit(devAll, devCanc, st, bnd, t, p) THEN p ELSE det[t]]]

RECURSIVE KillSeq(_, _, _, _, _, _)
KillSeq(devAll, devCanc, st, det, bnd, ps) ==
  IF Len(ps) = 0 THEN [st |-> st, det |-> det]
  ELSE LET r == Kill(devAll, devCanc, st, det, bnd, ps[1])
       IN KillSeq(devAll, devCanc, r.st, r.det, bnd, Tail(ps))
=============================================================================
