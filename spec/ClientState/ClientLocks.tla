----------------------------- MODULE ClientLocks -----------------------------
(***************************************************************************)
(* Lock order between the two subscriber threads of the client side (C13:  *)
(* the end of a pilot has to reach its tasks, also while an application    *)
(* callback calls into the managers).                                      *)
(*                                                                         *)
(*   S  the task manager's state subscriber thread in _update_tasks:       *)
(*        with _tasks_lock (TL): apply the batch                           *)
(*        then, OUTSIDE TL, the TASK_STATE callbacks.  The application's   *)
(*        callback reacts to a FAILED task by Pilot.cancel():              *)
(*        PilotManager.cancel_pilots publishes the request and calls       *)
(*        wait_pilots, which takes pmgr._pilots_lock (PL) to look at the   *)
(*        pilot, releases it, sleeps, and so on until the pilot is final   *)
(*   P  the pilot manager's state subscriber thread: the cancel request    *)
(*        comes back as the pilot's final state: _update_pilot holds PL    *)
(*        while Pilot._update runs the pilot's callbacks, among them       *)
(*        TaskManager._pilot_state_cb, which takes TL to fail the tasks    *)
(*                                                                         *)
(* tl / pl are the owners of the two locks.  edges is the acquisition      *)
(* order seen so far (<<held, taken>>).                                    *)
(*                                                                         *)
(* DevCbInsideLock = TRUE (seeded regression): the callbacks are invoked   *)
(* while S still holds TL.  Then S waits for PL holding TL while P waits   *)
(* for TL holding PL.  FALSE is the code and the intended design.          *)
(***************************************************************************)
EXTENDS Naturals, FiniteSets

CONSTANTS DevCbInsideLock

VARIABLES tl, pl, pcS, pcP, req, final, failed, edges

vars == <<tl, pl, pcS, pcP, req, final, failed, edges>>

Init == /\ tl = "none" /\ pl = "none" /\ pcS = "start" /\ pcP = "idle"
        /\ req = FALSE /\ final = FALSE /\ failed = FALSE /\ edges = {}

(* ---- S -------------------------------------------------------------------- *)
SAcqT ==   \* with self._tasks_lock: apply the batch
  /\ pcS = "start" /\ tl = "none"
  /\ tl' = "S" /\ pcS' = "applied"
  /\ UNCHANGED <<pl, pcP, req, final, failed, edges>>

SRelT ==   \* the lock is released before the callbacks run - or not
  /\ pcS = "applied"
  /\ tl' = IF DevCbInsideLock THEN tl ELSE "none"
  /\ pcS' = "cb"
  /\ UNCHANGED <<pl, pcP, req, final, failed, edges>>

SCancel == \* application callback: pilot.cancel() -> publish the request
  /\ pcS = "cb"
  /\ req' = TRUE /\ pcS' = "wait"
  /\ UNCHANGED <<tl, pl, pcP, final, failed, edges>>

SAcqP ==   \* wait_pilots: with self._pilots_lock: look at the pilot
  /\ pcS = "wait" /\ pl = "none"
  /\ pl' = "S" /\ pcS' = "look"
  /\ edges' = IF tl = "S" THEN edges \cup {<<"TL", "PL">>} ELSE edges
  /\ UNCHANGED <<tl, pcP, req, final, failed>>

SLook ==   \* final: return (and drop TL if it is still held); else sleep, again
  /\ pcS = "look"
  /\ pl' = "none"
  /\ IF final THEN /\ pcS' = "done" /\ tl' = IF tl = "S" THEN "none" ELSE tl
              ELSE /\ pcS' = "wait" /\ UNCHANGED tl
  /\ UNCHANGED <<pcP, req, final, failed, edges>>

(* ---- P -------------------------------------------------------------------- *)
PAcqP ==   \* _update_pilot: with self._pilots_lock
  /\ pcP = "idle" /\ req /\ pl = "none"
  /\ pl' = "P" /\ pcP' = "update"
  /\ UNCHANGED <<tl, pcS, req, final, failed, edges>>

PFinal ==  \* Pilot._update: the state is set, then the callbacks run
  /\ pcP = "update"
  /\ final' = TRUE /\ pcP' = "cb"
  /\ UNCHANGED <<tl, pl, pcS, req, failed, edges>>

PAcqT ==   \* TaskManager._pilot_state_cb: with self._tasks_lock: fail the tasks
  /\ pcP = "cb" /\ tl = "none"
  /\ tl' = "P" /\ failed' = TRUE /\ pcP' = "failed"
  /\ edges' = edges \cup {<<"PL", "TL">>}
  /\ UNCHANGED <<pl, pcS, req, final>>

PRel ==
  /\ pcP = "failed"
  /\ tl' = "none" /\ pl' = "none" /\ pcP' = "done"
  /\ UNCHANGED <<pcS, req, final, failed, edges>>

Done == pcS = "done" /\ pcP = "done" /\ UNCHANGED vars

Next == SAcqT \/ SRelT \/ SCancel \/ SAcqP \/ SLook \/ PAcqP \/ PFinal \/ PAcqT \/ PRel \/ Done

Spec == Init /\ [][Next]_vars

(* one acquisition order: no lock is taken before and after another one *)
LockOrder == ~(<<"TL", "PL">> \in edges /\ <<"PL", "TL">> \in edges)
(* the pilot's end reaches its tasks once both threads are through *)
OwnFail == (pcS = "done" /\ pcP = "done") => failed
=============================================================================
