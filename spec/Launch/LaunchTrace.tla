---------------------------- MODULE LaunchTrace ----------------------------
(***************************************************************************)
(* Trace monitor for C09: consumes the events recorded by launch_rig.py    *)
(* from REAL launcher instances (one trace = one launcher instance of one  *)
(* configuration and the generations made on it, in order, or a batch of   *)
(* find_launcher calls on a real ResourceManager) and judges each event    *)
(* with the operators of LaunchOps.                                        *)
(*                                                                         *)
(* Gen event:  task (id, mpi, exe, placement p as the code was given it),  *)
(*             can (can_launch), out (cmd | raise | skip: get_launch_cmds  *)
(*             is only called after can_launch, as the executor does),     *)
(*             c   (the abstract command the rig's interpreter read out of *)
(*                  the returned string and the files it references),      *)
(*             sig / fresh (digest of command string + file contents on    *)
(*             this instance / on a fresh instance of the configuration),  *)
(*             cfgsame (the config objects the launcher was given, lm_cfg  *)
(*             and rm_info, are deep-equal before and after the calls).    *)
(* Find event: cfgs / cans (configuration and can_launch of each method of *)
(*             the order the resource manager kept), sel (index of the     *)
(*             method find_launcher returned, 0: none), the task.          *)
(* T.local:    the names of the executor's own node (its host name and     *)
(*             localhost) - whole-string identity.                         *)
(*                                                                         *)
(* The monitor is total; failing clauses are collected in errs as          *)
(* "<clause>@<event number>".                                              *)
(***************************************************************************)
EXTENDS LaunchOps, TLC, Json, IOUtils

Batch  == JsonDeserialize(IOEnv.TRACE_FILE)
Traces == Batch.traces

VARIABLES tid, l, ids, seen, errs, fin
vars == <<tid, l, ids, seen, errs, fin>>

T     == Traces[tid]
Ev    == T.events
Local == SeqSet(T.local)

E(cond, name) == IF cond THEN {} ELSE {name}

ToP(p) == [i \in DOMAIN p |-> [node  |-> p[i].node,
                               cores |-> SeqSet(p[i].cores),
                               gpus  |-> SeqSet(p[i].gpus)]]
ToC(c) == [np |-> c.np, a |-> c.a, hosts |-> c.hosts, nn |-> c.nn, via |-> c.via,
           pins |-> [i \in DOMAIN c.pins |-> [host  |-> c.pins[i].host,
                                              cores |-> SeqSet(c.pins[i].cores),
                                              gpus  |-> SeqSet(c.pins[i].gpus)]]]

Init == /\ tid \in 1 .. Len(Traces)
        /\ l = 1 /\ ids = {} /\ seen = {} /\ errs = {} /\ fin = FALSE

At(name) == name \o "@" \o ToString(l)

GenErrs(e) ==
  LET c == T.cfg
      P == ToP(e.task.p)
  IN
     E(CannotStart(c, P, e.task.mpi, Local) => (~e.can \/ e.out = "raise"), At("C09.RefuseNotShrink"))
  \cup E(e.out = "cmd" => e.can, At("X.ProtocolBroken"))
  \* lm_cfg / rm_info deep-equal before and after can_launch + get_launch_cmds
  \cup E(e.cfgsame, At("C09.ConfigUntouched"))
  \* same outcome as on a fresh instance, and as earlier on this instance
  \cup E(e.sig = e.fresh, At("C09.HistoryFree"))
  \cup E(e.task.id \in ids => <<e.task.id, e.sig>> \in seen, At("C09.HistoryFree"))
  \cup (IF e.out = "cmd"
        THEN LET C == ToC(e.c) IN
                E(ProcCountOK(c, C, P),         At("C09.ProcCount"))
           \cup E(ExactNodesOK(c, C, P, Local), At("C09.ExactNodes"))
           \cup E(PinsOK(c, C, P),              At("C09.Pins"))
        ELSE {})

Step ==
  /\ ~fin /\ l <= Len(Ev)
  /\ LET e == Ev[l] IN
     /\ l' = l + 1
     /\ fin' = FALSE
     /\ CASE e.ev = "Gen" ->
               /\ errs' = errs \cup GenErrs(e)
               /\ seen' = seen \cup {<<e.task.id, e.sig>>}
               /\ ids' = ids \cup {e.task.id}
          [] e.ev = "Find" ->
               /\ LET P == ToP(e.task.p) IN
                  errs' = errs
                    \cup E(OrderOK(e.cans, e.sel) /\ e.kept, At("C09.OrderRespected"))
                    \cup E(e.cfgsame, At("C09.ConfigUntouched"))
                    \cup E(SelAble(e.cfgs, e.sel, P, e.task.mpi, Local), At("C09.OrderRespected"))
                    \cup E(\A i \in DOMAIN e.cfgs :
                             CannotStart(e.cfgs[i], P, e.task.mpi, Local) => ~e.cans[i],
                          At("C09.RefuseNotShrink"))
               /\ UNCHANGED <<ids, seen>>
          [] OTHER ->
               /\ errs' = errs \cup {At("X.UnknownEvent")}
               /\ UNCHANGED <<ids, seen>>
  /\ UNCHANGED tid

Finish ==
  /\ ~fin /\ l > Len(Ev)
  /\ fin' = TRUE
  /\ PrintT(<<"RESULT", T.tid, errs>>)
  /\ UNCHANGED <<tid, l, ids, seen, errs>>

Next == Step \/ Finish
Spec == Init /\ [][Next]_vars
=============================================================================
