----------------------------- MODULE LaunchOps -----------------------------
(***************************************************************************)
(* Pure operators shared by the launch-method design model (Launch) and    *)
(* the trace monitor (LaunchTrace): what a launcher configuration is able  *)
(* to express (capability tables), and the judges of C09 over an abstract  *)
(* command and the placement it was generated for.                         *)
(*                                                                         *)
(* configuration  c : [m, fl, mode, vnew, opt]                             *)
(*    m    method   FORK SSH RSH MPIRUN MPIEXEC SRUN APRUN CCMRUN IBRUN    *)
(*                  JSRUN PRTE                                             *)
(*    fl   flavour  plain | mpt | rsh | dplace | ccmrun                    *)
(*    mode how nodes are named where the method has several ways:          *)
(*         MPIEXEC: rf (rank file) | pals (distinct host file + ppn +      *)
(*         cpu-bind) | hf (host:n file) | std (host slots=n file);         *)
(*         JSRUN: erf | rs ;  all others: std                              *)
(*    vnew srun new enough for a node file (vmajor above 18)               *)
(*    opt  options section of the launch method config: absent | empty |   *)
(*         pinned (no influence on what the method is able to express)     *)
(*                                                                         *)
(* placement      P : sequence of ranks [node, cores, gpus]                *)
(* abstract cmd   C : [np, a, hosts, nn, pins, via, extra]                 *)
(*    np    the process count flag as written in the command               *)
(*    a     ranks per resource set (jsrun -a), 1 otherwise                 *)
(*    hosts host entries found in the command or the file it references    *)
(*          (one per entry; host:n and slots=n forms are expanded)         *)
(*    nn    node count flag (srun nodes), 0 when there is none             *)
(*    pins  per rank [host, cores, gpus] as found in rank file, cpu-bind   *)
(*          list or ERF (host is none where the form carries no host)      *)
(*    via   list | file | none                                             *)
(***************************************************************************)
EXTENDS Naturals, Sequences, FiniteSets

SeqSet(s)    == {s[i] : i \in DOMAIN s}
CountIn(s, x) == Cardinality({i \in DOMAIN s : s[i] = x})
NodeSeq(P)   == [i \in DOMAIN P |-> P[i].node]
NodeSet(P)   == SeqSet(NodeSeq(P))

(* ---- capability tables (from reading each launcher) --------------------- *)

\* how the process count is written
\*   entry : np processes per listed host entry   (MPT: host list + -np 1)
\*   rs    : np resource sets with a ranks each   (jsrun -n -a)
\*   total : np is the total
CountRule(c) ==
  IF c.m = "MPIRUN" /\ c.fl = "mpt" THEN "entry"
  ELSE IF c.m = "JSRUN" /\ c.mode # "erf" THEN "rs"
  ELSE "total"

\* how nodes are named
\*   local : no launcher, the process starts where the executor runs
\*   multi : the command or file carries one entry per rank or explicit counts
\*   set   : only distinct hosts are listed (fill order is the launcher's business)
\*   none  : the method cannot direct nodes (counts or offsets only)
Names(c) ==
  CASE c.m = "FORK"                           -> "local"
    [] c.m \in {"SSH", "RSH", "MPIRUN", "PRTE"} -> "multi"
    [] c.m = "MPIEXEC"                        -> (IF c.mode = "pals" THEN "set" ELSE "multi")
    [] c.m = "SRUN"                           -> "set"
    [] c.m = "JSRUN"                          -> (IF c.mode = "erf" THEN "multi" ELSE "none")
    [] OTHER                                  -> "none"

\* what the method can pin
PinKind(c) ==
  CASE c.m = "MPIEXEC" /\ c.mode \in {"rf", "pals"} -> "cores"
    [] c.m = "JSRUN"   /\ c.mode = "erf"            -> "coresgpus"
    [] OTHER                                        -> "none"

SingleProc(c) == c.m \in {"FORK", "SSH", "RSH"}

(* ---- judges ------------------------------------------------------------- *)

Procs(c, C) ==
  CASE CountRule(c) = "entry" -> C.np * Len(C.hosts)
    [] CountRule(c) = "rs"    -> C.np * C.a
    [] OTHER                  -> C.np

ProcCountOK(c, C, P) == Procs(c, C) = Len(P)

PerEntry(c, C) == IF CountRule(c) = "entry" THEN C.np ELSE 1

\* no node outside the placement is named, none inside is omitted; the
\* multiplicity only where the form carries it
ExactNodesOK(c, C, P, local) ==
  CASE Names(c) = "none"  -> TRUE
    [] Names(c) = "local" -> NodeSet(P) \subseteq local
    [] Names(c) = "set"   -> /\ SeqSet(C.hosts) = NodeSet(P)
                             /\ (C.nn = 0 \/ C.nn = Cardinality(NodeSet(P)))
    [] Names(c) = "multi" -> /\ SeqSet(C.hosts) = NodeSet(P)
                             /\ \A x \in NodeSet(P) :
                                  CountIn(C.hosts, x) * PerEntry(c, C) = CountIn(NodeSeq(P), x)

PinsOK(c, C, P) ==
  CASE PinKind(c) = "none" -> TRUE
    [] OTHER ->
         /\ Len(C.pins) = Len(P)
         /\ \A i \in DOMAIN P :
              /\ i \in DOMAIN C.pins
              /\ C.pins[i].cores = P[i].cores
              /\ (C.pins[i].host = "none" \/ C.pins[i].host = P[i].node)
              /\ (PinKind(c) = "coresgpus" => C.pins[i].gpus = P[i].gpus)

\* a task the method cannot start: single-process methods with more than one
\* rank or with the MPI flag; FORK (no launcher: the process starts where the
\* executor runs) with any rank that is not on the executor's own node, i.e.
\* whose node name is not exactly one of local.  Names are compared as whole
\* strings: a prefix, a short name or an FQDN of the own name is another node.
CannotStart(c, P, mpi, local) ==
  \/ SingleProc(c) /\ (Len(P) > 1 \/ mpi)
  \/ c.m = "FORK" /\ ~(NodeSet(P) \subseteq local)

\* find_launcher: sel is the index into the configured order (0: none): the
\* first method whose can_launch holds
OrderOK(cans, sel) ==
  \/ sel = 0 /\ \A i \in DOMAIN cans : ~cans[i]
  \/ sel \in DOMAIN cans /\ cans[sel] /\ \A j \in 1 .. sel - 1 : ~cans[j]

\* ... and never a method that cannot start the task (the search must fall
\* through to the next configured method)
SelAble(cfgs, sel, P, mpi, local) ==
  sel \in DOMAIN cfgs => ~CannotStart(cfgs[sel], P, mpi, local)
=============================================================================
