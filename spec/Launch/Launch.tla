------------------------------- MODULE Launch -------------------------------
(***************************************************************************)
(* Design model of radical.pilot's launch methods (C09).                   *)
(*                                                                         *)
(* A launcher is a configuration cfg (see LaunchOps) plus residual state   *)
(* res: whatever earlier generations left behind in the object.  In the    *)
(* intended design res never changes.  Gen(cfg, res, T) is the abstract    *)
(* command the method emits for task T: process count flag, host entries,  *)
(* pins, list-or-file.  Can(cfg, T) is can_launch.  The executor protocol  *)
(* is find_launcher (first configured method whose can_launch holds) and   *)
(* then get_launch_cmds of that method.                                    *)
(*                                                                         *)
(* Behaviours: on one instance up to MaxHist generations for tasks of a    *)
(* small history set (interleaving tasks, crossing the host-list limit),   *)
(* then one generation for any placement of the enumerated domain          *)
(* (1..MaxRanks ranks over Nodes, core/GPU index sets per layout), or one  *)
(* find_launcher call over a configured order.  The host-list limit (42    *)
(* in the code) is scaled down to Thr; the rig scales placements back.     *)
(*                                                                         *)
(* Known / hypothetical deviations of the code are the Dev constants;      *)
(* with all of them FALSE every invariant below holds.                     *)
(***************************************************************************)
EXTENDS LaunchOps, TLC

CONSTANTS Nodes,          \* node names
          Local,          \* names that denote the executor's own node
          AliasNodes,     \* other nodes whose names are prefix-related to the own name
                          \* (a proper prefix of it, an extension of it, its FQDN)
          PrefixRel,      \* pairs <<a, b>>: name a is a proper prefix of name b
          MaxRanks,
          Thr,            \* scaled host-list limit
          MaxHist,
          Configs,        \* launcher configurations examined
          Orders,         \* configured launch orders (sequences of configurations)
          CoreLayouts, GpuLayouts,
          DevDplaceAccum, \* D13 if it were reachable: -c list accumulates in the object
          DevPalsHull,    \* PALS cpu-bind written as first-last range of the core list
          DevForkShrink,  \* fork accepts a multi-rank task and starts one process
          DevForkPrefix,  \* fork takes a node whose name is a prefix of its own name for its own
          DevMptCount,    \* MPT written with the total as -np
          DevSrunFirst,   \* srun node list taken from the first rank only
          DevFindLast,    \* find_launcher returns the last able method
          DevOptLeak      \* a value derived for one task is stored into the (empty) options
                          \* section of the launch method config and used for later tasks

VARIABLES cfg, res, n, cur, done
vars == <<cfg, res, n, cur, done>>

\* opt: the options section of the launch method's part of the resource config
\* (lm_cfg) - absent | empty (present, nothing pinned) | pinned (the key the
\* method reads is set: IBRUN tasks_per_node)
CfgO(m, fl, mode, vnew, opt) == [m |-> m, fl |-> fl, mode |-> mode, vnew |-> vnew, opt |-> opt]
Cfg(m, fl, mode, vnew) == CfgO(m, fl, mode, vnew, "absent")

CoresPerNode == 16
PinnedTpn    == 4

AllConfigs ==
  {Cfg("FORK", "plain", "std", FALSE), Cfg("SSH", "plain", "std", FALSE),
   Cfg("RSH", "plain", "std", FALSE)}
  \cup {Cfg("MPIRUN", f, "std", FALSE) : f \in {"plain", "mpt", "rsh", "dplace", "ccmrun"}}
  \cup {Cfg("MPIEXEC", "plain", md, FALSE) : md \in {"rf", "pals", "hf", "std"}}
  \cup {Cfg("MPIEXEC", "mpt", "std", FALSE)}
  \cup {Cfg("SRUN", "plain", "std", v) : v \in BOOLEAN}
  \cup {Cfg(m, "plain", "std", FALSE) : m \in {"APRUN", "CCMRUN", "IBRUN", "PRTE"}}
  \cup {Cfg("JSRUN", "plain", md, FALSE) : md \in {"rs", "erf"}}
  \cup {CfgO("IBRUN", "plain", "std", FALSE, o) : o \in {"empty", "pinned"}}

(* ---- placement domain --------------------------------------------------- *)
\* k-th rank (from 0) of a task on its node gets these index sets
CoreOf(cl, k) ==
  CASE cl = "one"    -> {k}
    [] cl = "pair"   -> {2 * k, 2 * k + 1}
    [] cl = "stride" -> {k, k + 4}
    [] cl = "rev"    -> {7 - k}
    [] cl = "gap"    -> {k, k + 4, k + 9}
GpuOf(gl, k) ==
  CASE gl = "none"   -> {}
    [] gl = "own"    -> {k}
    [] gl = "shared" -> {0}
    [] gl = "two"    -> {2 * k + 1, 2 * k + 4}

Ord(ns, i) == Cardinality({j \in 1 .. i - 1 : ns[j] = ns[i]})

\* resource sets rs (nodes) with rps ranks each; rps = 1 is the plain case.
\* Ranks of one set share node and gpus (the slot structure of continuous_jsrun)
Mk(rs, rps, cl, gl, mpi, exe) ==
  [p   |-> [r \in 1 .. Len(rs) * rps |->
              LET s == ((r - 1) \div rps) + 1
                  q == (r - 1) % rps IN
              [node  |-> rs[s],
               cores |-> CoreOf(cl, Ord(rs, s) * rps + q),
               gpus  |-> GpuOf(gl, Ord(rs, s))]],
   rps |-> rps, mpi |-> mpi, exe |-> exe]

Assign(k) == [1 .. k -> Nodes]

Placements ==
  {Mk(rs, 1, cl, gl, mpi, TRUE) : rs \in UNION {Assign(k) : k \in 1 .. MaxRanks},
                                  cl \in CoreLayouts, gl \in GpuLayouts, mpi \in BOOLEAN}
  \cup
  {Mk(rs, 2, cl, gl, TRUE, TRUE) : rs \in UNION {Assign(k) : k \in 1 .. MaxRanks \div 2},
                                   cl \in CoreLayouts, gl \in GpuLayouts}

\* single- and two-rank tasks on nodes with prefix-related names
AliasPlacements ==
  {Mk(<<a>>, 1, cl, "none", mpi, TRUE) : a \in AliasNodes, cl \in {"one", "pair"}, mpi \in BOOLEAN}
  \cup {Mk(<<a, b>>, 1, "one", "none", TRUE, TRUE) : a \in AliasNodes, b \in AliasNodes \cup Local}

Pick(S) == CHOOSE x \in S : TRUE
N1 == Pick(Local \cap Nodes)
N2 == Pick(Nodes \ Local)
N3 == IF Nodes \ (Local \cup {N2}) = {} THEN N2 ELSE Pick(Nodes \ (Local \cup {N2}))

\* history tasks: different sizes, nodes, layouts; two cross the scaled limit
HistTasks ==
  {Mk(<<N1>>, 1, "one", "none", FALSE, TRUE),
   Mk(<<N2>>, 1, "rev", "own", TRUE, TRUE),
   Mk(<<N1, N2>>, 1, "pair", "own", TRUE, TRUE),
   Mk(<<N3>>, 2, "stride", "shared", TRUE, TRUE),
   Mk(<<N2, N2, N3>>, 1, "stride", "shared", TRUE, TRUE),
   Mk(<<N1, N2, N3, N1>>, 1, "gap", "two", FALSE, TRUE)}

FindTasks ==
  HistTasks \cup {Mk(<<N1>>, 1, "one", "none", FALSE, FALSE),
                  Mk(<<N2>>, 1, "one", "none", FALSE, TRUE)}
            \cup {Mk(<<a>>, 1, "one", "none", FALSE, TRUE) : a \in AliasNodes}

JsShaped(T) == TRUE     \* every task built by Mk has the resource-set shape

(* ---- what the methods emit ---------------------------------------------- *)
RECURSIVE DistinctSeq(_)
DistinctSeq(s) ==
  IF s = <<>> THEN <<>>
  ELSE LET r == DistinctSeq(SubSeq(s, 1, Len(s) - 1)) IN
       IF s[Len(s)] \in SeqSet(r) THEN r ELSE Append(r, s[Len(s)])

RECURSIVE Rep(_, _)
Rep(x, k) == IF k = 0 THEN <<>> ELSE <<x>> \o Rep(x, k - 1)

RECURSIVE Concat(_)
Concat(ss) == IF ss = <<>> THEN <<>> ELSE Head(ss) \o Concat(Tail(ss))

\* host:n / slots=n / --host a:n forms, expanded
Grouped(hs) == LET d == DistinctSeq(hs) IN
               Concat([i \in DOMAIN d |-> Rep(d[i], CountIn(hs, d[i]))])

SetMin(S) == CHOOSE x \in S : \A y \in S : x <= y
SetMax(S) == CHOOSE x \in S : \A y \in S : x >= y
Hull(S)   == IF S = {} THEN {} ELSE SetMin(S) .. SetMax(S)

NoPins == <<>>
Cmd(np, a, hosts, nn, pins, via, extra) ==
  [np |-> np, a |-> a, hosts |-> hosts, nn |-> nn, pins |-> pins, via |-> via, extra |-> extra]

FirstCores(P) == [i \in DOMAIN P |-> SetMin(P[i].cores)]

\* ibrun: IBRUN_TASKS_PER_NODE is the pinned option, else derived from the task
DerivedTpn(T) == LET d == CoresPerNode \div (Len(T.p) * Cardinality(T.p[1].cores)) IN
                 IF d = 0 THEN 1 ELSE d
OptLeaks(c)   == DevOptLeak /\ c.m = "IBRUN" /\ c.opt = "empty"
Tpn(c, r, T)  == IF c.opt = "pinned" THEN PinnedTpn
                 ELSE IF OptLeaks(c) /\ r # <<>> THEN r[1]
                 ELSE DerivedTpn(T)

\* res: what generations leave behind in the launcher object or in the config
\* objects it was given (lm_cfg, rm_info); <<>> in the intended design
NextRes(c, r, T) ==
  IF DevDplaceAccum /\ c.m = "MPIRUN" /\ c.fl = "dplace" THEN Append(r, FirstCores(T.p))
  ELSE IF OptLeaks(c) /\ r = <<>> THEN <<DerivedTpn(T)>>
  ELSE r

Gen(c, r, T) ==
  LET P  == T.p
      k  == Len(P)
      hs == NodeSeq(P)
  IN
  CASE c.m = "FORK"  -> Cmd(1, 1, <<>>, 0, NoPins, "none", <<>>)
    [] c.m \in {"SSH", "RSH"} -> Cmd(1, 1, <<hs[1]>>, 0, NoPins, "list", <<>>)
    [] c.m = "MPIRUN" ->
         Cmd(IF c.fl = "mpt" /\ ~DevMptCount THEN 1 ELSE k, 1, hs, 0, NoPins,
             IF k > Thr THEN "file" ELSE "list", NextRes(c, r, T))
    [] c.m = "MPIEXEC" ->
         CASE c.mode = "rf" ->
                Cmd(k, 1, hs, 0,
                    [i \in DOMAIN P |-> [host |-> P[i].node, cores |-> P[i].cores, gpus |-> {}]],
                    "file", <<>>)
           [] c.mode = "pals" ->
                Cmd(k, 1, DistinctSeq(hs), 0,
                    [i \in DOMAIN P |-> [host |-> "none",
                                         cores |-> IF DevPalsHull THEN Hull(P[i].cores) ELSE P[i].cores,
                                         gpus |-> {}]],
                    "file", <<>>)
           [] OTHER -> Cmd(k, 1, Grouped(hs), 0, NoPins, "file", <<>>)
    [] c.m = "SRUN" ->
         Cmd(k, 1, IF DevSrunFirst THEN <<hs[1]>> ELSE DistinctSeq(hs), Cardinality(NodeSet(P)), NoPins,
             IF c.vnew /\ Cardinality(NodeSet(P)) > Thr THEN "file" ELSE "list", <<>>)
    [] c.m \in {"APRUN", "CCMRUN"} -> Cmd(k, 1, <<>>, 0, NoPins, "none", <<>>)
    [] c.m = "IBRUN" -> Cmd(k, 1, <<>>, 0, NoPins, "none", <<Tpn(c, r, T)>>)
    [] c.m = "PRTE" -> Cmd(k, 1, Grouped(hs), 0, NoPins, "list", <<>>)
    [] c.m = "JSRUN" ->
         IF c.mode = "erf"
         THEN Cmd(k, 1, hs, 0,
                  [i \in DOMAIN P |-> [host |-> P[i].node, cores |-> P[i].cores, gpus |-> P[i].gpus]],
                  "file", <<>>)
         ELSE Cmd(k \div T.rps, T.rps, <<>>, 0, NoPins, "none", <<>>)

Can(c, T) ==
  CASE c.m = "FORK" -> /\ (DevForkShrink \/ Len(T.p) = 1)
                       /\ (\/ T.p[1].node \in Local
                           \/ DevForkPrefix /\ \E a \in Local : <<T.p[1].node, a>> \in PrefixRel)
                       /\ ~T.mpi /\ T.exe
    [] c.m = "SSH"  -> Len(T.p) = 1 /\ ~T.mpi /\ T.exe
    [] c.m = "RSH"  -> Len(T.p) = 1 /\ ~T.mpi
    [] OTHER        -> T.exe

Cans(ord, T) == [i \in DOMAIN ord |-> Can(ord[i], T)]

FindLauncher(ord, T) ==
  LET able == {i \in DOMAIN ord : Can(ord[i], T)} IN
  IF able = {} THEN 0 ELSE IF DevFindLast THEN SetMax(able) ELSE SetMin(able)

(* ---- behaviours ---------------------------------------------------------- *)
NoCur == [kind |-> "none"]

Init == /\ cfg \in Configs /\ res = <<>> /\ n = 0 /\ cur = NoCur /\ done = FALSE

Step(T) ==
  IF Can(cfg, T)
  THEN /\ cur' = [kind |-> "gen", T |-> T, can |-> TRUE, out |-> "cmd", C |-> Gen(cfg, res, T)]
       /\ res' = NextRes(cfg, res, T)
  ELSE /\ cur' = [kind |-> "gen", T |-> T, can |-> FALSE, out |-> "refuse", C |-> NoCur]
       /\ res' = res

Usable(T) == cfg.m = "JSRUN" => JsShaped(T)

GenH(T) == /\ ~done /\ n < MaxHist /\ Usable(T)
           /\ Step(T) /\ n' = n + 1 /\ UNCHANGED <<cfg, done>>

GenF(T) == /\ ~done /\ Usable(T)
           /\ Step(T) /\ done' = TRUE /\ n' = 0 /\ UNCHANGED cfg

Find(ord, T) ==
  /\ ~done /\ n = 0
  /\ cur' = [kind |-> "find", T |-> T, ord |-> ord, cans |-> Cans(ord, T), sel |-> FindLauncher(ord, T)]
  /\ done' = TRUE /\ UNCHANGED <<cfg, res, n>>

Next == \/ \E T \in HistTasks : GenH(T)
        \/ \E T \in Placements \cup AliasPlacements : GenF(T)
        \/ \E ord \in Orders, T \in FindTasks : Find(ord, T)

Spec == Init /\ [][Next]_vars

(* ---- properties ---------------------------------------------------------- *)
Generated == cur.kind = "gen" /\ cur.out = "cmd"

InvProcCount  == Generated => ProcCountOK(cfg, cur.C, cur.T.p)
InvExactNodes == Generated => ExactNodesOK(cfg, cur.C, cur.T.p, Local)
InvPins       == Generated => PinsOK(cfg, cur.C, cur.T.p)
InvRefuse     == cur.kind = "gen" /\ CannotStart(cfg, cur.T.p, cur.T.mpi, Local) => cur.out = "refuse"
InvOrder      == cur.kind = "find" => /\ OrderOK(cur.cans, cur.sel)
                                      /\ SelAble(cur.ord, cur.sel, cur.T.p, cur.T.mpi, Local)
\* generating a command leaves the launcher and its config objects untouched
InvResFixed   == res = <<>>
InvConfigUntouched == InvResFixed

\* the command depends only on the task at hand
ActHistoryFree ==
  [][cur'.kind = "gen" /\ cur'.out = "cmd" => cur'.C = Gen(cfg, <<>>, cur'.T)]_vars
=============================================================================
