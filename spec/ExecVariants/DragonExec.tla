----------------------------- MODULE DragonExec -----------------------------
(***************************************************************************)
(* Design model of the Dragon executor.  Agent side:                       *)
(* agent/executing/dragon.py (Dragon._handle_task, cancel_task,            *)
(* _dragon_watch) on top of Popen.work and the base class (control_cb,     *)
(* handle_timeout, _to_watcher).  Server side: the dragon executor process *)
(* bin/radical-pilot-dragon-executor.py (Server._worker_thread, _launch*,  *)
(* _watcher_thread, GroupHandler / AsyncResultHandler).  The two sides     *)
(* talk over two ZMQ pipes.                                                *)
(*                                                                         *)
(*   Work          intake of one bulk: announce AGENT_EXECUTING, register, *)
(*                 find launcher + exec script (may raise: unschedule and  *)
(*                 FAILED), send {run, task} to the server                 *)
(*   Cancel        control thread: {cancel, uid} to the server             *)
(*   Timeout(t)    _to_watcher fires cancel_task                           *)
(*   SrvTake       server worker thread takes one request: run -> launch   *)
(*                 (process group for ranks > 1, pool job otherwise),      *)
(*                 cancel -> logged as not implemented                     *)
(*   RankExit(t,r) environment: rank r of t exits with RankRet[t][r]       *)
(*   SrvPass       server watcher thread, one pass over the launched tasks *)
(*                 in launch order: each task whose handler is no longer   *)
(*                 alive -> exit code / target state, {done, task} back    *)
(*   DWatch        agent watcher thread takes one message: done -> publish *)
(*                 unschedule, advance to AGENT_STAGING_OUTPUT_PENDING     *)
(*                                                                         *)
(* Intended design (all Dev* FALSE): a task is collected when all its      *)
(* ranks have exited, its exit code is non-zero iff some rank's is, a      *)
(* request which cannot be launched is reported back as FAILED.            *)
(* Known deviations of the code (TRUE = as coded):                         *)
(*   DevFirstRankCollects  GroupHandler.is_alive is `not inactive_puids`:  *)
(*                         a process group counts as finished as soon as   *)
(*                         ONE rank has exited                             *)
(*   DevLaunchKillsServer  an exception in _launch* (e.g. the assertion    *)
(*                         ranks == 1 for function tasks) ends the worker  *)
(*                         thread and with it the server                   *)
(* Cancel requests are ignored by the server ("not yet implemented"): a    *)
(* named task runs to completion and is handed on with its own outcome.    *)
(* That is C08's business; C07 / C05 hold either way.                      *)
(* For non-vacuity only (the code does not do this):                       *)
(*   DevErrNoUnsched       launch error path without unschedule            *)
(*   DevDoneAlways         target DONE whatever the exit code              *)
(*   DevWatchTwice         the agent watcher hands a done task on twice    *)
(***************************************************************************)
EXTENDS ExecVariantsOps, Sequences, FiniteSets, TLC

CONSTANTS
  T, Bulks,
  Fault,        \* T -> "none" | "nolauncher" | "script"   (raise in _handle_task)
  Mode,         \* T -> "exec" | "func" | "badfunc" (function task with ranks > 1)
  RankRet,      \* T -> sequence of exit codes, one per rank
  HasTimeout, CancelMsgs,
  DevFirstRankCollects, DevLaunchKillsServer,
  DevErrNoUnsched, DevDoneAlways, DevWatchTwice

VARIABLES ib, ic, accepted, tasks, a2s, s2a, srvdead, running, order, exited, collected,
          asked, treg, tofired, x

vars == <<ib, ic, accepted, tasks, a2s, s2a, srvdead, running, order, exited, collected,
          asked, treg, tofired, x>>

SeqSet(s) == {s[i] : i \in 1 .. Len(s)}
Ranks(t)  == 1 .. Len(RankRet[t])
NonZero(t, R) == {RankRet[t][r] : r \in R} \ {0}
\* GroupHandler.get_results: the last non-zero code seen, else 0
RetOf(t, R) == IF NonZero(t, R) = {} THEN 0 ELSE CHOOSE c \in NonZero(t, R) : TRUE

\* fin: ghost, what was true of t's ranks when the outcome was decided (see Known)
Msg(c, t, e, g, f) == [cmd |-> c, t |-> t, exit |-> e, target |-> g, fin |-> f]

\* non-zero as soon as a rank has failed, 0 once all ranks are out, else unknown
Known(t) == IF Fault[t] # "none" \/ Mode[t] = "badfunc" THEN NoSt
            ELSE IF exited[t] # Ranks(t) /\ NonZero(t, exited[t]) = {} THEN NoSt
            ELSE RetOf(t, exited[t])

HandOn(y, t, tgt, ex, fin) ==
  LET ok == Truthful(tgt, fin, FALSE, Fault[t] # "none" \/ Mode[t] = "badfunc",
                     t \in asked \/ HasTimeout[t])
  IN [y EXCEPT !.handon[t] = @ + 1, !.target[t] = tgt, !.exitc[t] = ex,
               !.lied = IF ok THEN @ ELSE @ \cup {t}]

RECURSIVE Intake(_, _)
Intake(y, b) ==
  IF b = <<>> THEN y
  ELSE LET t  == Head(b)
           y1 == [y EXCEPT !.ann[t] = @ + 1]
           y2 == IF Fault[t] = "none" THEN y1
                 ELSE HandOn([y1 EXCEPT !.unsched[t] = IF DevErrNoUnsched THEN @ ELSE @ + 1],
                             t, "FAILED", NoExit, NoSt)
       IN Intake(y2, Tail(b))

Init ==
  /\ ib = 1 /\ ic = 1 /\ accepted = {} /\ tasks = {}
  /\ a2s = <<>> /\ s2a = <<>>            \* the server's initial {hello} is a no-op for the agent
  /\ srvdead = FALSE /\ running = {} /\ order = <<>> /\ exited = [t \in T |-> {}] /\ collected = {}
  /\ asked = {} /\ treg = {} /\ tofired = {}
  /\ x = [ann |-> [t \in T |-> 0], handon |-> [t \in T |-> 0], unsched |-> [t \in T |-> 0],
          target |-> [t \in T |-> "none"], exitc |-> [t \in T |-> NoExit], lied |-> {}]

Work ==
  /\ ib <= Len(Bulks)
  /\ LET b   == Bulks[ib]
         run == SelectSeq(b, LAMBDA t : Fault[t] = "none")
     IN /\ ib' = ib + 1
        /\ accepted' = accepted \cup SeqSet(b)
        /\ tasks' = tasks \cup SeqSet(b)
        /\ x' = Intake(x, b)
        /\ a2s' = a2s \o [i \in 1 .. Len(run) |-> Msg("run", run[i], NoExit, "none", NoSt)]
        /\ treg' = treg \cup {t \in SeqSet(run) : HasTimeout[t]}
  /\ UNCHANGED <<ic, s2a, srvdead, running, order, exited, collected, asked, tofired>>

Cancel ==
  /\ ic <= Len(CancelMsgs)
  /\ LET m  == CancelMsgs[ic]
         to == SelectSeq(m, LAMBDA t : t \in tasks)
     IN /\ ic' = ic + 1
        /\ asked' = asked \cup SeqSet(m)
        /\ a2s' = a2s \o [i \in 1 .. Len(to) |-> Msg("cancel", to[i], NoExit, "none", NoSt)]
  /\ UNCHANGED <<ib, accepted, tasks, s2a, srvdead, running, order, exited, collected, treg, tofired, x>>

Timeout(t) ==
  /\ t \in treg /\ t \notin tofired
  /\ tofired' = tofired \cup {t}
  /\ a2s' = Append(a2s, Msg("cancel", t, NoExit, "none", NoSt))
  /\ UNCHANGED <<ib, ic, accepted, tasks, s2a, srvdead, running, order, exited, collected, asked, treg, x>>

SrvTake ==
  /\ ~srvdead /\ a2s # <<>>
  /\ LET m == Head(a2s) t == m.t IN
     /\ a2s' = Tail(a2s)
     /\ IF m.cmd = "cancel" THEN UNCHANGED <<srvdead, running, order, s2a>>
        ELSE IF Mode[t] = "badfunc" THEN
          /\ srvdead' = DevLaunchKillsServer
          /\ s2a' = IF DevLaunchKillsServer THEN s2a ELSE Append(s2a, Msg("done", t, 1, "FAILED", NoSt))
          /\ UNCHANGED <<running, order>>
        ELSE
          /\ running' = running \cup {t}
          /\ order' = Append(order, t)
          /\ UNCHANGED <<srvdead, s2a>>
  /\ UNCHANGED <<ib, ic, accepted, tasks, exited, collected, asked, treg, tofired, x>>

RankExit(t, r) ==
  /\ t \in running /\ r \in Ranks(t) /\ r \notin exited[t]
  /\ exited' = [exited EXCEPT ![t] = @ \cup {r}]
  /\ UNCHANGED <<ib, ic, accepted, tasks, a2s, s2a, srvdead, running, order, collected, asked, treg, tofired, x>>

Ready(t) == /\ t \in running /\ t \notin collected
            /\ IF DevFirstRankCollects THEN exited[t] # {} ELSE exited[t] = Ranks(t)

DoneMsg(t) == LET ret == RetOf(t, exited[t])
                  tgt == IF DevDoneAlways THEN "DONE" ELSE TargetOfExit(ret)
              IN Msg("done", t, ret, tgt, Known(t))

SrvPass ==
  /\ \E t \in T : Ready(t)
  /\ LET rs == SelectSeq(order, Ready) IN
     /\ s2a' = s2a \o [i \in 1 .. Len(rs) |-> DoneMsg(rs[i])]
     /\ collected' = collected \cup SeqSet(rs)
  /\ UNCHANGED <<ib, ic, accepted, tasks, a2s, srvdead, running, order, exited, asked, treg, tofired, x>>

DWatch ==
  /\ s2a # <<>>
  /\ LET m == Head(s2a) t == m.t IN
     /\ s2a' = Tail(s2a)
     /\ IF m.cmd = "hello" THEN UNCHANGED x
        ELSE LET y1 == HandOn([x EXCEPT !.unsched[t] = @ + 1], t, m.target, m.exit, m.fin)
             IN x' = IF DevWatchTwice THEN HandOn(y1, t, m.target, m.exit, m.fin) ELSE y1
  /\ UNCHANGED <<ib, ic, accepted, tasks, a2s, srvdead, running, order, exited, collected, asked, treg, tofired>>

Next == Work \/ Cancel \/ SrvTake \/ SrvPass \/ DWatch
        \/ \E t \in T : Timeout(t) \/ \E r \in Ranks(t) : RankExit(t, r)

Spec == Init /\ [][Next]_vars /\ WF_vars(Next)

-----------------------------------------------------------------------------
Quiet ==
  /\ ib > Len(Bulks) /\ ic > Len(CancelMsgs)
  /\ (a2s = <<>> \/ srvdead) /\ s2a = <<>>
  /\ \A t \in running : t \in collected /\ exited[t] = Ranks(t)
  /\ treg \subseteq tofired

StartOnce         == \A t \in T : x.ann[t] <= 1 /\ (x.handon[t] > 0 => x.ann[t] = 1)
HandOnOnce        == \A t \in T : x.handon[t] <= 1
ReleaseOnce       == /\ \A t \in T : x.unsched[t] <= 1
                     /\ Quiet => \A t \in accepted : x.handon[t] >= 1 => x.unsched[t] = 1
NeverLeftBehind   == Quiet => \A t \in accepted : x.handon[t] >= 1
TruthfulOutcome   == x.lied = {}
ComponentSurvives == ~srvdead
Sane              == \A t \in T : x.handon[t] > 0 => t \in accepted

Termination == <>[]Quiet
=============================================================================
