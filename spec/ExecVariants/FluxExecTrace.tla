--------------------------- MODULE FluxExecTrace ---------------------------
(***************************************************************************)
(* Trace monitor for the Flux executor: consumes the events recorded by    *)
(* flux_rig.py from the real Flux executor + Flux launch method running    *)
(* under the baton controller and maintains the ghosts of the design model *)
(* (FluxExec.tla): ann, handon, unsched, seenfin, seenfatal.               *)
(* Total: a failing clause is added to errs, the monitor carries on.       *)
(*                                                                         *)
(* Events (all carry the same fields):                                     *)
(*   Accept uid                 task passed to work()                      *)
(*   CancelMsg uids             cancel_tasks control message received      *)
(*   RegTimeout uid             run-time limit registered                  *)
(*   Handle uid name status type sev                                       *)
(*                              _handle_event_cb entered in the agent      *)
(*   Adv uid state push target exit exc                                    *)
(*                              advance() returned in the agent            *)
(*   PubUnsched uids            AGENT_UNSCHEDULE_PUBSUB publication        *)
(*   ThreadDied                 an exception ended a thread / the          *)
(*                              partition process                          *)
(*   End res name uids          quiescence; name = error text or "none"    *)
(* FluxEv / ChildHandle / ChildAdv / Submit ... are context only.          *)
(***************************************************************************)
EXTENDS ExecVariantsOps, Sequences, FiniteSets, TLC, Json, IOUtils

CONSTANT NeedsRelease      \* the executor holds slots of the agent scheduler (FALSE for flux)

Batch  == JsonDeserialize(IOEnv.TRACE_FILE)
Traces == Batch.traces

VARIABLES tid, l, ann, handon, unsched, kinds, seenfin, seenfatal, accepted, named,
          errs, fin

vars == <<tid, l, ann, handon, unsched, kinds, seenfin, seenfatal, accepted, named, errs, fin>>

T      == Traces[tid]
Ev     == T.events
Uids   == {T.uids[i] : i \in 1 .. Len(T.uids)}
SeqSet(s) == {s[i] : i \in 1 .. Len(s)}
E(cond, name) == IF cond THEN {} ELSE {name}

Init ==
  /\ tid \in 1 .. Len(Traces) /\ l = 1
  /\ ann = [t \in Uids |-> 0] /\ handon = [t \in Uids |-> 0] /\ unsched = [t \in Uids |-> 0]
  /\ kinds = [t \in Uids |-> {}]
  /\ seenfin = [t \in Uids |-> NoSt] /\ seenfatal = {}
  /\ accepted = {} /\ named = {}
  /\ errs = {} /\ fin = FALSE

Asked(t)   == t \in named \/ T.spec[t].timeout > 0
Faulted(t) == T.spec[t].fault # "none"

\* clauses owed by one hand-on of t with outcome tgt
HandOnErrs(t, tgt, e) ==
     E(handon[t] = 0, "C07.HandedOnTwice")
  \cup E(ann[t] = 1, "C07.HandOnWithoutStart")
  \cup E(tgt \in {"DONE", "FAILED", "CANCELED"}, "C07.OutcomeMissing")
  \cup E(kinds[t] = {} \/ (("CANCELED" \in kinds[t]) <=> (tgt = "CANCELED")), "C07.CanceledAndCollected")
  \cup (IF tgt = "CANCELED"
        THEN E(Asked(t), "C05.CanceledNotAsked")
        ELSE IF tgt \in {"DONE", "FAILED"}
        THEN E(Truthful(tgt, seenfin[t], t \in seenfatal, Faulted(t), Asked(t)), "C05.OutcomeWrong")
        ELSE {})
  \cup E((tgt \in {"DONE", "FAILED"} /\ seenfin[t] # NoSt /\ handon[t] = 0)
           => ExitCodeOK(seenfin[t], e.exit), "C05.ExitCode")
  \cup E(tgt = "FAILED" => (e.exit # NoExit \/ e.exc = "yes"), "C05.ReasonRecorded")

Step ==
  /\ ~fin /\ l <= Len(Ev)
  /\ LET e == Ev[l] t == e.uid IN
     /\ l' = l + 1 /\ fin' = FALSE
     /\ CASE e.ev = "Accept" ->
               /\ accepted' = accepted \cup {t}
               /\ errs' = errs \cup E(t \notin accepted, "C07.AcceptedTwice")
               /\ UNCHANGED <<ann, handon, unsched, kinds, seenfin, seenfatal, named>>
          [] e.ev = "CancelMsg" ->
               /\ named' = named \cup SeqSet(e.uids)
               /\ UNCHANGED <<ann, handon, unsched, kinds, seenfin, seenfatal, accepted, errs>>
          [] e.ev = "Handle" /\ t \in Uids ->
               /\ seenfin' = IF e.name = "finish" THEN [seenfin EXCEPT ![t] = e.status] ELSE seenfin
               /\ seenfatal' = IF e.name = "lm_failed" \/
                                  (e.name = "exception" /\ e.sev = 0 /\ e.type \notin {"cancel", "timeout"})
                               THEN seenfatal \cup {t} ELSE seenfatal
               /\ UNCHANGED <<ann, handon, unsched, kinds, accepted, named, errs>>
          [] e.ev = "PubUnsched" ->
               /\ unsched' = [u \in Uids |-> IF u \in SeqSet(e.uids) THEN unsched[u] + 1 ELSE unsched[u]]
               /\ errs' = errs \cup UNION {E(unsched[u] = 0, "C07.ReleasedTwice") : u \in SeqSet(e.uids)}
                               \cup UNION {E(u \in accepted, "C07.ReleaseUnknown") : u \in SeqSet(e.uids)}
               /\ UNCHANGED <<ann, handon, kinds, seenfin, seenfatal, accepted, named>>
          [] e.ev = "Adv" ->
               IF e.state = "AGENT_EXECUTING" THEN
                 /\ ann' = [ann EXCEPT ![t] = @ + 1]
                 /\ errs' = errs \cup E(ann[t] = 0, "C07.StartAnnouncedTwice")
                                 \cup E(t \in accepted, "C07.StartWithoutAccept")
                                 \cup E(handon[t] = 0, "C07.StartAfterHandOn")
                 /\ UNCHANGED <<handon, unsched, kinds, seenfin, seenfatal, accepted, named>>
               ELSE IF e.state = "AGENT_STAGING_OUTPUT_PENDING" /\ e.push THEN
                 /\ handon' = [handon EXCEPT ![t] = @ + 1]
                 /\ kinds' = [kinds EXCEPT ![t] = @ \cup {e.target}]
                 /\ errs' = errs \cup HandOnErrs(t, e.target, e)
                 /\ UNCHANGED <<ann, unsched, seenfin, seenfatal, accepted, named>>
               ELSE IF e.state = "FAILED" THEN
                 /\ handon' = [handon EXCEPT ![t] = @ + 1]
                 /\ kinds' = [kinds EXCEPT ![t] = @ \cup {"FAILED"}]
                 /\ errs' = errs \cup HandOnErrs(t, "FAILED", e)
                 /\ UNCHANGED <<ann, unsched, seenfin, seenfatal, accepted, named>>
               ELSE
                 /\ errs' = errs \cup {"C07.UnexpectedAdvance"}
                 /\ UNCHANGED <<ann, handon, unsched, kinds, seenfin, seenfatal, accepted, named>>
          [] e.ev = "ThreadDied" ->
               /\ errs' = errs \cup {"C05.ComponentDied"}
               /\ UNCHANGED <<ann, handon, unsched, kinds, seenfin, seenfatal, accepted, named>>
          [] e.ev = "End" ->
               /\ errs' = errs
                    \cup E(e.name = "none", "C07.ThreadDiedOrDeadlock")
                    \cup UNION {E(handon[u] >= 1, "C07.LeftBehind") : u \in accepted}
                    \cup UNION {E(NeedsRelease => unsched[u] = 1, "C07.NeverReleased") : u \in accepted}
                    \cup UNION {E(u \in accepted, "C07.HandOnWithoutAccept") : u \in {v \in Uids : handon[v] > 0}}
               /\ UNCHANGED <<ann, handon, unsched, kinds, seenfin, seenfatal, accepted, named>>
          [] OTHER ->
               UNCHANGED <<ann, handon, unsched, kinds, seenfin, seenfatal, accepted, named, errs>>
  /\ UNCHANGED tid

Finish ==
  /\ ~fin /\ l > Len(Ev) /\ fin' = TRUE
  /\ PrintT(<<"RESULT", T.tid, errs>>)
  /\ UNCHANGED <<tid, l, ann, handon, unsched, kinds, seenfin, seenfatal, accepted, named, errs>>

Next == Step \/ Finish
Spec == Init /\ [][Next]_vars
=============================================================================
