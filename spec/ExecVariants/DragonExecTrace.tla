-------------------------- MODULE DragonExecTrace --------------------------
(***************************************************************************)
(* Trace monitor for the Dragon executor: consumes the events recorded by  *)
(* dragon_rig.py from the real agent-side Dragon executor and the real     *)
(* dragon executor server script and maintains the ghosts of the design    *)
(* model (DragonExec.tla).  Total: failing clauses go to errs.             *)
(*                                                                         *)
(*   Accept uid / CancelMsg uids / RegTimeout uid                          *)
(*   Launch uid status=#ranks      the server started the task             *)
(*   RankExit uid rank status      a rank exited with code `status`        *)
(*   Adv uid state push target exit exc     advance() returned (agent)     *)
(*   PubUnsched uids               AGENT_UNSCHEDULE_PUBSUB publication     *)
(*   ThreadDied / ComponentStop    an exception ended a thread / stop()    *)
(*   End res name uids             quiescence; name = error text or "none" *)
(***************************************************************************)
EXTENDS ExecVariantsOps, Sequences, FiniteSets, TLC, Json, IOUtils

CONSTANT NeedsRelease

Batch  == JsonDeserialize(IOEnv.TRACE_FILE)
Traces == Batch.traces

VARIABLES tid, l, ann, handon, unsched, kinds, nex, nz, launched, sdone, dfin, dout, accepted, named, errs, fin

vars == <<tid, l, ann, handon, unsched, kinds, nex, nz, launched, sdone, dfin, dout, accepted, named, errs, fin>>

T      == Traces[tid]
Ev     == T.events
Uids   == {T.uids[i] : i \in 1 .. Len(T.uids)}
SeqSet(s) == {s[i] : i \in 1 .. Len(s)}
E(cond, name) == IF cond THEN {} ELSE {name}
Open == -2      \* "the server has not decided this task yet"

Init ==
  /\ tid \in 1 .. Len(Traces) /\ l = 1
  /\ ann = [t \in Uids |-> 0] /\ handon = [t \in Uids |-> 0] /\ unsched = [t \in Uids |-> 0]
  /\ kinds = [t \in Uids |-> {}]
  /\ nex = [t \in Uids |-> 0] /\ nz = {} /\ launched = {}
  /\ sdone = {}
  /\ dfin = [t \in Uids |-> Open]   \* Fin(t) when the server decided t's outcome
  /\ dout = [t \in Uids |-> 0]        \* ranks out at that time
  /\ accepted = {} /\ named = {}
  /\ errs = {} /\ fin = FALSE

NRanks(t)  == Len(T.spec[t].rets)
Asked(t)   == t \in named \/ T.spec[t].timeout > 0
Faulted(t) == T.spec[t].fault # "none" \/ T.spec[t].mode = "badfunc"
\* what is known about t's processes: non-zero as soon as a rank failed, 0 once all are out
Fin(t) == IF Faulted(t) THEN NoSt
          ELSE IF t \in nz THEN 1
          ELSE IF nex[t] = NRanks(t) THEN 0 ELSE NoSt

\* the truth the outcome of t has to match: what held when the server decided it
DFin(t) == IF dfin[t] = Open THEN Fin(t) ELSE dfin[t]
DOut(t) == IF dfin[t] = Open THEN nex[t] ELSE dout[t]

HandOnErrs(t, tgt, e) ==
     E(handon[t] = 0, "C07.HandedOnTwice")
  \cup E(ann[t] = 1, "C07.HandOnWithoutStart")
  \cup E(tgt \in {"DONE", "FAILED", "CANCELED"}, "C07.OutcomeMissing")
  \cup E(kinds[t] = {} \/ (("CANCELED" \in kinds[t]) <=> (tgt = "CANCELED")), "C07.CanceledAndCollected")
  \cup E((t \in launched /\ tgt \in {"DONE", "FAILED"}) => DOut(t) = NRanks(t), "C07.HandedOnWhileRunning")
  \cup (IF tgt = "CANCELED"
        THEN E(Asked(t), "C05.CanceledNotAsked")
        ELSE IF tgt \in {"DONE", "FAILED"}
        THEN E(Truthful(tgt, DFin(t), FALSE, Faulted(t), Asked(t)), "C05.OutcomeWrong")
        ELSE {})
  \cup E((tgt \in {"DONE", "FAILED"} /\ DFin(t) # NoSt /\ handon[t] = 0)
           => ((e.exit = 0) <=> (DFin(t) = 0)) /\ e.exit # NoExit
              /\ (NRanks(t) = 1 => e.exit = T.spec[t].rets[1]), "C05.ExitCode")
  \cup E(tgt = "FAILED" => (e.exit # NoExit \/ e.exc = "yes"), "C05.ReasonRecorded")

Step ==
  /\ ~fin /\ l <= Len(Ev)
  /\ LET e == Ev[l] t == e.uid IN
     /\ l' = l + 1 /\ fin' = FALSE
     /\ CASE e.ev = "Accept" ->
               /\ accepted' = accepted \cup {t}
               /\ errs' = errs \cup E(t \notin accepted, "C07.AcceptedTwice")
               /\ UNCHANGED <<ann, handon, unsched, kinds, nex, nz, launched, sdone, dfin, dout, named>>
          [] e.ev = "CancelMsg" ->
               /\ named' = named \cup SeqSet(e.uids)
               /\ UNCHANGED <<ann, handon, unsched, kinds, nex, nz, launched, sdone, dfin, dout, accepted, errs>>
          [] e.ev = "Launch" ->
               /\ launched' = launched \cup {t}
               /\ errs' = errs \cup E(t \notin launched, "C07.LaunchedTwice")
               /\ UNCHANGED <<ann, handon, unsched, kinds, nex, nz, sdone, dfin, dout, accepted, named>>
          [] e.ev = "RankExit" ->
               /\ nex' = [nex EXCEPT ![t] = @ + 1]
               /\ nz' = IF e.status # 0 THEN nz \cup {t} ELSE nz
               /\ UNCHANGED <<ann, handon, unsched, kinds, launched, sdone, dfin, dout, accepted, named, errs>>
          \* the server reads the exit information of t (the last read before SrvDone decides)
          [] e.ev = "SrvRead" /\ t \notin sdone ->
               /\ dfin' = [dfin EXCEPT ![t] = Fin(t)]
               /\ dout' = [dout EXCEPT ![t] = nex[t]]
               /\ UNCHANGED <<ann, handon, unsched, kinds, nex, nz, launched, sdone, accepted, named, errs>>
          [] e.ev = "SrvDone" ->
               /\ sdone' = sdone \cup {t}
               /\ errs' = errs \cup E(t \notin sdone, "C07.CollectedTwice")
               /\ UNCHANGED <<ann, handon, unsched, kinds, nex, nz, launched, dfin, dout, accepted, named>>
          [] e.ev = "PubUnsched" ->
               /\ unsched' = [u \in Uids |-> IF u \in SeqSet(e.uids) THEN unsched[u] + 1 ELSE unsched[u]]
               /\ errs' = errs \cup UNION {E(unsched[u] = 0, "C07.ReleasedTwice") : u \in SeqSet(e.uids)}
                               \cup UNION {E(u \in accepted, "C07.ReleaseUnknown") : u \in SeqSet(e.uids)}
               /\ UNCHANGED <<ann, handon, kinds, nex, nz, launched, sdone, dfin, dout, accepted, named>>
          [] e.ev = "Adv" ->
               IF e.state = "AGENT_EXECUTING" THEN
                 /\ ann' = [ann EXCEPT ![t] = @ + 1]
                 /\ errs' = errs \cup E(ann[t] = 0, "C07.StartAnnouncedTwice")
                                 \cup E(t \in accepted, "C07.StartWithoutAccept")
                                 \cup E(handon[t] = 0, "C07.StartAfterHandOn")
                 /\ UNCHANGED <<handon, unsched, kinds, nex, nz, launched, sdone, dfin, dout, accepted, named>>
               ELSE IF e.state = "AGENT_STAGING_OUTPUT_PENDING" /\ e.push THEN
                 /\ handon' = [handon EXCEPT ![t] = @ + 1]
                 /\ kinds' = [kinds EXCEPT ![t] = @ \cup {e.target}]
                 /\ errs' = errs \cup HandOnErrs(t, e.target, e)
                 /\ UNCHANGED <<ann, unsched, nex, nz, launched, sdone, dfin, dout, accepted, named>>
               ELSE IF e.state = "FAILED" THEN
                 /\ handon' = [handon EXCEPT ![t] = @ + 1]
                 /\ kinds' = [kinds EXCEPT ![t] = @ \cup {"FAILED"}]
                 /\ errs' = errs \cup HandOnErrs(t, "FAILED", e)
                 /\ UNCHANGED <<ann, unsched, nex, nz, launched, sdone, dfin, dout, accepted, named>>
               ELSE
                 /\ errs' = errs \cup {"C07.UnexpectedAdvance"}
                 /\ UNCHANGED <<ann, handon, unsched, kinds, nex, nz, launched, sdone, dfin, dout, accepted, named>>
          [] e.ev \in {"ThreadDied", "ComponentStop"} ->
               /\ errs' = errs \cup {"C05.ComponentDied"}
               /\ UNCHANGED <<ann, handon, unsched, kinds, nex, nz, launched, sdone, dfin, dout, accepted, named>>
          [] e.ev = "End" ->
               /\ errs' = errs
                    \cup E(e.name = "none", "C07.ThreadDiedOrDeadlock")
                    \cup UNION {E(handon[u] >= 1, "C07.LeftBehind") : u \in accepted}
                    \cup UNION {E(NeedsRelease => unsched[u] = 1, "C07.NeverReleased") : u \in accepted}
                    \cup UNION {E(u \in accepted, "C07.HandOnWithoutAccept") : u \in {v \in Uids : handon[v] > 0}}
               /\ UNCHANGED <<ann, handon, unsched, kinds, nex, nz, launched, sdone, dfin, dout, accepted, named>>
          [] OTHER ->
               UNCHANGED <<ann, handon, unsched, kinds, nex, nz, launched, sdone, dfin, dout, accepted, named, errs>>
  /\ UNCHANGED tid

Finish ==
  /\ ~fin /\ l > Len(Ev) /\ fin' = TRUE
  /\ PrintT(<<"RESULT", T.tid, errs>>)
  /\ UNCHANGED <<tid, l, ann, handon, unsched, kinds, nex, nz, launched, sdone, dfin, dout, accepted, named, errs>>

Next == Step \/ Finish
Spec == Init /\ [][Next]_vars
=============================================================================
