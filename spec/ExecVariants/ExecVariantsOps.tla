--------------------------- MODULE ExecVariantsOps ---------------------------
(***************************************************************************)
(* Pure operators shared by the design models of the Flux and Dragon       *)
(* executors (FluxExec, DragonExec) and by their trace monitors.           *)
(*                                                                         *)
(* A wait status is the integer POSIX wait(2) hands out and which the flux *)
(* `finish` event carries in context.status: the low seven bits hold the   *)
(* terminating signal (0 = the process called exit), bit 7 the core flag,  *)
(* the next byte the exit code:  0 -> exit 0, 256 -> exit 1, 9 -> SIGKILL, *)
(* 15 -> SIGTERM, 139 -> SIGSEGV + core.                                   *)
(***************************************************************************)
EXTENDS Naturals, Integers

NoSt   == -1        \* "no finish status (yet)"
NoExit == -99999    \* "no exit code recorded on the task"

Signaled(s) == s % 128 # 0
SigOf(s)    == s % 128
CodeOf(s)   == s \div 256

\* the exit code the task should carry for wait status s (shell convention)
ExitOfStatus(s) == IF Signaled(s) THEN 128 + SigOf(s) ELSE CodeOf(s)

\* what C05 demands of a recorded exit code e for wait status s: the exit code
\* itself for a process that exited; any non-zero value for a signalled one
\* (-sig, 128+sig and the raw status are all in use)
ExitCodeOK(s, e) == IF Signaled(s) THEN e # 0 /\ e # NoExit ELSE e = CodeOf(s)

\* target state owed to a process outcome
TargetOfExit(e) == IF e = 0 THEN "DONE" ELSE "FAILED"

\* "the final state tells the truth" for one hand-on:
\*   fin    : wait status / exit code the executor was told about (NoSt: none)
\*   fatal  : a fatal (non-cancel) error was reported for the task
\*   fault  : the task could not be launched
\*   asked  : a cancel or a run-time limit was requested for the task
Truthful(tgt, fin, fatal, fault, asked) ==
  CASE tgt = "DONE"     -> fin = 0 /\ ~fatal /\ ~fault
    [] tgt = "FAILED"   -> (fin # NoSt /\ fin # 0) \/ fatal \/ fault
    [] tgt = "CANCELED" -> asked
    [] OTHER            -> FALSE
=============================================================================
