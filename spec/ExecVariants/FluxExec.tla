------------------------------ MODULE FluxExec ------------------------------
(***************************************************************************)
(* Design model of the Flux executor: agent/executing/flux.py (Flux.work,  *)
(* _handle_event_cb, cancel_task) together with the part of the Flux       *)
(* launch method it is wired to (agent/launch_method/flux.py:              *)
(* submit_tasks, cancel_task, _part_thread, _queue_watcher,                *)
(* _job_id_handler, _job_event_handler).                                   *)
(*                                                                         *)
(* Strands of activity, one action each per message / critical section:    *)
(*   Work          the component main thread takes in one bulk             *)
(*                 (announce AGENT_EXECUTING, register in _tasks, create   *)
(*                 the job spec, submit message to the partition queue)    *)
(*   Cancel        control thread: cancel_tasks message -> get_task ->     *)
(*                 LM.cancel_task -> cancel message to the partition queue *)
(*   Timeout(t)    _to_watcher fires the run-time limit registered at the  *)
(*                 job's start event -> cancel_task                        *)
(*   PartSubmit / PartAnnounce / PartCancel                                *)
(*                 the partition process: takes a message from its in      *)
(*                 queue; submit -> helper.submit (jobs are live in flux   *)
(*                 from here on), then one job_id message per task to the  *)
(*                 out queue; cancel -> helper.cancel                      *)
(*   FluxEv(t)     environment: flux appends the next event of job t to    *)
(*                 the out queue.  Events of a job are ordered, but they   *)
(*                 interleave freely with the job_id messages: an event    *)
(*                 may overtake the job id of its own job.                 *)
(*   Watch         the LM queue watcher takes one message from the out     *)
(*                 queue: job_id -> _job_id_handler (record the id, flush  *)
(*                 the events which came early), event ->                  *)
(*                 _job_event_handler (buffer if the id is unknown, else   *)
(*                 the executor's _handle_event_cb)                        *)
(*                                                                         *)
(* Flux job life cycle (RFC 21, reduced to the events the executor can     *)
(* tell apart):  alloc start finish(status) release clean, with            *)
(*   exception(type, severity) at any point before clean: severity 0 is    *)
(*   fatal (the job is killed; if it was running a finish event with the   *)
(*   status of the killed shell still follows), severity > 0 is not (the   *)
(*   job goes on).  A cancel request raises exception(cancel, 0).          *)
(*                                                                         *)
(* Intended design (all Dev* FALSE): the first terminal event of a job     *)
(* (finish, fatal exception, launch failure) decides the outcome, the task *)
(* is handed on once and retired; whatever flux reports for it afterwards  *)
(* is ignored.  Flux owns the resources: the executor never asks the agent *)
(* scheduler to release anything (the agent scheduler is the no-op one),   *)
(* so ReleaseOnce holds trivially.                                         *)
(*                                                                         *)
(* Known deviations of the code are the Dev* constants (TRUE = as coded):  *)
(*   DevNoRetire       a task is never retired: every further terminal     *)
(*                     event hands it on again (exception then finish,     *)
(*                     finish then late cancel exception)                  *)
(*   DevNonFatalFails  exception events are FAILED whatever the severity   *)
(*   DevRawStatus      exit_code := raw wait status (exit 1 -> 256)        *)
(*   DevLmFailedLost   a failing helper.submit is reported by calling the  *)
(*                     executor callback inside the partition process: the *)
(*                     callback raises there (the lm_failed event has no   *)
(*                     context; that process' copy of _tasks is empty      *)
(*                     anyway), which ends the partition process: nothing  *)
(*                     is reported and later requests are never read       *)
(*   DevNoReason       FAILED is handed on with neither exit code nor      *)
(*                     exception recorded                                  *)
(* and, for non-vacuity only (the code does not do this):                  *)
(*   DevStatusShift    exit_code := status >> 8 (a signal becomes 0)       *)
(*   DevEarlyDropped   events arriving before the job id are dropped       *)
(***************************************************************************)
EXTENDS ExecVariantsOps, Sequences, FiniteSets, TLC

CONSTANTS
  T,            \* task ids
  Bulks,        \* sequence of sequences of tasks: the intake bulks, in order
  Fault,        \* T -> "none" | "spec" (pre_launch / spec creation raises) | "submit" (helper.submit raises)
  Status,       \* T -> wait status of the process if nobody kills it
  Exc,          \* T -> "none" | "exec" (fatal, while running) | "nonfatal" | "alloc" (fatal, before start) | "timeout"
  HasTimeout,   \* T -> BOOLEAN: the description carries a run-time limit
  CancelMsgs,   \* sequence of sequences of tasks: cancel_tasks control messages
  DevNoRetire, DevNonFatalFails, DevRawStatus, DevLmFailedLost, DevNoReason,
  DevStatusShift, DevEarlyDropped

VARIABLES
  ib, ic,       \* next bulk / next cancel message
  accepted,     \* tasks passed to work()
  tasks,        \* Flux._tasks (uids)
  partmap,      \* LM._part_map (uids with a partition)
  qin,          \* partition in-queue
  qout,         \* partition out-queue
  announce,     \* job ids the partition still has to report for the current submit
  partdead,     \* the partition process has died
  idknown,      \* LM._idmap (uids whose job id the watcher knows)
  early,        \* LM._events: T -> events buffered until the job id is known
  jst, jexc, jcan,   \* flux: phase, kinds of exception raised, cancel requested
  asked,        \* tasks named in a cancel message so far
  tofired,      \* run-time limits which fired
  x             \* executor-side task bookkeeping and ghosts (record of functions)

vars == <<ib, ic, accepted, tasks, partmap, qin, qout, announce, partdead, idknown, early,
          jst, jexc, jcan, asked, tofired, x>>

SeqSet(s) == {s[i] : i \in 1 .. Len(s)}
Ev(n, s, ty, sv) == [name |-> n, status |-> s, type |-> ty, sev |-> sv]
NoEv == Ev("none", NoSt, "none", 0)

ASSUME \A t \in T : Exc[t] = "timeout" => HasTimeout[t]

-----------------------------------------------------------------------------
(* executor: _handle_event_cb *)

Decode(s) == IF DevStatusShift THEN CodeOf(s)
             ELSE IF DevRawStatus THEN s
             ELSE ExitOfStatus(s)

\* hand task t on (advance to AGENT_STAGING_OUTPUT_PENDING with push, or FAILED)
\*   why      : "finish" the outcome was derived from a finish status right now
\*   reasoned : an exit code or an exception is recorded on the task
HandOn(y, t, tgt, ex, why, reasoned) ==
  LET ok   == Truthful(tgt, y.seenfin[t], t \in y.seenfatal, Fault[t] # "none",
                       t \in asked \/ HasTimeout[t])
      exok == (why = "finish") => ExitCodeOK(y.seenfin[t], ex)
  IN [y EXCEPT !.handon[t] = @ + 1,
               !.target[t] = tgt,
               !.exitc[t]  = ex,
               !.retired   = IF DevNoRetire THEN @ ELSE @ \cup {t},
               !.lied      = IF ok THEN @ ELSE @ \cup {t},
               !.badexit   = IF exok THEN @ ELSE @ \cup {t},
               !.noreason  = IF tgt = "FAILED" /\ ~reasoned THEN @ \cup {t} ELSE @]

Apply(y, t, ev) ==
  IF t \in y.retired THEN y
  ELSE IF ev.name = "start" THEN
    [y EXCEPT !.treg = IF HasTimeout[t] THEN @ \cup {t} ELSE @]
  ELSE IF ev.name = "finish" THEN
    LET y1    == [y EXCEPT !.seenfin[t] = ev.status]
        fresh == y.target[t] = "none"              \* `if not task.get('target_state')`
        ex    == IF fresh THEN Decode(ev.status) ELSE y.exitc[t]
        tgt   == IF fresh THEN TargetOfExit(ex) ELSE y.target[t]
    IN HandOn(y1, t, tgt, ex, IF fresh THEN "finish" ELSE "sticky", ex # NoExit)
  ELSE IF ev.name = "exception" /\ ev.type \in {"cancel", "timeout"} THEN
    HandOn(y, t, "CANCELED", y.exitc[t], "exception", TRUE)
  ELSE IF ev.name = "exception" THEN
    IF ev.sev = 0 \/ DevNonFatalFails
    THEN HandOn([y EXCEPT !.seenfatal = IF ev.sev = 0 THEN @ \cup {t} ELSE @],
                t, "FAILED", y.exitc[t], "exception", ~DevNoReason \/ y.exitc[t] # NoExit)
    ELSE y
  ELSE IF ev.name = "lm_failed" THEN
    HandOn([y EXCEPT !.seenfatal = @ \cup {t}], t, "FAILED", y.exitc[t], "exception", ~DevNoReason)
  ELSE y                                            \* alloc release clean ...

RECURSIVE FoldEvents(_, _, _)
FoldEvents(y, t, evs) ==
  IF evs = <<>> THEN y ELSE FoldEvents(Apply(y, t, Head(evs)), t, Tail(evs))

RECURSIVE FailSpecs(_, _)
FailSpecs(y, b) ==
  IF b = <<>> THEN y
  ELSE LET t == Head(b) IN
       FailSpecs(IF Fault[t] = "spec"
                 THEN HandOn(y, t, "FAILED", NoExit, "exception", ~DevNoReason)
                 ELSE y, Tail(b))

-----------------------------------------------------------------------------
Init ==
  /\ ib = 1 /\ ic = 1 /\ accepted = {} /\ tasks = {} /\ partmap = {}
  /\ qin = <<>> /\ qout = <<>> /\ announce = <<>> /\ partdead = FALSE
  /\ idknown = {} /\ early = [t \in T |-> <<>>]
  /\ jst = [t \in T |-> "none"] /\ jexc = [t \in T |-> {}] /\ jcan = [t \in T |-> FALSE]
  /\ asked = {} /\ tofired = {}
  /\ x = [ann      |-> [t \in T |-> 0],
          handon   |-> [t \in T |-> 0],
          unsched  |-> [t \in T |-> 0],
          target   |-> [t \in T |-> "none"],
          exitc    |-> [t \in T |-> NoExit],
          seenfin  |-> [t \in T |-> NoSt],
          seenfatal |-> {}, retired |-> {}, treg |-> {},
          lied |-> {}, badexit |-> {}, noreason |-> {}]

\* Flux.work(bulk)
Work ==
  /\ ib <= Len(Bulks)
  /\ LET b   == Bulks[ib]
         sub == SelectSeq(b, LAMBDA t : Fault[t] # "spec")
         y1  == [x EXCEPT !.ann = [t \in T |-> IF t \in SeqSet(b) THEN @[t] + 1 ELSE @[t]]]
     IN /\ ib' = ib + 1
        /\ accepted' = accepted \cup SeqSet(b)
        /\ tasks' = tasks \cup SeqSet(b)
        /\ x' = FailSpecs(y1, b)
        /\ qin' = IF sub = <<>> THEN qin
                  ELSE Append(qin, [cmd |-> "submit", ts |-> sub, t |-> "-"])
        /\ partmap' = partmap \cup SeqSet(sub)
  /\ UNCHANGED <<ic, qout, announce, partdead, idknown, early, jst, jexc, jcan, asked, tofired>>

CancelReqs(s) == [i \in 1 .. Len(s) |-> [cmd |-> "cancel", ts |-> <<>>, t |-> s[i]]]

\* control_cb(cancel_tasks): get_task -> LM.cancel_task
Cancel ==
  /\ ic <= Len(CancelMsgs)
  /\ LET m  == CancelMsgs[ic]
         to == SelectSeq(m, LAMBDA t : t \in tasks /\ t \notin x.retired /\ t \in partmap)
     IN /\ ic' = ic + 1
        /\ asked' = asked \cup SeqSet(m)
        /\ qin' = qin \o CancelReqs(to)
  /\ UNCHANGED <<ib, accepted, tasks, partmap, qout, announce, partdead, idknown, early, jst, jexc, jcan, tofired, x>>

\* _to_watcher: the limit registered at the start event has passed
Timeout(t) ==
  /\ t \in x.treg /\ t \notin tofired /\ jst[t] # "clean"
  /\ tofired' = tofired \cup {t}
  /\ qin' = IF t \in partmap THEN Append(qin, [cmd |-> "cancel", ts |-> <<>>, t |-> t]) ELSE qin
  /\ UNCHANGED <<ib, ic, accepted, tasks, partmap, qout, announce, partdead, idknown, early, jst, jexc, jcan, asked, x>>

\* partition process
PartSubmit ==
  /\ ~partdead /\ announce = <<>> /\ qin # <<>> /\ Head(qin).cmd = "submit"
  /\ LET ts == Head(qin).ts IN
     /\ qin' = Tail(qin)
     /\ IF \E t \in SeqSet(ts) : Fault[t] = "submit"
        THEN /\ partdead' = DevLmFailedLost
             /\ qout' = IF DevLmFailedLost THEN qout
                        ELSE qout \o [i \in 1 .. Len(ts) |->
                               [cmd |-> "event", t |-> ts[i], ev |-> Ev("lm_failed", NoSt, "none", 0)]]
             /\ UNCHANGED <<jst, announce>>
        ELSE /\ jst' = [t \in T |-> IF t \in SeqSet(ts) THEN "sched" ELSE jst[t]]
             /\ announce' = ts
             /\ UNCHANGED <<qout, partdead>>
  /\ UNCHANGED <<ib, ic, accepted, tasks, partmap, idknown, early, jexc, jcan, asked, tofired, x>>

PartAnnounce ==
  /\ announce # <<>>
  /\ qout' = Append(qout, [cmd |-> "job_id", t |-> Head(announce), ev |-> NoEv])
  /\ announce' = Tail(announce)
  /\ UNCHANGED <<partdead, ib, ic, accepted, tasks, partmap, qin, idknown, early, jst, jexc, jcan, asked, tofired, x>>

PartCancel ==
  /\ ~partdead /\ announce = <<>> /\ qin # <<>> /\ Head(qin).cmd = "cancel"
  /\ LET t == Head(qin).t IN
     /\ qin' = Tail(qin)
     /\ jcan' = IF jst[t] \notin {"none", "clean"} THEN [jcan EXCEPT ![t] = TRUE] ELSE jcan
  /\ UNCHANGED <<ib, ic, accepted, tasks, partmap, qout, announce, partdead, idknown, early, jst, jexc, asked, tofired, x>>

\* flux: next event of job t (deterministic once the cancel request is in)
Killed(t) == jexc[t] \cap {"fatal", "cancel"} # {}
FinStatus(t) == IF "fatal" \in jexc[t] THEN (IF Exc[t] = "timeout" THEN 14 ELSE Status[t])
                ELSE IF "cancel" \in jexc[t] THEN 15 ELSE Status[t]

\* <<event, next phase, exception kinds>>
NextFlux(t) ==
  IF jcan[t] /\ "cancel" \notin jexc[t]
  THEN <<Ev("exception", NoSt, "cancel", 0), jst[t], jexc[t] \cup {"cancel"}>>
  ELSE CASE jst[t] = "sched" ->
              IF Killed(t) THEN <<Ev("clean", NoSt, "none", 0), "clean", jexc[t]>>
              ELSE IF Exc[t] = "alloc" THEN <<Ev("exception", NoSt, "alloc", 0), "sched", jexc[t] \cup {"fatal"}>>
              ELSE <<Ev("alloc", NoSt, "none", 0), "alloc", jexc[t]>>
         [] jst[t] = "alloc" ->
              IF Killed(t) THEN <<Ev("clean", NoSt, "none", 0), "clean", jexc[t]>>
              ELSE <<Ev("start", NoSt, "none", 0), "run", jexc[t]>>
         [] jst[t] = "run" ->
              IF Exc[t] = "nonfatal" /\ "nonfatal" \notin jexc[t] /\ ~Killed(t)
              THEN <<Ev("exception", NoSt, "exec", 3), "run", jexc[t] \cup {"nonfatal"}>>
              ELSE IF Exc[t] \in {"exec", "timeout"} /\ ~Killed(t)
              THEN <<Ev("exception", NoSt, Exc[t], 0), "run", jexc[t] \cup {"fatal"}>>
              ELSE <<Ev("finish", FinStatus(t), "none", 0), "fin", jexc[t]>>
         [] jst[t] = "fin" -> <<Ev("release", NoSt, "none", 0), "rel", jexc[t]>>
         [] OTHER          -> <<Ev("clean", NoSt, "none", 0), "clean", jexc[t]>>

FluxEv(t) ==
  /\ jst[t] \notin {"none", "clean"}
  /\ LET n == NextFlux(t) IN
     /\ qout' = Append(qout, [cmd |-> "event", t |-> t, ev |-> n[1]])
     /\ jst'  = [jst  EXCEPT ![t] = n[2]]
     /\ jexc' = [jexc EXCEPT ![t] = n[3]]
  /\ UNCHANGED <<ib, ic, accepted, tasks, partmap, qin, announce, partdead, idknown, early, jcan, asked, tofired, x>>

\* LM queue watcher: one message
Watch ==
  /\ qout # <<>>
  /\ LET m == Head(qout) t == m.t IN
     /\ qout' = Tail(qout)
     /\ IF m.cmd = "job_id" THEN
          /\ idknown' = idknown \cup {t}
          /\ early' = [early EXCEPT ![t] = <<>>]
          /\ x' = FoldEvents(x, t, early[t])
        ELSE IF m.ev.name = "lm_failed" \/ t \in idknown THEN
          /\ x' = Apply(x, t, m.ev)
          /\ UNCHANGED <<idknown, early>>
        ELSE
          /\ early' = IF DevEarlyDropped THEN early ELSE [early EXCEPT ![t] = Append(@, m.ev)]
          /\ UNCHANGED <<idknown, x>>
  /\ UNCHANGED <<ib, ic, accepted, tasks, partmap, qin, announce, partdead, jst, jexc, jcan, asked, tofired>>

Next == Work \/ Cancel \/ PartSubmit \/ PartAnnounce \/ PartCancel \/ Watch
        \/ \E t \in T : FluxEv(t) \/ Timeout(t)

Spec == Init /\ [][Next]_vars /\ WF_vars(Next)

-----------------------------------------------------------------------------
Quiet ==
  /\ ib > Len(Bulks) /\ ic > Len(CancelMsgs)
  /\ (qin = <<>> \/ partdead) /\ qout = <<>> /\ announce = <<>>
  /\ \A t \in T : jst[t] \in {"none", "clean"}

StartOnce       == \A t \in T : x.ann[t] <= 1 /\ (x.handon[t] > 0 => x.ann[t] = 1)
HandOnOnce      == \A t \in T : x.handon[t] <= 1
ReleaseOnce     == \A t \in T : x.unsched[t] = 0       \* flux owns the resources
NeverLeftBehind == Quiet => \A t \in accepted : x.handon[t] >= 1
TruthfulOutcome == x.lied = {}
ExitCodeTrue    == x.badexit = {}
ReasonRecorded  == x.noreason = {}
\* nothing is handed on that was not accepted; buffered events are always flushed
Sane            == /\ \A t \in T : x.handon[t] > 0 => t \in accepted
                   /\ Quiet => \A t \in T : early[t] = <<>> \/ t \notin idknown

\* an error while handling one task never takes down (a part of) the component
ComponentSurvives == ~partdead

Termination == <>[]Quiet
=============================================================================
