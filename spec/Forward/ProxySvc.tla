------------------------------ MODULE ProxySvc ------------------------------
(***************************************************************************)
(* C16, the proxy service (proxy.py) which hosts the proxy pubsubs of the  *)
(* Forward model: one worker per registered session runs that session's    *)
(* proxy_control_pubsub / proxy_state_pubsub.  Several sessions share one  *)
(* service.                                                                *)
(*                                                                         *)
(* Code state:  reg   registered sessions            (Proxy._clients keys) *)
(*              hb    last heartbeat of a session    (client['hb'])        *)
(*              up    worker not told to terminate   (client['term'])      *)
(*              now   clock, in ticks; a session is late when              *)
(*                    now > hb + Timeout             (_TIMEOUT)            *)
(*              A registration (_register) spawns a worker, waits for the  *)
(*              worker's report of its endpoints on a report channel made  *)
(*              for this registration, and fails ('worker startup failed', *)
(*              worker killed) when the report is not there in time.  The  *)
(*              report of a killed worker may still arrive later.          *)
(*              nw, wsid, alive  workers spawned, their session, not killed*)
(*              rq    report channels (sequences of worker ids = the       *)
(*                    endpoints reported), reported[w]                     *)
(*              pend  worker of the registration in progress (requests are *)
(*                    served one at a time)                                *)
(*              cfg[s], wk[s]  endpoints held for s / the worker spawned   *)
(*                    for the successful registration of s                 *)
(* Requests:    Register = Spawn, (Report), Finish | Timeout;              *)
(*              Lookup / Unregister / Heartbeat (one session               *)
(*              each) and the pass of the monitor thread, which reaps the  *)
(*              late sessions.  The pass is one step: _monitor decides on  *)
(*              an unlocked snapshot and reaps under the lock without      *)
(*              looking again; that window (microseconds against a 24 h    *)
(*              timeout) is not modelled.                                  *)
(*                                                                         *)
(* Ghosts:      ghb   the last time a session itself registered or sent a  *)
(*                    heartbeat (independent of hb)                        *)
(*              wanted  sessions registered by their client, not           *)
(*                    unregistered, never found late by a monitor pass     *)
(*              lost  sessions which sent a forwarded message (Send) while *)
(*                    their proxy pubsubs were down: nobody gets it        *)
(*              last, arg  the step taken (for the action properties)      *)
(***************************************************************************)
EXTENDS Naturals, Sequences, FiniteSets

CONSTANTS Sessions, Timeout, MaxT, MaxOps, MaxW,
          DevSharedReportQueue,   \* one report channel for all registrations
          DevMonitorReapsAll,     \* one late session: the pass reaps every session
          DevHeartbeatAll,        \* a heartbeat refreshes every session
          DevUnregisterAll        \* unregister drops every session

VARIABLES now, reg, hb, up, ghb, wanted, lost, ops, last, arg,
          nw, wsid, alive, rq, reported, pend, cfg, wk
wvars == <<nw, wsid, alive, rq, reported, pend, cfg, wk>>
vars  == <<now, reg, hb, up, ghb, wanted, lost, ops, last, arg, wvars>>

W       == 1 .. MaxW
Chan(w) == IF DevSharedReportQueue THEN 0 ELSE w

Late(r, h, t)   == {s \in r : t > h[s] + Timeout}

Init ==
  /\ now = 0 /\ reg = {} /\ wanted = {} /\ lost = {} /\ ops = 0
  /\ hb  = [s \in Sessions |-> 0] /\ ghb = [s \in Sessions |-> 0]
  /\ up  = [s \in Sessions |-> FALSE]
  /\ last = "Init" /\ arg = "none"
  /\ nw = 0 /\ pend = 0
  /\ wsid = [w \in W |-> "none"] /\ alive = [w \in W |-> FALSE]
  /\ reported = [w \in W |-> FALSE]
  /\ rq  = [c \in 0 .. MaxW |-> <<>>]
  /\ cfg = [s \in Sessions |-> 0] /\ wk = [s \in Sessions |-> 0]

Op(name, s) == ops < MaxOps /\ ops' = ops + 1 /\ last' = name /\ arg' = s

\* _register, first half: spawn the channel worker of session s
Spawn(s) ==
  /\ Op("Spawn", s)
  /\ pend = 0 /\ nw < MaxW
  /\ s \notin reg                      \* else: 'client already registered', no change
  /\ nw' = nw + 1 /\ pend' = nw + 1
  /\ wsid'  = [wsid  EXCEPT ![nw + 1] = s]
  /\ alive' = [alive EXCEPT ![nw + 1] = TRUE]
  /\ UNCHANGED <<now, reg, hb, up, ghb, wanted, lost, rq, reported, cfg, wk>>

\* a worker reports its endpoints - in time, or after it was given up and killed
Report(w) ==
  /\ Op("Report", "none")
  /\ w \in 1 .. nw /\ ~reported[w]
  /\ rq' = [rq EXCEPT ![Chan(w)] = Append(@, w)]
  /\ reported' = [reported EXCEPT ![w] = TRUE]
  /\ UNCHANGED <<now, reg, hb, up, ghb, wanted, lost, nw, wsid, alive, pend, cfg, wk>>

\* _register, second half: the report is there - the session is registered with
\* the endpoints read from the report channel
Finish ==
  /\ pend # 0 /\ rq[Chan(pend)] # <<>>
  /\ LET s == wsid[pend] IN
     /\ Op("Finish", s)
     /\ reg' = reg \cup {s} /\ wanted' = wanted \cup {s}
     /\ hb'  = [hb EXCEPT ![s] = now] /\ ghb' = [ghb EXCEPT ![s] = now]
     /\ up'  = [up EXCEPT ![s] = TRUE]
     /\ cfg' = [cfg EXCEPT ![s] = Head(rq[Chan(pend)])]
     /\ wk'  = [wk EXCEPT ![s] = pend]
  /\ rq' = [rq EXCEPT ![Chan(pend)] = Tail(@)]
  /\ pend' = 0
  /\ UNCHANGED <<now, lost, nw, wsid, alive, reported>>

\* ... or it is not: 'worker startup failed', the worker is killed
Timeout_ ==
  /\ pend # 0 /\ rq[Chan(pend)] = <<>>
  /\ Op("Timeout", wsid[pend])
  /\ alive' = [alive EXCEPT ![pend] = FALSE]
  /\ pend' = 0
  /\ UNCHANGED <<now, reg, hb, up, ghb, wanted, lost, nw, wsid, rq, reported, cfg, wk>>

Unregister(s) ==
  /\ Op("Unregister", s) /\ pend = 0
  /\ s \in reg                         \* else: 'not registered', no change
  /\ LET gone == IF DevUnregisterAll THEN reg ELSE {s} IN
     /\ reg' = reg \ gone
     /\ up'  = [t \in Sessions |-> IF t \in gone THEN FALSE ELSE up[t]]
     /\ alive' = [w \in W |-> IF \E t \in gone : wk[t] = w THEN FALSE ELSE alive[w]]
  /\ wanted' = wanted \ {s}
  /\ UNCHANGED <<now, hb, ghb, lost, nw, wsid, rq, reported, pend, cfg, wk>>

Heartbeat(s) ==
  /\ Op("Heartbeat", s) /\ pend = 0
  /\ hb'  = IF s \notin reg THEN hb       \* unknown session: a warning, nothing else
            ELSE IF DevHeartbeatAll THEN [t \in Sessions |-> IF t \in reg THEN now ELSE hb[t]]
            ELSE [hb EXCEPT ![s] = now]
  /\ ghb' = IF s \in reg THEN [ghb EXCEPT ![s] = now] ELSE ghb
  /\ UNCHANGED <<now, reg, up, wanted, lost, wvars>>

Lookup(s) ==
  /\ Op("Lookup", s) /\ pend = 0
  /\ UNCHANGED <<now, reg, hb, up, ghb, wanted, lost, wvars>>

Tick ==
  /\ now < MaxT /\ now' = now + 1
  /\ Op("Tick", "none") /\ pend = 0
  /\ UNCHANGED <<reg, hb, up, ghb, wanted, lost, wvars>>

\* one pass of the monitor thread
Monitor ==
  /\ Op("Monitor", "none") /\ pend = 0
  /\ LET late == Late(reg, hb, now)
         gone == IF late # {} /\ DevMonitorReapsAll THEN reg ELSE late IN
     /\ reg' = reg \ gone
     /\ up'  = [t \in Sessions |-> IF t \in gone THEN FALSE ELSE up[t]]
     /\ alive' = [w \in W |-> IF \E t \in gone : wk[t] = w THEN FALSE ELSE alive[w]]
  /\ wanted' = wanted \ Late(wanted, ghb, now)
  /\ UNCHANGED <<now, hb, ghb, lost, nw, wsid, rq, reported, pend, cfg, wk>>

\* a side of session s publishes a message with the forward flag: it reaches
\* the other sides through the session's proxy pubsubs - if they are up
Send(s) ==
  /\ Op("Send", s) /\ pend = 0
  /\ s \in wanted
  \* the sides of s talk through the endpoints the service handed out for s
  /\ lost' = IF s \in reg /\ up[s] /\ cfg[s] = wk[s] /\ alive[wk[s]] THEN lost ELSE lost \cup {s}
  /\ UNCHANGED <<now, reg, hb, up, ghb, wanted, wvars>>

Next == \/ \E s \in Sessions : Spawn(s) \/ Unregister(s) \/ Heartbeat(s) \/ Lookup(s) \/ Send(s)
        \/ \E w \in W : Report(w)
        \/ Finish \/ Timeout_ \/ Tick \/ Monitor

Spec == Init /\ [][Next]_vars

(* ---- properties -------------------------------------------------------------- *)
TypeOK == /\ now \in 0 .. MaxT /\ reg \subseteq Sessions /\ wanted \subseteq Sessions
          /\ lost \subseteq Sessions /\ ops \in 0 .. MaxOps
          /\ hb \in [Sessions -> 0 .. MaxT] /\ ghb \in [Sessions -> 0 .. MaxT]
          /\ up \in [Sessions -> BOOLEAN]
          /\ nw \in 0 .. MaxW /\ pend \in 0 .. MaxW
          /\ cfg \in [Sessions -> 0 .. MaxW] /\ wk \in [Sessions -> 0 .. MaxW]

\* lookup only ever returns the endpoints of the session's own live channel worker;
\* the late report of a dead worker is never handed to another session
InvOwnEndpoints == \A s \in reg : cfg[s] = wk[s] /\ alive[wk[s]] /\ wsid[wk[s]] = s

\* a live session stays registered and its proxy pubsubs stay up
InvLiveRegistered == \A s \in wanted : s \in reg /\ up[s]
\* so its forwarded messages keep being delivered
InvDelivers       == lost = {}
\* bridges run exactly for the registered sessions
InvUpIffReg       == \A s \in Sessions : up[s] <=> s \in reg

\* an event that concerns one session leaves the others alone
ActIsolation ==
  [][last' \in {"Spawn", "Finish", "Timeout", "Report", "Unregister", "Heartbeat", "Lookup", "Send"} =>
       \A t \in Sessions \ {arg'} :
          (t \in reg' <=> t \in reg) /\ hb'[t] = hb[t] /\ up'[t] = up[t]]_vars

\* the monitor reaps the sessions past their timeout - those and no others
ActMonitorExact ==
  [][last' = "Monitor" => reg' = reg \ Late(reg, ghb, now)]_vars
=============================================================================
