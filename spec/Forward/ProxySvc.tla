------------------------------ MODULE ProxySvc ------------------------------
(***************************************************************************)
(* C16, the proxy service (proxy.py) which hosts the proxy pubsubs of the  *)
(* Forward model: one worker per registered session runs that session's    *)
(* proxy_control_pubsub / proxy_state_pubsub.  Several sessions share one  *)
(* service.                                                                *)
(*                                                                         *)
(* Code state:  reg   registered sessions            (Proxy._clients keys) *)
(*              hb    last heartbeat of a session    (client['hb'])        *)
(*              up    worker not told to terminate   (client['term'])      *)
(*              now   clock, in ticks; a session is late when              *)
(*                    now > hb + Timeout             (_TIMEOUT)            *)
(* Requests:    Register / Lookup / Unregister / Heartbeat (one session    *)
(*              each) and the pass of the monitor thread, which reaps the  *)
(*              late sessions.  The pass is one step: _monitor decides on  *)
(*              an unlocked snapshot and reaps under the lock without      *)
(*              looking again; that window (microseconds against a 24 h    *)
(*              timeout) is not modelled.                                  *)
(*                                                                         *)
(* Ghosts:      ghb   the last time a session itself registered or sent a  *)
(*                    heartbeat (independent of hb)                        *)
(*              wanted  sessions registered by their client, not           *)
(*                    unregistered, never found late by a monitor pass     *)
(*              lost  sessions which sent a forwarded message (Send) while *)
(*                    their proxy pubsubs were down: nobody gets it        *)
(*              last, arg  the step taken (for the action properties)      *)
(***************************************************************************)
EXTENDS Naturals, FiniteSets

CONSTANTS Sessions, Timeout, MaxT, MaxOps,
          DevMonitorReapsAll,     \* one late session: the pass reaps every session
          DevHeartbeatAll,        \* a heartbeat refreshes every session
          DevUnregisterAll        \* unregister drops every session

VARIABLES now, reg, hb, up, ghb, wanted, lost, ops, last, arg
vars == <<now, reg, hb, up, ghb, wanted, lost, ops, last, arg>>

Late(r, h, t)   == {s \in r : t > h[s] + Timeout}

Init ==
  /\ now = 0 /\ reg = {} /\ wanted = {} /\ lost = {} /\ ops = 0
  /\ hb  = [s \in Sessions |-> 0] /\ ghb = [s \in Sessions |-> 0]
  /\ up  = [s \in Sessions |-> FALSE]
  /\ last = "Init" /\ arg = "none"

Op(name, s) == ops < MaxOps /\ ops' = ops + 1 /\ last' = name /\ arg' = s

Register(s) ==
  /\ Op("Register", s)
  /\ s \notin reg                      \* else: 'client already registered', no change
  /\ reg' = reg \cup {s} /\ wanted' = wanted \cup {s}
  /\ hb'  = [hb EXCEPT ![s] = now] /\ ghb' = [ghb EXCEPT ![s] = now]
  /\ up'  = [up EXCEPT ![s] = TRUE]
  /\ UNCHANGED <<now, lost>>

Unregister(s) ==
  /\ Op("Unregister", s)
  /\ s \in reg                         \* else: 'not registered', no change
  /\ LET gone == IF DevUnregisterAll THEN reg ELSE {s} IN
     /\ reg' = reg \ gone
     /\ up'  = [t \in Sessions |-> IF t \in gone THEN FALSE ELSE up[t]]
  /\ wanted' = wanted \ {s}
  /\ UNCHANGED <<now, hb, ghb, lost>>

Heartbeat(s) ==
  /\ Op("Heartbeat", s)
  /\ hb'  = IF s \notin reg THEN hb       \* unknown session: a warning, nothing else
            ELSE IF DevHeartbeatAll THEN [t \in Sessions |-> IF t \in reg THEN now ELSE hb[t]]
            ELSE [hb EXCEPT ![s] = now]
  /\ ghb' = IF s \in reg THEN [ghb EXCEPT ![s] = now] ELSE ghb
  /\ UNCHANGED <<now, reg, up, wanted, lost>>

Lookup(s) ==
  /\ Op("Lookup", s)
  /\ UNCHANGED <<now, reg, hb, up, ghb, wanted, lost>>

Tick ==
  /\ now < MaxT /\ now' = now + 1
  /\ Op("Tick", "none")
  /\ UNCHANGED <<reg, hb, up, ghb, wanted, lost>>

\* one pass of the monitor thread
Monitor ==
  /\ Op("Monitor", "none")
  /\ LET late == Late(reg, hb, now)
         gone == IF late # {} /\ DevMonitorReapsAll THEN reg ELSE late IN
     /\ reg' = reg \ gone
     /\ up'  = [t \in Sessions |-> IF t \in gone THEN FALSE ELSE up[t]]
  /\ wanted' = wanted \ Late(wanted, ghb, now)
  /\ UNCHANGED <<now, hb, ghb, lost>>

\* a side of session s publishes a message with the forward flag: it reaches
\* the other sides through the session's proxy pubsubs - if they are up
Send(s) ==
  /\ Op("Send", s)
  /\ s \in wanted
  /\ lost' = IF s \in reg /\ up[s] THEN lost ELSE lost \cup {s}
  /\ UNCHANGED <<now, reg, hb, up, ghb, wanted>>

Next == \/ \E s \in Sessions : Register(s) \/ Unregister(s) \/ Heartbeat(s) \/ Lookup(s) \/ Send(s)
        \/ Tick \/ Monitor

Spec == Init /\ [][Next]_vars

(* ---- properties -------------------------------------------------------------- *)
TypeOK == /\ now \in 0 .. MaxT /\ reg \subseteq Sessions /\ wanted \subseteq Sessions
          /\ lost \subseteq Sessions /\ ops \in 0 .. MaxOps
          /\ hb \in [Sessions -> 0 .. MaxT] /\ ghb \in [Sessions -> 0 .. MaxT]
          /\ up \in [Sessions -> BOOLEAN]

\* a live session stays registered and its proxy pubsubs stay up
InvLiveRegistered == \A s \in wanted : s \in reg /\ up[s]
\* so its forwarded messages keep being delivered
InvDelivers       == lost = {}
\* bridges run exactly for the registered sessions
InvUpIffReg       == \A s \in Sessions : up[s] <=> s \in reg

\* an event that concerns one session leaves the others alone
ActIsolation ==
  [][last' \in {"Register", "Unregister", "Heartbeat", "Lookup", "Send"} =>
       \A t \in Sessions \ {arg'} :
          (t \in reg' <=> t \in reg) /\ hb'[t] = hb[t] /\ up'[t] = up[t]]_vars

\* the monitor reaps the sessions past their timeout - those and no others
ActMonitorExact ==
  [][last' = "Monitor" => reg' = reg \ Late(reg, ghb, now)]_vars
=============================================================================
