----------------------------- MODULE ForwardOps -----------------------------
(***************************************************************************)
(* Pure operators shared by the design model Forward and the trace monitor *)
(* ForwardTrace: the two forwarders of Session.crosswire_pubsub as         *)
(* functions from a received message to the messages they publish, and the *)
(* delivery count the property C16 demands.                                *)
(*                                                                         *)
(* A message is [id, origin, fwd, hops]:                                   *)
(*   origin : name of a side, some other marker, or "absent" (key missing) *)
(*   fwd    : "true" / "false" (truthiness of msg['fwd']) or "absent"      *)
(*   hops   : ghost - number of forwarders the instance went through       *)
(***************************************************************************)
EXTENDS Naturals, Sequences, FiniteSets

Absent  == "absent"
FwdVals == {"true", "false", Absent}

\* both forwarders first stamp a message which carries no origin
\*   if 'origin' not in msg: msg['origin'] = self._module
Stamp(me, m) == IF m.origin = Absent THEN [m EXCEPT !.origin = me] ELSE m

\* local -> proxy (from_proxy = False): drop unless msg.get('fwd'), drop unless
\* origin = me, clear fwd, publish on the proxy channel.
\* keepFwd / anyOrigin / ignoreFwd are the deviations of the design model.
L2POut(me, m, keepFwd, anyOrigin, ignoreFwd) ==
  LET s == Stamp(me, m) IN
  IF (~ignoreFwd) /\ s.fwd # "true" THEN <<>>
  ELSE IF (~anyOrigin) /\ s.origin # me THEN <<>>
  ELSE << [s EXCEPT !.fwd = IF keepFwd THEN @ ELSE "false", !.hops = @ + 1] >>

\* proxy -> local (from_proxy = True): drop what originated here, publish the
\* rest on the local channel (markers untouched).
P2LOut(me, m, noSelfDrop) ==
  LET s == Stamp(me, m) IN
  IF (~noSelfDrop) /\ s.origin = me THEN <<>>
  ELSE << [s EXCEPT !.hops = @ + 1] >>

\* the messages C16 calls "published with the forward flag": the flag is set
\* and the origin marker does not name somebody else (a foreign marker says
\* the message already was forwarded once).
Forwardable(side, origin, fwd) == fwd = "true" /\ origin \in {Absent, side}

\* deliveries to the ordinary subscribers of side s demanded for a message
\* published as p = [side, origin, fwd]
Expect(p, s) == IF s = p.side \/ Forwardable(p.side, p.origin, p.fwd) THEN 1 ELSE 0

SeqToSet(q) == {q[i] : i \in 1 .. Len(q)}
=============================================================================
