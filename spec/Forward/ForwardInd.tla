----------------------------- MODULE ForwardInd -----------------------------
(***************************************************************************)
(* C16, NoCirculation as an inductive invariant (Apalache).                *)
(*                                                                         *)
(* Abstraction of Forward: queue order and the delivery ghosts are dropped *)
(* (they do not matter for the hop bound); the network is the set of       *)
(* in-flight instances [place, at, to, origin, fwd, hops] with             *)
(*    place "AL"  app(at) -> L2P(at)        place "AA"  app(at) -> app(at) *)
(*    place "X"   L2P(at) -> P2L(to)                                       *)
(*    place "PL"  P2L(at) -> L2P(at)        place "PA"  P2L(at) -> app(at) *)
(* The set of pilots is an arbitrary (symbolic) set of names chosen by     *)
(* ConstInit, the start state of the induction step is an arbitrary set of *)
(* instances satisfying IndInv.  Checked as                                *)
(*    apalache-mc check --cinit=ConstInit --init=Init    --inv=IndInv --length=0 *)
(*    apalache-mc check --cinit=ConstInit --init=IndInit --inv=IndInv --length=1 *)
(*    apalache-mc check --cinit=ConstInit --init=IndInit --inv=HopBound --length=0 *)
(***************************************************************************)
EXTENDS Integers, Apalache

\* @typeAlias: inst = {place: Str, at: Str, to: Str, origin: Str, fwd: Str, hops: Int};
ForwardInd_aliases == TRUE

CONSTANT
  \* @type: Set(Str);
  Pilots

VARIABLE
  \* @type: Set($inst);
  net

Sides == {"client"} \union Pilots

\* any set of at most four pilot names different from the client's
ConstInit == Pilots = {p \in Gen(4) : p # "client" /\ p # "absent"}

\* @type: (Str, Str, Str, Str, Str, Int) => $inst;
Inst(p, a, t, o, f, h) == [place |-> p, at |-> a, to |-> t, origin |-> o, fwd |-> f, hops |-> h]

Init == net = {}

Stamped(me, o) == IF o = "absent" THEN me ELSE o

\* an ordinary component publishes: any origin marker, any flag value
Publish ==
  \E s \in Sides, o \in Sides \union {"absent", "nobody"}, f \in {"true", "false", "absent"} :
     net' = net \union {Inst("AA", s, s, o, f, 0), Inst("AL", s, s, o, f, 0)}

DeliverApp ==
  \E m \in net : m.place \in {"AA", "PA"} /\ net' = net \ {m}

\* pubsub_fwd, from_proxy = False
DeliverL2P ==
  \E m \in net :
     /\ m.place \in {"AL", "PL"}
     /\ LET o == Stamped(m.at, m.origin) IN
        IF m.fwd = "true" /\ o = m.at
        THEN net' = (net \ {m}) \union {Inst("X", m.at, t, o, "false", m.hops + 1) : t \in Sides}
        ELSE net' = net \ {m}

\* pubsub_fwd, from_proxy = True
DeliverP2L ==
  \E m \in net :
     /\ m.place = "X"
     /\ LET o == Stamped(m.to, m.origin) IN
        IF o = m.to
        THEN net' = net \ {m}
        ELSE net' = (net \ {m}) \union {Inst("PA", m.to, m.to, o, m.fwd, m.hops + 1),
                                        Inst("PL", m.to, m.to, o, m.fwd, m.hops + 1)}

Next == Publish \/ DeliverApp \/ DeliverL2P \/ DeliverP2L

\* hops and markers are determined by the place an instance is in
\* @type: $inst => Bool;
Good(m) ==
  /\ m.at \in Sides /\ m.to \in Sides
  /\ m.place \in {"AA", "AL", "X", "PA", "PL"}
  /\ m.place \in {"AA", "AL"} => m.hops = 0
  /\ m.place = "X"  => m.hops = 1 /\ m.origin = m.at /\ m.fwd = "false"
  /\ m.place \in {"PA", "PL"} => m.hops = 2 /\ m.origin # m.at /\ m.fwd = "false"

IndInv   == \A m \in net : Good(m)
HopBound == \A m \in net : m.hops <= 2

\* arbitrary network satisfying the invariant (at most 6 instances: every
\* transition looks at one instance only)
IndInit == net = Gen(6) /\ IndInv
=============================================================================
