------------------------------- MODULE Forward -------------------------------
(***************************************************************************)
(* C16: client and agents exchange each forwarded message exactly once.    *)
(*                                                                         *)
(* Design model of Session._crosswire_proxy / Session.crosswire_pubsub for *)
(* one channel kind (control and state are wired identically and do not    *)
(* interact): sides = client + pilots; per side a local pubsub bridge, one *)
(* proxy pubsub bridge shared by all sides; per side two forwarders        *)
(*    L2P(s): subscriber on local(s), publisher on the proxy               *)
(*    P2L(s): subscriber on the proxy, publisher on local(s)               *)
(* and one ordinary publisher / one ordinary subscriber ("app") per side.  *)
(* ZeroMQ pubsub keeps FIFO order per (publisher, subscriber) pair, so the *)
(* network is one queue per such pair:                                     *)
(*    qloc[s]["AA"]  app(s) -> app(s)      qloc[s]["AL"]  app(s) -> L2P(s) *)
(*    qloc[s]["PA"]  P2L(s) -> app(s)      qloc[s]["PL"]  P2L(s) -> L2P(s) *)
(*    qpx[s][t]      L2P(s) -> P2L(t)      (including t = s)               *)
(* A delivery to a forwarder runs its callback (pubsub_fwd) atomically.    *)
(*                                                                         *)
(* Ghosts: pub[id] (how id was published), got[s][id] (deliveries to the   *)
(* ordinary subscriber of s), hops (in the message).                       *)
(***************************************************************************)
EXTENDS ForwardOps, TLC

CONSTANTS Pilots,            \* set of pilot names (strings)
          Unknown,           \* origin markers naming no connected side
          NMsgs,             \* number of messages published
          MaxHops,           \* 2: local -> proxy -> local
          EagerApp,          \* TRUE: deliveries to ordinary subscribers are counted when
                             \* the message is published on their pubsub (queues AA / PA
                             \* stay empty).  DeliverApp only moves a queue head into the
                             \* ghost got and commutes with every other action, so this is
                             \* a sound reduction of the interleavings; FALSE = as the rig.
          FwdChoice,         \* flag values Publish chooses from (FwdVals; simulation
                             \* runs narrow it to get more forwarded messages)
          NRpc,              \* number of RPC requests (each takes two ids: request + result)
          DevResultCopiesFwd,\* the RPC result is published with the flag the request
                             \* arrived with (cleared after one hop) instead of fwd = true
          NAdv,              \* number of state bulks published through AgentComponent.advance
          DevBulkHeadDecides,\* advance(fwd=True) drops the flag for the whole bulk when
                             \* its first task was created inside the pilot
          DevRepublishOnTimeout, \* the requester publishes its RPC request again while
                             \* the result is not there (it must be published once)
          DevKeepFwd,        \* L2P does not clear the fwd flag
          DevL2PAnyOrigin,   \* L2P forwards messages stamped by others
          DevL2PIgnoreFwd,   \* L2P forwards unflagged messages
          DevP2LNoSelfDrop   \* P2L republishes what originated here

Client  == "client"
Sides   == {Client} \cup Pilots
Origins == Sides \cup Unknown \cup {Absent}
Ids     == 1 .. NMsgs
LocK    == {"AA", "AL", "PA", "PL"}
NoPub   == [side |-> "none", origin |-> Absent, fwd |-> Absent]
NoRpc   == [kind |-> "none", peer |-> "none", re |-> 0, n |-> 0]

ASSUME EagerApp => NRpc = 0

\* pilots are interchangeable: symmetry set for safety runs in which Pilots
\* are model values (never used together with liveness checking)
PilotPerms == Permutations(Pilots)

\* rpc[i] (ghost): "adv" - i is a state bulk published by an agent component with
\* advance(fwd=True); peer = client iff the bulk holds a task of the client;
\* "req" - i is an RPC request addressed to side peer, served n
\* times; "res" - i is the result of request re, due back at side peer
VARIABLES next, pub, qloc, qpx, got, rpc
vars == <<next, pub, qloc, qpx, got, rpc>>

Unserved == Cardinality({i \in Ids : rpc[i].kind = "req" /\ rpc[i].n = 0})

Init ==
  /\ next = 1
  /\ pub  = [i \in Ids |-> NoPub]
  /\ qloc = [s \in Sides |-> [k \in LocK |-> <<>>]]
  /\ qpx  = [s \in Sides |-> [t \in Sides |-> <<>>]]
  /\ got  = [s \in Sides |-> [i \in Ids |-> 0]]
  /\ rpc  = [i \in Ids |-> NoRpc]

(* ---- an ordinary component of side s publishes on its local pubsub ------ *)
Publish(s, o, f) ==
  /\ next + Unserved <= NMsgs
  /\ LET m == [id |-> next, origin |-> o, fwd |-> f, hops |-> 0] IN
     qloc' = IF EagerApp THEN [qloc EXCEPT ![s]["AL"] = Append(@, m)]
                         ELSE [qloc EXCEPT ![s]["AA"] = Append(@, m), ![s]["AL"] = Append(@, m)]
  /\ got'  = IF EagerApp THEN [got EXCEPT ![s][next] = @ + 1] ELSE got
  /\ pub'  = [pub EXCEPT ![next] = [side |-> s, origin |-> o, fwd |-> f]]
  /\ next' = next + 1
  /\ UNCHANGED <<qpx, rpc>>

(* ---- an agent component publishes the state update of a bulk of tasks with  *)
(* ---- advance(things, state, publish=True, fwd=True); b = where the tasks    *)
(* ---- come from, in bulk order ("client" / "pilot": raptor, agent services) *)
Bulks == {<<x>> : x \in {"client", "pilot"}} \cup {<<x, y>> : x \in {"client", "pilot"}, y \in {"client", "pilot"}}
\* whether the update of a bulk without any task of the client travels is the
\* pilot's own business: fp, the flag such a bulk goes out with, is arbitrary
HasClient(b) == \E k \in 1 .. Len(b) : b[k] = "client"
Advance(s, b, fp) ==
  /\ Cardinality({i \in Ids : rpc[i].kind = "adv"}) < NAdv
  /\ next + Unserved <= NMsgs
  /\ HasClient(b) => fp = "true"
  /\ LET f == IF DevBulkHeadDecides /\ b[1] = "pilot" THEN "false" ELSE fp
         m == [id |-> next, origin |-> Absent, fwd |-> f, hops |-> 0] IN
     /\ qloc' = IF EagerApp THEN [qloc EXCEPT ![s]["AL"] = Append(@, m)]
                            ELSE [qloc EXCEPT ![s]["AA"] = Append(@, m), ![s]["AL"] = Append(@, m)]
     /\ pub'  = [pub EXCEPT ![next] = [side |-> s, origin |-> Absent, fwd |-> f]]
  /\ got'  = IF EagerApp THEN [got EXCEPT ![s][next] = @ + 1] ELSE got
  /\ rpc'  = [rpc EXCEPT ![next] = [kind |-> "adv", re |-> 0, n |-> 0,
                                    peer |-> IF HasClient(b) THEN Client ELSE "none"]]
  /\ next' = next + 1
  /\ UNCHANGED qpx

(* ---- a component of side a sends an RPC request addressed to side b: an ---- *)
(* ---- RPCRequestMessage, fwd = true by class default, no origin         ---- *)
PublishReq(a, b) ==
  /\ ~EagerApp
  /\ Cardinality({i \in Ids : rpc[i].kind = "req"}) < NRpc
  /\ next + Unserved + 1 <= NMsgs
  /\ LET m == [id |-> next, origin |-> Absent, fwd |-> "true", hops |-> 0] IN
     qloc' = [qloc EXCEPT ![a]["AA"] = Append(@, m), ![a]["AL"] = Append(@, m)]
  /\ pub'  = [pub EXCEPT ![next] = [side |-> a, origin |-> Absent, fwd |-> "true"]]
  /\ rpc'  = [rpc EXCEPT ![next] = [kind |-> "req", peer |-> b, re |-> 0, n |-> 0]]
  /\ next' = next + 1
  /\ UNCHANGED <<qpx, got>>

(* ---- deviation: a timed wait for the result ran out - the request (same uid, ---- *)
(* ---- same message) goes out again; re counts the repetitions of a request  ---- *)
RepublishReq(i) ==
  /\ DevRepublishOnTimeout
  /\ rpc[i].kind = "req" /\ rpc[i].re < 1
  /\ ~ \E j \in Ids : rpc[j].kind = "res" /\ rpc[j].re = i /\ got[pub[i].side][j] > 0
  /\ LET a == pub[i].side
         m == [id |-> i, origin |-> Absent, fwd |-> "true", hops |-> 0] IN
     qloc' = [qloc EXCEPT ![a]["AA"] = Append(@, m), ![a]["AL"] = Append(@, m)]
  /\ rpc' = [rpc EXCEPT ![i].re = @ + 1]
  /\ UNCHANGED <<next, pub, qpx, got>>

(* ---- delivery to the ordinary subscriber of s, from app(s) or P2L(s) ---- *)
DeliverApp(s, src) ==
  LET k == IF src = "app" THEN "AA" ELSE "PA" IN
  /\ qloc[s][k] # <<>>
  /\ got'  = [got EXCEPT ![s][Head(qloc[s][k]).id] = @ + 1]
  /\ LET m == Head(qloc[s][k])
         q == [qloc EXCEPT ![s][k] = Tail(@)] IN
     IF rpc[m.id].kind = "req" /\ rpc[m.id].peer = s /\ next <= NMsgs
     THEN \* _control_cb -> _handle_rpc_msg: the addressed component serves the
          \* request and publishes the RPCResultMessage on its local pubsub
          LET f == IF DevResultCopiesFwd THEN m.fwd ELSE "true"
              r == [id |-> next, origin |-> Absent, fwd |-> f, hops |-> 0] IN
          /\ qloc' = [q EXCEPT ![s] = [@ EXCEPT !["AA"] = Append(@, r), !["AL"] = Append(@, r)]]
          /\ pub'  = [pub EXCEPT ![next] = [side |-> s, origin |-> Absent, fwd |-> f]]
          /\ rpc'  = [rpc EXCEPT ![m.id].n = @ + 1,
                                 ![next] = [kind |-> "res", peer |-> pub[m.id].side,
                                            re |-> m.id, n |-> 0]]
          /\ next' = next + 1
     ELSE /\ qloc' = q
          /\ UNCHANGED <<next, pub, rpc>>
  /\ UNCHANGED qpx

(* ---- delivery to the local -> proxy forwarder of s --------------------- *)
DeliverL2P(s, src) ==
  LET k == IF src = "app" THEN "AL" ELSE "PL" IN
  /\ qloc[s][k] # <<>>
  /\ LET outs == L2POut(s, Head(qloc[s][k]), DevKeepFwd, DevL2PAnyOrigin, DevL2PIgnoreFwd) IN
     qpx' = [qpx EXCEPT ![s] = [t \in Sides |-> qpx[s][t] \o outs]]
  /\ qloc' = [qloc EXCEPT ![s][k] = Tail(@)]
  /\ UNCHANGED <<next, pub, got, rpc>>

(* ---- delivery of what L2P(s) put on the proxy to the P2L forwarder of t - *)
DeliverP2L(s, t) ==
  /\ qpx[s][t] # <<>>
  /\ LET outs == P2LOut(t, Head(qpx[s][t]), DevP2LNoSelfDrop) IN
     /\ qloc' = IF EagerApp THEN [qloc EXCEPT ![t]["PL"] = @ \o outs]
                            ELSE [qloc EXCEPT ![t]["PA"] = @ \o outs, ![t]["PL"] = @ \o outs]
     /\ got'  = IF EagerApp /\ outs # <<>>
                THEN [got EXCEPT ![t][Head(qpx[s][t]).id] = @ + 1] ELSE got
  /\ qpx' = [qpx EXCEPT ![s][t] = Tail(@)]
  /\ UNCHANGED <<next, pub, rpc>>

Deliver ==
  \/ \E s \in Sides, src \in {"app", "p2l"} : DeliverApp(s, src) \/ DeliverL2P(s, src)
  \/ \E s \in Sides, t \in Sides : DeliverP2L(s, t)

Next ==
  \/ \E s \in Sides, o \in Origins, f \in FwdChoice : Publish(s, o, f)
  \/ \E a \in Sides, b \in Sides : PublishReq(a, b)
  \/ \E i \in Ids : RepublishReq(i)
  \/ \E s \in Pilots, b \in Bulks, fp \in {"true", "false"} : Advance(s, b, fp)
  \/ Deliver

Fairness ==
  /\ \A s \in Sides, src \in {"app", "p2l"} :
        WF_vars(DeliverApp(s, src)) /\ WF_vars(DeliverL2P(s, src))
  /\ \A s \in Sides, t \in Sides : WF_vars(DeliverP2L(s, t))

Spec     == Init /\ [][Next]_vars
FairSpec == Spec /\ Fairness

(* ---- what is in flight --------------------------------------------------- *)
InFlight == UNION {SeqToSet(qloc[s][k]) : s \in Sides, k \in LocK}
            \cup UNION {SeqToSet(qpx[s][t]) : s \in Sides, t \in Sides}
Quiet       == InFlight = {}
Published   == {i \in Ids : pub[i].side # "none"}
Settled(i)  == i \in Published /\ \A m \in InFlight : m.id # i

(* ---- invariants ------------------------------------------------------------ *)
TypeOK ==
  /\ next \in 1 .. NMsgs + 1
  /\ \A i \in Ids : pub[i] = NoPub \/ (pub[i].side \in Sides /\ pub[i].origin \in Origins
                                       /\ pub[i].fwd \in FwdVals)
  /\ \A m \in InFlight : m.id \in Published /\ m.origin \in Origins /\ m.fwd \in FwdVals
                         /\ m.hops \in Nat
  /\ \A s \in Sides, i \in Ids : got[s][i] \in Nat
  /\ \A i \in Ids : rpc[i] = NoRpc \/ (i \in Published /\ rpc[i].kind \in {"req", "res", "adv"}
                                       /\ rpc[i].peer \in Sides \cup {"none"} /\ rpc[i].n \in Nat)

\* always got <= 1: nothing twice, in particular not a second time on the
\* side a message came from
InvAtMostOnce == \A s \in Sides, i \in Ids : got[s][i] <= 1

\* nothing is delivered where it must not go: unflagged messages (and
\* messages carrying somebody else's marker) stay where they were published
InvStaysLocal == \A s \in Sides, i \in Published : got[s][i] <= Expect(pub[i], s)

\* once no instance of a message is in flight every side got what it is due:
\* forwarded messages exactly once everywhere, the others once at home
InvSettled == \A i \in Ids : Settled(i) => \A s \in Sides : got[s][i] = Expect(pub[i], s)

\* RPC round trip: the result of a request sent by side a comes back to a exactly
\* once, wherever the request was served (the result is a message of its own:
\* the flag it is published with decides, the request's flag is spent)
InvRpcReturns == \A i \in Published :
                    rpc[i].kind = "res" /\ Settled(i) => got[rpc[i].peer][i] = 1
\* and the addressed side serves a request exactly once
InvRpcServedOnce == \A i \in Published :
                    rpc[i].kind = "req" => rpc[i].n <= 1 /\ (Settled(i) => rpc[i].n = 1)

\* the state update of a task of the client, published on a pilot with the forward
\* flag, reaches the client exactly once whatever else is in the bulk
InvClientUpdate == \A i \in Published :
                    rpc[i].kind = "adv" /\ rpc[i].peer = Client /\ Settled(i) => got[Client][i] = 1

\* no circulation: an instance passes at most two forwarders
InvHops == \A m \in InFlight : m.hops <= MaxHops

\* why: after the first hop the flag is cleared and the origin is stamped, so
\* the only forwarder that lets a message pass again is a P2L of another side
InvCleared == \A m \in InFlight : m.hops >= 1 => m.fwd = "false" /\ m.origin = pub[m.id].side

\* instances on local channels made at most... the exact hop count per place
InvHopsWhere ==
  /\ \A s \in Sides : \A m \in SeqToSet(qloc[s]["AA"]) \cup SeqToSet(qloc[s]["AL"]) : m.hops = 0
  /\ \A s \in Sides, t \in Sides : \A m \in SeqToSet(qpx[s][t]) : m.hops = 1 /\ pub[m.id].side = s
  /\ \A s \in Sides : \A m \in SeqToSet(qloc[s]["PA"]) \cup SeqToSet(qloc[s]["PL"]) :
        m.hops = 2 /\ pub[m.id].side # s

(* ---- liveness: every behaviour comes to rest ---------------------------- *)
Termination == <>[]Quiet

\* and at rest everything published is settled (for the record; follows from InvSettled)
AllSettledAtRest == [](Quiet => \A i \in Published : \A s \in Sides : got[s][i] = Expect(pub[i], s))
=============================================================================
