---------------------------- MODULE ForwardTrace ----------------------------
(***************************************************************************)
(* Trace monitor for C16: consumes the events recorded by fwd_rig.py from  *)
(* the real Session.crosswire_pubsub forwarders running on the in-memory   *)
(* pubsub fabric and checks what the property demands:                     *)
(*                                                                         *)
(*   C16.SidesDistinct      the identities (Session._module) the sides     *)
(*                          stamp and compare are not pairwise distinct -  *)
(*                          "the side it came from" is then ambiguous      *)
(*   C16.Duplicate          a side other than the publishing one got a     *)
(*                          message twice                                  *)
(*   C16.OriginAgain        the publishing side got its message a second   *)
(*                          time                                           *)
(*   C16.StaysLocal         a message without forward flag reached the     *)
(*                          ordinary subscribers of another side           *)
(*   C16.ForeignMarkerLocal a message carrying somebody else's origin      *)
(*                          marker (i.e. one that was forwarded already)   *)
(*                          reached another side                           *)
(*   C16.WrongChannel       a control message delivered on a state pubsub  *)
(*                          or vice versa                                  *)
(*   C16.Circulates         an instance passed more than MaxHops           *)
(*                          forwarders, or the network did not come to     *)
(*                          rest within the rig's bound                    *)
(*   C16.RpcRequestRepublished  an RPC request (Publish with ruid = uid of *)
(*                          the request message) is published a second     *)
(*                          time: every side gets and serves it again      *)
(*   C16.RpcServedTwice     at rest (Served event): the handler of a side  *)
(*                          ran more often than requests were addressed to *)
(*                          it                                             *)
(*   C16.RpcResultMissing   at rest, the result of an RPC request (Publish *)
(*                          with re = id of the request it answers) has    *)
(*                          not reached the side the request was sent from *)
(*                          - whatever flag the result was published with: *)
(*                          the request's own flag is spent after one hop  *)
(*   C16.ClientUpdateMissing / C16.ClientUpdateDuplicate                   *)
(*                          at rest (Update event, n = number of state     *)
(*                          updates seen): the state update of a task of   *)
(*                          the client, published on a pilot through       *)
(*                          advance(.., fwd=True), was seen by the state   *)
(*                          subscribers of the client side not at all /    *)
(*                          more than once - whatever else was in the bulk *)
(*   C16.Missing            at rest, a side has not got a message it is    *)
(*                          due (forwarded: every side; else: the          *)
(*                          publishing side)                               *)
(*                                                                         *)
(* Sides are places (the local pubsub of client / pilot.000N, T.sides);    *)
(* T.idents[i] is the identity the session of T.sides[i] computed.  The    *)
(* markers of a message are judged against identities, deliveries are      *)
(* counted per place.                                                      *)
(*                                                                         *)
(* Clauses prefixed "M." compare each forwarder step with the functions of *)
(* the design model (ForwardOps); they document divergence of model and    *)
(* code, they are not part of the property.                                *)
(*                                                                         *)
(* The monitor is total; one TLC run validates a batch (tid chosen in Init)*)
(***************************************************************************)
EXTENDS ForwardOps, TLC, Json, IOUtils

CONSTANT MaxHops

Batch  == JsonDeserialize(IOEnv.TRACE_FILE)
Traces == Batch.traces

VARIABLES tid, l, pub, got, infl, errs, fin
vars == <<tid, l, pub, got, infl, errs, fin>>

T      == Traces[tid]
Ev     == T.events
SidesT == {T.sides[i] : i \in 1 .. Len(T.sides)}
IdsT   == 1 .. T.nmsgs
NoPub  == [side |-> "none", origin |-> Absent, fwd |-> Absent, kind |-> "none", re |-> 0,
           ruid |-> "none"]

E(cond, name) == IF cond THEN {} ELSE {name}

\* identity of the session living at place s
Ident(s) == T.idents[CHOOSE i \in 1 .. Len(T.sides) : T.sides[i] = s]
IdentsDistinct == \A i, j \in 1 .. Len(T.idents) : i # j => T.idents[i] # T.idents[j]

\* deliveries due at place s for a message published as p (Expect of ForwardOps
\* with the publisher's identity for the marker test)
ExpectT(p, s) == IF s = p.side \/ Forwardable(Ident(p.side), p.origin, p.fwd) THEN 1 ELSE 0

Init ==
  /\ tid \in 1 .. Len(Traces)
  /\ l = 1
  /\ pub  = [i \in IdsT |-> NoPub]
  /\ got  = [s \in SidesT |-> [i \in IdsT |-> 0]]
  /\ infl = 0
  /\ errs = E(IdentsDistinct, "C16.SidesDistinct") /\ fin = FALSE

\* the delivered instance and what the callback put, as model messages
InMsg(e)   == [id |-> e.id, origin |-> e.origin, fwd |-> e.fwd, hops |-> e.hops]
OutMsgs(e) == [i \in 1 .. Len(e.outs) |->
                 [id |-> e.id, origin |-> e.outs[i].origin, fwd |-> e.outs[i].fwd,
                  hops |-> e.outs[i].hops]]
FanSum(e)  == LET f[i \in 0 .. Len(e.outs)] == IF i = 0 THEN 0 ELSE f[i - 1] + e.outs[i].fan
              IN f[Len(e.outs)]
HopErrs(e) == E(e.hops <= MaxHops, "C16.Circulates")
              \cup UNION {E(e.outs[i].hops <= MaxHops, "C16.Circulates") : i \in 1 .. Len(e.outs)}
Known(e)   == e.id \in IdsT /\ e.side \in SidesT /\ pub[e.id] # NoPub

Step ==
  /\ ~fin /\ l <= Len(Ev)
  /\ LET e == Ev[l] IN
     /\ l' = l + 1
     /\ fin' = FALSE
     /\ CASE e.ev = "Publish" ->
               IF e.id \in IdsT /\ e.side \in SidesT THEN
                 /\ pub'  = [pub EXCEPT ![e.id] = [side |-> e.side, origin |-> e.origin,
                                                   fwd |-> e.fwd, kind |-> e.kind, re |-> e.re,
                                                   ruid |-> e.ruid]]
                 /\ infl' = infl + e.fan
                 /\ errs' = errs \cup E(pub[e.id] = NoPub, "M.PublishedTwice")
                      \cup E(e.ruid = "none" \/ \A j \in IdsT : pub[j].ruid # e.ruid,
                             "C16.RpcRequestRepublished")
                 /\ UNCHANGED got
               ELSE
                 /\ errs' = errs \cup {"M.UnknownPublish"}
                 /\ UNCHANGED <<pub, got, infl>>
          [] e.ev = "Deliver" /\ e.sub = "app" ->
               IF Known(e) THEN
                 LET p  == pub[e.id]
                     s  == e.side
                     g2 == [got EXCEPT ![s][e.id] = @ + 1] IN
                 /\ got'  = g2
                 /\ infl' = infl - 1 + FanSum(e)
                 /\ errs' = errs
                      \cup (IF g2[s][e.id] > 1
                            THEN (IF s = p.side THEN {"C16.OriginAgain"} ELSE {"C16.Duplicate"})
                            ELSE {})
                      \cup (IF s # p.side /\ ExpectT(p, s) = 0
                            THEN (IF p.fwd # "true" THEN {"C16.StaysLocal"}
                                                    ELSE {"C16.ForeignMarkerLocal"})
                            ELSE {})
                      \cup E(e.kind = p.kind, "C16.WrongChannel")
                      \cup HopErrs(e)
                      \cup E(e.got = g2[s][e.id], "M.GotCount")
                      \cup E(Len(e.outs) = 0, "M.AppPublishes")
                 /\ UNCHANGED pub
               ELSE
                 /\ errs' = errs \cup {"M.UnknownDelivery"}
                 /\ UNCHANGED <<pub, got, infl>>
          [] e.ev = "Deliver" /\ e.sub = "l2p" ->
               /\ infl' = infl - 1 + FanSum(e)
               /\ errs' = errs \cup HopErrs(e)
                    \cup E(OutMsgs(e) = L2POut(Ident(e.side), InMsg(e), FALSE, FALSE, FALSE), "M.L2P")
                    \cup UNION {E(e.outs[i].scope = "proxy" /\ e.outs[i].kind = e.kind, "M.L2PTarget")
                                  : i \in 1 .. Len(e.outs)}
               /\ UNCHANGED <<pub, got>>
          [] e.ev = "Deliver" /\ e.sub = "p2l" ->
               /\ infl' = infl - 1 + FanSum(e)
               /\ errs' = errs \cup HopErrs(e)
                    \cup E(OutMsgs(e) = P2LOut(Ident(e.side), InMsg(e), FALSE), "M.P2L")
                    \cup UNION {E(e.outs[i].scope = "local" /\ e.outs[i].kind = e.kind, "M.P2LTarget")
                                  : i \in 1 .. Len(e.outs)}
               /\ UNCHANGED <<pub, got>>
          [] e.ev = "Lost" ->
               \* a subscriber was stopped with the instance on its way: it is
               \* gone; whether somebody misses it shows at rest
               /\ infl' = infl - 1
               /\ errs' = errs
               /\ UNCHANGED <<pub, got>>
          [] e.ev = "Served" ->
               /\ errs' = errs \cup E(e.runs <= e.reqs, "C16.RpcServedTwice")
               /\ UNCHANGED <<pub, got, infl>>
          [] e.ev = "Update" ->
               /\ errs' = errs \cup E(e.n >= 1, "C16.ClientUpdateMissing")
                               \cup E(e.n <= 1, "C16.ClientUpdateDuplicate")
               /\ UNCHANGED <<pub, got, infl>>
          [] e.ev = "Quiet" ->
               /\ errs' = errs
                    \cup E(e.drained, "C16.Circulates")
                    \cup (IF e.drained
                          THEN UNION {E(got[s][i] >= ExpectT(pub[i], s), "C16.Missing")
                                        : s \in SidesT, i \in {j \in IdsT : pub[j] # NoPub}}
                               \cup UNION {E(got[pub[pub[i].re].side][i] >= 1, "C16.RpcResultMissing")
                                             : i \in {j \in IdsT : pub[j] # NoPub /\ pub[j].re \in IdsT
                                                                     /\ pub[pub[j].re] # NoPub}}
                               \cup E(infl = 0 /\ e.left = 0, "M.Inflight")
                          ELSE {})
               /\ UNCHANGED <<pub, got, infl>>
          [] OTHER ->
               /\ errs' = errs \cup {"M.UnknownEvent"}
               /\ UNCHANGED <<pub, got, infl>>
  /\ UNCHANGED tid

Finish ==
  /\ ~fin /\ l > Len(Ev)
  /\ fin' = TRUE
  /\ PrintT(<<"RESULT", T.tid, errs>>)
  /\ UNCHANGED <<tid, l, pub, got, infl, errs>>

Next == Step \/ Finish
Spec == Init /\ [][Next]_vars
=============================================================================
