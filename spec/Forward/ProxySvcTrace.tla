--------------------------- MODULE ProxySvcTrace ---------------------------
(***************************************************************************)
(* Trace monitor for the proxy service part of C16: events recorded by     *)
(* fwd_rig.ProxyRig from the real Proxy._register / _lookup / _unregister  *)
(* / _heartbeat / _monitor (worker handles are fakes, the clock is         *)
(* virtual).  Every event carries the state of all sessions after it:      *)
(* st[i] = [reg, up, hb] for T.sessions[i].                                *)
(*                                                                         *)
(*   C16.ProxyLiveUnregistered  a session which registered, was not        *)
(*        unregistered and was never past its timeout at a monitor pass is *)
(*        not registered any more, or its proxy pubsubs were shut down:    *)
(*        nothing it forwards is delivered to its other sides              *)
(*   C16.ProxyLiveReaped        ... and that was done by a monitor pass    *)
(*   C16.ProxyIsolation         a request about one session changed the    *)
(*        registration, pubsubs or heartbeat of another session            *)
(*   C16.ProxyLookup            register / lookup of a live session fails  *)
(*        or hands out other endpoints than those of the session's own     *)
(*        live channel worker (cfgok, judged by the rig against the worker *)
(*        it spawned for that registration) - e.g. the late report of a    *)
(*        worker that was given up ('worker startup failed') and killed    *)
(*   Register events carry mode: the spawned worker reports "intime",      *)
(*   "late" (Report event, after it was killed) or "never".                *)
(*                                                                         *)
(* "M." clauses: the step differs from the design model ProxySvc in a way  *)
(* the property does not care about.                                       *)
(***************************************************************************)
EXTENDS Naturals, Sequences, FiniteSets, TLC, Json, IOUtils

CONSTANT MaxHops      \* unused here; the batch shares the cfg constants of ForwardTrace

Batch  == JsonDeserialize(IOEnv.TRACE_FILE)
Traces == Batch.traces

VARIABLES tid, l, prev, ghb, wanted, errs, fin
vars == <<tid, l, prev, ghb, wanted, errs, fin>>

T    == Traces[tid]
Ev   == T.events
N    == Len(T.sessions)
Idx  == 1 .. N
IdxOf(sid) == CHOOSE i \in Idx : T.sessions[i] = sid
Down == [reg |-> FALSE, up |-> FALSE, hb |-> 0]

E(cond, name) == IF cond THEN {} ELSE {name}

Init ==
  /\ tid \in 1 .. Len(Traces)
  /\ l = 1
  /\ prev = [i \in Idx |-> Down]
  /\ ghb  = [i \in Idx |-> 0]
  /\ wanted = {}
  /\ errs = {} /\ fin = FALSE

LateG(w, g, t) == {i \in w : t > g[i] + T.timeout}
Same(a, b)     == a.reg = b.reg /\ a.up = b.up /\ (a.reg => a.hb = b.hb)

Step ==
  /\ ~fin /\ l <= Len(Ev)
  /\ LET e  == Ev[l]
         st == [i \in Idx |-> e.st[i]]
         k  == IF e.sid = "none" THEN 0 ELSE IdxOf(e.sid)
         others == Idx \ {k}
         iso == UNION {E(Same(st[i], prev[i]), "C16.ProxyIsolation") : i \in others}
         \* what the ghosts become
         w2 == CASE e.op = "Register" /\ e.ok  -> wanted \cup {k}
                 [] e.op = "Unregister"        -> wanted \ {k}
                 [] e.op = "Monitor"           -> wanted \ LateG(wanted, ghb, e.now)
                 [] OTHER                      -> wanted
         g2 == CASE e.op = "Register" /\ e.ok            -> [ghb EXCEPT ![k] = e.now]
                 [] e.op = "Heartbeat" /\ prev[k].reg    -> [ghb EXCEPT ![k] = e.now]
                 [] OTHER                                -> ghb
         live == UNION {E(st[i].reg /\ st[i].up,
                          IF e.op = "Monitor" THEN "C16.ProxyLiveReaped"
                                              ELSE "C16.ProxyLiveUnregistered") : i \in w2}
     IN
     /\ l' = l + 1 /\ fin' = FALSE
     /\ prev' = st /\ ghb' = g2 /\ wanted' = w2
     /\ errs' = errs \cup live
          \cup (CASE e.op = "Register" ->
                       iso \cup E(e.ok = (~prev[k].reg /\ e.mode = "intime"), "M.ProxyRegisterResult")
                           \cup E(~e.ok \/ e.cfgok, "C16.ProxyLookup")
                           \cup E(~e.ok \/ (st[k].reg /\ st[k].up /\ st[k].hb = e.now), "M.ProxyRegister")
                  [] e.op = "Unregister" ->
                       iso \cup E(~st[k].reg /\ ~st[k].up, "M.ProxyUnregister")
                  [] e.op = "Heartbeat" ->
                       iso \cup E(~prev[k].reg \/ st[k].hb = e.now, "M.ProxyHeartbeat")
                           \cup E(st[k].reg = prev[k].reg /\ st[k].up = prev[k].up, "M.ProxyHeartbeat")
                  [] e.op = "Lookup" ->
                       iso \cup E(Same(st[k], prev[k]), "M.ProxyLookupChanges")
                           \cup (IF k \in wanted THEN E(e.ok /\ e.cfgok, "C16.ProxyLookup")
                                                 ELSE E(e.ok = prev[k].reg, "M.ProxyLookupResult"))
                  [] e.op = "Report" ->
                       \* the late report of a dead worker concerns nobody
                       UNION {E(Same(st[i], prev[i]), "C16.ProxyIsolation") : i \in Idx}
                  [] e.op = "Tick" ->
                       UNION {E(Same(st[i], prev[i]), "M.ProxyTickChanges") : i \in Idx}
                  [] e.op = "Monitor" ->
                       \* late sessions are to be reaped, bridges of the reaped are down
                       UNION {E(~st[i].reg, "M.ProxyStaleKept")
                                : i \in {j \in Idx : prev[j].reg /\ e.now > ghb[j] + T.timeout}}
                       \cup UNION {E(st[i].reg \/ ~st[i].up, "M.ProxyBridgeLeft") : i \in Idx}
                  [] OTHER -> {"M.UnknownEvent"})
  /\ UNCHANGED tid

Finish ==
  /\ ~fin /\ l > Len(Ev)
  /\ fin' = TRUE
  /\ PrintT(<<"RESULT", T.tid, errs>>)
  /\ UNCHANGED <<tid, l, prev, ghb, wanted, errs>>

Next == Step \/ Finish
Spec == Init /\ [][Next]_vars
=============================================================================
