------------------------------ MODULE WaitTrace ------------------------------
(***************************************************************************)
(* Trace monitor for the wait calls: consumes the events recorded by       *)
(* wait_rig.py from the REAL Task.wait / Pilot.wait / wait_tasks /         *)
(* wait_pilots under a virtual clock and checks the three clauses of C15   *)
(* (Prompt, NotEarly, Truthful) with the operators of WaitOps that the     *)
(* design model Wait uses.                                                 *)
(*                                                                         *)
(* trace : api, nn, ne, kind, awaited (1-based entity numbers in the order *)
(*         of the uid list), rform, R (codes), timeout (ticks, 0 = none),  *)
(*         events                                                          *)
(* events: Call(tick, st, closing)   Poll(tick, st, closing)  - one per    *)
(*         sleep of the loop, logged after the environment moved           *)
(*         Return(tick, shape, val, st, alt, closing)   alt[e]: further     *)
(*           final states notified for e after its first one (a cancel     *)
(*           raced the execution): such a task may hold any of them        *)
(*         Abort(tick)  - the rig unwound a call that was still polling    *)
(*         Raise(tick)  - the real method raised                           *)
(* The monitor is total: it never blocks, failing clauses go to errs.      *)
(***************************************************************************)
EXTENDS WaitOps, TLC, Json, IOUtils

CONSTANTS PastApis    \* apis for which "in or past a requested state" is what Prompt counts

Batch  == JsonDeserialize(IOEnv.TRACE_FILE)
Traces == Batch.traces

VARIABLES tid, l, tk, st0, cur, everHi, everLo, dueHi, dueLo, done, errs, fin

vars == <<tid, l, tk, st0, cur, everHi, everLo, dueHi, dueLo, done, errs, fin>>

T    == Traces[tid]
Ev   == T.events
nn   == T.nn
Ents == 1 .. T.ne
R    == SeqSet(T.R)
Aw   == T.awaited                      \* sequence, order of the uid list
AwSet == SeqSet(Aw)
All  == [i \in 1 .. T.ne |-> i]

E(cond, name) == IF cond THEN {} ELSE {name}

SatHi(s) == IF T.api \in PastApis THEN SatPast(nn, R, s) ELSE SatExact(nn, R, s)
SatLo(s) == SatPast(nn, R, s)
AllEver(ev) == \A e \in AwSet : ev[e]

Sized(f) == Len(f) = T.ne /\ \A i \in 1 .. Len(f) : f[i] \in Codes(nn)

Init ==
  /\ tid \in 1 .. Len(Traces)
  /\ l = 1 /\ tk = 0 /\ st0 = <<>> /\ cur = <<>>
  /\ everHi = [e \in Ents |-> FALSE] /\ everLo = [e \in Ents |-> FALSE]
  /\ dueHi = NONE /\ dueLo = NONE
  /\ done = FALSE /\ errs = {} /\ fin = FALSE

\* entities which were not final at the call (what wait_pilots(None) settles on)
NonFinal0 == SelectSeq(All, LAMBDA e : ~Final(nn, st0[e]))

Step ==
  /\ ~fin /\ l <= Len(Ev)
  /\ LET e == Ev[l] IN
     /\ l' = l + 1 /\ fin' = FALSE
     /\ CASE e.ev = "Call" /\ Sized(e.st) ->
               LET eh == [x \in Ents |-> SatHi(e.st[x])]
                   el == [x \in Ents |-> SatLo(e.st[x])] IN
               /\ tk' = 0 /\ st0' = e.st /\ cur' = e.st
               /\ everHi' = eh /\ everLo' = el
               /\ dueHi' = NextDue(NONE, AllEver(eh), T.timeout, 0)
               /\ dueLo' = NextDue(NONE, AllEver(el), T.timeout, 0)
               /\ errs' = errs \cup E(l = 1 /\ e.tick = 0, "X.CallNotFirst")
               /\ UNCHANGED done
          [] e.ev = "Poll" /\ Sized(e.st) /\ cur # <<>> ->
               LET eh == [x \in Ents |-> everHi[x] \/ SatHi(e.st[x])]
                   el == [x \in Ents |-> everLo[x] \/ SatLo(e.st[x])] IN
               /\ tk' = e.tick /\ cur' = e.st
               /\ everHi' = eh /\ everLo' = el
               /\ dueHi' = NextDue(dueHi, AllEver(eh), T.timeout, e.tick)
               /\ dueLo' = NextDue(dueLo, AllEver(el), T.timeout, e.tick)
               /\ errs' = errs
                    \cup E(e.tick = tk + 1, "X.ClockSkew")
                    \cup E(\A x \in Ents : LegalStep(nn, cur[x], e.st[x]), "X.IllegalTrajectory")
                    \cup E(~done, "X.PollAfterReturn")
                    \* (a call that sleeps on after its due tick is reported once, by
                    \*  its late Return or by the Abort of the rig)
               /\ UNCHANGED <<st0, done>>
          [] e.ev = "Return" /\ cur # <<>> ->
               /\ done' = TRUE
               /\ errs' = errs
                    \cup E(e.tick = tk, "X.ClockSkew")
                    \cup E(~done, "X.ReturnedTwice")
                    \cup E(PromptOK(dueHi, e.tick), "C15.Prompt")
                    \cup E(NotEarlyOK(dueLo, e.tick, e.closing), "C15.NotEarly")
                    \cup E(ShapeOK(T.kind, e.shape), "C15.TruthfulShape")
                    \cup (IF e.shape \in {"scalar", "list"}
                          THEN E(\/ ValuesAltSeqOK(e.val, cur, e.alt, Aw)
                                 \/ T.kind = "all" /\ ValuesAltSeqOK(e.val, cur, e.alt, NonFinal0),
                                 "C15.TruthfulValue")
                          ELSE {})
               /\ UNCHANGED <<tk, st0, cur, everHi, everLo, dueHi, dueLo>>
          [] e.ev = "Abort" ->
               \* unwound by the rig while still polling: never returned
               /\ done' = TRUE
               /\ errs' = errs \cup E(StillPollingOK(dueHi, e.tick), "C15.PromptStillPolling")
               /\ UNCHANGED <<tk, st0, cur, everHi, everLo, dueHi, dueLo>>
          [] e.ev = "Raise" ->
               /\ done' = TRUE
               /\ errs' = errs \cup {"C15.Raised"}
               /\ UNCHANGED <<tk, st0, cur, everHi, everLo, dueHi, dueLo>>
          [] OTHER ->
               /\ errs' = errs \cup {"X.UnknownEvent"}
               /\ UNCHANGED <<tk, st0, cur, everHi, everLo, dueHi, dueLo, done>>
  /\ UNCHANGED tid

Finish ==
  /\ ~fin /\ l > Len(Ev)
  /\ fin' = TRUE
  /\ PrintT(<<"RESULT", T.tid, errs \cup E(done, "X.Unfinished")>>)
  /\ UNCHANGED <<tid, l, tk, st0, cur, everHi, everLo, dueHi, dueLo, done, errs>>

Next == Step \/ Finish
Spec == Init /\ [][Next]_vars
=============================================================================
