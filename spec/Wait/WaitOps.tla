------------------------------ MODULE WaitOps ------------------------------
(***************************************************************************)
(* Pure operators shared by the design model Wait and the trace monitor    *)
(* WaitTrace.                                                              *)
(*                                                                         *)
(* Entity states are integer codes over a state chain with nn non-final    *)
(* states: 0 .. nn-1 are the non-final states in model order, nn = DONE,   *)
(* nn+1 = FAILED, nn+2 = CANCELED (the three share the numeric value nn,   *)
(* as in states._task_state_values / _pilot_state_values).  -1 stands for  *)
(* python's None.                                                          *)
(***************************************************************************)
EXTENDS Naturals, Integers, Sequences, FiniteSets

NONE == -1

Codes(nn)    == 0 .. nn + 2
Finals(nn)   == {nn, nn + 1, nn + 2}
Final(nn, s) == s >= nn
Val(nn, s)   == IF s >= nn THEN nn ELSE s

MinOf(S) == CHOOSE x \in S : \A y \in S : x <= y
MaxOf(S) == CHOOSE x \in S : \A y \in S : x >= y

SeqSet(s) == {s[i] : i \in 1 .. Len(s)}
SortedSeq(S) == CHOOSE s \in [1 .. Cardinality(S) -> S] : \A i, j \in 1 .. Cardinality(S) : i < j => s[i] < s[j]

\* requested states after normalisation: nothing requested == any final state
Want(nn, R)   == IF R = {} THEN Finals(nn) ELSE R
\* the earliest requested state (TaskManager.wait_tasks compares against it)
MinVal(nn, R) == MinOf({Val(nn, s) : s \in Want(nn, R)})

\* an entity satisfies a wait: it is in a requested state, or final (no further
\* progress possible) ...
SatExact(nn, R, s) == s \in Want(nn, R) \/ Final(nn, s)
\* ... or, in the reading of the manager calls, it is in or past the earliest
\* requested state
SatPast(nn, R, s)  == Final(nn, s) \/ Val(nn, s) >= MinVal(nn, R)

\* legal trajectory step of one entity: forward in the numeric order, final
\* states are never left
LegalStep(nn, a, b) == IF Final(nn, a) THEN b = a ELSE (b = a \/ Val(nn, b) > Val(nn, a))

\* timeout (in ticks, 0 == none) has elapsed k ticks after the call
TimedOut(timeout, k) == timeout > 0 /\ k >= timeout

\* first tick at which a wait is due, advanced tick by tick: due stays once set
NextDue(due, allsat, timeout, k) ==
  IF due # NONE THEN due ELSE IF allsat \/ TimedOut(timeout, k) THEN k ELSE NONE

(* ---- the three clauses of C15 over one finished call -------------------- *)
\* Prompt: a return no later than one tick after the due tick
PromptOK(dueHi, r)          == dueHi = NONE \/ r <= dueHi + 1
\* a call that still polls at tick h has missed its due tick
StillPollingOK(dueHi, h)    == dueHi = NONE \/ h <= dueHi + 1
\* NotEarly: no return before the due tick unless the manager is closing
NotEarlyOK(dueLo, r, closing) == closing \/ (dueLo # NONE /\ r >= dueLo)
\* Truthful: the documented shape and the entities' actual states
ShapeOK(kind, shape)  == shape = (IF kind = "scalar" THEN "scalar" ELSE "list")
ValuesOK(val, f, ents) == /\ Len(val) = Len(ents)
                          /\ \A i \in 1 .. Len(ents) : val[i] = f[ents[i]]
\* ... where an entity which was notified contradicting final states (a cancel
\* raced the execution) may hold any final state
ValuesAltOK(nn, val, f, racedset, ents) ==
  /\ Len(val) = Len(ents)
  /\ \A i \in 1 .. Len(ents) : val[i] = f[ents[i]] \/ (ents[i] \in racedset /\ Final(nn, val[i]))
\* the same with the exact alternatives: alt[e] is the sequence of the further
\* final states which were notified for e after its first one
ValuesAltSeqOK(val, f, alt, ents) ==
  /\ Len(val) = Len(ents)
  /\ \A i \in 1 .. Len(ents) : val[i] = f[ents[i]] \/ val[i] \in SeqSet(alt[ents[i]])
=============================================================================
