-------------------------------- MODULE Wait --------------------------------
(***************************************************************************)
(* Design model of the four blocking wait calls of the client API          *)
(*   task.py         : Task.wait(state, timeout)              api "task"   *)
(*   pilot.py        : Pilot.wait(state, timeout)             api "pilot"  *)
(*   task_manager.py : TaskManager.wait_tasks(uids, state, timeout) "tmgr" *)
(*   pilot_manager.py: PilotManager.wait_pilots(uids, state, timeout) "pmgr"*)
(*                                                                         *)
(* Discrete clock: one tick is one poll interval (the 0.1 s sleep of the   *)
(* loops).  The environment moves the entities only while the waiter       *)
(* sleeps (action Poll), every entity along a trajectory that is legal in  *)
(* the state model; it may also close the manager.  The waiter is          *)
(*   Call -> Poll* -> (pc = "ret")                                         *)
(* in the shape of the code: what the loops evaluate between two sleeps is *)
(* one atomic step.                                                        *)
(*                                                                         *)
(* The loops read seen, the client-side copy of the entity states which    *)
(* is fed by state notifications; the truth st is the furthest state ever  *)
(* notified.  Stale notifications are no-ops: seen = st unless             *)
(* DevStaleApplied.                                                        *)
(*                                                                         *)
(* Ghost variables (everHi, everLo, dueHi, dueLo) state the property       *)
(* independently of the loops: the tick at which the call is due.          *)
(* Known deviations of the code are boolean constants (FALSE = intended).  *)
(***************************************************************************)
EXTENDS WaitOps, TLC

CONSTANTS NN,          \* number of non-final states of the chain
          NE,          \* entities known to the manager
          Apis,        \* apis explored in this run
          Timeouts,    \* timeouts in ticks, 0 == none
          MaxReq,      \* max number of requested states
          TrajEnd,     \* entities are frozen from this tick on
          MaxTick,     \* clock bound
          MayClose,    \* the manager may be closed while the call waits
          PastApis,    \* apis for which "in or past a requested state" is what Prompt counts
          DevTaskDefaultNone,   \* D6: Task.wait() normalises "no state" to [None]
          DevNoFinalExit,       \* D7: Task.wait/Pilot.wait loops ignore "final in another state"
          DevPilotNoneReturn,   \* D7: Pilot.wait returns None if already in an awaited final state
          DevStaleApplied,      \* a stale notification is applied to the client-side object
          OddKinds,             \* odd bulk entries the environment uses: subset of {"contra", "stale", "dup"}
          RecordOdd,            \* keep the odd entry of the last bulk in the state (for simulation dumps)
          DevBulkAbortOn        \* odd entry kinds on which the bulk loop raises ({} = intended):
                                \* the listener logs the exception, the rest of the message is lost

VARIABLES api, kind, awaited, rform, R, timeout,     \* the call (chosen in Init)
          tick, st, closing,                          \* environment; st: furthest state notified
          seen,                                       \* client-side state the loops read
          raced,                                      \* entities with contradicting final notifications
          odd,                                        \* <<b, kind, k>> of the last bulk, if RecordOdd
          pc, chk, aw,                                \* waiter: control, to_check, uids it settled on
          everHi, everLo, dueHi, dueLo,               \* ghosts
          rtick, rval, rshape, rclosed                \* the return

vars == <<api, kind, awaited, rform, R, timeout, tick, st, closing, seen, raced, odd, pc, chk, aw,
          everHi, everLo, dueHi, dueLo, rtick, rval, rshape, rclosed>>
params == <<api, kind, awaited, rform, R, timeout>>

E == 1 .. NE

SatHi(s) == IF api \in PastApis THEN SatPast(NN, R, s) ELSE SatExact(NN, R, s)
SatLo(s) == SatPast(NN, R, s)
AllEver(ev) == \A e \in awaited : ev[e]

(* ---- notification layer ------------------------------------------------------ *)
\* The entities change on the client side through state notifications (manager
\* _state_sub_cb -> _update_pilot / _update_tasks -> Pilot._update / Task._update)
\* which arrive with gaps, duplicated, reordered and after a final one.  The
\* truth st is the furthest state ever notified (a final state is sticky); a
\* stale notification (an earlier non-final state) is a no-op, so the loops
\* read seen = st.  With DevStaleApplied the last stale notification of a tick
\* sticks: seen may be any earlier non-final state.
Views(f) == IF DevStaleApplied
            THEN {g \in [E -> Codes(NN)] : \A e \in E :
                     g[e] = f[e] \/ (e \in awaited /\ ~Final(NN, g[e]) /\ g[e] < Val(NN, f[e]))}
            ELSE {f}

\* Task notifications come in BULKS: one message carries the entries of several
\* tasks (TaskManager._state_sub_cb -> _update_tasks loops over them).  Per tick
\* the model delivers one bulk with the regular entries in entity order, and
\* the environment may add ONE odd entry for an entity b, placed behind the
\* regular entries of the entities <= k (k = 0: first, k = NE: last):
\*   "contra" : another final state for a task which is final already
\*              (CANCELED seen, then DONE / FAILED: the execution won the race)
\*   "stale"  : an older state of b        "dup" : the current state of b again
\* In the intended design an odd entry is a no-op for b (a raced task keeps a
\* final state) and every other entry of the bulk is applied.  If the loop
\* raises on the odd entry (DevBulkAbortOn), the pubsub listener logs the
\* exception and the entries behind it are LOST: those tasks keep their old
\* client-side state although their notification was sent.
\* (Pilot notifications are delivered one pilot per message.)
Bulked    == api \in {"task", "tmgr"}
OddOK(b, kd, k) ==
  IF b = 0 THEN kd = "none" /\ k = NE
  ELSE /\ Bulked /\ kd \in OddKinds
       /\ kd = "contra" => Final(NN, st[b])
       /\ kd = "stale"  => Val(NN, st[b]) > 0
       /\ kd \notin DevBulkAbortOn => k = NE
Lost(e, b, kd, k) == b # 0 /\ kd \in DevBulkAbortOn /\ e > k

Init ==
  /\ api \in Apis
  /\ IF api \in {"task", "pilot"}
     THEN kind = "scalar" /\ awaited = {1}
     ELSE \/ kind = "scalar" /\ awaited \in {{e} : e \in E}
          \/ kind = "list"   /\ awaited \in (SUBSET E \ {{}})
          \/ kind = "all"    /\ awaited = {e \in E : TRUE}   \* (enumerated, not an interval)
  /\ R \in {S \in SUBSET Codes(NN) : Cardinality(S) <= MaxReq}
  /\ rform \in (IF R = {} THEN {"none"} ELSE IF Cardinality(R) = 1 THEN {"scalar", "list"} ELSE {"list"})
  /\ timeout \in Timeouts
  /\ st \in [E -> Codes(NN)]
  /\ \A e \in E \ awaited : st[e] \in (IF Bulked THEN {0, NN + 2} ELSE {0})   \* bystanders: NEW (or CANCELED)
  /\ closing \in (IF MayClose THEN BOOLEAN ELSE {FALSE})
  /\ seen \in Views(st) /\ raced = {} /\ odd = <<0, "none", NE>>
  /\ tick = 0 /\ pc = "idle" /\ chk = {} /\ aw = {}
  /\ everHi = [e \in E |-> SatHi(st[e])]
  /\ everLo = [e \in E |-> SatLo(st[e])]
  /\ dueHi = NextDue(NONE, AllEver(everHi), timeout, 0)
  /\ dueLo = NextDue(NONE, AllEver(everLo), timeout, 0)
  /\ rtick = NONE /\ rval = <<>> /\ rshape = "unset" /\ rclosed = FALSE

(* ---- the loops as coded -------------------------------------------------- *)
\* Task.wait / Pilot.wait: the states the loop compares against
WantCode == IF api = "task" /\ DevTaskDefaultNone /\ rform = "none" THEN {NONE} ELSE Want(NN, R)
\* ... and its loop condition
Cont(s) == s \notin WantCode /\ (DevNoFinalExit \/ ~Final(NN, s))
\* wait_tasks / wait_pilots: entities kept in to_check
KeepT(f, c) == {e \in c : ~Final(NN, f[e]) /\ Val(NN, f[e]) < MinVal(NN, R)}
KeepP(f, c) == {e \in c : f[e] \notin Want(NN, R) /\ ~Final(NN, f[e])}

KindShape == IF kind = "scalar" THEN "scalar" ELSE "list"

Return(t, f, cl, ents) ==
  /\ pc' = "ret" /\ rtick' = t /\ rclosed' = cl /\ rshape' = KindShape
  /\ rval' = [i \in 1 .. Len(ents) |-> f[ents[i]]]
ReturnNone(t, cl) ==
  /\ pc' = "ret" /\ rtick' = t /\ rclosed' = cl /\ rshape' = "none" /\ rval' = <<NONE>>
Sleep == pc' = "sleep" /\ UNCHANGED <<rtick, rval, rshape, rclosed>>

Self == CHOOSE e \in awaited : TRUE

Call ==
  /\ pc = "idle"
  /\ CASE api \in {"task", "pilot"} ->
            LET s == seen[Self] IN
            /\ IF Final(NN, s)
               THEN IF api = "pilot" /\ DevPilotNoneReturn /\ s \in WantCode
                    THEN ReturnNone(0, closing)
                    ELSE Return(0, seen, closing, <<Self>>)
               ELSE IF Cont(s) THEN Sleep ELSE Return(0, seen, closing, <<Self>>)
            /\ UNCHANGED <<chk, aw>>
       [] api = "tmgr" ->
            /\ aw' = awaited
            /\ IF closing THEN Return(0, seen, closing, SortedSeq(awaited)) /\ UNCHANGED chk
                          ELSE Sleep /\ chk' = awaited
       [] api = "pmgr" ->
            LET a == IF kind = "all" THEN {e \in E : ~Final(NN, seen[e])} ELSE awaited IN
            /\ aw' = a
            /\ IF a = {} \/ closing THEN Return(0, seen, closing, SortedSeq(a)) /\ UNCHANGED chk
                                    ELSE Sleep /\ chk' = KeepP(seen, a)
  /\ UNCHANGED <<params, tick, st, closing, seen, raced, odd, everHi, everLo, dueHi, dueLo>>

\* one sleep: the environment moves, then the waiter evaluates up to its next sleep
EnvNext(ns) == \A e \in E : IF tick < TrajEnd /\ e \in awaited THEN LegalStep(NN, st[e], ns[e])
                                                               ELSE ns[e] = st[e]

Poll(ns, sn, cl, b, kd, k) ==
  /\ pc = "sleep" /\ tick < MaxTick
  /\ EnvNext(ns) /\ sn \in Views(ns) /\ (closing => cl) /\ (cl => MayClose)
  /\ OddOK(b, kd, k)
  /\ LET t   == tick + 1
         eh  == [e \in E |-> everHi[e] \/ SatHi(ns[e])]
         el  == [e \in E |-> everLo[e] \/ SatLo(ns[e])]
         \* what the objects hold afterwards: an entity without a notification in
         \* this tick, or whose entry was lost, keeps its client-side state
         se  == [e \in E |-> IF Lost(e, b, kd, k) \/ (ns[e] = st[e] /\ sn[e] = ns[e])
                              THEN seen[e] ELSE sn[e]]
     IN
     /\ tick' = t /\ st' = ns /\ seen' = se /\ closing' = cl
     /\ raced' = IF kd = "contra" THEN raced \cup {b} ELSE raced
     /\ odd' = IF RecordOdd THEN <<b, kd, k>> ELSE odd
     /\ everHi' = eh /\ everLo' = el
     /\ dueHi' = NextDue(dueHi, AllEver(eh), timeout, t)
     /\ dueLo' = NextDue(dueLo, AllEver(el), timeout, t)
     /\ CASE api \in {"task", "pilot"} ->
               /\ IF TimedOut(timeout, t) \/ cl \/ ~Cont(se[Self])
                  THEN Return(t, se, cl, <<Self>>) ELSE Sleep
               /\ UNCHANGED chk
          [] api = "tmgr" ->
               LET c == KeepT(se, chk) IN
               /\ chk' = c
               /\ IF c = {} \/ cl \/ TimedOut(timeout, t)
                  THEN Return(t, se, cl, SortedSeq(aw)) ELSE Sleep
          [] api = "pmgr" ->
               IF chk = {} \/ cl
               THEN Return(t, se, cl, SortedSeq(aw)) /\ UNCHANGED chk
               ELSE LET c == KeepP(se, chk) IN
                    /\ chk' = c
                    /\ IF c # {} /\ TimedOut(timeout, t)
                       THEN Return(t, se, cl, SortedSeq(aw)) ELSE Sleep
  /\ UNCHANGED <<params, aw>>

\* the odd entries possible in this state (evaluated once per state)
Odds == {<<0, "none", NE>>} \cup
        (IF Bulked THEN {o \in E \X OddKinds \X (0 .. NE) : OddOK(o[1], o[2], o[3])} ELSE {})

Next == \/ Call
        \/ \E o \in Odds : \E ns \in [E -> Codes(NN)], cl \in BOOLEAN : \E sn \in Views(ns) :
             Poll(ns, sn, cl, o[1], o[2], o[3])
Spec == Init /\ [][Next]_vars

(* ---- properties ------------------------------------------------------------ *)
TypeOK ==
  /\ pc \in {"idle", "sleep", "ret"} /\ tick \in 0 .. MaxTick
  /\ st \in [E -> Codes(NN)] /\ seen \in [E -> Codes(NN)] /\ chk \subseteq E /\ aw \subseteq E /\ raced \subseteq E
  /\ dueHi \in {NONE} \cup (0 .. MaxTick) /\ dueLo \in {NONE} \cup (0 .. MaxTick)

\* C15.Prompt: the call does not go to sleep again after its due tick, and it
\* has returned by due + 1
InvPrompt ==
  /\ pc = "sleep" => StillPollingOK(dueHi, tick + 1)
  /\ pc = "ret"   => PromptOK(dueHi, rtick)
\* C15.NotEarly
InvNotEarly == pc = "ret" => NotEarlyOK(dueLo, rtick, rclosed)
\* C15.Truthful (the actual state at return is st: nothing moves after the return;
\* a task with contradicting final notifications may hold any final state)
InvTruthful ==
  pc = "ret" => /\ ShapeOK(kind, rshape)
                /\ \/ ValuesAltOK(NN, rval, st, raced, SortedSeq(awaited))
                   \/ kind = "all" /\ ValuesAltOK(NN, rval, st, raced, SortedSeq(aw))
\* the two readings of "due" are ordered
InvDueOrder == dueHi # NONE => (dueLo # NONE /\ dueLo <= dueHi)
=============================================================================
