---------------------------- MODULE AgentLifeOps ----------------------------
(***************************************************************************)
(* Pure operators shared by the design model AgentLife and the trace       *)
(* monitor AgentLifeTrace: how the cause of the agent's termination maps   *)
(* to the final pilot state (C14, second half).                            *)
(***************************************************************************)
EXTENDS Naturals, Sequences, FiniteSets

Causes  == {"none", "timeout", "cancel", "sysexit"}      \* Agent_0._final_cause
Reasons == {"none", "timeout", "cancel", "terminate", "stop"}   \* first decisive event

\* Agent_0.finalize: cause -> final state
StateOf(cause) == CASE cause = "timeout"             -> "DONE"
                    [] cause \in {"cancel", "sysexit"} -> "CANCELED"
                    [] OTHER                           -> "FAILED"

\* tail of bootstrap_0.sh: the content of killme.signal, or FAILED without it
BootState(signal) == IF signal = "" THEN "FAILED" ELSE signal

\* the lifetime (minutes, 0 == unlimited) is reached at `now` minutes after start
Expired(runtime, now) == runtime > 0 /\ now >= runtime

\* RightReason: the final state which tells why the pilot ended.
\*   lifetime reached first            => DONE
\*   cancel naming this pilot first    => CANCELED
\*   nothing decisive                  => FAILED
\* A bare termination command / stop() is a request to end the agent which is
\* neither a lifetime nor a cancel naming this pilot: CANCELED (a request) and
\* FAILED ("anything else") are both accepted.
Allowed(first) == CASE first = "timeout" -> {"DONE"}
                    [] first = "cancel"  -> {"CANCELED"}
                    [] first \in {"terminate", "stop"} -> {"CANCELED", "FAILED"}
                    [] OTHER             -> {"FAILED"}

First(first, reason) == IF first = "none" THEN reason ELSE first
=============================================================================
