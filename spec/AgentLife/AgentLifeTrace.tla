---------------------------- MODULE AgentLifeTrace ----------------------------
(***************************************************************************)
(* Trace monitor for the termination cause of the main agent: consumes the *)
(* events recorded by agentlife_rig.py from the REAL Agent_0 methods       *)
(* (_check_lifetime, _control_cb with cancel_pilots / terminate, stop,     *)
(* finalize) and the tail of bootstrap_0.sh, and checks RightReason (C14)  *)
(* with the operators of AgentLifeOps that the design model uses.          *)
(*                                                                         *)
(* trace : runtime (minutes, 0 = unlimited), me (pilot id), events         *)
(* events: LifetimeCheck(now, cause, term)  CancelCmd(uids, cause, term)   *)
(*         TerminateCmd(cause, term)  Stop(cause, term)                    *)
(*         FinBegin(faults)  finalize() was entered; faults = the steps    *)
(*            before the publication which fail in this run (environment   *)
(*            faults such as tar exiting non-zero, helpers which raise);   *)
(*            commands logged between FinBegin and Finalize arrived while  *)
(*            those steps ran                                              *)
(*         Finalize(signal, advanced, npub, raised, cause)   Boot(state)   *)
(*            npub = number of final pilot states finalize() published     *)
(*   cause / term are the agent's _final_cause / _term after the call      *)
(* The monitor is total: failing clauses go to errs.                       *)
(***************************************************************************)
EXTENDS AgentLifeOps, TLC, Json, IOUtils

Batch  == JsonDeserialize(IOEnv.TRACE_FILE)
Traces == Batch.traces

VARIABLES tid, l, first, cause, term, isfin, signal, errs, fin,
          first0    \* the first decisive event when finalize() was entered ("open": not entered)

vars == <<tid, l, first, cause, term, isfin, signal, errs, fin, first0>>

T  == Traces[tid]
Ev == T.events
SeqSet(s) == {s[i] : i \in 1 .. Len(s)}
E(cond, name) == IF cond THEN {} ELSE {name}

Init ==
  /\ tid \in 1 .. Len(Traces)
  /\ l = 1 /\ first = "none" /\ cause = "none" /\ term = FALSE
  /\ isfin = FALSE /\ signal = "" /\ errs = {} /\ fin = FALSE /\ first0 = "open"

\* the final states which tell why the pilot ended: a decisive event which arrives
\* while finalize() already runs its steps may or may not be taken into account
Right == Allowed(first) \cup (IF first0 = "open" THEN {} ELSE Allowed(first0))

Step ==
  /\ ~fin /\ l <= Len(Ev)
  /\ LET e == Ev[l] IN
     /\ l' = l + 1 /\ fin' = FALSE
     /\ first0' = IF e.ev = "FinBegin" THEN first ELSE first0
     /\ CASE e.ev = "LifetimeCheck" ->
               /\ cause' = e.cause /\ term' = e.term
               /\ IF Expired(T.runtime, e.now)
                  THEN first' = First(first, "timeout") /\ errs' = errs
                  ELSE /\ first' = first
                       \* not yet at the requested run time: nothing ends
                       /\ errs' = errs \cup E(e.cause = cause /\ e.term = term, "C14.EndedBeforeRunTime")
               /\ UNCHANGED <<isfin, signal>>
          [] e.ev = "CancelCmd" ->
               /\ cause' = e.cause /\ term' = e.term
               /\ IF T.me \in SeqSet(e.uids)
                  THEN first' = First(first, "cancel") /\ errs' = errs
                  ELSE /\ first' = first
                       /\ errs' = errs \cup E(e.cause = cause /\ e.term = term, "C14.OtherCancelIgnored")
               /\ UNCHANGED <<isfin, signal>>
          [] e.ev = "TerminateCmd" ->
               /\ cause' = e.cause /\ term' = e.term
               /\ first' = First(first, "terminate") /\ errs' = errs
               /\ UNCHANGED <<isfin, signal>>
          [] e.ev = "Stop" ->
               /\ cause' = e.cause /\ term' = e.term
               /\ first' = First(first, "stop") /\ errs' = errs
               /\ UNCHANGED <<isfin, signal>>
          [] e.ev = "FinBegin" ->
               /\ errs' = errs \cup E(~isfin, "X.FinalizedTwice")
               /\ UNCHANGED <<first, cause, term, isfin, signal>>
          [] e.ev = "Finalize" ->
               \* whichever steps failed (FinBegin.faults): exactly one final state,
               \* the right one for the first decisive event seen until now, and
               \* the signal file says the same
               /\ isfin' = TRUE /\ signal' = e.signal
               /\ errs' = errs
                    \cup E(~isfin, "X.FinalizedTwice")
                    \cup E(e.npub = 1, "C14.OneFinalState")
                    \cup E(e.npub = 0 \/ e.advanced \in Right, "C14.RightReason")
                    \cup E((e.npub = 0 /\ e.signal = "") \/ e.signal = e.advanced, "C14.SignalMatchesState")
               /\ UNCHANGED <<first, cause, term>>
          [] e.ev = "Boot" ->
               \* the bootstrapper reports the content of the signal file; without
               \* a finalize (the agent died) there is none: FAILED
               /\ errs' = errs
                    \cup (IF e.state = "skipped" THEN {}
                          ELSE E(e.state = BootState(signal), "C14.BootstrapState")
                               \cup E(e.state \in Right \/ ~isfin, "C14.RightReason")
                               \cup E(isfin \/ e.state = "FAILED", "C14.BootstrapFallback"))
               /\ UNCHANGED <<first, cause, term, isfin, signal>>
          [] OTHER ->
               /\ errs' = errs \cup {"X.UnknownEvent"}
               /\ UNCHANGED <<first, cause, term, isfin, signal>>
  /\ UNCHANGED tid

Finish ==
  /\ ~fin /\ l > Len(Ev)
  /\ fin' = TRUE
  /\ PrintT(<<"RESULT", T.tid, errs>>)
  /\ UNCHANGED <<tid, l, first, cause, term, isfin, signal, errs, first0>>

Next == Step \/ Finish
Spec == Init /\ [][Next]_vars
=============================================================================
