------------------------------ MODULE AgentLife ------------------------------
(***************************************************************************)
(* Design model of the termination cause bookkeeping of the main agent     *)
(*   agent/agent_0.py : _check_lifetime, _ctrl_cancel_pilots, stop,        *)
(*                      finalize (killme.signal + final state update)      *)
(*   utils/component.py : _control_cb ('terminate' -> stop), Idler         *)
(*   agent/bootstrap_0.sh : tail, killme.signal -> final state             *)
(*                                                                         *)
(* The timed callback, the control subscriber callback run under one       *)
(* callback lock: each event below is atomic.  finalize runs when the work *)
(* loop ends; Boot is the bootstrapper reading the signal file afterwards  *)
(* (or without a finalize: the agent died).                                *)
(*                                                                         *)
(* cause is the code's _final_cause; first is the ghost: the first         *)
(* decisive event, which is what the final state has to tell.              *)
(* Deviations (FALSE = intended: the first cause wins):                    *)
(*   DevStopOverwrites : stop() sets 'cancel' unconditionally        (D16) *)
(*   DevLateOverwrites : _ctrl_cancel_pilots / _check_lifetime assign the  *)
(*                       cause although one is already recorded            *)
(*                                                                         *)
(* finalize is not one step: before it maps the cause to the final state,  *)
(* writes killme.signal and publishes the state, it runs NFin steps which  *)
(* touch the environment (stage_output: tar of the pilot's output_staging  *)
(* list; the resource usage report; the tails of agent_0.out/err/log).     *)
(* Which of them fail is the environment's choice (FinBegin(F): tar exits  *)
(* non-zero because a listed file or directory does not exist, a helper    *)
(* raises).  Commands still arrive while these steps run: the cause is     *)
(* read by FinPublish.  Intended: a failing step is logged, finalize goes  *)
(* on, exactly one final state is published whatever F is.                 *)
(*   DevFinAbort : a failing step leaves finalize by an exception (the     *)
(*                 work loop logs it): no signal file, no final state      *)
(***************************************************************************)
EXTENDS AgentLifeOps, TLC

CONSTANTS Runtime,        \* requested run time in minutes, 0 == unlimited
          MaxNow,         \* clock bound (minutes)
          Me, Others,     \* this pilot's id, other pilot ids
          MaxEvents,      \* bound on commands before finalize
          NFin,           \* number of steps of finalize before the publication
          DevStopOverwrites, DevLateOverwrites, DevFinAbort

VARIABLES now, cause, term, lcReg, lateLC, first, nev, last,
          fin, signal, advanced, booted, bstate,
          fph,            \* "idle" | "steps" (publication pending) | "done" | "aborted"
          ffail,          \* the steps of finalize which failed
          npub,           \* number of final states published
          first0          \* ghost: the first decisive event when finalize was entered ("open": not yet)

vars == <<now, cause, term, lcReg, lateLC, first, nev, last, fin, signal, advanced, booted, bstate,
          fph, ffail, npub, first0>>
finv == <<fph, ffail, npub, first0>>

Init ==
  /\ now = 0 /\ cause = "none" /\ term = FALSE /\ lcReg = TRUE /\ lateLC = 0
  /\ first = "none" /\ nev = 0 /\ last = "init"
  /\ fin = FALSE /\ signal = "" /\ advanced = "none" /\ booted = FALSE /\ bstate = "none"
  /\ fph = "idle" /\ ffail = {} /\ npub = 0 /\ first0 = "open"

Set(c, new, dev) == IF dev \/ c = "none" THEN new ELSE c
\* Agent_0.stop() on a cause c
Stopped(c) == Set(c, "cancel", DevStopOverwrites)

Tick ==
  /\ ~fin /\ ~booted /\ now < MaxNow
  /\ now' = now + 1 /\ last' = "tick"
  /\ UNCHANGED <<cause, term, lcReg, lateLC, first, nev, fin, signal, advanced, booted, bstate, finv>>

\* the idler thread calls _check_lifetime; after stop() at most one call which
\* was already waiting for the callback lock
LifetimeCheck ==
  /\ ~fin /\ ~booted /\ lcReg /\ nev < MaxEvents /\ (term => lateLC = 0)
  /\ nev' = nev + 1 /\ lateLC' = IF term THEN 1 ELSE lateLC
  /\ IF Expired(Runtime, now)
     THEN /\ first' = First(first, "timeout")
          /\ cause' = Stopped(Set(cause, "timeout", DevLateOverwrites))
          /\ term' = TRUE /\ lcReg' = FALSE /\ last' = "lifetime_expired"
     ELSE /\ last' = "lifetime_ok" /\ UNCHANGED <<first, cause, term, lcReg>>
  /\ UNCHANGED <<now, fin, signal, advanced, booted, bstate, finv>>

CancelCmd(uids) ==
  /\ uids # {}
  /\ ~fin /\ ~booted /\ nev < MaxEvents
  /\ nev' = nev + 1
  /\ IF Me \in uids
     THEN /\ first' = First(first, "cancel")
          /\ cause' = Stopped(Set(cause, "cancel", DevLateOverwrites))
          /\ term' = TRUE /\ last' = "cancel_me"
     ELSE /\ last' = "cancel_other" /\ UNCHANGED <<first, cause, term>>
  /\ UNCHANGED <<now, lcReg, lateLC, fin, signal, advanced, booted, bstate, finv>>

\* 'terminate' on the control channel (session close of the client, or the
\* agent's own message after a cancel): Component._control_cb -> stop()
TerminateCmd ==
  /\ ~fin /\ ~booted /\ nev < MaxEvents
  /\ nev' = nev + 1
  /\ first' = First(first, "terminate") /\ cause' = Stopped(cause) /\ term' = TRUE
  /\ last' = "terminate"
  /\ UNCHANGED <<now, lcReg, lateLC, fin, signal, advanced, booted, bstate, finv>>

Stop ==
  /\ ~fin /\ ~booted /\ nev < MaxEvents
  /\ nev' = nev + 1
  /\ first' = First(first, "stop") /\ cause' = Stopped(cause) /\ term' = TRUE
  /\ last' = "stop"
  /\ UNCHANGED <<now, lcReg, lateLC, fin, signal, advanced, booted, bstate, finv>>

\* the work loop ended (stopped, or for any other reason): finalize starts and
\* runs its steps; F are the steps which fail.  fin is "finalize is over".
FinBegin(F) ==
  /\ ~fin /\ ~booted /\ fph = "idle"
  /\ ffail' = F /\ last' = "fin_begin" /\ first0' = first
  /\ IF DevFinAbort /\ F # {}
     THEN fph' = "aborted" /\ fin' = TRUE
     ELSE fph' = "steps"   /\ fin' = fin
  /\ UNCHANGED <<now, cause, term, lcReg, lateLC, first, nev, signal, advanced, booted, bstate, npub>>

\* map the cause as it is now, write the signal file, publish the final state
FinPublish ==
  /\ ~fin /\ ~booted /\ fph = "steps"
  /\ fin' = TRUE /\ fph' = "done" /\ npub' = npub + 1
  /\ signal' = StateOf(cause) /\ advanced' = StateOf(cause)
  /\ last' = "finalize"
  /\ UNCHANGED <<now, cause, term, lcReg, lateLC, first, nev, booted, bstate, ffail, first0>>

\* bootstrapper after the agent process is gone
Boot ==
  /\ ~booted
  /\ booted' = TRUE /\ bstate' = BootState(signal) /\ last' = "boot"
  /\ UNCHANGED <<now, cause, term, lcReg, lateLC, first, nev, fin, signal, advanced, finv>>

Next == \/ Tick \/ LifetimeCheck \/ TerminateCmd \/ Stop \/ FinPublish \/ Boot
        \/ \E uids \in SUBSET ({Me} \cup Others) : CancelCmd(uids)
        \/ \E F \in SUBSET (1 .. NFin) : FinBegin(F)
Spec == Init /\ [][Next]_vars

(* ---- properties ----------------------------------------------------------- *)
TypeOK == /\ cause \in Causes /\ first \in Reasons /\ now \in 0 .. MaxNow
          /\ advanced \in {"none", "DONE", "FAILED", "CANCELED"}
          /\ fph \in {"idle", "steps", "done", "aborted"} /\ ffail \subseteq 1 .. NFin /\ npub \in 0 .. 2

\* C14.RightReason.  A decisive event which arrives while finalize already runs its steps
\* may or may not be taken into account (the code reads the cause when it publishes).
Right == Allowed(first) \cup (IF first0 = "open" THEN {} ELSE Allowed(first0))
InvRightReason == (fin /\ npub > 0) => advanced \in Right
\* C14.OneFinalState: whichever steps of finalize failed, once it is over exactly
\* one final state was published (and none before)
InvOneFinalState == npub = (IF fin THEN 1 ELSE 0)
\* the signal file, the published state and the bootstrapper agree
InvSignal      == fin => signal = advanced
InvBoot        == booted => bstate = (IF fin THEN advanced ELSE "FAILED")
\* a cancel which names only other pilots changes nothing
ActOthersIgnored == [][last' = "cancel_other" => UNCHANGED <<cause, term, first>>]_vars
\* the agent does not end for its lifetime before it is reached
ActNotBeforeTime == [][(first = "none" /\ first' = "timeout") => Expired(Runtime, now)]_vars
=============================================================================
