----------------------------- MODULE NoopTrace -----------------------------
(***************************************************************************)
(* Trace monitor for the NOOP executor: consumes the events recorded by    *)
(* noop_rig.py from the real NOOP.work / _handle_task / _collect code      *)
(* running under the baton controller and maintains the ghost counters of  *)
(* the design model (Noop.tla): ann, handon, unsched, target, plus the     *)
(* monitor's own view of _tasks (intasks) and of the deadlines (dl).       *)
(* Total: a failing clause is added to errs, the monitor re-synchronises   *)
(* on the logged values and carries on.  The clause names are those of     *)
(* ExecutorTrace.tla wherever the demand is the same, so that both         *)
(* executors report the contract of C07 in one vocabulary.                 *)
(*                                                                         *)
(* What is NOT demanded (the code is deliberately different from Popen):   *)
(*  - no exit code: there is no process, the outcome is target_state;      *)
(*  - a cancel request is not enacted (control_cb ignores cancel_tasks):   *)
(*    a named task which runs to its deadline and is handed on as DONE is  *)
(*    accepted - C07 is about finishing accepted tasks exactly once.       *)
(***************************************************************************)
EXTENDS Naturals, Integers, Sequences, FiniteSets, TLC, Json, IOUtils

Batch  == JsonDeserialize(IOEnv.TRACE_FILE)
Traces == Batch.traces

VARIABLES tid, l, ann, handon, unsched, cann, collected, accepted, named, failed,
          dl, hasdl, intasks, target, clk, errs, fin

vars == <<tid, l, ann, handon, unsched, cann, collected, accepted, named, failed,
          dl, hasdl, intasks, target, clk, errs, fin>>

T      == Traces[tid]
Ev     == T.events
Uids   == {T.uids[i] : i \in 1 .. Len(T.uids)}
SeqSet(s) == {s[i] : i \in 1 .. Len(s)}
E(cond, name) == IF cond THEN {} ELSE {name}

Init ==
  /\ tid \in 1 .. Len(Traces) /\ l = 1
  /\ ann = [t \in Uids |-> 0] /\ handon = [t \in Uids |-> 0]
  /\ unsched = [t \in Uids |-> 0] /\ cann = [t \in Uids |-> 0]
  /\ collected = [t \in Uids |-> 0]      \* how often the watcher took the task out of _tasks
  /\ accepted = {} /\ named = {}
  /\ failed = {}                         \* tasks whose _handle_task raised
  /\ dl = [t \in Uids |-> 0] /\ hasdl = {}
  /\ intasks = {}                        \* the monitor's view of _tasks
  /\ target = [t \in Uids |-> "none"]
  /\ clk = 0
  /\ errs = {} /\ fin = FALSE

Step ==
  /\ ~fin /\ l <= Len(Ev)
  /\ LET e == Ev[l] t == e.uid IN
     /\ l' = l + 1 /\ fin' = FALSE
     /\ clk' = e.clock
     /\ CASE e.ev = "Accept" ->
               /\ accepted' = accepted \cup {t}
               /\ errs' = errs \cup E(t \notin accepted, "C07.AcceptedTwice")
                               \cup E(e.clock >= clk, "C07.ClockBackwards")
               /\ UNCHANGED <<ann, handon, unsched, cann, collected, named, failed, dl, hasdl, intasks, target>>
          [] e.ev = "CancelMsg" ->
               /\ named' = named \cup SeqSet(e.uids)
               /\ errs' = errs \cup E(e.clock >= clk, "C07.ClockBackwards")
               /\ UNCHANGED <<ann, handon, unsched, cann, collected, accepted, failed, dl, hasdl, intasks, target>>
          \* _handle_task returned (ok) or raised (~ok); the deadline it left on the task
          [] e.ev = "Handle" ->
               /\ failed' = IF e.ok THEN failed ELSE failed \cup {t}
               /\ hasdl'  = IF e.hasdl THEN hasdl \cup {t} ELSE hasdl \ {t}
               /\ dl'     = [dl EXCEPT ![t] = e.dl]
               /\ errs' = errs \cup E(ann[t] = 1, "C07.LaunchWithoutStart")
                               \cup E(e.ok => e.hasdl, "C07.LaunchedWithoutDeadline")
                               \cup E(e.clock >= clk, "C07.ClockBackwards")
               /\ UNCHANGED <<ann, handon, unsched, cann, collected, accepted, named, intasks, target>>
          [] e.ev = "InsertTasks" ->
               /\ intasks' = intasks \cup SeqSet(e.uids)
               /\ errs' = errs \cup E(SeqSet(e.uids) \cap intasks = {}, "C07.InsertedTwice")
                               \cup E(SeqSet(e.uids) \subseteq accepted, "C07.InsertUnknown")
                               \cup E(e.clock >= clk, "C07.ClockBackwards")
               /\ UNCHANGED <<ann, handon, unsched, cann, collected, accepted, named, failed, dl, hasdl, target>>
          \* the watcher replaced _tasks: removed = to_finish, kept = to_continue
          [] e.ev = "SwapTasks" ->
               /\ intasks' = SeqSet(e.kept)
               /\ collected' = [u \in Uids |-> IF u \in SeqSet(e.removed) THEN collected[u] + 1 ELSE collected[u]]
               /\ errs' = errs
                    \cup UNION {E(collected[u] = 0, "C07.CollectedTwice") : u \in SeqSet(e.removed)}
                    \* every task the executor owned is either kept or taken, none vanishes, none appears
                    \cup E(intasks \subseteq (SeqSet(e.kept) \cup SeqSet(e.removed)), "C07.LostFromTasks")
                    \cup E((SeqSet(e.kept) \cup SeqSet(e.removed)) \subseteq intasks, "C07.StaleTaskEntry")
                    \cup E(e.clock >= clk, "C07.ClockBackwards")
               /\ UNCHANGED <<ann, handon, unsched, cann, accepted, named, failed, dl, hasdl, target>>
          [] e.ev = "PubUnsched" ->
               /\ unsched' = [u \in Uids |-> IF u \in SeqSet(e.uids) THEN unsched[u] + 1 ELSE unsched[u]]
               /\ errs' = errs \cup UNION {E(unsched[u] = 0, "C07.ReleasedTwice") : u \in SeqSet(e.uids)}
                               \cup UNION {E(u \in accepted, "C07.ReleaseUnknown") : u \in SeqSet(e.uids)}
                               \cup E(e.clock >= clk, "C07.ClockBackwards")
               /\ UNCHANGED <<ann, handon, cann, collected, accepted, named, failed, dl, hasdl, intasks, target>>
          [] e.ev = "Adv" ->
               IF e.state = "AGENT_EXECUTING" THEN
                 /\ ann' = [ann EXCEPT ![t] = @ + 1]
                 /\ errs' = errs \cup E(ann[t] = 0, "C07.StartAnnouncedTwice")
                                 \cup E(t \in accepted, "C07.StartWithoutAccept")
                                 \cup E(handon[t] = 0, "C07.StartAfterHandOn")
                 /\ UNCHANGED <<handon, unsched, cann, collected, accepted, named, failed, dl, hasdl, intasks, target>>
               ELSE IF e.state = "AGENT_STAGING_OUTPUT_PENDING" /\ e.push THEN
                 /\ handon' = [handon EXCEPT ![t] = @ + 1]
                 /\ target' = [target EXCEPT ![t] = e.target]
                 /\ errs' = errs \cup E(handon[t] = 0, "C07.HandedOnTwice")
                      \cup E(ann[t] = 1, "C07.HandOnWithoutStart")
                      \cup E(e.target \in {"DONE", "FAILED", "CANCELED"}, "C07.OutcomeMissing")
                      \* DONE is the truth only for a task which was launched ...
                      \cup E(e.target = "DONE" => t \notin failed, "C07.OutcomeWrong")
                      \* ... and whose deadline has passed (the NOOP's notion of 'the process exited')
                      \cup E(t \in hasdl /\ dl[t] <= e.clock, "C07.HandedOnWhileRunning")
                      \cup E(e.target = "CANCELED" => t \in named, "C08.CanceledNotNamed")
                      \cup E(collected[t] >= 1, "C07.HandedOnWithoutCollect")
                 /\ UNCHANGED <<ann, unsched, cann, collected, accepted, named, failed, dl, hasdl, intasks>>
               ELSE IF e.state = "FAILED" THEN
                 /\ handon' = [handon EXCEPT ![t] = @ + 1]
                 /\ target' = [target EXCEPT ![t] = "FAILED"]
                 /\ errs' = errs \cup E(handon[t] = 0, "C07.HandedOnTwice")
                      \cup E(ann[t] = 1, "C07.HandOnWithoutStart")
                      \cup E(t \in failed, "C07.FailedAlthoughLaunched")
                 /\ UNCHANGED <<ann, unsched, cann, collected, accepted, named, failed, dl, hasdl, intasks>>
               ELSE IF e.state = "CANCELED" THEN
                 /\ cann' = [cann EXCEPT ![t] = @ + 1]
                 /\ errs' = errs \cup E(cann[t] = 0, "C07.CancelAnnouncedTwice")
                                 \cup E(t \in named, "C08.CanceledNotNamed")
                 /\ UNCHANGED <<ann, handon, unsched, collected, accepted, named, failed, dl, hasdl, intasks, target>>
               ELSE
                 /\ errs' = errs \cup {"C07.UnexpectedAdvance"}
                 /\ UNCHANGED <<ann, handon, unsched, cann, collected, accepted, named, failed, dl, hasdl, intasks, target>>
          [] e.ev = "End" ->
               /\ errs' = errs
                    \cup E(e.error = "none", "C07.ThreadDiedOrDeadlock")
                    \* (twice is reported where it happens: HandedOnTwice / ReleasedTwice)
                    \cup UNION {E(handon[u] >= 1, "C07.LeftBehind") : u \in accepted}
                    \cup UNION {E(unsched[u] >= 1, "C07.NeverReleased") : u \in accepted}
                    \cup E(SeqSet(e.tasks) = {}, "C07.StaleTaskEntry")
               /\ UNCHANGED <<ann, handon, unsched, cann, collected, accepted, named, failed, dl, hasdl, intasks, target>>
          [] OTHER ->
               /\ errs' = errs \cup E(e.clock >= clk, "C07.ClockBackwards")
               /\ UNCHANGED <<ann, handon, unsched, cann, collected, accepted, named, failed, dl, hasdl, intasks, target>>
  /\ UNCHANGED tid

Finish ==
  /\ ~fin /\ l > Len(Ev) /\ fin' = TRUE
  /\ PrintT(<<"RESULT", T.tid, errs>>)
  /\ UNCHANGED <<tid, l, ann, handon, unsched, cann, collected, accepted, named, failed,
                 dl, hasdl, intasks, target, clk, errs>>

Next == Step \/ Finish
Spec == Init /\ [][Next]_vars
=============================================================================
