-------------------------------- MODULE Noop --------------------------------
(***************************************************************************)
(* Design model of the NOOP executor (agent/executing/noop.py): two        *)
(* threads over the shared list _tasks (tasks) under _tasks_lock (lock)    *)
(* with a discrete clock.                                                  *)
(*   intake  : work(bulk): advance_tasks(AGENT_EXECUTING) for the bulk,    *)
(*             per task _handle_task (deadline := now + duration) or, if   *)
(*             that raises, the error path (publish unschedule, advance    *)
(*             FAILED); then, under the lock, _tasks.extend(...)           *)
(*   watcher : _collect: now := time(); under the lock split _tasks into   *)
(*             to_finish (deadline <= now) and to_continue, _tasks :=      *)
(*             to_continue; nothing to finish -> sleep(delay); else        *)
(*             publish unschedule(to_finish), advance(to_finish) to        *)
(*             AGENT_STAGING_OUTPUT_PENDING with target_state DONE.        *)
(* The process of the Popen executor is replaced by the deadline.  Cancel  *)
(* is not supported by this executor (control_cb ignores cancel_tasks), so *)
(* there is no cancel thread: a task is finished by its deadline only.     *)
(* One action per access to shared state (lock, tasks, clock, publish,     *)
(* advance).  Ghosts: ann, handon, unsched, target, doneAt.                *)
(*                                                                         *)
(* Deviation constants (FALSE == intended design):                         *)
(*   DevFailedKept   : work() adds the whole bulk to _tasks, including the *)
(*                     tasks whose launch failed and which the error path  *)
(*                     already released and advanced to FAILED             *)
(*   DevNoLock       : _collect does not take _tasks_lock                  *)
(*   DevErrNoUnsched : the error path forgets the unschedule publication   *)
(*   DevNoDeadline   : _collect finishes tasks without looking at the      *)
(*                     deadline                                            *)
(***************************************************************************)
EXTENDS Naturals, Integers, Sequences, FiniteSets, TLC

CONSTANTS T,          \* task ids
          Bulks,      \* sequence of sequences of task ids: the bulks work() is called with
          Dur,        \* [T -> Int]  duration; <= 0: the deadline has passed when the task is launched
          Fault,      \* [T -> {"none", "pre", "post"}] launch error before / after the deadline is set
          DevFailedKept, DevNoLock, DevErrNoUnsched, DevNoDeadline

NoDl == -1000          \* 'deadline' key absent from the task dict

VARIABLES clock, tasks, dl, lock,
          ipc, ib, ik,                 \* intake: program counter, bulk index, index in bulk
          wpc, now, fin, cont,         \* watcher: program counter, locals
          ann, handon, unsched, target, doneAt, accepted

vars == <<clock, tasks, dl, lock, ipc, ib, ik, wpc, now, fin, cont,
          ann, handon, unsched, target, doneAt, accepted>>

SeqSet(s) == {s[i] : i \in 1 .. Len(s)}
Bulk      == Bulks[ib]
Failed(t) == Fault[t] # "none"

Init ==
  /\ clock = 0 /\ tasks = {} /\ dl = [t \in T |-> NoDl] /\ lock = "free"
  /\ ipc = "get" /\ ib = 1 /\ ik = 1
  /\ wpc = "now" /\ now = 0 /\ fin = {} /\ cont = {}
  /\ ann = [t \in T |-> 0] /\ handon = [t \in T |-> 0] /\ unsched = [t \in T |-> 0]
  /\ target = [t \in T |-> "none"] /\ doneAt = [t \in T |-> NoDl] /\ accepted = {}

iUnch == UNCHANGED <<wpc, now, fin, cont>>
wUnch == UNCHANGED <<ipc, ib, ik, accepted>>

-----------------------------------------------------------------------------
(* intake *)
I_Get ==                                  \* work_cb hands the next bulk to work()
  /\ ipc = "get"
  /\ IF ib > Len(Bulks)
       THEN ipc' = "done" /\ UNCHANGED accepted
       ELSE ipc' = "ann" /\ accepted' = accepted \cup SeqSet(Bulk)
  /\ UNCHANGED <<clock, tasks, dl, lock, ib, ik, ann, handon, unsched, target, doneAt>> /\ iUnch

I_Ann ==                                  \* advance_tasks(tasks, AGENT_EXECUTING)
  /\ ipc = "ann"
  /\ ann' = [t \in T |-> IF t \in SeqSet(Bulk) THEN ann[t] + 1 ELSE ann[t]]
  /\ ik' = 1 /\ ipc' = "handle"
  /\ UNCHANGED <<clock, tasks, dl, lock, ib, handon, unsched, target, doneAt, accepted>> /\ iUnch

AfterTask == IF ik + 1 > Len(Bulk) THEN "lock" ELSE "handle"

I_Handle ==                               \* _handle_task(task): now = time(); deadline
  /\ ipc = "handle"
  /\ LET t == Bulk[ik] IN
     /\ dl' = IF Fault[t] = "pre" THEN dl
              ELSE [dl EXCEPT ![t] = clock + (IF Dur[t] > 0 THEN Dur[t] ELSE 0)]
     /\ IF Failed(t) THEN ipc' = "errpub" /\ ik' = ik
                     ELSE ipc' = AfterTask /\ ik' = ik + 1
  /\ UNCHANGED <<clock, tasks, lock, ib, ann, handon, unsched, target, doneAt, accepted>> /\ iUnch

I_ErrPub ==                               \* except: publish(AGENT_UNSCHEDULE_PUBSUB, task)
  /\ ipc = "errpub"
  /\ unsched' = IF DevErrNoUnsched THEN unsched ELSE [unsched EXCEPT ![Bulk[ik]] = @ + 1]
  /\ ipc' = "erradv"
  /\ UNCHANGED <<clock, tasks, dl, lock, ib, ik, ann, handon, target, doneAt, accepted>> /\ iUnch

I_ErrAdv ==                               \* except: advance_tasks(task, FAILED)
  /\ ipc = "erradv"
  /\ handon' = [handon EXCEPT ![Bulk[ik]] = @ + 1]
  /\ target' = [target EXCEPT ![Bulk[ik]] = "FAILED"]
  /\ ipc' = AfterTask /\ ik' = ik + 1
  /\ UNCHANGED <<clock, tasks, dl, lock, ib, ann, unsched, doneAt, accepted>> /\ iUnch

I_Lock ==                                 \* with self._tasks_lock
  /\ ipc = "lock" /\ lock = "free"
  /\ lock' = "intake" /\ ipc' = "extend"
  /\ UNCHANGED <<clock, tasks, dl, ib, ik, ann, handon, unsched, target, doneAt, accepted>> /\ iUnch

I_Extend ==                               \* self._tasks.extend(...)
  /\ ipc = "extend"
  /\ tasks' = tasks \cup {t \in SeqSet(Bulk) : DevFailedKept \/ ~Failed(t)}
  /\ ipc' = "unlock"
  /\ UNCHANGED <<clock, dl, lock, ib, ik, ann, handon, unsched, target, doneAt, accepted>> /\ iUnch

I_Unlock ==
  /\ ipc = "unlock"
  /\ lock' = "free" /\ ib' = ib + 1 /\ ipc' = "get"
  /\ UNCHANGED <<clock, tasks, dl, ik, ann, handon, unsched, target, doneAt, accepted>> /\ iUnch

-----------------------------------------------------------------------------
(* watcher *)
W_Now ==                                  \* now = time.time()
  /\ wpc = "now"
  /\ now' = clock /\ wpc' = "lock"
  /\ UNCHANGED <<clock, tasks, dl, lock, fin, cont, ann, handon, unsched, target, doneAt>> /\ wUnch

W_Lock ==                                 \* with self._tasks_lock
  /\ wpc = "lock"
  /\ IF DevNoLock THEN UNCHANGED lock ELSE lock = "free" /\ lock' = "watcher"
  /\ wpc' = "scan"
  /\ UNCHANGED <<clock, tasks, dl, now, fin, cont, ann, handon, unsched, target, doneAt>> /\ wUnch

W_Scan ==                                 \* for task in self._tasks: task['deadline'] <= now
  /\ wpc = "scan"
  /\ IF ~DevNoDeadline /\ \E t \in tasks : dl[t] = NoDl
       THEN \* KeyError: the with statement releases the lock, the thread is gone
            /\ wpc' = "dead" /\ lock' = IF lock = "watcher" THEN "free" ELSE lock
            /\ UNCHANGED <<fin, cont>>
       ELSE /\ fin'  = {t \in tasks : DevNoDeadline \/ dl[t] <= now}
            /\ cont' = {t \in tasks : ~DevNoDeadline /\ dl[t] > now}
            /\ wpc' = "swap" /\ UNCHANGED lock
  /\ UNCHANGED <<clock, tasks, dl, now, ann, handon, unsched, target, doneAt>> /\ wUnch

W_Swap ==                                 \* self._tasks = to_continue
  /\ wpc = "swap"
  /\ tasks' = cont /\ wpc' = "unlock"
  /\ UNCHANGED <<clock, dl, lock, now, fin, cont, ann, handon, unsched, target, doneAt>> /\ wUnch

W_Unlock ==
  /\ wpc = "unlock"
  /\ lock' = IF lock = "watcher" THEN "free" ELSE lock
  /\ wpc' = IF fin = {} THEN "sleep" ELSE "pub"
  /\ UNCHANGED <<clock, tasks, dl, now, fin, cont, ann, handon, unsched, target, doneAt>> /\ wUnch

W_Sleep ==                                \* time.sleep(self._delay); idle rounds are not modelled
  /\ wpc = "sleep"
  /\ tasks # {} \/ ipc = "done"
  /\ IF tasks = {} THEN wpc' = "done" /\ UNCHANGED clock      \* _terminate
                   ELSE wpc' = "now"  /\ clock' = clock + 1
  /\ UNCHANGED <<tasks, dl, lock, now, fin, cont, ann, handon, unsched, target, doneAt>> /\ wUnch

W_Pub ==                                  \* publish(AGENT_UNSCHEDULE_PUBSUB, to_finish)
  /\ wpc = "pub"
  /\ unsched' = [t \in T |-> IF t \in fin THEN unsched[t] + 1 ELSE unsched[t]]
  /\ wpc' = "adv"
  /\ UNCHANGED <<clock, tasks, dl, lock, now, fin, cont, ann, handon, target, doneAt>> /\ wUnch

W_Adv ==                                  \* advance_tasks(to_finish, AGENT_STAGING_OUTPUT_PENDING, push)
  /\ wpc = "adv"
  /\ handon' = [t \in T |-> IF t \in fin THEN handon[t] + 1 ELSE handon[t]]
  /\ target' = [t \in T |-> IF t \in fin THEN "DONE" ELSE target[t]]
  /\ doneAt' = [t \in T |-> IF t \in fin THEN clock ELSE doneAt[t]]
  /\ wpc' = "now"
  /\ UNCHANGED <<clock, tasks, dl, lock, now, fin, cont, ann, unsched>> /\ wUnch

Intake  == I_Get \/ I_Ann \/ I_Handle \/ I_ErrPub \/ I_ErrAdv \/ I_Lock \/ I_Extend \/ I_Unlock
Watcher == W_Now \/ W_Lock \/ W_Scan \/ W_Swap \/ W_Unlock \/ W_Sleep \/ W_Pub \/ W_Adv

Next == Intake \/ Watcher
Spec == Init /\ [][Next]_vars /\ WF_vars(Intake) /\ WF_vars(Watcher)

-----------------------------------------------------------------------------
Quiescent == ipc = "done" /\ wpc \in {"done", "dead"}

StartOnce   == \A t \in T : ann[t] <= 1 /\ (handon[t] > 0 => ann[t] = 1)
HandOnOnce  == \A t \in T : handon[t] <= 1
ReleaseOnce == \A t \in T : unsched[t] <= 1 /\ (unsched[t] > 0 => t \in accepted)
NeverLeftBehind ==
  /\ wpc # "dead"
  /\ Quiescent => /\ tasks = {}
                  /\ \A t \in accepted : handon[t] = 1 /\ unsched[t] = 1
OutcomeTrue == \A t \in T :
  /\ target[t] = "FAILED" => Failed(t)
  /\ target[t] = "DONE"   => ~Failed(t) /\ dl[t] # NoDl /\ doneAt[t] >= dl[t]
LockFree == Quiescent => lock = "free"
TypeOK ==
  /\ tasks \subseteq T /\ lock \in {"free", "intake", "watcher"}
  /\ fin \subseteq T /\ cont \subseteq T

Termination == <>Quiescent
=============================================================================
