------------------------------- MODULE RMNodes -------------------------------
(***************************************************************************)
(* Design model of the pilot's resource manager start-up                   *)
(*   agent/resource_manager/base.py : ResourceManager._init_from_scratch,  *)
(*       _parse_nodefile, _get_node_list, _filter_nodes, __init__ (registry*)
(*       hand-over)                                                        *)
(*   agent/resource_manager/{fork,slurm,pbspro,lsf,cobalt,torque,ccm}.py   *)
(* as a pipeline in the shape of the code: the allocation as the batch     *)
(* system wrote it (chosen by TLC in Init) is parsed into a node list,     *)
(* blocked cores / GPUs are marked, the list is cut to the requested size, *)
(* agent and service nodes are set aside, the result is put into the       *)
(* registry and another component re-creates its RMInfo from that copy.    *)
(*                                                                         *)
(* The properties (C18) are stated over the variables with the predicates  *)
(* of RMNodesOps, which derive the allocated nodes from the input alone    *)
(* (ghost: AllocHosts, Req).                                               *)
(*                                                                         *)
(* Known / conceivable deviations of the code are boolean constants: all   *)
(* FALSE is the intended design and must satisfy every invariant; one TRUE *)
(* must break the matching invariant.                                      *)
(***************************************************************************)
EXTENDS RMNodesOps, TLC

CONSTANTS RMKinds,        \* resource manager kinds explored
          MaxHosts,       \* allocated hosts: 1 .. MaxHosts
          Orders,         \* host orders: subset of {"asc", "desc", "rot"}
          CoreChoices,    \* physical cores per node
          LsfCoreChoices, \* ... of LSF platforms
          SmtChoices,     \* hardware threads per core
          LsfSmtChoices,  \* ... on LSF platforms (summit / lassen: 1, 4)
          PSlotChoices,   \* lines a pseudo node has in an LSF host file
          GpuCfgs,        \* set of <<gpus per node, blocked gpu indices>>
          BlockedCs,      \* set of blocked core index sets
          Backups,        \* backup node counts
          AgentCounts,    \* numbers of sub-agents on own nodes
          Sweep,          \* "full" | "parse" | "filter" | "probe" | "quick": which part of the space (the
                          \* odd LSF host files and the GPUs from the environment are in "parse",
                          \* the per-node probe outcomes with 0..3 backup nodes in "probe")
          ProbeBackups,   \* backup node counts of the probe sweep
          PrintCases,     \* print every input as <<"CASE", ...>> for the rig
          DevKeepDuplicates,   \* repeated host lines yield repeated entries
          DevKeepPseudo,       \* login / batch / launch node kept as a node
          DevSmtTwice,         \* D-PBSSMT: PBSPro node file: SMT applied to a figure that has it
          DevNoCut,            \* list not reduced to the requested size
          DevAgentsStay,       \* agent nodes copied, not removed
          DevBackupAfterCut,   \* D20: backup list taken from the list after the cut
          DevCopyDropsService, \* registry copy loses the service node list
          DevRegistryKeyCase,  \* entry stored as rm.<Name>, looked up as rm.<name>
          DevLsfTrustConfig,   \* LSF: host file not checked when cores_per_node is configured
          DevGpusAfterList,    \* Slurm: node entries built before the GPUs are detected
          DevTimeoutIsOk,      \* a probe that never answers counts as reachable
          DevSplitByBackup,    \* list split by the number of backup nodes, not by the request
          DevCcmByName         \* CCM: the node file whose name sorts last, not the newest one

VARIABLES in,      \* the input (never changes)
          phase,   \* start parsed blocked cut reserved published recreated | failed
          full,    \* node list as parsed / indexed
          P,       \* [nodes, agents, service, backup]
          reg,     \* registry: "none" until published, then [key, val]
          copy,    \* RMInfo of another component of the pilot
          fromreg, \* that component found agent_0's entry (did not inspect the allocation again)
          info     \* [cpn, gpn]: cores_per_node / gpus_per_node of RMInfo

vars == <<in, phase, full, P, reg, copy, fromreg, info>>

EmptyP == [nodes |-> <<>>, agents |-> <<>>, service |-> <<>>, backup |-> <<>>]

(* ---- input space --------------------------------------------------------- *)
HostSeq(k, gap, ord) ==
  LET base == [i \in 1 .. k |-> IF gap /\ i >= 3 THEN i + 1 ELSE i]
  IN CASE ord = "asc"  -> base
       [] ord = "desc" -> Reverse(base)
       [] OTHER        -> [i \in 1 .. k |-> base[(i % k) + 1]]
HostSeqs == {HostSeq(k, g, o) : k \in 1 .. MaxHosts, g \in BOOLEAN, o \in Orders}

ShapesOf(r) == CASE r = "FORK"                     -> {"virtual"}
                 [] r \in {"SLURM", "COBALT_PART"} -> {"expr"}
                 [] r = "PBSPRO_VNODE"             -> {"vnode"}
                 [] r = "COBALT_FILE"              -> {"node", "slot_adj"}
                 [] r = "PBSPRO_FILE"              -> {"node", "slot_adj", "slot_mix"}
                 [] OTHER                          -> {"slot_adj", "slot_mix"}
PseudoOf(r) == IF r = "LSF" THEN {"none", "login", "batch", "launch", "both"} ELSE {"none"}
StylesOf(r) == IF r = "SLURM" THEN {"list", "range"} ELSE {"plain"}
\* FORK would probe the machine, COBALT and the PBSPro node file refuse an unknown node size
SmtOf(r)    == IF r = "LSF" THEN LsfSmtChoices ELSE SmtChoices
CoresOf(r)  == IF r = "LSF" THEN LsfCoreChoices ELSE CoreChoices
PSlotsOf(r, ps) == IF r = "LSF" /\ ps # "none" THEN PSlotChoices ELSE {1}
UnevenOf(r) == IF r = "LSF" THEN BOOLEAN ELSE {FALSE}
GpuSrcOf(r) == IF r = "SLURM" THEN {"config", "GPUS_ON_NODE", "JOB_GPUS", "STEP_GPUS", "DEVICE_ORDINAL"}
               ELSE {"config"}
OldFilesOf(r) == IF r = "CCM" THEN {"none", "name_eq_age", "name_ne_age"} ELSE {"none"}
KnownOf(r)  == IF r \in {"FORK", "COBALT_FILE", "COBALT_PART", "PBSPRO_FILE"} THEN {TRUE} ELSE BOOLEAN

\* number of nodes the RM lists (FORK invents them)
NProbe(r, hs, rq, b) == IF r = "FORK" THEN rq + b ELSE Len(hs)

MinOf(S) == CHOOSE x \in S : \A y \in S : x <= y

InSweep(sw, i) ==
  LET k == IF i.rm = "FORK" THEN 2 ELSE Len(i.hosts) IN
  CASE sw = "parse" ->     \* every way to write an allocation, two layouts
         \* LSF: the odd host files (pseudo nodes with several slots, partially listed
         \* host) are crossed with hosts / shape / SMT / configured-or-not, not with the
         \* GPU and blocked core settings
         /\ (i.rm = "LSF" /\ i.cores > MinOf(LsfCoreChoices)) => (i.uneven \/ i.pslots > 1)
         \* CCM: node files of older jobs are crossed with hosts / shape / SMT / layout only
         /\ i.oldfiles # "none" => (i.gpn = 0 /\ i.bc = {} /\ i.slack = 0)
         /\ (i.uneven \/ i.pslots > 1) =>
               /\ i.gpn = 0 /\ i.bc = {} /\ i.slack = 0 /\ i.pseudo # "both"
               /\ i.uneven => (i.pslots = 1 /\ i.pseudo \in {"none", "launch"})
         /\ \/ i.backup = 0 /\ i.agents = 0 /\ ~i.service /\ i.requested = k
            \/ i.backup = 1 /\ i.agents = 1 /\ ~i.service /\ i.requested = k - 1 /\ k - 1 >= 1
    [] sw = "lsf" ->       \* C17 share: correctly sized LSF jobs, every pseudo node kind, SMT 1 / 4
         /\ i.rm = "LSF" /\ i.pslots = 1 /\ ~i.uneven /\ i.cores = MinOf(LsfCoreChoices)
         /\ i.gpn = 0 /\ i.bc = {} /\ i.slack = 0
         /\ \/ i.backup = 0 /\ i.agents = 0 /\ ~i.service /\ i.requested = k
            \/ i.backup = 1 /\ i.agents = 1 /\ ~i.service /\ i.requested = k - 1 /\ k - 1 >= 1
    [] sw = "filter" ->    \* every layout, one way to write the allocation per RM
         /\ i.cores = MinOf(CoresOf(i.rm)) /\ i.pslots = 1 /\ ~i.uneven /\ i.gpusrc = "config"
         /\ i.hosts = HostSeq(Len(i.hosts), FALSE, "asc")
         /\ i.shape \in {"virtual", "expr", "vnode", "slot_adj"}
         /\ i.pseudo \in {"none"} /\ i.style \in {"range", "plain"} /\ i.oldfiles = "none"
         /\ i.gpn = 0 /\ i.bc = {} /\ i.slack = 0 /\ i.backup = 0
    [] sw = "probe" ->     \* every probe outcome per node x request x backup, three RMs
         /\ i.rm \in {"SLURM", "TORQUE", "FORK"}
         /\ i.cores = MinOf(CoresOf(i.rm)) /\ i.smt = MinOf(SmtOf(i.rm)) /\ i.pslots = 1 /\ ~i.uneven
         /\ i.gpusrc = "config" /\ i.gpn = 0 /\ i.bc = {} /\ i.slack = 0 /\ i.known
         /\ i.hosts = HostSeq(Len(i.hosts), FALSE, "asc")
         /\ i.shape \in {"virtual", "expr", "slot_adj"} /\ i.style \in {"range", "plain"}
         /\ ~i.service /\ i.agents <= 1
         /\ i.requested <= NProbe(i.rm, i.hosts, i.requested, i.backup)
         /\ NProbe(i.rm, i.hosts, i.requested, i.backup) <= MaxHosts
    [] OTHER ->               \* "full": every layout x every classic way to write the allocation
         /\ ~i.uneven /\ i.pslots = 1 /\ i.gpusrc = "config" /\ i.oldfiles = "none"
         /\ i.cores = MinOf(CoresOf(i.rm)) \/ i.rm # "LSF"

\* outcomes of the probes of the nodes the RM lists
ProbePlans(sw, n, b) == IF sw = "probe" /\ b > 0 /\ n <= MaxHosts THEN [1 .. n -> {"ok", "refused", "hangs"}]
                    ELSE {[k \in 1 .. n |-> "ok"]}
\* the probe sweep fixes the other dimensions: do not enumerate them first
Lim(sw, S, keep) == IF sw = "probe" THEN S \cap keep ELSE S

Inputs(sw, r, hs, c, t, g, bc, b, a, sv) ==
  UNION { UNION {
  {[rm |-> r, hosts |-> hs, shape |-> sh, pseudo |-> ps, pslots |-> pn, uneven |-> un, style |-> st,
    cores |-> c, smt |-> t, known |-> kn, gpn |-> g[1], gpusrc |-> gs, bc |-> bc, bg |-> g[2],
    requested |-> rq, slack |-> sl, backup |-> b, agents |-> a, service |-> sv,
    refused |-> {k \in DOMAIN pr : pr[k] = "refused"}, hangs |-> {k \in DOMAIN pr : pr[k] = "hangs"},
    oldfiles |-> of] :
      sh \in Lim(sw, ShapesOf(r), {"virtual", "expr", "slot_adj"}), pn \in Lim(sw, PSlotsOf(r, ps), {1}),
      un \in Lim(sw, UnevenOf(r), {FALSE}), st \in Lim(sw, StylesOf(r), {"range", "plain"}),
      kn \in Lim(sw, KnownOf(r), {TRUE}), gs \in Lim(sw, GpuSrcOf(r), {"config"}), sl \in Lim(sw, {0, 1}, {0}),
      pr \in ProbePlans(sw, NProbe(r, hs, rq, b), b), of \in Lim(sw, OldFilesOf(r), {"none"})}
  : rq \in 1 .. (IF r = "FORK" THEN 3 ELSE Len(hs) + 1)}
  : ps \in PseudoOf(r)}

WellFormed(i) ==
  /\ Cardinality(i.bc) < NCores(i) /\ \A x \in i.bc : x < NCores(i)
  /\ i.rm = "FORK" => i.hosts = <<1>>
  /\ i.known => i.slack = 0                      \* slack only where the RM derives the node count
  /\ ~i.known => i.backup = 0                    \* backup nodes need 'nodes' in the description
  /\ i.slack < UsableC(i)
  /\ i.smt \in SmtOf(i.rm) /\ i.cores \in CoresOf(i.rm)
  \* an unnamed pseudo node with the slot count of a compute node IS a compute node
  /\ (i.pseudo = "launch" /\ i.pslots > 1) => i.pslots # SlotsPerHost(i)
  \* the partially listed host keeps at least two lines (one line: read as a launch node)
  /\ i.uneven => Len(i.hosts) >= 2 /\ SlotsPerHost(i) >= 3
  \* GPUs announced through the environment: there are some, none is blocked by the config
  /\ i.gpusrc # "config" => i.gpn > 0 /\ i.bg = {}

\* the part of InSweep that can be decided before the input records are built
PreSweep(sw, r, hs, c, g, bc, b, a, sv) ==
  CASE sw = "parse"  -> ~sv /\ ((b = 0 /\ a = 0) \/ (b = 1 /\ a = 1))
    [] sw = "lsf"    -> /\ r = "LSF" /\ ~sv /\ ((b = 0 /\ a = 0) \/ (b = 1 /\ a = 1))
                        /\ g = <<0, {}>> /\ bc = {} /\ c = MinOf(LsfCoreChoices)
    [] sw = "filter" -> g[1] = 0 /\ bc = {} /\ b = 0 /\ c = MinOf(CoresOf(r)) /\ hs = HostSeq(Len(hs), FALSE, "asc")
    [] sw = "probe"  -> /\ r \in {"SLURM", "TORQUE", "FORK"} /\ g = <<0, {}>> /\ bc = {} /\ ~sv /\ a <= 1
                           /\ c = MinOf(CoresOf(r)) /\ hs = HostSeq(Len(hs), FALSE, "asc")
    [] OTHER            -> c = MinOf(CoresOf(r)) \/ r # "LSF"

\* "quick" = the three partial sweeps in one run
\* "c17" = what the C17 share of the check looks at
SweepsOf == IF Sweep = "quick" THEN {"parse", "filter", "probe"}
            ELSE IF Sweep = "c17" THEN {"probe", "lsf"} ELSE {Sweep}

Init ==
  /\ \E sw \in SweepsOf, r \in RMKinds :
       \E hs \in HostSeqs, c \in CoresOf(r), t \in SmtOf(r), g \in GpuCfgs,
          bc \in BlockedCs, b \in (IF sw = "probe" THEN ProbeBackups ELSE Backups),
          a \in AgentCounts, sv \in BOOLEAN :
         /\ PreSweep(sw, r, hs, c, g, bc, b, a, sv)
         /\ r = "FORK" => hs = <<1>>
         /\ \E i \in Inputs(sw, r, hs, c, t, g, bc, b, a, sv) :
              /\ WellFormed(i) /\ InSweep(sw, i)
              /\ in = i
  /\ phase = "start" /\ full = <<>> /\ P = EmptyP /\ reg = "none" /\ copy = "none" /\ fromreg = FALSE
  /\ info = [cpn |-> 0, gpn |-> 0]

(* ---- the pipeline ---------------------------------------------------------- *)
\* LSF.init_from_scratch: slots per host (x SMT), pseudo nodes dropped by name or
\* because they have one slot; what is left must be uniform and agree with the
\* configured node size
LsfParse ==
  LET ls     == Lines(in)
      cnt(h) == Count(h, ls) * in.smt
      kept   == SelectSeq(Distinct(ls),
                          LAMBDA h : DevKeepPseudo \/ (h \notin {PLogin, PBatch} /\ cnt(h) # in.smt))
      unif   == Len(kept) > 0 /\ \A i \in 1 .. Len(kept) : cnt(kept[i]) = cnt(kept[1])
      agree  == in.known => cnt(kept[1]) = CfgCpn(in)
  IN [ok    |-> DevKeepPseudo \/ (DevLsfTrustConfig /\ in.known) \/ (unif /\ agree),
      hosts |-> kept,
      nc    |-> [i \in 1 .. Len(kept) |-> cnt(kept[i])],
      cpn   |-> IF in.known \/ Len(kept) = 0 THEN CfgCpn(in) ELSE cnt(kept[1])]

\* init_from_scratch of the subclass + _get_node_list
Parse ==
  /\ phase = "start"
  /\ LET lsf    == in.rm = "LSF"
         \* CCM: the newest nodelist* file of ~/.crayccm is the current job's
         mine   == IF DevCcmByName /\ in.oldfiles = "name_ne_age" THEN OldLines(in) ELSE Lines(in)
         usable == SelectSeq(mine, LAMBDA h : DevKeepPseudo \/ ~IsPseudo(h))
         perrm  == IF in.rm = "FORK" THEN AllocHosts(in)
                   ELSE IF lsf THEN LsfParse.hosts
                   ELSE IF DevKeepDuplicates /\ in.shape \in {"slot_adj", "slot_mix"} THEN usable
                   ELSE IF in.rm = "PBSPRO_VNODE" THEN SortAsc(Distinct(usable))
                   ELSE Distinct(usable)
         nc(i)  == IF lsf THEN LsfParse.nc[i]
                   ELSE IF DevSmtTwice /\ in.rm = "PBSPRO_FILE" THEN NCores(in) * in.smt ELSE NCores(in)
         \* GPUs of a node: from the config, or (Slurm) from the environment
         ng     == IF DevGpusAfterList /\ in.gpusrc # "config" THEN 0 ELSE in.gpn
     IN IF lsf /\ ~LsfParse.ok
          THEN phase' = "failed" /\ UNCHANGED <<full, info>>
          ELSE /\ full' = [i \in 1 .. Len(perrm) |-> Entry(perrm[i], i, nc(i), ng)]
               /\ info' = [cpn |-> IF lsf THEN LsfParse.cpn ELSE NCores(in), gpn |-> in.gpn]
               /\ phase' = "parsed"
  /\ (PrintCases =>
        PrintT(<<"CASE", in.rm, in.hosts, in.shape, in.pseudo, in.pslots, in.uneven, in.style, in.cores,
                 in.smt, in.known, in.gpn, in.gpusrc, in.bc, in.bg, in.requested, in.slack, in.backup,
                 in.agents, in.service, in.refused, in.hangs, in.oldfiles>>))
  /\ UNCHANGED <<in, P, reg, copy, fromreg>>

\* blocked cores / GPUs are marked DOWN in every entry
Blocked ==
  /\ phase = "parsed"
  /\ full' = [i \in 1 .. Len(full) |-> Block(full[i], in.bc, in.bg)]
  /\ info' = [cpn |-> info.cpn - Cardinality(in.bc), gpn |-> info.gpn - Cardinality(in.bg)]
  /\ phase' = "blocked"
  /\ UNCHANGED <<in, P, reg, copy, fromreg>>

\* assert requested <= available; with backup nodes: probe every node, keep the
\* ones that answer; reduce to the requested size (_filter_nodes)
Cut ==
  /\ phase = "blocked"
  /\ LET down == IF in.backup > 0
                 THEN in.refused \cup (IF DevTimeoutIsOk THEN {} ELSE in.hangs) ELSE {}
         ok   == KeepUp(full, 1, down)
     IN IF Req(in) > Len(full) \/ Len(ok) = 0
          THEN phase' = "failed" /\ UNCHANGED P
          ELSE LET over == Len(ok) > Req(in)
                   n    == IF DevNoCut \/ ~over THEN Len(ok)
                           ELSE IF DevSplitByBackup
                                THEN (IF in.backup = 0 THEN 0 ELSE Len(ok) - in.backup)   \* list[:-0] is empty
                                ELSE Req(in)
                   cut  == SubSeq(ok, 1, n)
               IN /\ P' = [EmptyP EXCEPT !.nodes  = cut,
                                         !.backup = IF DevBackupAfterCut THEN SubSeq(cut, Req(in) + 1, Len(cut))
                                                    ELSE SubSeq(ok, Req(in) + 1, Len(ok))]
                  /\ phase' = "cut"
  /\ UNCHANGED <<in, full, reg, copy, fromreg, info>>

\* agent nodes, then the service node, are popped from the end of the list
Reserve ==
  /\ phase = "cut"
  /\ LET n   == Len(P.nodes)
         nag == in.agents
         nsv == NSvc(in)
     IN IF n - nag - nsv < 1
          THEN phase' = "failed" /\ UNCHANGED P
          ELSE /\ P' = [P EXCEPT !.nodes   = IF DevAgentsStay THEN SubSeq(P.nodes, 1, n - nsv)
                                             ELSE SubSeq(P.nodes, 1, n - nag - nsv),
                                 !.agents  = [i \in 1 .. nag |-> P.nodes[n - i + 1]],
                                 !.service = [i \in 1 .. nsv |-> P.nodes[n - nag - i + 1]]]
               /\ phase' = "reserved"
  /\ UNCHANGED <<in, full, reg, copy, fromreg, info>>

\* reg.put('rm.<name>', rm_info.as_dict())
Publish ==
  /\ phase = "reserved"
  /\ reg' = [key |-> IF DevRegistryKeyCase THEN "rm.Name" ELSE "rm.name", val |-> P]
  /\ phase' = "published"
  /\ UNCHANGED <<in, full, P, copy, fromreg, info>>

\* another component (ResourceManager.__init__): RMInfo(reg.get('rm.<name>')) if
\* the entry is there; otherwise it inspects the allocation itself - at a later
\* time, in an environment / with a node reachability that may have changed (at
\* best it arrives at the same partition)
Recreate ==
  /\ phase = "published"
  /\ LET found == reg.key = "rm.name" IN
     /\ fromreg' = found
     /\ copy' = IF ~found THEN P
                ELSE IF DevCopyDropsService THEN [reg.val EXCEPT !.service = <<>>] ELSE reg.val
  /\ phase' = "recreated"
  /\ UNCHANGED <<in, full, P, reg, info>>

Next == Parse \/ Blocked \/ Cut \/ Reserve \/ Publish \/ Recreate
Spec == Init /\ [][Next]_vars

(* ---- properties -------------------------------------------------------------- *)
Offered == phase \in {"reserved", "published", "recreated"}

TypeOK == /\ phase \in {"start", "parsed", "blocked", "cut", "reserved", "published", "recreated", "failed"}
          /\ in.rm \in RMKinds

InvParsedOnePerNode == phase \in {"parsed", "blocked"} => FullOnePerNode(full, in)
InvOnePerNode    == Offered => OnePerNode(P, in)
InvSized         == Offered => Sized(P, in)
InvDisjoint      == Offered => Disjoint(P, in)
InvReserved      == Offered => Reserved(P, in)
InvNonEmpty      == Offered => NonEmpty(P)
InvNotLonger     == Offered => NotLonger(P, in)
InvReachable     == Offered => Reachable(P, in)
InvNotShorter    == Offered => NotShorter(P, in)
InvSameEverywhere == phase = "recreated" => fromreg /\ copy = P
\* initialisation refuses exactly the allocations that cannot serve the request
\* and the host files that cannot be read consistently
InvRefusal       == /\ phase = "failed" => Refuses(in)
                    /\ Offered => ~Refuses(in)
\* what is offered / published is consistent in itself
InvInfoAgrees    == Offered => InfoAgrees(P, info.cpn, info.gpn)
\* the model's pipeline computes the partition of RMNodesOps (used by the monitor)
InvExpected      == Offered => /\ P.nodes = Expected(in).nodes /\ P.agents = Expected(in).agents
                               /\ P.service = Expected(in).service
\* not part of C18: the backup list names the allocated nodes beyond the request (D20)
InvBackupKept    == Offered => P.backup = Expected(in).backup
=============================================================================
