------------------------------- MODULE RMNodes -------------------------------
(***************************************************************************)
(* Design model of the pilot's resource manager start-up                   *)
(*   agent/resource_manager/base.py : ResourceManager._init_from_scratch,  *)
(*       _parse_nodefile, _get_node_list, _filter_nodes, __init__ (registry*)
(*       hand-over)                                                        *)
(*   agent/resource_manager/{fork,slurm,pbspro,lsf,cobalt,torque,ccm}.py   *)
(* as a pipeline in the shape of the code: the allocation as the batch     *)
(* system wrote it (chosen by TLC in Init) is parsed into a node list,     *)
(* blocked cores / GPUs are marked, the list is cut to the requested size, *)
(* agent and service nodes are set aside, the result is put into the       *)
(* registry and another component re-creates its RMInfo from that copy.    *)
(*                                                                         *)
(* The properties (C18) are stated over the variables with the predicates  *)
(* of RMNodesOps, which derive the allocated nodes from the input alone    *)
(* (ghost: AllocHosts, Req).                                               *)
(*                                                                         *)
(* Known / conceivable deviations of the code are boolean constants: all   *)
(* FALSE is the intended design and must satisfy every invariant; one TRUE *)
(* must break the matching invariant.                                      *)
(***************************************************************************)
EXTENDS RMNodesOps, TLC

CONSTANTS RMKinds,        \* resource manager kinds explored
          MaxHosts,       \* allocated hosts: 1 .. MaxHosts
          Orders,         \* host orders: subset of {"asc", "desc", "rot"}
          CoreChoices,    \* physical cores per node
          SmtChoices,     \* hardware threads per core
          GpuCfgs,        \* set of <<gpus per node, blocked gpu indices>>
          BlockedCs,      \* set of blocked core index sets
          Backups,        \* backup node counts
          AgentCounts,    \* numbers of sub-agents on own nodes
          Sweep,          \* "full" | "parse" | "filter": which part of the space
          PrintCases,     \* print every input as <<"CASE", ...>> for the rig
          DevKeepDuplicates,   \* repeated host lines yield repeated entries
          DevKeepPseudo,       \* login / batch / launch node kept as a node
          DevSmtTwice,         \* D-PBSSMT: PBSPro node file: SMT applied to a figure that has it
          DevNoCut,            \* list not reduced to the requested size
          DevAgentsStay,       \* agent nodes copied, not removed
          DevBackupAfterCut,   \* D20: backup list taken from the list after the cut
          DevCopyDropsService, \* registry copy loses the service node list
          DevRegistryKeyCase   \* entry stored as rm.<Name>, looked up as rm.<name>

VARIABLES in,      \* the input (never changes)
          phase,   \* start parsed blocked cut reserved published recreated | failed
          full,    \* node list as parsed / indexed
          P,       \* [nodes, agents, service, backup]
          reg,     \* registry: "none" until published, then [key, val]
          copy,    \* RMInfo of another component of the pilot
          fromreg  \* that component found agent_0's entry (did not inspect the allocation again)

vars == <<in, phase, full, P, reg, copy, fromreg>>

EmptyP == [nodes |-> <<>>, agents |-> <<>>, service |-> <<>>, backup |-> <<>>]

(* ---- input space --------------------------------------------------------- *)
HostSeq(k, gap, ord) ==
  LET base == [i \in 1 .. k |-> IF gap /\ i >= 3 THEN i + 1 ELSE i]
  IN CASE ord = "asc"  -> base
       [] ord = "desc" -> Reverse(base)
       [] OTHER        -> [i \in 1 .. k |-> base[(i % k) + 1]]
HostSeqs == {HostSeq(k, g, o) : k \in 1 .. MaxHosts, g \in BOOLEAN, o \in Orders}

ShapesOf(r) == CASE r = "FORK"                     -> {"virtual"}
                 [] r \in {"SLURM", "COBALT_PART"} -> {"expr"}
                 [] r = "PBSPRO_VNODE"             -> {"vnode"}
                 [] r = "COBALT_FILE"              -> {"node", "slot_adj"}
                 [] r = "PBSPRO_FILE"              -> {"node", "slot_adj", "slot_mix"}
                 [] OTHER                          -> {"slot_adj", "slot_mix"}
PseudoOf(r) == IF r = "LSF" THEN {"none", "login", "batch", "launch", "both"} ELSE {"none"}
StylesOf(r) == IF r = "SLURM" THEN {"list", "range"} ELSE {"plain"}
\* FORK would probe the machine, COBALT and the PBSPro node file refuse an unknown node size
KnownOf(r)  == IF r \in {"FORK", "COBALT_FILE", "COBALT_PART", "PBSPRO_FILE"} THEN {TRUE} ELSE BOOLEAN

MinOf(S) == CHOOSE x \in S : \A y \in S : x <= y

InSweep(i) ==
  LET k == IF i.rm = "FORK" THEN 2 ELSE Len(i.hosts) IN
  CASE Sweep = "parse" ->     \* every way to write an allocation, two layouts
         \/ i.backup = 0 /\ i.agents = 0 /\ ~i.service /\ i.requested = k
         \/ i.backup = 1 /\ i.agents = 1 /\ ~i.service /\ i.requested = k - 1 /\ k - 1 >= 1
    [] Sweep = "filter" ->    \* every layout, one way to write the allocation per RM
         /\ i.cores = MinOf(CoreChoices)
         /\ i.hosts = HostSeq(Len(i.hosts), FALSE, "asc")
         /\ i.shape \in {"virtual", "expr", "vnode", "slot_adj"}
         /\ i.pseudo \in {"none"} /\ i.style \in {"range", "plain"}
         /\ i.gpn = 0 /\ i.slack = 0
    [] OTHER -> TRUE

Inputs(r, hs, c, t, g, bc, b, a, sv) ==
  {[rm |-> r, hosts |-> hs, shape |-> sh, pseudo |-> ps, style |-> st, cores |-> c, smt |-> t,
    known |-> kn, gpn |-> g[1], bc |-> bc, bg |-> g[2], requested |-> rq, slack |-> sl,
    backup |-> b, agents |-> a, service |-> sv] :
      sh \in ShapesOf(r), ps \in PseudoOf(r), st \in StylesOf(r), kn \in KnownOf(r),
      rq \in 1 .. (IF r = "FORK" THEN 3 ELSE Len(hs) + 1), sl \in {0, 1}}

WellFormed(i) ==
  /\ Cardinality(i.bc) < NCores(i) /\ \A x \in i.bc : x < NCores(i)
  /\ i.rm = "FORK" => i.hosts = <<1>>
  /\ i.known => i.slack = 0                      \* slack only where the RM derives the node count
  /\ ~i.known => i.backup = 0                    \* backup nodes need 'nodes' in the description
  /\ i.slack < UsableC(i)

Init ==
  /\ \E r \in RMKinds, hs \in HostSeqs, c \in CoreChoices, t \in SmtChoices, g \in GpuCfgs,
        bc \in BlockedCs, b \in Backups, a \in AgentCounts, sv \in BOOLEAN :
       \E i \in Inputs(r, hs, c, t, g, bc, b, a, sv) :
         /\ WellFormed(i) /\ InSweep(i)
         /\ in = i
  /\ phase = "start" /\ full = <<>> /\ P = EmptyP /\ reg = "none" /\ copy = "none" /\ fromreg = FALSE

(* ---- the pipeline ---------------------------------------------------------- *)
\* init_from_scratch of the subclass + _get_node_list
Parse ==
  /\ phase = "start"
  /\ LET usable == SelectSeq(Lines(in), LAMBDA h : DevKeepPseudo \/ ~IsPseudo(h))
         perrm  == IF in.rm = "FORK" THEN AllocHosts(in)
                   ELSE IF DevKeepDuplicates /\ in.shape \in {"slot_adj", "slot_mix"} THEN usable
                   ELSE IF in.rm = "PBSPRO_VNODE" THEN SortAsc(Distinct(usable))
                   ELSE Distinct(usable)
         nc     == IF DevSmtTwice /\ in.rm = "PBSPRO_FILE" THEN NCores(in) * in.smt ELSE NCores(in)
     IN full' = [i \in 1 .. Len(perrm) |-> Entry(perrm[i], i, nc, in.gpn)]
  /\ phase' = "parsed"
  /\ (PrintCases =>
        PrintT(<<"CASE", in.rm, in.hosts, in.shape, in.pseudo, in.style, in.cores, in.smt, in.known,
                 in.gpn, in.bc, in.bg, in.requested, in.slack, in.backup, in.agents, in.service>>))
  /\ UNCHANGED <<in, P, reg, copy, fromreg>>

\* blocked cores / GPUs are marked DOWN in every entry
Blocked ==
  /\ phase = "parsed"
  /\ full' = [i \in 1 .. Len(full) |-> Block(full[i], in.bc, in.bg)]
  /\ phase' = "blocked"
  /\ UNCHANGED <<in, P, reg, copy, fromreg>>

\* assert requested <= available; reduce to the requested size (_filter_nodes)
Cut ==
  /\ phase = "blocked"
  /\ IF Req(in) > Len(full)
       THEN phase' = "failed" /\ UNCHANGED P
       ELSE LET n   == IF DevNoCut THEN Len(full) ELSE Req(in)
                cut == SubSeq(full, 1, n)
            IN /\ P' = [EmptyP EXCEPT !.nodes  = cut,
                                      !.backup = IF DevBackupAfterCut THEN SubSeq(cut, Req(in) + 1, Len(cut))
                                                 ELSE SubSeq(full, Req(in) + 1, Len(full))]
               /\ phase' = "cut"
  /\ UNCHANGED <<in, full, reg, copy, fromreg>>

\* agent nodes, then the service node, are popped from the end of the list
Reserve ==
  /\ phase = "cut"
  /\ LET n   == Len(P.nodes)
         nag == in.agents
         nsv == NSvc(in)
     IN IF n - nag - nsv < 1
          THEN phase' = "failed" /\ UNCHANGED P
          ELSE /\ P' = [P EXCEPT !.nodes   = IF DevAgentsStay THEN SubSeq(P.nodes, 1, n - nsv)
                                             ELSE SubSeq(P.nodes, 1, n - nag - nsv),
                                 !.agents  = [i \in 1 .. nag |-> P.nodes[n - i + 1]],
                                 !.service = [i \in 1 .. nsv |-> P.nodes[n - nag - i + 1]]]
               /\ phase' = "reserved"
  /\ UNCHANGED <<in, full, reg, copy, fromreg>>

\* reg.put('rm.<name>', rm_info.as_dict())
Publish ==
  /\ phase = "reserved"
  /\ reg' = [key |-> IF DevRegistryKeyCase THEN "rm.Name" ELSE "rm.name", val |-> P]
  /\ phase' = "published"
  /\ UNCHANGED <<in, full, P, copy, fromreg>>

\* another component (ResourceManager.__init__): RMInfo(reg.get('rm.<name>')) if
\* the entry is there; otherwise it inspects the allocation itself - at a later
\* time, in an environment / with a node reachability that may have changed (at
\* best it arrives at the same partition)
Recreate ==
  /\ phase = "published"
  /\ LET found == reg.key = "rm.name" IN
     /\ fromreg' = found
     /\ copy' = IF ~found THEN P
                ELSE IF DevCopyDropsService THEN [reg.val EXCEPT !.service = <<>>] ELSE reg.val
  /\ phase' = "recreated"
  /\ UNCHANGED <<in, full, P, reg>>

Next == Parse \/ Blocked \/ Cut \/ Reserve \/ Publish \/ Recreate
Spec == Init /\ [][Next]_vars

(* ---- properties -------------------------------------------------------------- *)
Offered == phase \in {"reserved", "published", "recreated"}

TypeOK == /\ phase \in {"start", "parsed", "blocked", "cut", "reserved", "published", "recreated", "failed"}
          /\ in.rm \in RMKinds

InvParsedOnePerNode == phase \in {"parsed", "blocked"} => FullOnePerNode(full, in)
InvOnePerNode    == Offered => OnePerNode(P, in)
InvSized         == Offered => Sized(P, in)
InvDisjoint      == Offered => Disjoint(P, in)
InvReserved      == Offered => Reserved(P, in)
InvNonEmpty      == Offered => NonEmpty(P)
InvNotLonger     == Offered => NotLonger(P, in)
InvSameEverywhere == phase = "recreated" => fromreg /\ copy = P
\* initialisation refuses exactly the allocations that cannot serve the request
InvRefusal       == /\ phase = "failed" => ExpectError(in)
                    /\ Offered => ~ExpectError(in)
\* the model's pipeline computes the partition of RMNodesOps (used by the monitor)
InvExpected      == Offered => /\ P.nodes = Expected(in).nodes /\ P.agents = Expected(in).agents
                               /\ P.service = Expected(in).service
\* not part of C18: the backup list names the allocated nodes beyond the request (D20)
InvBackupKept    == Offered => P.backup = Expected(in).backup
=============================================================================
