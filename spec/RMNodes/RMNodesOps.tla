----------------------------- MODULE RMNodesOps -----------------------------
(***************************************************************************)
(* Pure operators shared by the design model RMNodes and the trace monitor *)
(* RMNodesTrace: how an allocation (node file / host list expression /     *)
(* vnode string) of a batch system is written, which nodes it names, and   *)
(* what the pilot's resource manager (agent/resource_manager/*.py) is      *)
(* expected to offer for it (C18).                                         *)
(*                                                                         *)
(* An input `in` is a record                                               *)
(*   rm        resource manager kind: FORK SLURM PBSPRO_VNODE PBSPRO_FILE  *)
(*             LSF COBALT_FILE COBALT_PART TORQUE CCM                      *)
(*   hosts     the allocated hosts (ids 1..99) in the batch system's order *)
(*   shape     slot_adj (one line per slot, a host's lines adjacent),      *)
(*             slot_mix (one line per slot, hosts interleaved), node (one  *)
(*             line per node), expr (host list expression), vnode          *)
(*             (exec_vnode string), virtual (FORK: nothing is read)        *)
(*   pseudo    none | login | batch | launch | both : LSF pseudo nodes the  *)
(*             batch system lists but did not give for computing: named    *)
(*             login* / batch*, or unnamed (launch)                        *)
(*   pslots    lines each pseudo node has in the host file (1 or more)     *)
(*   uneven    the last host has one line less than the others (LSF)       *)
(*   gpusrc    config | GPUS_ON_NODE | JOB_GPUS | STEP_GPUS |              *)
(*             DEVICE_ORDINAL: where the RM learns the GPUs of a node from *)
(*             (resource config, or a Slurm environment variable while the *)
(*             config has no gpus_per_node)                                *)
(*   style     how an expr is written: list | range | plain                *)
(*   cores     physical cores of a node,  smt  hardware threads per core   *)
(*   known     the platform configuration knows the node size (the agent   *)
(*             config then carries cores_per_node = cores * smt, as set    *)
(*             by PMGRLaunchingComponent._prepare_pilot)                   *)
(*   gpn, bc, bg   GPUs per node, blocked core / GPU indices               *)
(*   requested, slack   nodes the pilot asked for (given as nodes when the *)
(*             node size is known, else as requested * usable - slack      *)
(*             cores from which the RM derives the node count)             *)
(*   refused, hangs   positions (in the RM's node list) of the nodes whose  *)
(*             ssh reachability probe is refused (exit code # 0) resp.     *)
(*             never answers (timeout, cancelled, no exit code); the probe *)
(*             is only made when the pilot has backup nodes                *)
(*   oldfiles  CCM: none | name_eq_age | name_ne_age : ~/.crayccm also     *)
(*             holds node files of older jobs (other hosts); the current   *)
(*             job's file is the newest one - its name sorts last, or not  *)
(*             (job ids gained a digit: nodelist.99998 < nodelist.100002)  *)
(*   backup, agents, service   backup nodes, sub-agents with target        *)
(*             'node', presence of a ./services file                       *)
(***************************************************************************)
EXTENDS Naturals, Sequences, FiniteSets

PLogin  == 101
PBatch  == 102
PLaunch == 103
IsPseudo(h) == h > 100

SeqSet(s)  == {s[i] : i \in 1 .. Len(s)}
IsIn(x, s) == \E i \in 1 .. Len(s) : s[i] = x
MaxOf(a, b) == IF a >= b THEN a ELSE b
CeilDiv(a, b) == (a + b - 1) \div b

\* distinct elements in first-appearance order
RECURSIVE Distinct(_)
Distinct(s) == IF Len(s) = 0 THEN <<>>
               ELSE LET d == Distinct(SubSeq(s, 1, Len(s) - 1))
                        x == s[Len(s)]
                    IN IF IsIn(x, d) THEN d ELSE Append(d, x)

RECURSIVE SortAsc(_)
SortAsc(s) == IF Len(s) = 0 THEN <<>>
              ELSE LET m == CHOOSE x \in SeqSet(s) : \A y \in SeqSet(s) : x <= y
                   IN <<m>> \o SortAsc(SelectSeq(s, LAMBDA y : y # m))

Reverse(s)         == [i \in 1 .. Len(s) |-> s[Len(s) - i + 1]]
Adjacent(hs, n)    == [j \in 1 .. (Len(hs) * n) |-> hs[((j - 1) \div n) + 1]]
Interleaved(hs, n) == [j \in 1 .. (Len(hs) * n) |-> hs[((j - 1) % Len(hs)) + 1]]

(* ---- how the batch system writes the allocation ------------------------- *)
PseudoHosts(p) == CASE p = "login"  -> <<PLogin>>
                    [] p = "batch"  -> <<PBatch>>
                    [] p = "launch" -> <<PLaunch>>
                    [] p = "both"   -> <<PLogin, PBatch>>
                    [] OTHER        -> <<>>
PseudoLines(p, n) == Adjacent(PseudoHosts(p), n)

\* LSF lists one line per physical core (the RM multiplies by SMT), the other
\* per-slot files list one line per hardware thread
SlotsPerHost(in) == IF in.rm = "LSF" THEN in.cores ELSE in.cores * in.smt

Lines(in) ==
  IF in.rm = "FORK" THEN <<>>
  ELSE LET body == CASE in.shape = "slot_adj" -> Adjacent(in.hosts, SlotsPerHost(in))
                      [] in.shape = "slot_mix" -> Interleaved(in.hosts, SlotsPerHost(in))
                      [] OTHER                 -> in.hosts
       IN PseudoLines(in.pseudo, in.pslots) \o
          (IF in.uneven THEN SubSeq(body, 1, Len(body) - 1) ELSE body)

\* what an older job's node file in ~/.crayccm lists: hosts of another allocation
OldHosts     == <<81, 82>>
OldLines(in) == Adjacent(OldHosts, SlotsPerHost(in))

Count(h, s) == Cardinality({i \in 1 .. Len(s) : s[i] = h})

\* a host file that cannot be interpreted consistently: an unnamed pseudo node
\* with more than one slot cannot be told from a compute node of another size,
\* a partially listed host has no place in a uniform pilot
Uninterpretable(in) == in.rm = "LSF" /\ (in.uneven \/ (in.pseudo = "launch" /\ in.pslots > 1))

(* ---- figures of a node -------------------------------------------------- *)
NCores(in)  == in.cores * in.smt                  \* hardware threads = core slots of an entry
UsableC(in) == NCores(in) - Cardinality(in.bc)
UsableG(in) == in.gpn - Cardinality(in.bg)
CfgCpn(in)  == IF in.known THEN NCores(in) ELSE 0  \* cores_per_node of the agent config
NSvc(in)    == IF in.service THEN 1 ELSE 0

\* what the agent config carries (see _prepare_pilot)
CfgNodes(in) == IF in.known THEN in.requested ELSE 0
CfgCores(in) == IF in.known THEN (in.requested + in.backup) * UsableC(in)
                ELSE in.requested * UsableC(in) - in.slack
CfgGpus(in)  == IF in.known THEN (in.requested + in.backup) * UsableG(in)
                ELSE in.requested * UsableG(in)

\* number of nodes the pilot asked for
Req(in) == IF CfgNodes(in) > 0 THEN CfgNodes(in)
           ELSE MaxOf(CeilDiv(CfgCores(in), UsableC(in)),
                      IF UsableG(in) > 0 THEN CeilDiv(CfgGpus(in), UsableG(in)) ELSE 0)

(* ---- the allocated nodes the pilot may use ------------------------------ *)
\* distinct hosts in the order the RM lists them; pseudo nodes are not usable;
\* FORK invents Req + backup virtual nodes, all named localhost (id 0)
AllocHosts(in) ==
  IF in.rm = "FORK" THEN [i \in 1 .. (Req(in) + in.backup) |-> 0]
  ELSE LET d == Distinct(SelectSeq(Lines(in), LAMBDA h : ~IsPseudo(h)))
       IN IF in.rm = "PBSPRO_VNODE" THEN SortAsc(d) ELSE d

Occ(n, blocked) == [c \in 1 .. n |-> IF (c - 1) \in blocked THEN "D" ELSE "F"]
Free(n)         == [c \in 1 .. n |-> "F"]

Entry(h, i, nc, ng) == [name |-> h, index |-> i - 1, cores |-> Free(nc), gpus |-> Free(ng)]
Block(e, bc, bg) == [e EXCEPT !.cores = [c \in 1 .. Len(e.cores) |-> IF (c - 1) \in bc THEN "D" ELSE e.cores[c]],
                              !.gpus  = [g \in 1 .. Len(e.gpus)  |-> IF (g - 1) \in bg THEN "D" ELSE e.gpus[g]]]

\* the intended full node list: one entry per allocated usable node
FullList(in) == LET hs == AllocHosts(in)
                IN [i \in 1 .. Len(hs) |-> Block(Entry(hs[i], i, NCores(in), in.gpn), in.bc, in.bg)]

\* ---- reachability: with backup nodes every node is probed, the unreachable
\* ones (refused or hanging) must not be used
Probed(in)  == in.backup > 0
Down(in)    == IF Probed(in) THEN in.refused \cup in.hangs ELSE {}
RECURSIVE KeepUp(_, _, _)
KeepUp(s, i, down) == IF i > Len(s) THEN <<>>
                      ELSE (IF i \in down THEN <<>> ELSE <<s[i]>>) \o KeepUp(s, i + 1, down)
Healthy(in)  == KeepUp(FullList(in), 1, Down(in))
MinOf2(a, b) == IF a <= b THEN a ELSE b
\* nodes the pilot ends up with: the request, as far as healthy nodes exist
NHealthy(in) == LET n == Len(AllocHosts(in)) IN n - Cardinality(Down(in) \cap (1 .. n))
Granted(in)  == MinOf2(Req(in), NHealthy(in))

\* initialisation is expected to refuse: fewer nodes allocated than asked for,
\* no node reachable, or nothing left for tasks after the agent / service nodes
\* are set aside (fewer healthy nodes than asked for is not refused: the pilot
\* goes on with what it can reach)
ExpectError(in) == \/ Req(in) > Len(AllocHosts(in))
                   \/ NHealthy(in) = 0
                   \/ Granted(in) - in.agents - NSvc(in) < 1

\* ... or refuses because the allocation cannot be read
Refuses(in) == ExpectError(in) \/ Uninterpretable(in)

\* cut to the requested size, the last nodes go to sub-agents, then services
\* (list.pop order); the rest of the allocation is the backup list
Partition(full, req, nag, nsv) ==
  LET cut == SubSeq(full, 1, req)
  IN [nodes   |-> SubSeq(cut, 1, req - nag - nsv),
      agents  |-> [i \in 1 .. nag |-> cut[req - i + 1]],
      service |-> [i \in 1 .. nsv |-> cut[req - nag - i + 1]],
      backup  |-> SubSeq(full, req + 1, Len(full))]

Expected(in) == Partition(Healthy(in), Granted(in), in.agents, NSvc(in))

(* ---- C18 stated on a partition P = [nodes, agents, service, backup] ----- *)
AllOf(P) == P.nodes \o P.agents \o P.service

UniqueBy(s, F(_)) == \A i, j \in 1 .. Len(s) : i # j => F(s[i]) # F(s[j])

\* one entry per allocated node the pilot may use: indices unique over all lists
\* (= list positions if no node had to be dropped), names unique and allocated
\* (FORK: indices only), as many as asked for (as far as healthy nodes exist)
OnePerNode(P, in) ==
  LET all == AllOf(P)
      hs  == SeqSet(AllocHosts(in))
  IN /\ Down(in) = {} => \A i \in 1 .. Len(P.nodes) : P.nodes[i].index = i - 1
     /\ UniqueBy(all, LAMBDA e : e.index)
     /\ in.rm # "FORK" => UniqueBy(all, LAMBDA e : e.name)
     /\ \A i \in 1 .. Len(all) : all[i].name \in hs
     /\ Len(all) = Granted(in)

\* no unreachable node is offered (an entry's index is its position in the RM's list)
Reachable(P, in) == \A i \in 1 .. Len(AllOf(P)) : (AllOf(P)[i].index + 1) \notin Down(in)
\* nodes being down does not shrink the pilot while healthy (backup) nodes are there
NotShorter(P, in) == Len(AllOf(P)) >= Granted(in)

EntrySized(e, in) == /\ e.cores = Occ(NCores(in), in.bc)
                     /\ e.gpus  = Occ(in.gpn, in.bg)
Sized(P, in) == LET oc == Occ(NCores(in), in.bc)
                    og == Occ(in.gpn, in.bg)
                IN \A i \in 1 .. Len(P.nodes) : P.nodes[i].cores = oc /\ P.nodes[i].gpus = og

\* internal consistency of what is offered / written to the registry: every
\* entry carries exactly cores_per_node usable cores and gpus_per_node usable GPUs
UsableOf(s) == Cardinality({i \in 1 .. Len(s) : s[i] # "D"})
InfoAgrees(P, cpn, gpn) == \A i \in 1 .. Len(P.nodes) : /\ UsableOf(P.nodes[i].cores) = cpn
                                                        /\ UsableOf(P.nodes[i].gpus)  = gpn

Disjoint(P, in) ==
  LET idx(s) == {s[i].index : i \in 1 .. Len(s)}
      nam(s) == {s[i].name  : i \in 1 .. Len(s)}
  IN /\ idx(P.nodes) \cap idx(P.agents) = {} /\ idx(P.nodes) \cap idx(P.service) = {}
     /\ idx(P.agents) \cap idx(P.service) = {}
     /\ in.rm # "FORK" => /\ nam(P.nodes) \cap nam(P.agents) = {}
                          /\ nam(P.nodes) \cap nam(P.service) = {}
                          /\ nam(P.agents) \cap nam(P.service) = {}

Reserved(P, in)  == Len(P.agents) = in.agents /\ Len(P.service) = NSvc(in)
NonEmpty(P)      == Len(P.nodes) > 0
NotLonger(P, in) == Len(P.nodes) <= Req(in)

\* the full list handed to the filter: one entry per allocated node
FullOnePerNode(full, in) ==
  LET hs == AllocHosts(in)
  IN /\ \A i \in 1 .. Len(full) : full[i].index = i - 1
     /\ in.rm # "FORK" => UniqueBy(full, LAMBDA e : e.name)
     /\ {full[i].name : i \in 1 .. Len(full)} = SeqSet(hs)
     /\ Len(full) = Len(hs)
=============================================================================
