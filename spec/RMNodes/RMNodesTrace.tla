---------------------------- MODULE RMNodesTrace ----------------------------
(***************************************************************************)
(* Trace monitor for the resource manager start-up: consumes the events    *)
(* recorded from the real ResourceManager subclasses (rmnodes_rig.py) and  *)
(* checks them against the predicates of RMNodesOps, which derive the      *)
(* allocated nodes and the request from the input alone.                   *)
(*                                                                         *)
(* Total: a failing clause is added to errs and the monitor goes on with   *)
(* the logged values.  Prefixes: "C18." clauses of the property;           *)
(* "M18." the code differs from the design model's exact partition without *)
(* breaking the property (reported as a note, not as a violation);         *)
(* C18.InfoAgrees: the entries carry exactly cores_per_node / gpus_per_node *)
(* usable cores / GPUs of the same RMInfo (at agent_0 and in the registry   *)
(* copy); C18.RefusesInconsistent: an uninterpretable host file is refused. *)
(* C18.Reachable: no node whose probe was refused or never answered is      *)
(* offered; C18.NotShorter: nodes being down do not shrink the pilot while   *)
(* healthy nodes are left.  "C17.AgentNodesAsTold": the same facts read as   *)
(* "the agent ends up with the nodes it was told" (reported under C17).      *)
(* "D20." the backup list does not name the spare nodes (known deviation,  *)
(* outside the statement of C18).                                          *)
(***************************************************************************)
EXTENDS RMNodesOps, TLC, Json, IOUtils

Batch  == JsonDeserialize(IOEnv.TRACE_FILE)
Traces == Batch.traces

VARIABLES tid, inp, l, last, seen, errs, fin

vars == <<tid, inp, l, last, seen, errs, fin>>

T  == Traces[tid]
Ev == T.events
I  == inp
Conv(J) ==
      [rm |-> J.rm, hosts |-> J.hosts, shape |-> J.shape, pseudo |-> J.pseudo, pslots |-> J.pslots,
       uneven |-> J.uneven, style |-> J.style,
       cores |-> J.cores, smt |-> J.smt, known |-> J.known, gpn |-> J.gpn, gpusrc |-> J.gpusrc,
       bc |-> SeqSet(J.bc), bg |-> SeqSet(J.bg), requested |-> J.requested, slack |-> J.slack,
       backup |-> J.backup, agents |-> J.agents, service |-> J.service,
       refused |-> SeqSet(J.refused), hangs |-> SeqSet(J.hangs), oldfiles |-> J.oldfiles]

ToEntry(e)  == [name |-> e.name, index |-> e.index,
                cores |-> [c \in 1 .. Len(e.cores) |-> e.cores[c]],
                gpus  |-> [g \in 1 .. Len(e.gpus)  |-> e.gpus[g]]]
ToList(s)   == [i \in 1 .. Len(s) |-> ToEntry(s[i])]
ToP(p)      == [nodes |-> ToList(p.nodes), agents |-> ToList(p.agents),
                service |-> ToList(p.service), backup |-> ToList(p.backup)]

E(cond, name) == IF cond THEN {} ELSE {name}
NoP == [nodes |-> <<>>, agents |-> <<>>, service |-> <<>>, backup |-> <<>>]

\* the clauses of C18 on an offered partition
OfferErrs(p) ==
  LET in == I
      ee == Refuses(in)
      ex == Expected(in)
  IN   E(OnePerNode(p, in), "C18.OnePerNode")
  \cup E(Sized(p, in),      "C18.Sized")
  \cup E(Disjoint(p, in),   "C18.Disjoint")
  \cup E(Reserved(p, in),   "C18.Reserved")
  \cup E(NonEmpty(p),       "C18.NonEmpty")
  \cup E(NotLonger(p, in),  "C18.NotLonger")
  \cup E(Reachable(p, in),  "C18.Reachable")
  \cup E(NotShorter(p, in), "C18.NotShorter")
  \* C17: the agent ends up with the number of nodes it was told, on reachable nodes
  \* with the cores per node it was told
  \cup E(Len(AllOf(p)) = Granted(in) /\ Reachable(p, in) /\ Sized(p, in), "C17.AgentNodesAsTold")
  \cup E(~Uninterpretable(in), "C18.RefusesInconsistent")
  \cup E(~ExpectError(in),  "M18.OfferedDespiteShortage")
  \cup (IF ee THEN {}
        ELSE E(p.nodes = ex.nodes /\ p.agents = ex.agents /\ p.service = ex.service, "M18.Partition")
             \cup E(p.backup = ex.backup, "D20.BackupList"))

Init ==
  /\ tid \in 1 .. Len(Traces)
  /\ inp = Conv(Traces[tid].in)
  /\ l = 1 /\ last = NoP /\ seen = {} /\ errs = {} /\ fin = FALSE

Step ==
  /\ ~fin /\ l <= Len(Ev)
  /\ LET e == Ev[l] IN
     /\ l' = l + 1
     /\ fin' = FALSE
     /\ seen' = seen \cup {e.ev}
     /\ CASE e.ev = "Indexed" ->
               LET f == ToList(e.full) IN
               /\ last' = last
               /\ errs' = errs
                    \cup E(FullOnePerNode(f, I), "C18.OnePerNode")
                    \cup E(\A i \in 1 .. Len(f) : f[i].cores = Free(NCores(I)) /\ f[i].gpus = Free(I.gpn),
                           "C18.Sized")
                    \cup E("Filtered" \notin seen, "M18.Order")
          [] e.ev = "Filtered" ->
               LET p == ToP(e.P) IN
               /\ last' = p
               /\ errs' = errs \cup OfferErrs(p) \cup E("Indexed" \in seen, "M18.Order")
          [] e.ev = "Done" ->
               LET p == ToP(e.P) IN
               /\ last' = p
               /\ errs' = errs \cup OfferErrs(p)
                    \cup E(InfoAgrees(p, e.cpn, e.gpn), "C18.InfoAgrees")
                    \cup E(last = p, "M18.ChangedAfterFilter")
                    \cup E(e.req = Req(I), "M18.RequestedNodes")
          [] e.ev = "Failed" ->
               /\ last' = NoP
               /\ errs' = errs \cup E(Refuses(I), "C18.Initialises")
                               \cup E(Refuses(I), "C17.AgentNodesAsTold")
          [] e.ev = "Recreated" ->
               LET p == ToP(e.P) IN
               /\ last' = last
               /\ errs' = errs \cup E(e.fromreg /\ e.same /\ p = last, "C18.SameEverywhere")
                               \cup E(InfoAgrees(p, e.cpn, e.gpn), "C18.InfoAgrees")
                               \cup E("Done" \in seen, "M18.Order")
          [] OTHER ->
               /\ last' = last
               /\ errs' = errs \cup {"X.UnknownEvent"}
  /\ UNCHANGED <<tid, inp>>

Finish ==
  /\ ~fin /\ l > Len(Ev)
  /\ fin' = TRUE
  /\ PrintT(<<"RESULT", T.tid,
              errs \cup E("Failed" \in seen \/ ("Done" \in seen /\ "Recreated" \in seen), "M18.Incomplete")>>)
  /\ UNCHANGED <<tid, inp, l, last, seen, errs>>

Next == Step \/ Finish
Spec == Init /\ [][Next]_vars
=============================================================================
