------------------------------ MODULE DescrOps ------------------------------
(***************************************************************************)
(* Pure operators shared by the design model Descr and the trace monitor   *)
(* DescrTrace (property C19):                                              *)
(*   - TaskDescription._verify (task_description.py) transcribed clause by *)
(*     clause over the attributes it reads,                                *)
(*   - PilotDescription._verify (pilot_description.py),                    *)
(*   - convert_slots_to_new / convert_slots_to_old (utils/misc.py) and     *)
(*     Slot.__init__ (resource_config.py) over projected slots,            *)
(*   - the encode / decode pipeline of PythonTask (identity oracle only).  *)
(*                                                                         *)
(* Value encoding (the same in TLC states and in trace files):             *)
(*   integer attributes : the value, -1 for None                           *)
(*   string attributes  : the value, "none" for None                       *)
(*   use_mpi            : "none" | "true" | "false"                        *)
(*   occupation         : quarters (4 = 1.0, 2 = 0.5)                      *)
(*   extra              : which set of attributes that _verify does not    *)
(*                        read was filled in (0 none, 1, 2); -2 = changed  *)
(*   loose              : 1 = some value is not of its schema type yet      *)
(*                        (arguments [10], timeout "30", environment       *)
(*                        {X: 1}); verify() casts: 0                        *)
(***************************************************************************)
EXTENDS Integers, Sequences, FiniteSets

CONSTANTS DevWorkerClass,   \* D18: the worker_class alias clears raptor_class
          DevKwargsNone,    \* PythonTask(f, args) ships kwargs = None
          DevRemembers,     \* verify() skipped while a "verified" mark is set which
                            \* only attribute assignment clears (not a deviation of
                            \* the code: shows that the sequence invariants bind)
          DevByRefMain,     \* classes of the application script are shipped by
                            \* reference (ditto)
          DevRegistryEarly  \* the registry copy of a worker description is taken
                            \* before verify() (ditto)

(* ======================================================================= *)
(* task descriptions                                                       *)
(* ======================================================================= *)
IntAttrs == {"cpu_processes", "ranks", "cpu_threads", "cores_per_rank",
             "gpu_processes", "gpus_per_rank", "lfs_per_process", "lfs_per_rank",
             "mem_per_process", "mem_per_rank", "gpu_threads", "extra", "loose"}
PresAttrs == {"executable", "function", "code", "command", "named_env"}
StrAttrs == {"mode", "use_mpi",
             "cpu_thread_type", "threading_type", "gpu_process_type", "gpu_type",
             "scheduler", "raptor_id", "worker_file", "raptor_file",
             "worker_class", "raptor_class", "cpu_process_type", "gpu_thread_type"}
            \cup PresAttrs
Attrs    == IntAttrs \cup StrAttrs

Modes == {"task.executable", "task.service", "task.function", "task.method",
          "task.eval", "task.exec", "task.proc", "task.shell",
          "raptor.master", "raptor.worker", "agent.service"}

\* TaskDescription._defaults
Default == [a \in Attrs |->
              CASE a \in {"ranks", "cores_per_rank"} -> 1
                [] a = "mode"     -> "task.executable"
                [] a = "use_mpi"  -> "none"
                [] a \in IntAttrs -> 0
                [] OTHER          -> ""]

\* overlay d with the entries of x / the entries of d which differ from b
Apply(d, x) == [a \in DOMAIN d |-> IF a \in DOMAIN x THEN x[a] ELSE d[a]]
Diff(d, b)  == [a \in {c \in DOMAIN d : d[c] # b[c]} |-> d[a]]

\* python truth value of an attribute value
Truthy(a, v) == IF a \in IntAttrs THEN v \notin {0, -1} ELSE v \notin {"", "none"}
T(d, a)      == Truthy(a, d[a])

\* the alias table in the order of the code; clr is what the code stores into
\* the deprecated attribute after the copy
Alias == <<
  [dep |-> "cpu_processes",    new |-> "ranks",          clr |-> 0],
  [dep |-> "cpu_threads",      new |-> "cores_per_rank", clr |-> 0],
  [dep |-> "cpu_thread_type",  new |-> "threading_type", clr |-> "none"],
  [dep |-> "gpu_processes",    new |-> "gpus_per_rank",  clr |-> 0],
  [dep |-> "gpu_process_type", new |-> "gpu_type",       clr |-> "none"],
  [dep |-> "lfs_per_process",  new |-> "lfs_per_rank",   clr |-> 0],
  [dep |-> "mem_per_process",  new |-> "mem_per_rank",   clr |-> 0],
  [dep |-> "scheduler",        new |-> "raptor_id",      clr |-> ""],
  [dep |-> "worker_file",      new |-> "raptor_file",    clr |-> ""],
  [dep |-> "worker_class",     new |-> "raptor_class",   clr |-> ""] >>
NAlias   == Len(Alias)
DepAttrs == {Alias[i].dep : i \in 1 .. NAlias}
NewAttrs == {Alias[i].new : i \in 1 .. NAlias}

(* ---- _verify, clause by clause ----------------------------------------- *)
\* if not self.get('mode'): self['mode'] = TASK_EXECUTABLE
ModeStep(d) == IF T(d, "mode") THEN d ELSE [d EXCEPT !.mode = "task.executable"]

\* the if / elif chain on self.mode: name of the complaint, "ok" if none
ModeErr(d) ==
  IF d.mode \in {"task.executable", "task.service", "agent.service"}
  THEN (IF ~T(d, "executable") THEN "executable" ELSE "ok")
  ELSE IF d.mode \in {"task.function", "task.method"}
  THEN (IF ~T(d, "function") THEN "function"
        ELSE IF T(d, "named_env") THEN "named_env" ELSE "ok")
  ELSE IF d.mode = "task.proc"
  THEN (IF ~T(d, "executable") THEN "executable" ELSE "ok")
  ELSE IF d.mode = "task.eval"
  THEN (IF ~T(d, "code") THEN "code" ELSE "ok")
  ELSE IF d.mode = "task.exec"
  THEN (IF ~T(d, "code") THEN "code" ELSE "ok")
  ELSE IF d.mode = "task.shell"
  THEN (IF ~T(d, "command") THEN "command" ELSE "ok")
  ELSE "ok"

\* if self.<dep>: self.<new> = self.<dep>; self.<dep> = <clr>
AliasStep(d, p) ==
  IF ~T(d, p.dep) THEN d
  ELSE IF DevWorkerClass /\ p.dep = "worker_class"
       THEN [d EXCEPT ![p.new] = ""]            \* copied, then the copy is cleared
       ELSE [d EXCEPT ![p.new] = d[p.dep], ![p.dep] = p.clr]

RECURSIVE AliasFrom(_, _)
AliasFrom(d, i) == IF i > NAlias THEN d ELSE AliasFrom(AliasStep(d, Alias[i]), i + 1)

\* if self.use_mpi is None: self.use_mpi = bool(self.ranks - 1)
MpiStep(d) == IF d.use_mpi # "none" THEN d
              ELSE [d EXCEPT !.use_mpi = IF d.ranks - 1 # 0 THEN "true" ELSE "false"]

\* TypedDict.verify(): every value is cast to its schema type, then _verify
CastStep(d) == [d EXCEPT !.loose = 0]

Complaint(d) == ModeErr(ModeStep(d))
Rejects(d)   == Complaint(d) # "ok"
Verify(d)    == MpiStep(AliasFrom(ModeStep(CastStep(d)), 1))   \* for accepted descriptions
VerifyRej(d) == ModeStep(CastStep(d))                  \* what a rejected one is left as

(* ---- the property, stated without reference to the clauses above -------- *)
EffMode(d) == IF T(d, "mode") THEN d.mode ELSE "task.executable"
Required(m) ==
  CASE m \in {"task.executable", "task.service", "agent.service", "task.proc"} -> {"executable"}
    [] m \in {"task.function", "task.method"} -> {"function"}
    [] m \in {"task.eval", "task.exec"}       -> {"code"}
    [] m = "task.shell"                       -> {"command"}
    [] OTHER                                  -> {}
Forbidden(m) == IF m \in {"task.function", "task.method"} THEN {"named_env"} ELSE {}
MustReject(d) == \/ \E a \in Required(EffMode(d))  : ~T(d, a)
                 \/ \E a \in Forbidden(EffMode(d)) : T(d, a)

\* alias i maps the deprecated value of d onto its replacement in v and clears it
AliasKept(d, v, i) == T(d, Alias[i].dep) =>
                        /\ v[Alias[i].new] = d[Alias[i].dep]
                        /\ ~T(v, Alias[i].dep)
AliasKeepsOp(d, v) == \A i \in 1 .. NAlias : AliasKept(d, v, i)

\* attributes verify may touch for input d; everything else must be kept
Touched(d) == {a \in {"mode"} : ~T(d, "mode")} \cup {"loose"}
         \cup {a \in {"use_mpi"} : d.use_mpi = "none"}
         \cup UNION {{Alias[i].dep, Alias[i].new} : i \in {j \in 1 .. NAlias : T(d, Alias[j].dep)}}
KeepsRest(d, v) == \A a \in Attrs \ Touched(d) : v[a] = d[a]

\* a verified description is normalised, whatever its history: nothing
\* deprecated is left, every value has its type, mode and use_mpi are decided
\* and the mode's requirements hold
Normal(d) == /\ ~MustReject(d)
             /\ \A i \in 1 .. NAlias : ~T(d, Alias[i].dep)
             /\ d.loose = 0 /\ d.use_mpi # "none" /\ T(d, "mode")

(* ---- one description object used again and again ------------------------ *)
\* the steps of a sequence: how the application touches the object, and the
\* content it writes (for "inplace": list.append / dict item of a value held
\* by the description)
SeqOps == {"verify", "submit", "attr_dep", "attr_new", "attr_mode",
           "item_dep", "item_dep2", "item_loose", "item_mode", "item_noexe", "item_cmd",
           "update_dep", "update_func", "inplace"}
OpHow(o) == CASE o \in {"verify", "submit"} -> o
              [] o \in {"attr_dep", "attr_new", "attr_mode"} -> "attr"
              [] o \in {"update_dep", "update_func"} -> "update"
              [] o = "inplace" -> "inplace"
              [] OTHER -> "item"
OpSet(o) == CASE o = "attr_dep"    -> [cpu_processes |-> 2, use_mpi |-> "none"]
              [] o = "attr_new"    -> [ranks |-> 2, cores_per_rank |-> 2]
              [] o = "attr_mode"   -> [mode |-> "task.function"]
              [] o = "item_dep"    -> [cpu_threads |-> 2, cpu_thread_type |-> "a"]
              [] o = "item_dep2"   -> [worker_class |-> "a", cpu_processes |-> 1, use_mpi |-> "none"]
              [] o = "item_loose"  -> [loose |-> 1]
              [] o = "item_mode"   -> [mode |-> "task.shell"]
              [] o = "item_noexe"  -> [executable |-> ""]
              [] o = "item_cmd"    -> [command |-> "x"]
              [] o = "update_dep"  -> [gpu_processes |-> 1, lfs_per_process |-> 2, scheduler |-> "a",
                                       use_mpi |-> "none"]
              [] o = "update_func" -> [mode |-> "task.function", function |-> "x"]
              [] o = "inplace"     -> [loose |-> 1]
              [] OTHER             -> <<>>
IsVerifyOp(o) == o \in {"verify", "submit"}

\* s = [d |-> content, mark |-> verified mark (only with DevRemembers), ok |-> last verify accepted]
SeqApply(s, o) ==
  IF IsVerifyOp(o)
  THEN IF DevRemembers /\ s.mark THEN [s EXCEPT !.ok = TRUE]
       ELSE IF Rejects(s.d) THEN [d |-> VerifyRej(s.d), mark |-> FALSE, ok |-> FALSE]
                            ELSE [d |-> Verify(s.d),    mark |-> TRUE,  ok |-> TRUE]
  ELSE [d |-> Apply(s.d, OpSet(o)), mark |-> s.mark /\ OpHow(o) # "attr", ok |-> s.ok]

(* ---- hand-over points: every copy that travels is the normalised one ---- *)
\* routes: raptor Master.submit_workers (registry copy read by the worker, copy
\* inserted / sent to the agent), Master.submit_tasks for executable tasks
\* (inserted / sent to the agent) and for raptor tasks (advanced / queued for
\* the workers)
Routes == {"workers", "tasks_exec", "tasks_raptor"}
RouteBg(r) == CASE r = "workers"    -> [mode |-> "raptor.worker"]
                [] r = "tasks_exec" -> [mode |-> "task.executable", executable |-> "x"]
                [] OTHER            -> [mode |-> "task.function", function |-> "x"]
\* what the master itself fills in before it verifies
HandPre(r, d) == IF r # "workers" THEN d
                 ELSE [d EXCEPT !.raptor_id = "m",
                                !.executable = IF T(d, "executable") THEN @
                                               ELSE "radical-pilot-raptor-worker"]
CopyNames(r) == CASE r = "workers"    -> <<"verified", "registry", "insert", "sent">>
                  [] r = "tasks_exec" -> <<"verified", "insert", "sent">>
                  [] OTHER            -> <<"verified", "sent", "queued">>
\* the copies a hand-over produces (for an accepted description)
HandCopies(r, d) ==
  LET pre == HandPre(r, d) IN
  [i \in 1 .. Len(CopyNames(r)) |->
     [which |-> CopyNames(r)[i],
      d     |-> IF DevRegistryEarly /\ CopyNames(r)[i] = "registry" THEN pre ELSE Verify(pre)]]

\* as_dict() / constructor on the projected attributes: a plain dictionary
\* holds every key; the constructor overlays the defaults with it
AsDict(d)   == d
FromDict(x) == [a \in Attrs |-> IF a \in DOMAIN x THEN x[a] ELSE Default[a]]

(* ======================================================================= *)
(* pilot descriptions (the attributes PilotDescription._verify reads)      *)
(* ======================================================================= *)
PDAttrs   == {"resource", "nodes", "cores", "gpus", "backup_nodes", "extra"}
PDDefault == [a \in PDAttrs |-> IF a = "resource" THEN "none" ELSE 0]
PDT(d, a) == IF a = "resource" THEN d[a] \notin {"", "none"} ELSE d[a] \notin {0, -1}
PDRejects(d) ==
  \/ ~PDT(d, "resource")
  \/ PDT(d, "backup_nodes") /\ ~PDT(d, "nodes")
  \/ IF ~PDT(d, "nodes") THEN ~PDT(d, "cores")
                         ELSE PDT(d, "cores") \/ PDT(d, "gpus")
PDVerify(d) == d
PDFromDict(x) == [a \in PDAttrs |-> IF a \in DOMAIN x THEN x[a] ELSE PDDefault[a]]

(* ======================================================================= *)
(* slots: [node_name, node_index, version (0 = none: old format), box,     *)
(*         cfmt, gfmt (how cores / gpus are written), cores, gpus          *)
(*         (sequences of <<index, occupation>>), lfs, mem]                 *)
(* ======================================================================= *)
Idx(s) == [i \in 1 .. Len(s) |-> s[i][1]]
Occ(s) == [i \in 1 .. Len(s) |-> s[i][2]]
Full   == 4

IsNew(s) == s.version >= 1

\* cfmt "int": occupation is implied (BUSY); the model writes it as Full
ResNew(rs, fmt) == IF fmt = "int" THEN [i \in 1 .. Len(rs) |-> <<rs[i][1], Full>>] ELSE rs

\* Slot(...): integer and dictionary entries become RO objects
CtorFmt(f)   == IF f \in {"int", "dict"} THEN "ro" ELSE f
BuildSlot(s) == IF s.box # "slot" THEN s
                ELSE [s EXCEPT !.cfmt = IF s.cores = <<>> THEN @ ELSE CtorFmt(@),
                               !.gfmt = IF s.gpus  = <<>> THEN @ ELSE CtorFmt(@)]
Build(ss)    == [i \in 1 .. Len(ss) |-> BuildSlot(ss[i])]

ToNewSlot(s) ==
  IF IsNew(s) THEN s
  ELSE [s EXCEPT !.version = 1, !.box = "slot",
                 !.cores = ResNew(s.cores, s.cfmt), !.gpus = ResNew(s.gpus, s.gfmt),
                 !.cfmt = IF s.cores = <<>> THEN s.cfmt ELSE "ro",
                 !.gfmt = IF s.gpus  = <<>> THEN s.gfmt ELSE "ro"]

\* old format: one core map per entry, occupation is dropped
ToOldSlot(s) ==
  IF ~IsNew(s) THEN s
  ELSE [s EXCEPT !.version = 0, !.box = "dict",
                 !.cores = [i \in 1 .. Len(s.cores) |-> <<s.cores[i][1], 0>>],
                 !.gpus  = [i \in 1 .. Len(s.gpus)  |-> <<s.gpus[i][1], 0>>],
                 !.cfmt = IF s.cores = <<>> THEN s.cfmt ELSE "map",
                 !.gfmt = IF s.gpus  = <<>> THEN s.gfmt ELSE "map"]

ToNew(ss) == [i \in 1 .. Len(ss) |-> ToNewSlot(ss[i])]
ToOld(ss) == [i \in 1 .. Len(ss) |-> ToOldSlot(ss[i])]

\* a conversion delivers the target format, slot by slot: a list may mix old and
\* new entries in any order and every entry is looked at on its own
AllNew(ss) == \A i \in 1 .. Len(ss) : IsNew(ss[i])
AllOld(ss) == \A i \in 1 .. Len(ss) : ~IsNew(ss[i])

\* what the property demands of a conversion a -> b
SlotKeeps(a, b) == /\ b.node_name = a.node_name /\ b.node_index = a.node_index
                   /\ Idx(b.cores) = Idx(a.cores) /\ Idx(b.gpus) = Idx(a.gpus)
SlotsKeepOp(as, bs) == /\ Len(as) = Len(bs)
                       /\ \A i \in 1 .. Len(as) : SlotKeeps(as[i], bs[i])

(* ======================================================================= *)
(* function payloads: a case is [api, f, a, k]; the model knows nothing    *)
(* about pickling - encoding is a tagged tuple, the result of a call is    *)
(* the (callable, args, kwargs) triple itself (identity oracle)            *)
(* ======================================================================= *)
KwNorm(k)    == IF k = "omitted" THEN "empty" ELSE k
ArgNorm(a)   == IF a = "omitted" THEN "empty" ELSE a
Oracle(c)    == <<c.f, ArgNorm(c.a), KwNorm(c.k)>>
Encode(c)    == [tag |-> "bson", f |-> c.f, a |-> ArgNorm(c.a),
                 k |-> IF DevKwargsNone /\ c.api = "class" /\ c.k = "omitted"
                       THEN "null" ELSE KwNorm(c.k)]
Decode(b)    == <<b.f, b.a, b.k>>
CallRes(t)   == IF t[3] = "null" THEN <<"raise", "TypeError">> ELSE t

\* payloads decoded in ANOTHER interpreter (the raptor worker), which knows the
\* importable modules but not the application script: a case is [f, w, a],
\* f the kind of callable, w where its code / class lives
XKinds      == {"plain", "lambda", "partial", "instance", "method", "closure",
                "partial_obj", "decorated"}
XClassKinds == {"instance", "method", "closure", "partial_obj"}     \* involve a class
XOracle(c)  == <<c.f, c.w, c.a>>
XEncode(c)  == [tag |-> "bson", f |-> c.f, w |-> c.w, a |-> c.a,
                byref |-> DevByRefMain /\ c.w = "main" /\ c.f \in XClassKinds]
\* at = "local": the encoding process;  "remote": a fresh interpreter
XDecode(b, at) == IF b.byref /\ at = "remote" THEN <<"undecodable">> ELSE <<b.f, b.w, b.a>>

\* sequences of short-lived callables, [api, fs (callable ids), a]: the i-th
\* callable is created with tag i, encoded and dropped before the next one is
\* created; all are decoded afterwards.  Each must come back as itself.
SeqOracle(c)  == [i \in 1 .. Len(c.fs) |-> <<c.fs[i], i, ArgNorm(c.a)>>]
EncodeSeq(c)  == [i \in 1 .. Len(c.fs) |-> [tag |-> "bson", f |-> c.fs[i], pos |-> i,
                                            a |-> ArgNorm(c.a)]]
DecodeSeq(bs) == [i \in 1 .. Len(bs) |-> <<bs[i].f, bs[i].pos, bs[i].a>>]
=============================================================================
