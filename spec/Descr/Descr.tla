------------------------------- MODULE Descr -------------------------------
(***************************************************************************)
(* Design model for property C19: descriptions and payloads survive        *)
(* normalisation and transport.                                            *)
(*                                                                         *)
(* The code under study is a handful of self-contained functions with a    *)
(* rich case analysis; the model is their transcription (DescrOps) plus a  *)
(* small pipeline per kind of object:                                      *)
(*   td    : raw -> RoundTrip -> Verify -> VerifyAgain -> RoundTrip        *)
(*   pd    : the same pipeline for pilot descriptions                      *)
(*   slots : raw -> Build -> ToNew -> ToOld   and   Build -> ToOld         *)
(*   func  : raw -> Encode -> Decode -> Call                               *)
(*   xfunc : raw -> Encode -> Decode (other interpreter) -> Call            *)
(*   tdseq : one description object: a sequence of verify / submit and of   *)
(*           changes through attributes, items, update(), in-place          *)
(*           mutation, then a final verify / submit                         *)
(*   hand  : a description handed to the raptor master (submit_workers /    *)
(*           submit_tasks): the copies that travel from there               *)
(*   fseq  : raw -> EncodeAll -> DecodeAll -> CallAll  (short-lived        *)
(*           callables encoded one after the other, decoded afterwards)    *)
(* Every initial state is one input; TLC enumerates the inputs and prints  *)
(* each of them (tag "IN"); the rig replays the pipeline of every printed  *)
(* input on the real classes and the monitor DescrTrace compares.          *)
(*                                                                         *)
(* Ghost variable keep holds the value the current step has to reproduce;  *)
(* the invariants state the property with the independent operators of     *)
(* DescrOps (MustReject, AliasKeepsOp, KeepsRest, SlotsKeepOp, Oracle).    *)
(***************************************************************************)
EXTENDS DescrOps, TLC, Json

CONSTANTS Kinds,      \* subset of {"td", "pd", "slots", "func", "fseq"}: what Init enumerates
          TDFams,     \* families of task descriptions, see FamInputs
          SlotFams,   \* families of slot lists, see SlotInputs
          Funcs, ArgIds, KwIds, Apis,    \* catalogue of function payloads
          ShortFuncs, SeqLens,           \* short-lived callables, lengths of sequences
          XFuncs, XWheres, XArgIds,      \* payloads for another interpreter
          SeqBases, SeqOpIds, OpLens,    \* description sequences: start, steps, lengths
          HandFams,                      \* families of descriptions handed to a master
          Emit        \* print every input (TRUE for the enumeration run)

VARIABLES kind, phase, inp, val, keep
vars == <<kind, phase, inp, val, keep>>

(* ---- inputs -------------------------------------------------------------- *)
\* a family: every assignment of the listed attributes over the listed values,
\* on top of the defaults overridden by the background bg
FamMember(F, m, u, p, i, s) ==
  Apply(Apply(Apply(Apply(Apply(Default, F.bg), [mode |-> m, use_mpi |-> u]), p), i), s)

PDInputs == {[resource |-> r, nodes |-> n, cores |-> c, gpus |-> g, backup_nodes |-> b, extra |-> x] :
               r \in {"none", "", "local.localhost"}, n \in {0, 2}, c \in {0, 4}, g \in {0, 1},
               b \in {0, 1}, x \in {0, 1}}

MkRes(idx, occ, fmt) == [i \in 1 .. Len(idx) |-> <<idx[i], IF fmt = "int" THEN Full ELSE occ>>]

SlotValid(s) == /\ s.version = 0 => s.box = "dict"
                /\ s.version = 1 => "pair" \notin {s.cfmt, s.gfmt}

SlotsOf(F) ==
  {s \in {[node_name |-> n[1], node_index |-> n[2], version |-> v, box |-> b,
           cfmt |-> cf, gfmt |-> gf, cores |-> MkRes(ci, o, cf), gpus |-> MkRes(gi, o, gf),
           lfs |-> l, mem |-> l] :
             n \in F.nodes, v \in F.versions, b \in F.boxes, cf \in F.cfmts, gf \in F.gfmts,
             ci \in F.coreidx, gi \in F.gpuidx, o \in F.occs, l \in F.lfs} : SlotValid(s)}

\* F.pool holds old and new format slots: every list over it of the lengths
\* F.lens, i.e. each entry independently old or new, in every order
SlotInputs(F) == {<<>>} \cup {<<s>> : s \in SlotsOf(F)}
                 \cup {<<s, t>> : s \in SlotsOf(F), t \in F.second}
                 \cup UNION {[1 .. n -> F.pool] : n \in F.lens}

FSeqCases == {[api |-> p, fs |-> s, a |-> "one"] :
                p \in Apis, s \in UNION {[1 .. n -> ShortFuncs] : n \in SeqLens}}

FuncCases == [api : Apis, f : Funcs, a : ArgIds, k : KwIds]

Out(tag, x) == Emit => PrintT(<<"IN", tag, ToJson(x)>>)

Init ==
  /\ phase = "raw"
  /\ \/ /\ "td" \in Kinds /\ kind = "td"
        /\ \E F \in TDFams : \E m \in F.modes, u \in F.mpis, p \in [F.pres -> {"", "x"}],
                                i \in [F.ints -> F.ivals], s \in [F.strs -> F.svals] :
             inp = FamMember(F, m, u, p, i, s)
        /\ Out("td", Diff(inp, Default))
     \/ /\ "pd" \in Kinds /\ kind = "pd"
        /\ inp \in PDInputs
        /\ Out("pd", Diff(inp, PDDefault))
     \/ /\ "slots" \in Kinds /\ kind = "slots"
        /\ \E F \in SlotFams : inp \in SlotInputs(F)
        /\ Out("slots", inp)
     \/ /\ "func" \in Kinds /\ kind = "func"
        /\ inp \in FuncCases
        /\ Out("func", inp)
     \/ /\ "fseq" \in Kinds /\ kind = "fseq"
        /\ inp \in FSeqCases
        /\ Out("fseq", inp)
     \/ /\ "xfunc" \in Kinds /\ kind = "xfunc"
        /\ inp \in [f : XFuncs, w : XWheres, a : XArgIds]
        /\ Out("xfunc", inp)
     \/ /\ "hand" \in Kinds /\ kind = "hand"
        /\ \E F \in HandFams : \E r \in Routes, m \in F.modes, u \in F.mpis, p \in [F.pres -> {"", "x"}],
                                  i \in [F.ints -> F.ivals], s \in [F.strs -> F.svals] :
             inp = [route |-> r, d |-> Apply(FamMember(F, m, u, p, i, s), RouteBg(r))]
        /\ Out("hand", [route |-> inp.route, d |-> Diff(inp.d, Default)])
     \/ /\ "tdseq" \in Kinds /\ kind = "tdseq"
        /\ \E b \in SeqBases, fin \in {"verify", "submit"} :
             \E os \in UNION {[1 .. n -> SeqOpIds] : n \in OpLens} :
               inp = [base |-> Apply(Default, b), ops |-> os \o <<fin>>]
        /\ Out("tdseq", [base |-> Diff(inp.base, Default),
                          ops  |-> [i \in 1 .. Len(inp.ops) |->
                                     [op |-> inp.ops[i], how |-> OpHow(inp.ops[i]),
                                      set |-> OpSet(inp.ops[i])]]])
  /\ val = (IF kind = "tdseq" THEN [d |-> inp.base, mark |-> FALSE, ok |-> FALSE, i |-> 1] ELSE inp)
  /\ keep = (IF kind = "tdseq" THEN inp.base ELSE inp)

(* ---- task descriptions --------------------------------------------------- *)
TDRoundTrip ==
  /\ kind = "td" /\ phase \in {"raw", "verified2"}
  /\ phase' = IF phase = "raw" THEN "raw_rt" ELSE "back"
  /\ keep' = val
  /\ val' = FromDict(AsDict(val))
  /\ UNCHANGED <<kind, inp>>

TDVerify ==
  /\ kind = "td" /\ phase = "raw_rt"
  /\ keep' = val
  /\ IF Rejects(val) THEN phase' = "rejected" /\ val' = VerifyRej(val)
                     ELSE phase' = "verified" /\ val' = Verify(val)
  /\ UNCHANGED <<kind, inp>>

TDVerifyAgain ==
  /\ kind = "td" /\ phase = "verified"
  /\ keep' = val
  /\ IF Rejects(val) THEN phase' = "rejected2" /\ val' = VerifyRej(val)
                     ELSE phase' = "verified2" /\ val' = Verify(val)
  /\ UNCHANGED <<kind, inp>>

(* ---- pilot descriptions -------------------------------------------------- *)
PDRoundTrip ==
  /\ kind = "pd" /\ phase \in {"raw", "verified2"}
  /\ phase' = IF phase = "raw" THEN "raw_rt" ELSE "back"
  /\ keep' = val
  /\ val' = PDFromDict(val)
  /\ UNCHANGED <<kind, inp>>

PDVerifyAct ==
  /\ kind = "pd" /\ phase \in {"raw_rt", "verified"}
  /\ keep' = val
  /\ IF PDRejects(val) THEN phase' = "rejected" /\ val' = val
     ELSE /\ phase' = IF phase = "raw_rt" THEN "verified" ELSE "verified2"
          /\ val' = PDVerify(val)
  /\ UNCHANGED <<kind, inp>>

(* ---- slots --------------------------------------------------------------- *)
SlBuild == /\ kind = "slots" /\ phase = "raw"
           /\ phase' = "built" /\ val' = Build(val) /\ keep' = val
           /\ UNCHANGED <<kind, inp>>
SlToNew == /\ kind = "slots" /\ phase = "built"
           /\ phase' = "new" /\ val' = ToNew(val) /\ keep' = val
           /\ UNCHANGED <<kind, inp>>
SlToOld == /\ kind = "slots" /\ phase \in {"built", "new"}
           /\ phase' = IF phase = "built" THEN "oldd" ELSE "old"
           /\ val' = ToOld(val) /\ keep' = val
           /\ UNCHANGED <<kind, inp>>

(* ---- function payloads --------------------------------------------------- *)
FnEncode == /\ kind = "func" /\ phase = "raw"
            /\ phase' = "encoded" /\ val' = Encode(val) /\ UNCHANGED <<kind, inp, keep>>
FnDecode == /\ kind = "func" /\ phase = "encoded"
            /\ phase' = "decoded" /\ val' = Decode(val) /\ UNCHANGED <<kind, inp, keep>>
FnCall   == /\ kind = "func" /\ phase = "decoded"
            /\ phase' = "called" /\ val' = CallRes(val) /\ UNCHANGED <<kind, inp, keep>>

FsEncode == /\ kind = "fseq" /\ phase = "raw"
            /\ phase' = "encoded" /\ val' = EncodeSeq(val) /\ UNCHANGED <<kind, inp, keep>>
FsDecode == /\ kind = "fseq" /\ phase = "encoded"
            /\ phase' = "decoded" /\ val' = DecodeSeq(val) /\ UNCHANGED <<kind, inp, keep>>
FsCall   == /\ kind = "fseq" /\ phase = "decoded"
            /\ phase' = "called" /\ UNCHANGED <<kind, inp, val, keep>>

HdOver == /\ kind = "hand" /\ phase = "raw"
          /\ IF Rejects(HandPre(inp.route, inp.d))
             THEN phase' = "rejected" /\ val' = <<>>
             ELSE phase' = "handed" /\ val' = HandCopies(inp.route, inp.d)
          /\ UNCHANGED <<kind, inp, keep>>

XfEncode == /\ kind = "xfunc" /\ phase = "raw"
            /\ phase' = "encoded" /\ val' = XEncode(val) /\ UNCHANGED <<kind, inp, keep>>
XfDecode == /\ kind = "xfunc" /\ phase = "encoded"
            /\ phase' = "called" /\ val' = XDecode(val, "remote") /\ UNCHANGED <<kind, inp, keep>>

\* one step of a sequence; keep = the content the last verify / submit saw
SqStep ==
  /\ kind = "tdseq" /\ phase \in {"raw", "seq"} /\ val.i <= Len(inp.ops)
  /\ LET o == inp.ops[val.i]
         s == SeqApply([d |-> val.d, mark |-> val.mark, ok |-> val.ok], o) IN
     /\ val' = [d |-> s.d, mark |-> s.mark, ok |-> s.ok, i |-> val.i + 1]
     /\ keep' = IF IsVerifyOp(o) THEN val.d ELSE keep
     /\ phase' = IF val.i < Len(inp.ops) THEN "seq" ELSE IF s.ok THEN "seqdone" ELSE "seqrej"
  /\ UNCHANGED <<kind, inp>>

Next == \/ TDRoundTrip \/ TDVerify \/ TDVerifyAgain
        \/ PDRoundTrip \/ PDVerifyAct
        \/ SlBuild \/ SlToNew \/ SlToOld
        \/ FnEncode \/ FnDecode \/ FnCall
        \/ FsEncode \/ FsDecode \/ FsCall
        \/ XfEncode \/ XfDecode \/ SqStep \/ HdOver

Spec == Init /\ [][Next]_vars

(* ---- properties ---------------------------------------------------------- *)
TypeOK == /\ kind \in {"td", "pd", "slots", "func", "fseq", "xfunc", "tdseq", "hand"}
          /\ phase \in {"raw", "raw_rt", "verified", "verified2", "rejected", "rejected2", "back",
                        "built", "new", "old", "oldd", "seq", "seqdone", "seqrej", "handed", "encoded", "decoded", "called"}
          /\ kind = "td" => DOMAIN val = Attrs /\ DOMAIN inp = Attrs
          /\ kind = "pd" => DOMAIN val = PDAttrs

Verified == {"verified", "verified2", "back"}

\* required attributes per mode are enforced - and nothing else is refused
InvModeRules == kind = "td" /\ phase \notin {"raw", "raw_rt"} =>
                  ((phase = "rejected") <=> MustReject(inp))
\* a verified description is accepted again
InvNoLateReject == phase # "rejected2"
\* verify(verify(d)) = verify(d)
InvIdempotent == kind \in {"td", "pd"} /\ phase = "verified2" => val = keep
\* each replacement holds the deprecated attribute's value, which is cleared
InvAliasKeeps == kind = "td" /\ phase \in Verified => AliasKeepsOp(inp, val)
\* everything verify has no business with is kept
InvLosesNothing == kind = "td" /\ phase \in Verified => KeepsRest(inp, val)
\* TD(as_dict(d)) = d
InvDictRoundTrip == kind \in {"td", "pd"} /\ phase \in {"raw_rt", "back"} => val = keep
\* node name / index and the core and gpu index lists survive ToNew, ToOld, ToOld o ToNew
InvSlotsKeep == kind = "slots" /\ phase \in {"built", "new", "old", "oldd"} => SlotsKeepOp(inp, val)
\* ... and every entry of the result is in the target format
InvSlotsFormat == kind = "slots" =>
                    /\ phase = "new" => AllNew(val)
                    /\ phase \in {"old", "oldd"} => AllOld(val)
\* Decode(Encode(f, a, k))(...) = f(a, k): identity oracle only
InvFuncSame == kind = "func" /\ phase = "called" => val = Oracle(inp)
\* ... also in an interpreter which does not know the application script
InvRemoteSame == kind = "xfunc" /\ phase = "called" => val = XOracle(inp)
\* verify is a function of the current content, with no memory: after the last
\* verify / submit of any sequence the description is normalised, or refused
\* because the content the call saw misses what its mode requires
InvSeqNormal == kind = "tdseq" /\ phase = "seqdone" => Normal(val.d) /\ ~MustReject(keep)
InvSeqRules  == kind = "tdseq" /\ phase = "seqrej"  => MustReject(keep)
InvSeqAlias  == kind = "tdseq" /\ phase = "seqdone" => AliasKeepsOp(keep, val.d) /\ KeepsRest(keep, val.d)
\* every copy that leaves a hand-over point is the same, normalised description
InvCopiesAgree  == kind = "hand" /\ phase = "handed" =>
                     \A i \in 1 .. Len(val) : val[i].d = val[1].d
InvCopiesNormal == kind = "hand" /\ phase = "handed" =>
                     \A i \in 1 .. Len(val) :
                        /\ Normal(val[i].d)
                        /\ AliasKeepsOp(HandPre(inp.route, inp.d), val[i].d)
                        /\ KeepsRest(HandPre(inp.route, inp.d), val[i].d)
\* callables encoded one after the other each decode to themselves
InvSeqSame  == kind = "fseq" /\ phase = "called" => val = SeqOracle(inp)
=============================================================================
