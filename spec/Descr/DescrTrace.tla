----------------------------- MODULE DescrTrace -----------------------------
(***************************************************************************)
(* Trace monitor for C19.  One trace = one input enumerated by TLC from    *)
(* Descr, pushed through the REAL classes by harness/rigs/descr_rig.py:    *)
(*   td / pd : Create, RoundTrip, Verify, Verify, RoundTrip                *)
(*             (TaskDescription / PilotDescription constructor, as_dict(), *)
(*             verify())                                                   *)
(*   slots   : Build (Slot(...)), ToNew, ToOld (on ToNew's result),        *)
(*             ToOld on the raw input                                      *)
(*   func    : Encode (PythonTask / pythontask), Decode (get_func_attr),   *)
(*             Call                                                        *)
(*   tdseq   : ONE TaskDescription object: Create, then per step of the    *)
(*             TLC sequence Set (setattr / item / update() / in-place      *)
(*             mutation) or Verify (verify() or rp.Task(...)); every       *)
(*             Verify is judged on the content the object holds at that    *)
(*             moment - exactly like the verify of a fresh description     *)
(*   hand    : Handover (the real raptor Master.submit_workers /           *)
(*             submit_tasks on a recording master), then one Copy event    *)
(*             per description that left: the verified object, the         *)
(*             registry entry, the inserted / sent / queued task           *)
(*   xfunc   : Encode in a real __main__ script, Call "local" (decoded in  *)
(*             the encoding process) and Call "remote" (decoded and called *)
(*             in a fresh interpreter)                                     *)
(*   fseq    : EncodeSeq (several short-lived callables encoded one after  *)
(*             the other, each dropped before the next is made), DecodeSeq,*)
(*             CallSeq                                                     *)
(* Each event carries what the real call produced (descriptions: the       *)
(* attributes that changed, relative to the value before the call); the    *)
(* monitor recomputes the step with the operators of DescrOps and adds     *)
(*   "C19.<clause>"  for every demand of the property that fails,          *)
(*   "T19.<what>"    where the code differs from the transcription in a    *)
(*                   way the property does not speak about (reported as a  *)
(*                   note, never as a violation),                          *)
(*   "I.<detail>"    which attribute / case a failure belongs to,          *)
(*   "K.<class>"     the case class the step exercised (coverage).         *)
(* The monitor is total and re-synchronises on the logged value.           *)
(***************************************************************************)
EXTENDS DescrOps, TLC, Json, IOUtils

Batch  == JsonDeserialize(IOEnv.TRACE_FILE)
Traces == Batch.traces

VARIABLES tid, l, cur, orig, vok, errs, fin
vars == <<tid, l, cur, orig, vok, errs, fin>>

Tr == Traces[tid]
Ev == Tr.events

E(cond, name) == IF cond THEN {} ELSE {name}
C19(s) == {x \in s : x \in {"C19.ModeRulesNotEnforced", "C19.ModeRulesFalseReject", "C19.Idempotent",
                            "C19.AliasKeeps", "C19.LosesNothing", "C19.DictRoundTrip",
                            "C19.TypesCast"}}

Input == CASE Tr.kind = "td" -> FromDict(Tr.inp)
           [] Tr.kind = "tdseq" -> FromDict(Tr.inp.base)
           [] Tr.kind = "hand"  -> FromDict(Tr.inp.d)
           [] Tr.kind = "pd" -> PDFromDict(Tr.inp)
           [] OTHER          -> Tr.inp

Init == /\ tid \in 1 .. Len(Traces)
        /\ l = 1 /\ cur = Input /\ orig = Input /\ vok = "none"
        /\ errs = {} /\ fin = FALSE

(* ---- task descriptions --------------------------------------------------- *)
TDVerifyErrs(d, e) ==
  LET o   == Apply(d, e.out)
      rej == MustReject(d)
      ali == UNION {IF AliasKept(d, o, i) THEN {}
                    ELSE {"C19.AliasKeeps", "I.alias." \o Alias[i].dep} : i \in 1 .. NAlias}
      los == UNION {IF o[a] = d[a] THEN {} ELSE {"C19.LosesNothing", "I.lost." \o a}
                    : a \in Attrs \ Touched(d)}
      \* every value has its schema type afterwards
      cst == E(o.loose = 0, "C19.TypesCast")
      \* a sequence on one object: what preceded this call
      seq == IF Tr.kind # "tdseq" THEN {}
             ELSE {"K.tdseq.via." \o e.via}
                  \cup (IF e.prior = "verified" /\ e.after # "none"
                        THEN {"K.tdseq.reverify." \o e.after \o (IF rej THEN ".reject" ELSE ".accept")}
                             \cup (IF \E i \in 1 .. NAlias : T(d, Alias[i].dep)
                                   THEN {"K.tdseq.reverify.alias"} ELSE {})
                             \cup (IF d.loose # 0 THEN {"K.tdseq.reverify.cast"} ELSE {})
                        ELSE {})
      ide == IF vok # "ok" THEN {}
             ELSE E(e.res = "ok" /\ o = d, "C19.Idempotent")
                  \cup {"I.changed." \o a : a \in {b \in Attrs : o[b] # d[b]}}
      cov == {"K.td.alias." \o Alias[i].dep : i \in {j \in 1 .. NAlias : T(d, Alias[j].dep)}}
             \cup {"K.td.aliasover." \o Alias[i].dep : i \in {j \in 1 .. NAlias :
                      T(d, Alias[j].dep) /\ d[Alias[j].new] # Default[Alias[j].new]}}
             \cup (IF d.use_mpi = "none" THEN {"K.td.mpi." \o Verify(d).use_mpi} ELSE {})
             \cup (IF vok = "ok" THEN {"K.td.again"} ELSE {})
             \cup (IF d.extra # 0 THEN {"K.td.extra"} ELSE {})
      \* which call of a sequence failed: what preceded it
      ctx(c) == IF Tr.kind = "tdseq" /\ C19(c) # {}
                THEN {"I.seq.after." \o e.after \o "." \o e.prior} ELSE {}
      \* the case class is that of the input, not of what the code did with it
      cls == IF rej THEN {"K.td.reject." \o EffMode(d) \o "." \o Complaint(d)}
                    ELSE cov \cup {"K.td.accept." \o EffMode(d)}
  IN IF e.res = "raise"
     THEN LET c == E(rej, "C19.ModeRulesFalseReject") \cup ide
          IN  c \cup cls \cup seq \cup ctx(c)
                \cup (IF C19(c) = {} THEN E(o = VerifyRej(d), "T19.RejectedState") ELSE {})
     ELSE LET c == E(~rej, "C19.ModeRulesNotEnforced") \cup ali \cup los \cup ide \cup cst
          IN  c \cup cls \cup seq \cup ctx(c)
                \cup (IF C19(c) = {} THEN E(o = Verify(d), "T19.VerifyDiffers") ELSE {})

TDStep(e) ==
  CASE e.ev = "Create" ->
         /\ cur' = Apply(cur, e.out)
         /\ errs' = errs \cup E(cur' = cur, "T19.CreateDiffers")
         /\ UNCHANGED vok
    [] e.ev = "RoundTrip" ->
         LET o == Apply(cur, e.out) IN
         /\ cur' = cur
         /\ errs' = errs \cup {"K.td.roundtrip." \o vok}
              \cup E(o = cur /\ e.plain, "C19.DictRoundTrip")
              \cup {"I.rt." \o a : a \in {b \in Attrs : o[b] # cur[b]}}
         /\ UNCHANGED vok
    [] e.ev = "Verify" ->
         /\ cur' = Apply(cur, e.out)
         /\ errs' = errs \cup TDVerifyErrs(cur, e)
         /\ vok' = e.res
    [] e.ev = "Set" ->
         \* the application changed the object: the content is what it holds now,
         \* and nothing is known to be verified any more
         /\ cur' = Apply(cur, e.out)
         /\ errs' = errs \cup {"K.tdseq.set." \o e.how}
              \cup E(e.how = OpHow(e.op) /\ cur' = Apply(cur, OpSet(e.op)), "T19.SetDiffers")
         /\ vok' = "none"
    [] OTHER ->
         /\ errs' = errs \cup {"X.UnknownEvent"} /\ UNCHANGED <<cur, vok>>

(* ---- pilot descriptions -------------------------------------------------- *)
PDStep(e) ==
  CASE e.ev = "Create" ->
         /\ cur' = Apply(cur, e.out)
         /\ errs' = errs \cup E(cur' = cur, "T19.CreateDiffers")
         /\ UNCHANGED vok
    [] e.ev = "RoundTrip" ->
         LET o == Apply(cur, e.out) IN
         /\ cur' = cur
         /\ errs' = errs \cup {"K.pd.roundtrip." \o vok}
              \cup E(o = cur /\ e.plain, "C19.DictRoundTrip")
         /\ UNCHANGED vok
    [] e.ev = "Verify" ->
         LET o == Apply(cur, e.out) IN
         /\ cur' = o
         /\ vok' = e.res
         /\ errs' = errs \cup {"K.pd.verify." \o IF PDRejects(cur) THEN "raise" ELSE "ok"}
              \cup E((e.res = "raise") = PDRejects(cur), "T19.PilotRules")
              \cup (IF vok = "ok" THEN E(e.res = "ok" /\ o = cur, "C19.Idempotent") ELSE {})
              \cup (IF e.res = "ok" THEN E(o = cur, "C19.LosesNothing") ELSE {})
    [] OTHER ->
         /\ errs' = errs \cup {"X.UnknownEvent"} /\ UNCHANGED <<cur, vok>>

(* ---- slots --------------------------------------------------------------- *)
\* the format of an empty list cannot be observed
NormSlot(s) == [s EXCEPT !.cfmt = IF s.cores = <<>> THEN "-" ELSE @,
                         !.gfmt = IF s.gpus  = <<>> THEN "-" ELSE @]
NormS(ss) == [i \in 1 .. Len(ss) |-> NormSlot(ss[i])]
NewOld(s) == IF IsNew(s) THEN ".new" ELSE ".old"
SlotCov(ss) == {"K.slots.c." \o ss[i].cfmt \o NewOld(ss[i]) : i \in {j \in 1 .. Len(ss) : ss[j].cores # <<>>}}
          \cup {"K.slots.g." \o ss[i].gfmt \o NewOld(ss[i]) : i \in {j \in 1 .. Len(ss) : ss[j].gpus # <<>>}}
          \cup {"K.slots.box." \o ss[i].box : i \in 1 .. Len(ss)}
          \cup {"K.slots.len." \o ToString(Len(ss))}
          \cup (IF \E i, j \in 1 .. Len(ss) : IsNew(ss[i]) /\ ~IsNew(ss[j])
                THEN {"K.slots.mixed." \o (IF IsNew(ss[1]) THEN "newfirst" ELSE "oldfirst"),
                      "K.slots.mixed.len." \o ToString(Len(ss))}
                ELSE {})

\* per slot verdicts: which entries of a converted list are wrong
BadSlots(as, bs, P(_, _)) ==
  IF Len(as) # Len(bs) THEN {"I.slot.length"}
  ELSE {"I.slot." \o ToString(i) : i \in {j \in 1 .. Len(as) : ~P(as[j], bs[j])}}
NewOK(a, b) == IsNew(b)
OldOK(a, b) == ~IsNew(b)

SlotStep(e) ==
  CASE e.ev = "Build" ->
         \* Slot(...) / plain dictionaries built from the TLC input
         /\ cur' = e.out /\ orig' = orig
         /\ errs' = errs \cup SlotCov(orig)
              \cup E(SlotsKeepOp(orig, e.out), "C19.SlotsKeepCtor")
              \cup (IF SlotsKeepOp(orig, e.out)
                    THEN E(NormS(e.out) = NormS(Build(orig)), "T19.BuildDiffers") ELSE {})
    [] e.ev = "ToNew" ->
         /\ cur' = e.out /\ orig' = orig
         /\ errs' = errs \cup {"K.slots.tonew"}
              \cup E(e.res = "ok" /\ SlotsKeepOp(cur, e.out), "C19.SlotsKeepNew")
              \cup (IF e.res = "ok" THEN BadSlots(cur, e.out, SlotKeeps) ELSE {"I.slot.raise"})
              \cup (IF e.res = "ok" /\ Len(cur) = Len(e.out)
                    THEN E(AllNew(e.out), "C19.SlotsConvertedNew") \cup BadSlots(cur, e.out, NewOK)
                    ELSE {})
              \cup (IF e.res = "ok" /\ SlotsKeepOp(cur, e.out)
                    THEN E(NormS(e.out) = NormS(ToNew(cur)), "T19.ToNewDiffers") ELSE {})
    [] e.ev = "ToOld" ->
         \* on the result of ToNew (e.on = "new") or on the raw input (e.on = "raw")
         LET src == IF e.on = "new" THEN cur ELSE e.src
             ok  == e.res = "ok" /\ SlotsKeepOp(src, e.out) IN
         /\ cur' = cur /\ orig' = orig
         /\ errs' = errs \cup {"K.slots.toold." \o e.on}
              \cup E(ok, "C19.SlotsKeepOld")
              \cup (IF e.res = "ok" THEN BadSlots(src, e.out, SlotKeeps) ELSE {"I.slot.raise"})
              \cup (IF e.res = "ok" /\ Len(src) = Len(e.out)
                    THEN E(AllOld(e.out), "C19.SlotsConvertedOld") \cup BadSlots(src, e.out, OldOK)
                    ELSE {})
              \cup E(e.res = "ok" /\ SlotsKeepOp(orig, e.out),
                     IF e.on = "new" THEN "C19.SlotsKeepNewOld" ELSE "C19.SlotsKeepOld")
              \cup (IF ok THEN E(NormS(e.out) = NormS(ToOld(src)), "T19.ToOldDiffers") ELSE {})
    [] OTHER ->
         /\ errs' = errs \cup {"X.UnknownEvent"} /\ UNCHANGED <<cur, orig>>

(* ---- function payloads --------------------------------------------------- *)
FuncStep(e) ==
  /\ UNCHANGED <<cur, orig, vok>>
  /\ CASE e.ev = "Encode" ->
            errs' = errs \cup {"K.func." \o cur.api \o "." \o cur.f, "K.func.a." \o cur.a,
                               "K.func.k." \o cur.api \o "." \o cur.k}
                    \cup E(e.res = "ok" /\ e.isstr, "C19.FuncEncodes")
       [] e.ev = "Decode" ->
            errs' = errs \cup E(e.res = "ok" /\ e.callable /\ e.args_same, "C19.FuncDecodes")
                    \cup (IF e.kwargs = "none" THEN {"I.func.kwargs_none"} ELSE {})
       [] e.ev = "Call" ->
            \* the model: CallRes(Decode(Encode(c))) = Oracle(c); observed: the
            \* outcome of the decoded call equals the outcome of the direct call
            errs' = errs \cup {"K.func.outcome." \o e.outcome}
                    \cup E((e.decoded = e.direct) = (CallRes(Decode(Encode(cur))) = Oracle(cur)),
                           "C19.FuncSameResult")
                    \cup E(e.dispatch = e.direct, "C19.FuncDispatchSameResult")
       [] OTHER -> errs' = errs \cup {"X.UnknownEvent"}

(* ---- hand-over points ---------------------------------------------------- *)
\* cur = the description as handed in; orig = the verified copy once seen
HandStep(e) ==
  LET r   == Tr.inp.route
      pre == HandPre(r, cur)
      rej == MustReject(pre) IN
  /\ UNCHANGED <<cur, vok>>
  /\ CASE e.ev = "Handover" ->
            /\ orig' = orig
            /\ errs' = errs \cup {"K.hand." \o r \o (IF rej THEN ".reject" ELSE ".accept")}
                 \cup {"K.hand.alias." \o Alias[i].dep : i \in {j \in 1 .. NAlias : T(cur, Alias[j].dep)}}
                 \cup (IF cur.loose # 0 THEN {"K.hand.loose." \o r} ELSE {})
                 \cup (IF e.res = "raise" THEN E(rej, "C19.ModeRulesFalseReject")
                                          ELSE E(~rej, "C19.ModeRulesNotEnforced"))
                 \cup (IF e.res = "ok" THEN E(e.copies = CopyNames(r), "T19.CopiesDiffer") ELSE {})
       [] e.ev = "Copy" ->
            LET o   == Apply(cur, e.out)
                ali == UNION {IF AliasKept(pre, o, i) THEN {}
                              ELSE {"C19.AliasKeeps", "I.alias." \o Alias[i].dep} : i \in 1 .. NAlias}
                los == UNION {IF o[a] = pre[a] THEN {} ELSE {"C19.LosesNothing", "I.lost." \o a}
                              : a \in Attrs \ Touched(pre)}
                cst == E(o.loose = 0, "C19.TypesCast")
                agr == IF e.which = "verified" THEN {} ELSE E(o = orig, "C19.CopiesAgree")
                c   == ali \cup los \cup cst \cup agr
            IN
            /\ orig' = IF e.which = "verified" THEN o ELSE orig
            /\ errs' = errs \cup c \cup {"K.hand.copy." \o r \o "." \o e.which}
                 \cup (IF C19(c) # {} \/ "C19.CopiesAgree" \in c THEN {"I.copy." \o e.which} ELSE {})
                 \cup (IF C19(c) = {} THEN E(o = Verify(pre), "T19.VerifyDiffers") ELSE {})
       [] OTHER -> errs' = errs \cup {"X.UnknownEvent"} /\ orig' = orig

XFuncStep(e) ==
  /\ UNCHANGED <<cur, orig, vok>>
  /\ CASE e.ev = "Encode" ->
            errs' = errs \cup {"K.xfunc." \o cur.f \o "." \o cur.w, "K.xfunc.a." \o cur.a}
                    \cup E(e.res = "ok" /\ e.isstr, "C19.FuncEncodes")
       [] e.ev = "Call" ->
            \* the model: XDecode(XEncode(c), at) = XOracle(c) for either interpreter
            errs' = errs \cup {"K.xfunc.at." \o e.at}
                    \cup (IF e.at = "remote"
                          THEN E(e.decodes, "C19.FuncRemoteDecodes")
                               \cup E(e.decoded = e.direct, "C19.FuncRemoteSameResult")
                          ELSE E(e.decodes, "C19.FuncDecodes")
                               \cup E(e.decoded = e.direct, "C19.FuncSameResult"))
       [] OTHER -> errs' = errs \cup {"X.UnknownEvent"}

FSeqStep(e) ==
  /\ UNCHANGED <<cur, orig, vok>>
  /\ CASE e.ev = "EncodeSeq" ->
            errs' = errs \cup {"K.fseq." \o cur.api \o ".len." \o ToString(Len(cur.fs))}
                    \cup {"K.fseq.f." \o cur.fs[i] : i \in 1 .. Len(cur.fs)}
                    \cup E(e.res = "ok" /\ e.isstr, "C19.FuncEncodes")
       [] e.ev = "DecodeSeq" ->
            errs' = errs \cup E(e.res = "ok" /\ e.callable /\ e.args_same, "C19.FuncDecodes")
       [] e.ev = "CallSeq" ->
            \* the model: DecodeSeq(EncodeSeq(c)) = SeqOracle(c), entry by entry
            errs' = errs
                    \cup E(Len(e.decoded) = Len(cur.fs) /\ Len(e.direct) = Len(cur.fs)
                           /\ \A i \in 1 .. Len(cur.fs) : e.decoded[i] = e.direct[i],
                           "C19.FuncSameResult")
                    \cup {"I.fseq." \o ToString(i) : i \in {j \in 1 .. Len(cur.fs) :
                             j <= Len(e.decoded) /\ j <= Len(e.direct) /\ e.decoded[j] # e.direct[j]}}
       [] OTHER -> errs' = errs \cup {"X.UnknownEvent"}

Step ==
  /\ ~fin /\ l <= Len(Ev)
  /\ l' = l + 1 /\ fin' = FALSE /\ UNCHANGED tid
  /\ LET e == Ev[l] IN
     CASE Tr.kind = "td"    -> TDStep(e) /\ UNCHANGED orig
       [] Tr.kind = "pd"    -> PDStep(e) /\ UNCHANGED orig
       [] Tr.kind = "slots" -> SlotStep(e) /\ UNCHANGED vok
       [] Tr.kind = "func"  -> FuncStep(e)
       [] Tr.kind = "fseq"  -> FSeqStep(e)
       [] Tr.kind = "xfunc" -> XFuncStep(e)
       [] Tr.kind = "hand"  -> HandStep(e)
       [] Tr.kind = "tdseq" -> TDStep(e) /\ UNCHANGED orig
       [] OTHER -> errs' = errs \cup {"X.UnknownKind"} /\ UNCHANGED <<cur, orig, vok>>

Finish ==
  /\ ~fin /\ l > Len(Ev)
  /\ fin' = TRUE
  /\ PrintT(<<"RESULT", Tr.tid, errs>>)
  /\ UNCHANGED <<tid, l, cur, orig, vok, errs>>

Next == Step \/ Finish
Spec == Init /\ [][Next]_vars
=============================================================================
