------------------------------- MODULE Script -------------------------------
(***************************************************************************)
(* Design model of the two scripts generated per task                      *)
(*   agent/executing/base.py : _create_launch_script / _create_exec_script *)
(* in the shape of the generated text: the launch script is a sequential   *)
(* machine  cd sandbox -> launcher env -> pre_launch[..] -> launch ->      *)
(* post_launch[..] -> exit RP_RET;  the launcher starts one instance of    *)
(* the exec script per rank, each a sequential machine                     *)
(*   SetRpEnv -> RankId -> Startup -> NamedEnv -> TaskEnv -> PreExec[..]   *)
(*   -> GpuExport -> (sync) -> Exec ->                                     *)
(*   PostExec[..] -> Exit(RP_RET)                                          *)
(* Ranks interleave freely (they are separate processes).  The outcome of  *)
(* every command (ok | fail) and the exit code of the executable are       *)
(* chosen by TLC when the command runs and remembered in F / xrc.          *)
(*                                                                         *)
(* The machine is checked against (a) the properties of C10 stated as      *)
(* invariants over its own bookkeeping and (b) the functional reference    *)
(* semantics LaunchRun of ScriptOps that the trace monitor uses as oracle  *)
(* for the real scripts (InvAgree).  Every terminal state is printed once  *)
(* (<<"RUN", cfg, F, xrc>>): the rig turns each into concrete runs.        *)
(*                                                                         *)
(* Known / hypothetical deviations are boolean constants (FALSE = design). *)
(***************************************************************************)
EXTENDS ScriptOps, TLC

CONSTANTS Cfgs,              \* bounded input domain: set of task shapes
          ExecCodes,         \* exit codes of the executable
          DevEnvUnescaped,   \* D21: export K="v" unescaped, a double quote in v breaks the script
          DevIgnorePreFail,  \* a failing pre_exec does not end the script
          DevRetAfterPost,   \* RP_RET is overwritten by the post_exec commands
          DevNamedEnvLast,   \* the named environment is activated after the described exports
          DevStartupAbortsOthers,  \* the rank-0-only startup report ends the script on ranks > 0
          DevPalsByVersionLine,  \* a PALS mpiexec is taken for Open MPI (its version line wins)
          DevGenericLast,    \* the generic rank variables are read after the flavor's own
          DevSameFileDup,    \* one file for both streams: ") 2>&1 1> f" (stderr leaves with the old stdout)
          DevGpuWholeOnly,   \* the GPU variable is exported only for whole GPUs
          DevErrDirFromOut   \* whether stderr goes into the sandbox is decided by the stdout name

VARIABLES cfg, F, xrc,
          lpc, lidx, lran, lret, lcode, cwd, outto, errto,
          pc, idx, ran, execd, ret, code, envs, envval, arrived, reported, gpuenv, rid,
          printed

vars == <<cfg, F, xrc, lpc, lidx, lran, lret, lcode, cwd, outto, errto,
          pc, idx, ran, execd, ret, code, envs, envval, arrived, reported, gpuenv, rid, printed>>

Rk == Ranks(cfg)

Init ==
  /\ cfg \in Cfgs
  /\ F = {} /\ xrc = [r \in Ranks(cfg) |-> 0]
  /\ lpc = "cd" /\ lidx = 1 /\ lran = <<>> /\ lret = 0 /\ lcode = -1 /\ cwd = "any"
  /\ outto = [dir |-> "none", name |-> "none"] /\ errto = [dir |-> "none", name |-> "none"]
  /\ pc = [r \in Ranks(cfg) |-> "idle"]
  /\ idx = [r \in Ranks(cfg) |-> 1]
  /\ ran = [r \in Ranks(cfg) |-> <<>>]
  /\ execd = [r \in Ranks(cfg) |-> FALSE]
  /\ ret = [r \in Ranks(cfg) |-> 0]
  /\ code = [r \in Ranks(cfg) |-> -1]
  /\ envs = [r \in Ranks(cfg) |-> {}]
  /\ envval = [r \in Ranks(cfg) |-> EnvBefore(cfg)]
  /\ arrived = {} /\ reported = {}
  /\ gpuenv = [r \in Ranks(cfg) |-> [set |-> FALSE, ids |-> <<>>]]
  /\ rid = [r \in Ranks(cfg) |-> -1]
  /\ printed = FALSE

LVars == <<lpc, lidx, lran, lret, lcode, cwd, outto, errto>>
RVars == <<pc, idx, ran, execd, ret, code, envs, envval, arrived, reported, gpuenv, rid>>
GVars == <<reported, gpuenv>>

(* ------------------------------------------------------------------------ *)
(* launch script                                                            *)
(* ------------------------------------------------------------------------ *)
Cd ==
  /\ lpc = "cd"
  /\ cwd' = "sandbox" /\ lpc' = "lenv"
  /\ UNCHANGED <<cfg, F, xrc, lidx, lran, lret, lcode, outto, errto, printed>> /\ UNCHANGED RVars

LEnv ==                                   \* . $RP_PILOT_SANDBOX/env/lm_xxx.sh
  /\ lpc = "lenv"
  /\ lpc' = "prel" /\ lidx' = 1
  /\ UNCHANGED <<cfg, F, xrc, lran, lret, lcode, cwd, outto, errto, printed>> /\ UNCHANGED RVars

\* "cmd || rp_error sig" of the launch script
LCmd(sig, n, here, next) ==
  /\ lpc = here
  /\ IF lidx > n
     THEN /\ lpc' = next /\ lidx' = 1
          /\ UNCHANGED <<F, lran, lcode>>
     ELSE \E ok \in BOOLEAN :
            /\ lran' = Append(lran, Ran(sig, lidx, GEntry, L))
            /\ IF ok
               THEN /\ lidx' = lidx + 1
                    /\ UNCHANGED <<F, lpc, lcode>>
               ELSE /\ F' = F \cup {Exe(sig, lidx, L)}
                    /\ lcode' = FailCode /\ lpc' = "done"
                    /\ UNCHANGED lidx
  /\ UNCHANGED <<cfg, xrc, lret, cwd, outto, errto, printed>> /\ UNCHANGED RVars

PreLaunch  == LCmd("pre_launch",  cfg.prel,  "prel",  "launch")
PostLaunch == LCmd("post_launch", cfg.postl, "postl", "exit")

\* ( launcher exec-script ) 1> stdout-file 2> stderr-file: the shell opens both
\* files first; a target it cannot open fails the launch (nothing runs, status 1)
ErrIsAbs == IF cfg.err = "same" THEN cfg.out = "abs" ELSE cfg.err = "abs"
ErrTarget ==
  IF DevSameFileDup /\ cfg.err = "same" THEN [dir |-> "launcher-stdout", name |-> "none"]
  ELSE IF ~DevErrDirFromOut THEN ErrFile(cfg)
  ELSE IF cfg.out = "abs"
       THEN [dir |-> IF ErrIsAbs THEN "as-given" ELSE "cwd", name |-> ErrFile(cfg).name]
       ELSE [dir |-> IF ErrIsAbs THEN "unusable" ELSE "sandbox", name |-> ErrFile(cfg).name]

Launch ==                                 \* the launcher starts every rank
  /\ lpc = "launch"
  /\ outto' = FileOf(cfg.out, "out") /\ errto' = ErrTarget
  /\ IF ErrTarget.dir = "unusable"
     THEN /\ lret' = 1 /\ lpc' = "postl" /\ lidx' = 1
          /\ UNCHANGED pc
     ELSE /\ lpc' = "wait"
          /\ pc' = [r \in Rk |-> "env"]
          /\ UNCHANGED <<lret, lidx>>
  /\ UNCHANGED <<cfg, F, xrc, lran, lcode, cwd, printed,
                 idx, ran, execd, ret, code, envs, envval, arrived, reported, gpuenv, rid>>

Collect ==                                \* RP_RET=$? of the launcher
  /\ lpc = "wait" /\ \A r \in Rk : pc[r] = "done"
  /\ lret' = LauncherRet([i \in 1 .. cfg.ranks |-> code[i - 1]])
  /\ lpc' = "postl" /\ lidx' = 1
  /\ UNCHANGED <<cfg, F, xrc, lran, lcode, cwd, outto, errto, printed>> /\ UNCHANGED RVars

LExit ==
  /\ lpc = "exit"
  /\ lcode' = lret /\ lpc' = "done"
  /\ UNCHANGED <<cfg, F, xrc, lidx, lran, lret, cwd, outto, errto, printed>> /\ UNCHANGED RVars

(* ------------------------------------------------------------------------ *)
(* exec script, one instance per rank                                       *)
(* ------------------------------------------------------------------------ *)
RStep(r, here, next, grp) ==
  /\ pc[r] = here
  /\ pc' = [pc EXCEPT ![r] = next]
  /\ envs' = [envs EXCEPT ![r] = @ \cup grp]
  /\ UNCHANGED <<cfg, F, xrc, idx, ran, execd, ret, code, envval, arrived, printed>> /\ UNCHANGED GVars /\ UNCHANGED rid /\ UNCHANGED LVars

SetRpEnv(r) == RStep(r, "env", "rankid", {"rp"})
\* export RP_RANKS; the launcher's get_rank_cmd lines: RP_RANK from the variables
\* of the detected flavor
Detected == IF DevPalsByVersionLine /\ cfg.fl = "pals" THEN "ompi" ELSE cfg.fl
RankId(r) ==
  /\ pc[r] = "rankid"
  /\ pc' = [pc EXCEPT ![r] = "startup"]
  /\ envs' = [envs EXCEPT ![r] = @ \cup {"rank"}]
  /\ rid' = [rid EXCEPT ![r] = RankIdOf(cfg, r, ReadOrder(Detected, DevGenericLast))]
  /\ UNCHANGED <<cfg, F, xrc, idx, ran, execd, ret, code, envval, arrived, printed>>
  /\ UNCHANGED GVars /\ UNCHANGED LVars

\* td.startup_timeout: test "$RP_RANK" == "0" && $RP_CTRL ... task_startup_done
\* rank 0 reports, the line is a no-op on every other rank
Startup(r) ==
  /\ pc[r] = "startup"
  /\ IF cfg.sto /\ r # 0 /\ DevStartupAbortsOthers
     THEN /\ pc' = [pc EXCEPT ![r] = "done"] /\ code' = [code EXCEPT ![r] = FailCode]
          /\ UNCHANGED reported
     ELSE /\ pc' = [pc EXCEPT ![r] = "nenv"]
          /\ reported' = IF cfg.sto /\ r = 0 THEN reported \cup {r} ELSE reported
          /\ UNCHANGED code
  /\ UNCHANGED <<cfg, F, xrc, idx, ran, execd, ret, envs, envval, arrived, gpuenv, rid, printed>>
  /\ UNCHANGED LVars

\* _get_task_env, first block: ". <activation script of the named environment>"
\* (defines what the environment captured, unsets what the agent had beyond it)
\* second block: "export K=v" for the described variables
EnvStep(r, here, next, grp, val) ==
  /\ pc[r] = here
  /\ pc' = [pc EXCEPT ![r] = next]
  /\ envs' = [envs EXCEPT ![r] = @ \cup grp]
  /\ envval' = [envval EXCEPT ![r] = val]
  /\ UNCHANGED <<cfg, F, xrc, idx, ran, execd, ret, code, arrived, printed>> /\ UNCHANGED GVars /\ UNCHANGED rid /\ UNCHANGED LVars

NamedEnv(r) ==
  EnvStep(r, "nenv", "taskenv", IF cfg.nenv THEN {"named"} ELSE {},
          IF DevNamedEnvLast THEN Export(envval[r]) ELSE Activate(cfg, envval[r]))

TaskEnv(r) ==
  IF DevEnvUnescaped /\ \E i \in 1 .. Len(cfg.env) : cfg.env[i] = "dquote"
  THEN \* bash cannot parse the export line: nothing after it runs
       /\ pc[r] = "taskenv"
       /\ pc' = [pc EXCEPT ![r] = "done"] /\ code' = [code EXCEPT ![r] = 2]
       /\ UNCHANGED <<cfg, F, xrc, idx, ran, execd, ret, envs, envval, arrived, printed>> /\ UNCHANGED GVars /\ UNCHANGED rid /\ UNCHANGED LVars
  ELSE EnvStep(r, "taskenv", "pre", {"task"},
               IF DevNamedEnvLast THEN Activate(cfg, envval[r]) ELSE Export(envval[r]))

\* "cmd || rp_error sig" of the exec script; entries not meant for this rank are skipped
RCmd(r, sig, es, here, next) ==
  /\ pc[r] = here
  /\ IF idx[r] > Len(es)
     THEN /\ pc' = [pc EXCEPT ![r] = next] /\ idx' = [idx EXCEPT ![r] = 1]
          /\ UNCHANGED <<F, ran, code, ret>>
     ELSE IF ~Applies(es[idx[r]], r)
     THEN /\ idx' = [idx EXCEPT ![r] = @ + 1]
          /\ UNCHANGED <<F, ran, code, pc, ret>>
     ELSE \E ok \in (IF cfg.sync /\ sig = "pre_exec" THEN {TRUE} ELSE BOOLEAN) :
            /\ ran' = [ran EXCEPT ![r] = Append(@, Ran(sig, idx[r], es[idx[r]], r))]
            /\ IF ok
               THEN /\ idx' = [idx EXCEPT ![r] = @ + 1]
                    /\ ret' = IF DevRetAfterPost /\ sig = "post_exec"
                              THEN [ret EXCEPT ![r] = 0] ELSE ret
                    /\ UNCHANGED <<F, code, pc>>
               ELSE /\ F' = F \cup {Exe(sig, idx[r], r)}
                    /\ IF DevIgnorePreFail /\ sig = "pre_exec"
                       THEN /\ idx' = [idx EXCEPT ![r] = @ + 1]
                            /\ UNCHANGED <<code, pc, ret>>
                       ELSE /\ code' = [code EXCEPT ![r] = FailCode]
                            /\ pc' = [pc EXCEPT ![r] = "done"]
                            /\ UNCHANGED <<idx, ret>>
  /\ UNCHANGED <<cfg, xrc, execd, envs, envval, arrived, printed>> /\ UNCHANGED GVars /\ UNCHANGED rid /\ UNCHANGED LVars

PreExec(r)  == RCmd(r, "pre_exec",  AllPre(cfg),  "pre",  "gpu")

\* _extend_pre_exec: the per-rank "export CUDA_VISIBLE_DEVICES=<ids of the rank's slot>"
GpuExport(r) ==
  /\ pc[r] = "gpu"
  /\ pc' = [pc EXCEPT ![r] = IF cfg.sync THEN "sync" ELSE "exec"]
  /\ gpuenv' = [gpuenv EXCEPT ![r] = IF DevGpuWholeOnly /\ cfg.gq < 4
                                      THEN [set |-> FALSE, ids |-> <<>>] ELSE GpuEnv(cfg, r)]
  /\ UNCHANGED <<cfg, F, xrc, idx, ran, execd, ret, code, envs, envval, arrived, reported, rid, printed>>
  /\ UNCHANGED LVars
PostExec(r) == RCmd(r, "post_exec", cfg.post, "post", "exit")

SyncArrive(r) ==                          \* echo $RP_RANK >> pre_exec.sig
  /\ pc[r] = "sync" /\ r \notin arrived
  /\ arrived' = arrived \cup {r}
  /\ UNCHANGED <<cfg, F, xrc, pc, idx, ran, execd, ret, code, envs, envval, printed>> /\ UNCHANGED GVars /\ UNCHANGED rid /\ UNCHANGED LVars

SyncPass(r) ==                            \* wc -l >= $RP_RANKS
  /\ pc[r] = "sync" /\ arrived = Rk
  /\ pc' = [pc EXCEPT ![r] = "exec"]
  /\ UNCHANGED <<cfg, F, xrc, idx, ran, execd, ret, code, envs, envval, arrived, printed>> /\ UNCHANGED GVars /\ UNCHANGED rid /\ UNCHANGED LVars

Exec(r) ==                                \* executable & ; wait ; RP_RET=$?
  /\ pc[r] = "exec"
  /\ \E x \in ExecCodes :
       /\ xrc' = [xrc EXCEPT ![r] = x]
       /\ ret' = [ret EXCEPT ![r] = x]
  /\ execd' = [execd EXCEPT ![r] = TRUE]
  /\ ran' = [ran EXCEPT ![r] = Append(@, ExecMark)]
  /\ pc' = [pc EXCEPT ![r] = "post"] /\ idx' = [idx EXCEPT ![r] = 1]
  /\ UNCHANGED <<cfg, F, code, envs, envval, arrived, printed>> /\ UNCHANGED GVars /\ UNCHANGED rid /\ UNCHANGED LVars

Exit(r) ==                                \* exit $RP_RET
  /\ pc[r] = "exit"
  /\ code' = [code EXCEPT ![r] = ret[r]]
  /\ pc' = [pc EXCEPT ![r] = "done"]
  /\ UNCHANGED <<cfg, F, xrc, idx, ran, execd, ret, envs, envval, arrived, printed>> /\ UNCHANGED GVars /\ UNCHANGED rid /\ UNCHANGED LVars

XrcSeq == [i \in 1 .. cfg.ranks |-> xrc[i - 1]]

Finish ==                                 \* one line per terminal state for the rig
  /\ lpc = "done" /\ ~printed
  /\ printed' = TRUE
  /\ PrintT(<<"RUN", cfg, F, XrcSeq>>)
  /\ UNCHANGED <<cfg, F, xrc>> /\ UNCHANGED LVars /\ UNCHANGED RVars

Step ==
  \/ Cd \/ LEnv \/ PreLaunch \/ Launch \/ Collect \/ PostLaunch \/ LExit
  \/ \E r \in Rk : \/ SetRpEnv(r) \/ RankId(r) \/ Startup(r) \/ NamedEnv(r) \/ TaskEnv(r)
                   \/ PreExec(r) \/ GpuExport(r)
                   \/ SyncArrive(r) \/ SyncPass(r) \/ Exec(r) \/ PostExec(r) \/ Exit(r)

Next == Step \/ Finish

Spec == Init /\ [][Next]_vars

(* ------------------------------------------------------------------------ *)
(* properties                                                               *)
(* ------------------------------------------------------------------------ *)
Sigs == {"pre_launch", "pre_exec", "exec", "post_exec", "post_launch"}

TypeOK ==
  /\ cfg.ranks \in 1 .. 4 /\ cfg.lm \in {"fork", "mpi"} /\ (cfg.lm = "fork" => cfg.ranks = 1)
  /\ (cfg.lm = "mpi" => cfg.fl \in MpiFlavors) /\ (cfg.lm = "fork" => cfg.fl = "none")
  /\ \A i \in 1 .. Len(cfg.argv) : cfg.argv[i] \in Classes
  /\ \A i \in 1 .. Len(cfg.env) : cfg.env[i] \in Classes
  /\ Len(cfg.envk) = Len(cfg.env) /\ \A i \in 1 .. Len(cfg.envk) : cfg.envk[i] \in KeyKinds
  /\ lpc \in {"cd", "lenv", "prel", "launch", "wait", "postl", "exit", "done"}
  /\ \A r \in Rk : pc[r] \in {"idle", "env", "rankid", "startup", "nenv", "taskenv", "gpu", "pre", "sync", "exec",
                              "post", "exit", "done"}
  /\ \A r \in Rk : \A j \in 1 .. Len(ran[r]) : ran[r][j].sig \in Sigs
  /\ \A f \in F : f.sig \in Sigs /\ f.r \in Rk \cup {L}

\* pre_exec before the executable before post_exec, each list in the described order
InvOrder ==
  \A r \in Rk : \A a, b \in 1 .. Len(ran[r]) :
    LET x == ran[r][a] y == ran[r][b] IN
    /\ (x.sig = "pre_exec" /\ y.sig = "exec")      => a < b
    /\ (x.sig = "exec"     /\ y.sig = "post_exec") => a < b
    /\ (x.sig = y.sig /\ a < b)                    => x.i < y.i

\* a per-rank entry runs on its rank only
InvPerRank ==
  \A r \in Rk : \A j \in 1 .. Len(ran[r]) : ran[r][j].who \in {-1, r}

\* nothing described is skipped on a rank that got that far
InvNoneSkipped ==
  \A r \in Rk : execd[r] =>
    \A i \in 1 .. Len(AllPre(cfg)) : Applies(AllPre(cfg)[i], r) =>
      \E j \in 1 .. Len(ran[r]) : ran[r][j] = Ran("pre_exec", i, AllPre(cfg)[i], r)

\* a failing pre_exec prevents the executable and is reported
InvFailPre ==
  \A r \in Rk : FailedOn(F, "pre_exec", r) =>
    /\ ~execd[r]
    /\ pc[r] = "done" => code[r] # 0

\* the exit code is the executable's unless a pre/post command failed
InvExitCode ==
  \A r \in Rk : pc[r] = "done" =>
    IF FailedOn(F, "pre_exec", r) \/ FailedOn(F, "post_exec", r)
    THEN code[r] # 0
    ELSE execd[r] /\ code[r] = xrc[r]

\* post_exec only after the executable ran
InvPostNeedsExec ==
  \A r \in Rk : (\E j \in 1 .. Len(ran[r]) : ran[r][j].sig = "post_exec") => execd[r]

\* pre_exec_sync: no executable starts before every rank finished its pre_exec
InvBarrier ==
  cfg.sync => \A r \in Rk : execd[r] =>
    \A q \in Rk : pc[q] \notin {"idle", "env", "rankid", "startup", "nenv", "taskenv", "pre", "gpu"}

\* the executable sees the RP_*, rank and task environment, in the task sandbox
InvEnv ==
  \A r \in Rk : execd[r] =>
    /\ envs[r] = {"rp", "rank", "task"} \cup (IF cfg.nenv THEN {"named"} ELSE {})
    /\ cwd = "sandbox"

\* exactly the described environment: every described variable has the described
\* value, whatever the named environment or the agent's environment say about it
InvDescribedEnv ==
  \A r \in Rk : execd[r] => envval[r] = SeenEnv(cfg) /\ \A i \in 1 .. Len(cfg.env) : envval[r][i] = "described"

\* launch script: a failing pre_launch launches nothing; the exit code is the
\* launcher's unless a pre/post_launch command failed
InvLaunch ==
  lpc = "done" =>
    /\ FailedOn(F, "pre_launch", L) => (\A r \in Rk : pc[r] = "idle") /\ lcode # 0
    /\ FailedOn(F, "post_launch", L) => lcode # 0
    /\ (~FailedOn(F, "pre_launch", L) /\ ~FailedOn(F, "post_launch", L)) =>
          lcode = LauncherRet([i \in 1 .. cfg.ranks |-> code[i - 1]])

\* startup is reported by rank 0 only, and whenever rank 0 gets to its executable
InvStartup ==
  /\ reported \subseteq (IF cfg.sto THEN {0} ELSE {})
  /\ (cfg.sto /\ execd[0]) => 0 \in reported

\* every rank knows its rank id, whatever the launcher's flavor
InvRankId ==
  \A r \in Rk : execd[r] => rid[r] = r /\ rid[r] = RankIdOf(cfg, r, ReadOrder(cfg.fl, FALSE))

\* the executable sees exactly the GPUs of its rank's slot
InvGpuEnv == \A r \in Rk : execd[r] => gpuenv[r] = GpuEnv(cfg, r)

\* stdout / stderr of the executable go to the described files
InvOutFiles ==
  (\E r \in Rk : pc[r] # "idle") =>
    /\ outto = FileOf(cfg.out, "out")
    /\ errto = ErrFile(cfg)

\* the step machine and the functional oracle of the monitor agree
InvAgree ==
  lpc = "done" =>
    LET X == LaunchRun(cfg, F, XrcSeq) IN
    /\ X.ran = lran /\ X.code = lcode
    /\ X.launched => (X.out = outto /\ X.err = errto /\ X.ctrl = reported)
    /\ X.launched = (\A r \in Rk : pc[r] = "done")
    /\ X.launched => \A r \in Rk :
         /\ X.ranks[r + 1].ran = ran[r]
         /\ X.ranks[r + 1].execd = execd[r]
         /\ X.ranks[r + 1].code = code[r]

\* every run ends: each step advances a program counter, so a run that is
\* never stuck before its terminal state terminates (no rank waits forever
\* at the barrier)
InvProgress == lpc = "done" \/ ENABLED Step
=============================================================================
