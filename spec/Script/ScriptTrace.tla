---------------------------- MODULE ScriptTrace ----------------------------
(***************************************************************************)
(* Trace monitor for C10: consumes what one run of the REAL generated       *)
(* launch / exec scripts did (script_rig.py) and checks it against the     *)
(* reference semantics LaunchRun of ScriptOps, evaluated on the task shape *)
(* (cfg), the outcomes the run was given (F: failing commands, xrc: exit   *)
(* codes of the executable) - the same oracle the design model Script is   *)
(* model-checked against (InvAgree).                                       *)
(*                                                                         *)
(* Events, in the order the scripts produced them:                         *)
(*   Cmd(sig, i, who, r)   a pre/post command ran on rank r (-1: launch    *)
(*                         script); who = -1 for a plain string entry,     *)
(*                         else the rank the dict entry names              *)
(*   Ctrl(r, want, seen)   $RP_CTRL was called on rank r (startup report) *)
(*   Exec(r, argv, env, items, cvd)   the executable ran on rank r and saw *)
(*                         this argv / environment / cwd                   *)
(*   RankExit(r, code)     exit code of rank r's exec script (MPI stand-in)*)
(*   LaunchExit(code, out_at, err_at, fail_at)  exit code of the launch script and, *)
(*                         per rank, every file in which the text that     *)
(*                         rank wrote to stdout / stderr was found         *)
(* The trace also carries the task sandbox, the uid, the concrete names    *)
(* used for the "rel" / "abs" kinds and task['stdout_file'] /              *)
(* task['stderr_file'] as the executor left them.                          *)
(*                                                                         *)
(* Every rank-level event carries r, the rank the launcher started (its    *)
(* native rank variable), and rid, the RP_RANK the script ended up with.   *)
(* The monitor is total.  A failing clause is added to errs as             *)
(* "C10.<Clause>"; observations on the token classes that the shell        *)
(* expands on purpose are added as "I10.<...>" (informational, never a     *)
(* violation).  One TLC run validates a batch: tid is chosen in Init.      *)
(***************************************************************************)
EXTENDS ScriptOps, TLC, Json, IOUtils

Batch  == JsonDeserialize(IOEnv.TRACE_FILE)
Traces == Batch.traces

VARIABLES tid, l, pos, seen, prefailed, reported, errs, fin

vars == <<tid, l, pos, seen, prefailed, reported, errs, fin>>

T  == Traces[tid]
Ev == T.events
SeqSet(s) == {s[i] : i \in 1 .. Len(s)}
ToEntry(e) == [k |-> e.k, on |-> SeqSet(e.on)]

C == [ranks |-> T.cfg.ranks, lm |-> T.cfg.lm, fl |-> T.cfg.fl,
      pre   |-> [i \in 1 .. Len(T.cfg.pre)  |-> ToEntry(T.cfg.pre[i])],
      post  |-> [i \in 1 .. Len(T.cfg.post) |-> ToEntry(T.cfg.post[i])],
      prel  |-> T.cfg.prel, postl |-> T.cfg.postl, sync |-> T.cfg.sync,
      argv  |-> T.cfg.argv, env |-> T.cfg.env, envk |-> T.cfg.envk, nenv |-> T.cfg.nenv,
      omp   |-> T.cfg.omp, gq |-> T.cfg.gq, gtype |-> T.cfg.gtype, sto |-> T.cfg.sto,
      sv    |-> T.cfg.sv, sval |-> T.cfg.sval, wr |-> T.cfg.wr,
      svc   |-> T.cfg.svc, cfgpre |-> T.cfg.cfgpre, prof |-> T.cfg.prof, out |-> T.cfg.out, err |-> T.cfg.err]
FF  == {Exe(f.sig, f.i, f.r) : f \in SeqSet(T.F)}
X   == LaunchRun(C, FF, T.xrc)                  \* the spec's observable for this run
All == Ranks(C) \cup {L}

Expect(r) == IF r = L THEN X.ran
             ELSE IF X.launched THEN X.ranks[r + 1].ran ELSE <<>>

E(cond, name) == IF cond THEN {} ELSE {name}
MinOf(S) == CHOOSE q \in S : \A q2 \in S : q <= q2
Sev(cls) == IF cls \in Alarmed THEN "C10." ELSE "I10."

\* the described file of a stream as a path of this run
PathOf(f, rel, abs) ==
  IF f.dir = "sandbox"
  THEN T.sbox \o "/" \o (IF f.name = "custom" THEN rel ELSE T.uid \o (IF f.name = "uid.out" THEN ".out" ELSE ".err"))
  ELSE abs
WantOut == PathOf(X.out, T.names.out_rel, T.names.out_abs)
WantErr == PathOf(X.err, T.names.err_rel, T.names.err_abs)

\* the text rank i wrote is in the described file (missing) and nowhere else
StreamErrs(at, want, demanded, missing, elsewhere) ==
  E(~demanded \/ want \in SeqSet(at), missing) \cup E(SeqSet(at) \subseteq {want}, elsewhere)

Init ==
  /\ tid \in 1 .. Len(Traces)
  /\ l = 1
  /\ pos = [r \in Ranks([ranks |-> Traces[tid].cfg.ranks]) \cup {L} |-> 1]
  /\ seen = {} /\ prefailed = {} /\ reported = {}
  /\ errs = E(Traces[tid].gen_error = "none", "C10.ScriptNotGenerated")
  /\ fin = FALSE

\* position bookkeeping shared by Cmd and Exec: c is what ran on rank r
Later(r, c) == {q \in pos[r] .. Len(Expect(r)) : Expect(r)[q] = c}
Advance(r, c) == [pos EXCEPT ![r] = IF Later(r, c) = {} THEN @ ELSE MinOf(Later(r, c)) + 1]
OrderErrs(r, c, unexpected) ==
  IF pos[r] <= Len(Expect(r)) /\ Expect(r)[pos[r]] = c THEN {}
  ELSE IF Later(r, c) # {} THEN {"C10.CmdSkipped"} ELSE {unexpected}

ArgErrs(a) ==
  E(Len(a.seen) = Len(a.want), "C10.ArgCount")
  \cup UNION {E(a.seen[i] = a.want[i], Sev(a.cls[i]) \o "ArgValue." \o a.cls[i])
              : i \in 1 .. (IF Len(a.seen) < Len(a.want) THEN Len(a.seen) ELSE Len(a.want))}

\* SeenEnv(C)[i] = "described": the executable sees the described value, also for
\* keys the named environment defines or its activation unsets
EnvErrs(es) ==
  UNION {E(es[i].seen = es[i].want,
           IF C.nenv /\ i <= Len(C.envk) /\ C.envk[i] # "fresh" /\ es[i].cls \in Alarmed
              /\ SeenEnv(C)[i] = "described"
           THEN "C10.EnvDescribedWins." \o C.envk[i]
           ELSE Sev(es[i].cls) \o "EnvValue." \o es[i].cls) : i \in 1 .. Len(es)}

ItemErrs(its) ==
  UNION {E(its[i].seen = its[i].want, "C10." \o its[i].clause \o "." \o its[i].k) : i \in 1 .. Len(its)}

Step ==
  /\ ~fin /\ l <= Len(Ev)
  /\ LET e == Ev[l] IN
     /\ l' = l + 1
     /\ fin' = FALSE
     /\ CASE e.ev = "Cmd" ->
               IF e.r \notin All
               THEN /\ errs' = errs \cup {"C10.RankUnknown"}
                    /\ UNCHANGED <<pos, seen, prefailed, reported>>
               ELSE
               LET r == e.r
                   c == [sig |-> e.sig, i |-> e.i, who |-> e.who] IN
               /\ pos' = Advance(r, c)
               /\ prefailed' = IF e.sig = "pre_exec" /\ Fails(FF, "pre_exec", e.i, r)
                               THEN prefailed \cup {r} ELSE prefailed
               /\ errs' = errs
                    \cup E(r = L \/ (e.rid = r /\ e.rid = RankIdOf(C, r, ReadOrder(C.fl, FALSE))), "C10.RankId")
                    \cup E(e.who \in {-1, r}, "C10.PerRankOnly")
                    \cup E(~(e.sig = "pre_exec" /\ r \in seen), "C10.PreAfterExec")
                    \cup E(~(e.sig = "post_exec" /\ r \notin seen), "C10.PostBeforeExec")
                    \cup E(r \notin prefailed, "C10.RanAfterFailedPre")
                    \cup OrderErrs(r, c, "C10.CmdUnexpected")
               /\ UNCHANGED <<seen, reported>>
          [] e.ev = "Exec" ->
               IF e.r \notin Ranks(C)
               THEN /\ errs' = errs \cup {"C10.RankUnknown"}
                    /\ UNCHANGED <<pos, seen, prefailed, reported>>
               ELSE
               LET r == e.r IN
               /\ pos' = Advance(r, ExecMark)
               /\ seen' = seen \cup {r}
               /\ errs' = errs
                    \cup E(e.rid = r /\ e.rid = RankIdOf(C, r, ReadOrder(C.fl, FALSE)), "C10.RankId")
                    \cup E(r \notin prefailed, "C10.FailedPreRanExec")
                    \cup E(r \notin seen, "C10.ExecTwice")
                    \cup OrderErrs(r, ExecMark, "C10.ExecUnexpected")
                    \* pre_exec_sync: every rank is through its pre_exec commands
                    \cup E(~C.sync \/ \A q \in Ranks(C) \ {r} : pos[q] > NPre(C, q, FF),
                           "C10.SyncBarrier")
                    \cup ArgErrs(e.argv) \cup EnvErrs(e.env) \cup ItemErrs(e.items)
                    \* the GPU variable: exactly the ids of this rank's slot (the rig
                    \* numbers the node's GPUs from T.gbase), not set by RP otherwise
                    \cup (LET g == GpuEnv(C, r) IN
                          IF g.set
                          THEN E(e.cvd_set, "C10.GpuNotExported")
                               \cup E(~e.cvd_set \/ e.cvd = [j \in 1 .. Len(g.ids) |-> g.ids[j] + T.gbase],
                                      "C10.GpuAssignment")
                          ELSE E(~e.cvd_set, "C10.GpuUnexpected"))
               /\ UNCHANGED <<prefailed, reported>>
          [] e.ev = "Ctrl" ->
               /\ reported' = reported \cup {e.r}
               /\ errs' = errs
                    \cup E(e.r \notin Ranks(C) \/ e.rid = RankIdOf(C, e.r, ReadOrder(C.fl, FALSE)), "C10.RankId")
                    \cup E(C.sto, "C10.StartupUnexpected")
                    \cup E(e.r = 0, "C10.StartupNotRankZero")
                    \cup E(e.r \notin reported, "C10.StartupTwice")
                    \cup E(e.r \notin seen, "C10.StartupAfterExec")
                    \cup E(e.seen = e.want, "C10.StartupArgs")
               /\ UNCHANGED <<pos, seen, prefailed>>
          [] e.ev = "RankExit" ->
               /\ errs' = errs \cup
                    (IF e.r \notin Ranks(C) THEN {"C10.RankUnknown"}
                     ELSE IF ~X.launched THEN {"C10.LaunchedAfterFailedPreLaunch"}
                     ELSE IF X.ranks[e.r + 1].why = "exec"
                          THEN E(e.code = T.xrc[e.r + 1], "C10.ExitCode")
                          ELSE E(e.code # 0, "C10.FailureNotReported"))
               /\ UNCHANGED <<pos, seen, prefailed, reported>>
          [] e.ev = "LaunchExit" ->
               /\ errs' = errs
                    \* everything described ran (per rank and in the launch script)
                    \cup UNION {IF pos[r] = Len(Expect(r)) + 1 THEN {}
                                ELSE IF \E q \in pos[r] .. Len(Expect(r)) : Expect(r)[q] = ExecMark
                                     THEN {"C10.ExecNotRun"} ELSE {"C10.CmdMissing"} : r \in All}
                    \cup (IF X.why = "exec"
                          THEN E(e.code = X.code, "C10.LaunchExitCode")
                          ELSE E(e.code # 0, "C10.LaunchFailureNotReported"))
                    \cup (IF X.launched
                          THEN UNION {IF X.ranks[i].execd /\ i <= Len(e.out_at) /\ i <= Len(e.err_at)
                                      THEN StreamErrs(e.out_at[i], WantOut, Demand(C).out,
                                                      "C10.Stdout", "C10.StdoutElsewhere")
                                           \cup StreamErrs(e.err_at[i], WantErr, Demand(C).err,
                                                           "C10.Stderr", "C10.StderrElsewhere")
                                      ELSE {} : i \in 1 .. C.ranks}
                               \* "<sig> failed" of rp_error is stderr text of the task, too
                               \cup StreamErrs(e.fail_at, WantErr,
                                               \E i \in 1 .. C.ranks : X.ranks[i].why \in {"pre", "post"},
                                               "C10.StderrFailure", "C10.StderrElsewhere")
                          ELSE {})
                    \* td.startup_timeout: rank 0 reported that the task started
                    \cup (IF X.launched THEN E(X.ctrl \subseteq reported, "C10.StartupNotReported")
                          ELSE {})
                    \* the task dict names the described files for the later stages
                    \cup E(T.task_out = WantOut, "C10.TaskStdoutFile")
                    \cup E(T.task_err = WantErr, "C10.TaskStderrFile")
               /\ UNCHANGED <<pos, seen, prefailed, reported>>
          [] OTHER ->
               /\ errs' = errs \cup {"X.UnknownEvent"}
               /\ UNCHANGED <<pos, seen, prefailed, reported>>
  /\ UNCHANGED tid

Finish ==
  /\ ~fin /\ l > Len(Ev)
  /\ fin' = TRUE
  /\ PrintT(<<"RESULT", T.tid, errs>>)
  /\ UNCHANGED <<tid, l, pos, seen, prefailed, reported, errs>>

Next == Step \/ Finish
Spec == Init /\ [][Next]_vars
=============================================================================
