----------------------------- MODULE ScriptOps -----------------------------
(***************************************************************************)
(* Pure operators shared by the design model (Script) and the trace        *)
(* monitor (ScriptTrace) of property C10: the reference semantics of the   *)
(* launch script and the exec script of one task as a function             *)
(*     (task shape, command outcomes, executable exit codes) -> observable *)
(*                                                                         *)
(* A task shape (cfg) is a record                                          *)
(*   ranks  : number of ranks                                              *)
(*   lm     : "fork" (one rank, real Fork launcher) | "mpi" (each rank is  *)
(*            one instance of the exec script, rank id from the launcher)  *)
(*   fl     : the MPI flavor of the launcher ("none" for fork): decides which *)
(*            variable carries the rank id to the exec script                *)
(*   pre, post : sequences of entries of td.pre_exec / td.post_exec; an    *)
(*            entry is [k |-> "g", on |-> {}] (a string: every rank) or    *)
(*            [k |-> "r", on |-> S] (a dict with a command for ranks in S) *)
(*   prel, postl : number of pre_launch / post_launch commands             *)
(*   sync   : td.pre_exec_sync                                             *)
(*   argv   : sequence of token classes (td.arguments)                     *)
(*   env    : sequence of token classes (values of td.environment)         *)
(*   envk   : per entry of env, what else knows its key: "fresh" (nobody),  *)
(*            "innamed" (the named environment defines it, other value),    *)
(*            "agent" (set in the launching process' environment, absent    *)
(*            from the named environment: activation unsets it)             *)
(*   nenv   : the task runs in a named environment (td.named_env), prepared *)
(*            in the pilot sandbox; its activation script is sourced        *)
(*   omp    : td.threading_type = OpenMP                                   *)
(*   gq     : GPUs per rank in quarters (0, 1, 2: a share of one GPU; 4, 8: *)
(*            whole GPUs); the slots give rank r the GPU ids GpusOf(c, r)   *)
(*   gtype  : td.gpu_type ("", "CUDA", "ROCm")                              *)
(*   sto    : td.startup_timeout set (rank 0 reports task_startup_done)     *)
(*   svc    : td.services names a service (RP_INFO_<NAME> from the registry)*)
(*   cfgpre : the resource configuration adds a task_pre_exec command       *)
(*   prof   : profiling enabled (RP_PROF_TGT)                               *)
(*   out, err : "default" | "rel" | "abs": td.stdout / td.stderr unset, a  *)
(*            relative name, an absolute path - independently of each other; *)
(*            err = "same": td.stderr names the same file as td.stdout       *)
(*   wr     : what the executable writes: "out" | "err" | "both" streams     *)
(*   sv, sval : a stale rank variable of another launcher layer in every     *)
(*            rank's environment (sv = "none": there is none)                *)
(***************************************************************************)
EXTENDS Integers, Sequences, FiniteSets

\* token classes: the alarmed ones must arrive byte-identical; the others are
\* expanded by the shell on purpose (ru.sh_quote double-quotes) or only reported
Alarmed  == {"plain", "space", "squote", "dquote", "glob", "empty", "nonascii", "backslash"}
InfoOnly == {"dollar", "backtick", "newline"}
Classes  == Alarmed \cup InfoOnly

L == -1                                   \* pseudo rank of the launch script
Ranks(c) == 0 .. (c.ranks - 1)

GEntry     == [k |-> "g", on |-> {}]
REntry(S)  == [k |-> "r", on |-> S]
Entries(n) == {GEntry} \cup {REntry(S) : S \in SUBSET (0 .. (n - 1))}
SeqsUpTo(S, n) == UNION {[1 .. m -> S] : m \in 0 .. n}
GSeq(n)    == [i \in 1 .. n |-> GEntry]   \* pre_launch / post_launch: strings only

Applies(e, r) == e.k = "g" \/ r \in e.on

\* one execution of a command: which list, which entry, whose command it is
\* (who = -1: the same string for every rank, else the rank named in the dict)
Ran(sig, i, e, r) == [sig |-> sig, i |-> i, who |-> IF e.k = "g" THEN -1 ELSE r]
ExecMark == [sig |-> "exec", i |-> 0, who |-> -1]

\* outcomes: F is the set of executions that fail, keyed by (list, entry, rank that runs it)
Exe(sig, i, r) == [sig |-> sig, i |-> i, r |-> r]
Fails(F, sig, i, r) == Exe(sig, i, r) \in F
FailedOn(F, sig, r) == \E f \in F : f.sig = sig /\ f.r = r

\* a command list on rank r: commands run in order, the first failure ends the script
RECURSIVE RunCmds(_, _, _, _, _)
RunCmds(sig, es, i, r, F) ==
  IF i > Len(es) THEN [ran |-> <<>>, failed |-> FALSE]
  ELSE IF ~Applies(es[i], r) THEN RunCmds(sig, es, i + 1, r, F)
  ELSE IF Fails(F, sig, i, r) THEN [ran |-> <<Ran(sig, i, es[i], r)>>, failed |-> TRUE]
  ELSE LET rest == RunCmds(sig, es, i + 1, r, F)
       IN  [ran |-> <<Ran(sig, i, es[i], r)>> \o rest.ran, failed |-> rest.failed]

FailCode == 1          \* what rp_error exits with; the property only demands # 0

\* one rank of the exec script.  xrc[r + 1] is the executable's exit code on rank r
\* commands that run before the executable: the described pre_exec entries, then
\* the command the resource configuration prescribes for every task
AllPre(c) == c.pre \o (IF c.cfgpre THEN <<GEntry>> ELSE <<>>)

RankRun(c, r, F, xrc) ==
  LET pre == RunCmds("pre_exec", AllPre(c), 1, r, F) IN
  IF pre.failed
  THEN [ran |-> pre.ran, execd |-> FALSE, code |-> FailCode, why |-> "pre"]
  ELSE LET post == RunCmds("post_exec", c.post, 1, r, F) IN
       [ran   |-> pre.ran \o <<ExecMark>> \o post.ran,
        execd |-> TRUE,
        code  |-> IF post.failed THEN FailCode ELSE xrc[r + 1],
        why   |-> IF post.failed THEN "post" ELSE "exec"]

NPre(c, r, F) == Len(RunCmds("pre_exec", AllPre(c), 1, r, F).ran)

\* what the launcher returns for the exit codes of its ranks: Fork execs the
\* one script; the MPI stand-in reports the first non-zero code in rank order
RECURSIVE FirstNonZero(_, _)
FirstNonZero(codes, i) ==
  IF i > Len(codes) THEN 0
  ELSE IF codes[i] # 0 THEN codes[i] ELSE FirstNonZero(codes, i + 1)
LauncherRet(codes) == FirstNonZero(codes, 1)

\* the file that receives what the executable writes to a stream ("out" | "err"):
\* an absolute path as given, a relative name inside the task sandbox, and
\* <uid>.out / <uid>.err in the task sandbox when the description names nothing
FileOf(kind, stream) ==
  [dir  |-> IF kind = "abs" THEN "as-given" ELSE "sandbox",
   name |-> IF kind = "default" THEN "uid." \o stream ELSE "custom"]

\* td.stderr = td.stdout: both streams are described to go to the one file
ErrFile(c) == IF c.err = "same" THEN FileOf(c.out, "out") ELSE FileOf(c.err, "err")
\* which of the texts the executable writes (c.wr: "out" | "err" | "both") must be
\* found in the described file: all of it.  With one file for both streams the
\* file is opened once and shared (") 1> f 2>&1": one offset), so the complete
\* lines of both streams of every rank are all there, in some interleaving
Demand(c) == [out |-> c.wr \in {"out", "both"}, err |-> c.wr \in {"err", "both"}]

\* the launch script around it
LaunchRun(c, F, xrc) ==
  LET prel == RunCmds("pre_launch", GSeq(c.prel), 1, L, F) IN
  IF prel.failed
  THEN [ran |-> prel.ran, launched |-> FALSE, code |-> FailCode, why |-> "pre",
        ranks |-> <<>>, ctrl |-> {}, out |-> FileOf(c.out, "out"), err |-> ErrFile(c)]
  ELSE LET rr    == [i \in 1 .. c.ranks |-> RankRun(c, i - 1, F, xrc)]
           lret  == LauncherRet([i \in 1 .. c.ranks |-> rr[i].code])
           postl == RunCmds("post_launch", GSeq(c.postl), 1, L, F)
       IN  [ran      |-> prel.ran \o postl.ran,
            launched |-> TRUE,
            code     |-> IF postl.failed THEN FailCode ELSE lret,
            why      |-> IF postl.failed THEN "post"
                         ELSE IF \A i \in 1 .. c.ranks : rr[i].why = "exec" THEN "exec"
                         ELSE "rank",
            ranks    |-> rr,
            ctrl     |-> IF c.sto THEN {0} ELSE {},
            out      |-> FileOf(c.out, "out"),
            err      |-> ErrFile(c)]

\* environment keys: where the value the executable sees comes from.  Reference:
\* the named environment is activated first, the described variables are
\* exported afterwards, so every described variable has the described value
KeyKinds == {"fresh", "innamed", "agent"}
EnvBefore(c) == [i \in 1 .. Len(c.env) |-> IF c.envk[i] = "agent" THEN "agent" ELSE "none"]
Activate(c, ev) ==
  [i \in 1 .. Len(ev) |->
     IF ~c.nenv THEN ev[i]
     ELSE IF c.envk[i] = "innamed" THEN "named"
     ELSE IF c.envk[i] = "agent" THEN "unset"
     ELSE ev[i]]
Export(ev) == [i \in 1 .. Len(ev) |-> "described"]
SeenEnv(c) == Export(Activate(c, EnvBefore(c)))

\* what the executable of rank r sees besides argv / environment
\* rank id: the launcher of flavor fl announces the rank in its native variables;
\* the exec script reads the variables get_rank_cmd lists for the flavor that was
\* DETECTED from the launcher binary (which + version output) and exports RP_RANK
MpiFlavors == {"ompi", "hydra", "spectrum", "pals", "unknown"}
Native(fl) ==
  CASE fl = "ompi"     -> {"PMIX_RANK", "OMPI_COMM_WORLD_RANK"}
    [] fl = "spectrum" -> {"PMIX_RANK", "OMPI_COMM_WORLD_RANK"}
    [] fl = "hydra"    -> {"PMI_RANK"}
    [] fl = "pals"     -> {"PALS_RANKID"}
    [] fl = "unknown"  -> {"MPI_RANK"}
    [] OTHER           -> {}
\* the rank-id lines of the exec script, "test -z $X || export RP_RANK=$X" one
\* after the other (the last variable that is set wins): the generic variables
\* first, then the ones of the detected flavor - so the flavor's own variable
\* wins over a stale generic one
ReadOrder(det, genericLast) ==
  LET gen  == <<"MPI_RANK", "PMIX_RANK">>
      spec == IF det = "hydra" THEN <<"PMI_ID", "PMI_RANK">>
              ELSE IF det = "pals" THEN <<"PALS_RANKID">> ELSE <<>>
  IN  IF genericLast THEN spec \o gen ELSE gen \o spec
\* what rank r finds in variable v: the launcher's own announcement, else a stale
\* value inherited from another launcher layer (c.sv = c.sval in every rank), else
\* nothing (-1)
EnvRank(c, r, v) ==
  IF v \in Native(c.fl) THEN r ELSE IF v = c.sv THEN c.sval ELSE -1
RECURSIVE LastSet(_, _, _, _)
LastSet(c, r, order, i) ==
  IF i = 0 THEN -1
  ELSE IF EnvRank(c, r, order[i]) # -1 THEN EnvRank(c, r, order[i])
  ELSE LastSet(c, r, order, i - 1)
\* RP_RANK as the exec script of rank r ends up with (-1: unset)
RankIdOf(c, r, order) ==
  IF c.lm = "fork" THEN 0 ELSE LastSet(c, r, order, Len(order))
\* for a launcher of unknown flavor the generic variables are all the script can
\* go by: a stale PMIX_RANK beats the MPI_RANK such a launcher announces (excluded
\* from the checked domain, stated as a limit)
Decidable(c) == ~(c.fl = "unknown" /\ c.sv = "PMIX_RANK")

\* GPU ids in rank r's slot: whole GPUs are exclusive, shares of a GPU are packed
\* (two halves / four quarters on one GPU)
GpusOf(c, r) ==
  IF c.gq >= 4 THEN [j \in 1 .. (c.gq \div 4) |-> r * (c.gq \div 4) + (j - 1)]
  ELSE IF c.gq > 0 THEN <<(r * c.gq) \div 4>>
  ELSE <<>>
\* the GPU environment of the executable: the type's variable lists exactly the
\* ids of the rank's slot, also for a shared GPU; no GPUs or no type: not set by RP
GpuEnv(c, r) ==
  IF c.gtype = "CUDA" /\ c.gq > 0 THEN [set |-> TRUE, ids |-> GpusOf(c, r)]
  ELSE [set |-> FALSE, ids |-> <<>>]
=============================================================================
