------------------------------- MODULE Sizing -------------------------------
(***************************************************************************)
(* Design model for C17: every shipped platform resolves, and pilots are   *)
(* sized to fit.                                                           *)
(*   session.py : Session.get_resource_config (schema merge, verify)       *)
(*   agent/resource_manager/base.py : ResourceManager.get_manager / create *)
(*   agent/launch_method/base.py : LaunchMethod.create                     *)
(*   agent/scheduler/base.py : AgentSchedulingComponent.create             *)
(*   agent/executing/base.py : AgentExecutingComponent.create              *)
(*   pmgr/launching/base.py : PMGRLaunchingComponent._prepare_pilot        *)
(*                                                                         *)
(* The constants Pairs / Dom / Platforms are generated when the check runs *)
(* (harness/props/sizing.py): Pairs from the shipped resource_*.json run   *)
(* through the real get_resource_config, Dom from the tables of the real   *)
(* factories, Platforms from the resolved configurations.  TLC is the      *)
(* evaluator of the membership relation (a) - every pair gets a verdict,   *)
(* printed as <<"VERDICT", name, schema, errs>> when not empty - and       *)
(* enumerates pilot sizes for the arithmetic (b), printed as               *)
(* <<"SIZE", ...>> for the rig.                                            *)
(*                                                                         *)
(* Deviation constants (FALSE = intended) alter the arithmetic; each must  *)
(* break the matching invariant.                                           *)
(***************************************************************************)
EXTENDS SizingOps, TLC

CONSTANTS Pairs,          \* resolved (platform, schema) pairs
          Dom,            \* [rm, lm, sched, exec, agent]: the factories' domains
          Platforms,      \* platforms whose node size is known
          NodeChoices,    \* pilot sizes given as nodes
          BackupChoices,  \* backup nodes (only with nodes)
          KChoices,       \* multiples of the node size for cores
          GKChoices,      \* multiples of the node's GPUs
          SmtOverrides,   \* 0 = platform's smt, else $RADICAL_SMT
          PrintCases,
          DevFloorNodes,       \* node count rounded down
          DevBlockedIgnored,   \* blocked cores counted as usable
          DevBackupNotInJob,   \* job does not request the backup nodes
          DevAgentToldRequest, \* agent is told the requested, not the allocated cores
          DevSmtDropped        \* hardware threads ignored

VARIABLES mode,    \* "resolve" | "size"
          pair,    \* the pair looked at (resolve), else "none"
          plat,    \* the platform (size), else "none"
          size,    \* the pilot size (size), else "none"
          out,     \* verdict (set of clause names) resp. [jd, agent]
          phase    \* "start" | "done"

vars == <<mode, pair, plat, size, out, phase>>

Sizes(p) ==
  UNION {  {[nodes |-> n, cores |-> 0, gpus |-> 0, backup |-> b, smt |-> o] :
              n \in NodeChoices, b \in BackupChoices}
      \cup {[nodes |-> 0, cores |-> c, gpus |-> g, backup |-> 0, smt |-> o] :
              c \in CoreSizes(p.cpn * (IF o > 0 THEN o ELSE p.smt) - p.nbc, KChoices),
              g \in GpuSizes(p.gpn - p.nbg, GKChoices)}
         : o \in SmtOverrides}

Init ==
  /\ \/ /\ mode = "resolve" /\ pair \in Pairs /\ plat = "none" /\ size = "none"
     \/ /\ mode = "size" /\ pair = "none" /\ plat \in Platforms /\ size \in Sizes(plat)
  /\ out = "none" /\ phase = "start"

\* Session.get_resource_config + the factories: does the pair resolve
Resolve ==
  /\ mode = "resolve" /\ phase = "start"
  /\ out' = ResolveErrs(pair, Dom)
  /\ phase' = "done"
  /\ (out' # {} => PrintT(<<"VERDICT", pair.name, pair.schema, out'>>))
  /\ UNCHANGED <<mode, pair, plat, size>>

\* _prepare_pilot: job description and agent configuration for the size
Prepare ==
  /\ mode = "size" /\ phase = "start"
  /\ LET s  == IF DevSmtDropped THEN [size EXCEPT !.smt = 1] ELSE size
         p  == IF DevBlockedIgnored THEN [plat EXCEPT !.nbc = 0] ELSE plat
         n  == IF size.nodes > 0 THEN size.nodes
               ELSE IF DevFloorNodes
                    THEN MaxOf(MaxOf(size.cores \div AvailC(p, s),
                                     IF AvailG(p) > 0 THEN size.gpus \div AvailG(p) ELSE 0), 1)
                    ELSE Nodes(p, s)
         f  == Figures(p, s, n)
         f1 == IF DevBackupNotInJob THEN [f EXCEPT !.jd.nodes = n] ELSE f
         f2 == IF DevAgentToldRequest /\ size.nodes = 0 THEN [f1 EXCEPT !.agent.cores = size.cores] ELSE f1
     IN out' = f2
  /\ phase' = "done"
  /\ (PrintCases => PrintT(<<"SIZE", plat.name, size.nodes, size.cores, size.gpus, size.backup, size.smt>>))
  /\ UNCHANGED <<mode, pair, plat, size>>

Next == Resolve \/ Prepare
Spec == Init /\ [][Next]_vars

(* ---- properties ------------------------------------------------------------ *)
TypeOK == mode \in {"resolve", "size"} /\ phase \in {"start", "done"}

Resolved == mode = "resolve" /\ phase = "done"
Sized    == mode = "size" /\ phase = "done"

\* the printed verdict is empty exactly for the pairs that resolve
InvVerdict     == Resolved => (out = {} <=> Resolves(pair, Dom))
\* every shipped pair resolves (checked where the verdicts are not collected)
InvResolves    == Resolved => Resolves(pair, Dom)
InvMinimal     == Sized => Minimal(plat, size, out)
InvCovers      == Sized => CoversReq(plat, size, out)
InvNodesGiven  == Sized => NodesGiven(plat, size, out)
InvJobSized    == Sized => JobSized(plat, size, out)
InvAgentAgrees == Sized => AgentAgrees(plat, size, out)
=============================================================================
