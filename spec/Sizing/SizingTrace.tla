---------------------------- MODULE SizingTrace -----------------------------
(***************************************************************************)
(* Trace monitor for C17.  Two kinds of traces recorded by sizing_rig.py:  *)
(*                                                                         *)
(* kind "resolve" (one per shipped platform x schema):                     *)
(*   Config     outcome of the real Session.get_resource_config            *)
(*   Factories  what the real factories (ResourceManager.create,           *)
(*              LaunchMethod.create, AgentSchedulingComponent.create,      *)
(*              AgentExecutingComponent.create, constructors stubbed) and  *)
(*              the agent config lookup returned for the resolved names    *)
(* kind "size" (one per platform, one event per pilot size):               *)
(*   Prepared   node_count / total_cpu_count / total_gpu_count of the job  *)
(*              description and nodes / cores / gpus of the agent config   *)
(*              produced by the real _prepare_pilot                        *)
(*                                                                         *)
(*   AgentRM    (after a Prepared) the platform's real resource manager     *)
(*              initialised from the agent config _prepare_pilot wrote, in *)
(*              a faked allocation of the size the job requests            *)
(* kind "bulk" (one per bulk of 1-3 pilots run through the real work() ->  *)
(*   _start_pilot_bulk -> _prepare_pilot -> launcher.launch_pilots, the    *)
(*   launchers being the real PilotLauncherPSIJ / PilotLauncherSAGA on     *)
(*   recording stand-ins for the psij / radical.saga modules):             *)
(*   Launchers  the launchers the component constructed, in its order      *)
(*   Bulk       _start_pilot_bulk(resource, schema, pilots) was entered    *)
(*   BPrepared  _prepare_pilot returned for a pilot: endpoints of the      *)
(*              resource config it was given, figures as in Prepared, plus *)
(*              walltime / queue / project / sandbox of the job description*)
(*   Staged     an agent_0.cfg is staged: sandbox it goes to (tpid), pilot *)
(*              it was written for (cpid), the figures it tells the agent  *)
(*   Launch     launch_pilots(rcfg, pilots) of launcher `by` was entered   *)
(*   Job        a batch job reached the batch system stand-in: the pilot   *)
(*              the launcher registers it for (pid), what it requests and  *)
(*              carries (0 = not set)                                      *)
(*   Submit     launch_pilots returned (ok) or raised                      *)
(*   Adv        advance(pilots, state)                                     *)
(*                                                                         *)
(* errs collects <<clause, event index>>; "C17." clauses of the property,  *)
(* "M17." disagreement between code and model that breaks no clause.      *)
(* The factories' domains are constants of the batch.                      *)
(***************************************************************************)
EXTENDS SizingOps, TLC, Json, IOUtils

CONSTANTS DomRM, DomLM, DomSched, DomExec, DomAgent,
          PsijExecutors    \* batch systems the psij stand-in has an executor for

Dom == [rm |-> DomRM, lm |-> DomLM, sched |-> DomSched, exec |-> DomExec, agent |-> DomAgent]

Batch  == JsonDeserialize(IOEnv.TRACE_FILE)
Traces == Batch.traces

VARIABLES tid, l, bst, errs, fin

vars == <<tid, l, bst, errs, fin>>

T  == Traces[tid]
Ev == T.events

At(S, i) == {<<c, i>> : c \in S}

ToPair(e) == [name |-> T.name, schema |-> T.schema, ok |-> e.ok, rm |-> e.rm, lms |-> e.lms,
              lmkeys |-> SeqSet(e.lmkeys), sched |-> e.sched, spawner |-> e.spawner,
              agentcfg |-> e.agentcfg, defschema |-> e.defschema, schemas |-> SeqSet(e.schemas),
              jm |-> e.jm, fs |-> e.fs]

(* ---- bulk traces: bookkeeping per pilot ------------------------------------ *)
Pids       == {T.pilots[i].pid : i \in 1 .. Len(T.pilots)}
Pilot(pid) == CHOOSE p \in SeqSet(T.pilots) : p.pid = pid
Named(pid) == <<Pilot(pid).plat, Pilot(pid).schema>>

SizeErrs(p, s, o) ==
       E(Minimal(p, s, o),     "C17.Minimal")
  \cup E(CoversReq(p, s, o),   "C17.Covers")
  \cup E(NodesGiven(p, s, o),  "C17.NodesGiven")
  \cup E(JobSized(p, s, o),    "C17.JobSized")
  \cup E(AgentAgrees(p, s, o), "C17.AgentAgrees")
  \cup E(o.jd = Prepared(p, s).jd /\ o.agent = Prepared(p, s).agent, "M17.Arithmetic")

\* the agent's resource manager works with the figures the job requested
AgentRMAgrees(p, s, o, e) ==
  /\ e.ok /\ e.uniform
  /\ e.ncores = CpnT(p, s) /\ e.cpn = AvailC(p, s) /\ SeqSet(e.downc) = SeqSet(p.bc)
  /\ e.ngpus = p.gpn /\ e.gpn = AvailG(p) /\ SeqSet(e.downg) = SeqSet(p.bg)
  /\ e.nnodes = o.agent.nodes
  /\ e.cpn * o.jd.nodes = o.jd.cpus
  /\ AvailG(p) > 0 => e.gpn * o.jd.nodes = o.jd.gpus

\* the launcher the design picks for pilot q of a bulk trace
PickOf(q) == Pick(T.lset, Pilot(q).scheme, PsijExecutors)

\* what the job description of pilot pl must ask for (BPrepared event e)
OwnTerms(pl, e) ==
  /\ e.walltime = pl.runtime /\ e.project = pl.project
  /\ e.queue = (IF pl.queue = "" THEN e.defq ELSE pl.queue)

Init ==
  /\ tid \in 1 .. Len(Traces)
  /\ l = 1 /\ errs = {} /\ fin = FALSE
  /\ bst = IF Traces[tid].kind = "bulk"
           THEN LET P == {Traces[tid].pilots[i].pid : i \in 1 .. Len(Traces[tid].pilots)} IN
                [under |-> [q \in P |-> <<>>], cur |-> <<>>, failed |-> {}, launched |-> {},
                 prepd |-> {}, prep |-> [q \in P |-> <<>>], staged |-> [q \in P |-> 0], jobs |-> [q \in P |-> 0],
                 via |-> [q \in P |-> "none"]]
           ELSE [under |-> <<>>, cur |-> <<>>, failed |-> {}, launched |-> {},
                 prepd |-> {}, prep |-> <<>>, staged |-> <<>>, jobs |-> <<>>, via |-> <<>>]

Step ==
  /\ ~fin /\ l <= Len(Ev)
  /\ LET e == Ev[l] IN
     /\ l' = l + 1
     /\ fin' = FALSE
     /\ CASE e.ev = "Config" ->
               /\ errs' = errs \cup At(ResolveErrs(ToPair(e), Dom), l)
               /\ UNCHANGED bst
          [] e.ev = "Factories" ->
               \* what the real factories said for the names of the Config event
               LET t == ToPair(Ev[l - 1]) IN
               /\ UNCHANGED bst
               /\ errs' = errs \cup At(
                      E(e.rm # "unknown", "C17.RMExists")
                 \cup E(\A i \in 1 .. Len(e.lms) : e.lms[i] # "unknown", "C17.LaunchMethodsExist")
                 \cup E(e.sched # "unknown", "C17.SchedulerExists")
                 \cup E(e.exec # "unknown", "C17.ExecutorExists")
                 \cup E(e.agent, "C17.AgentConfigExists")
                 \* the domains handed to TLC are the factories' behaviour
                 \cup E((e.rm # "unknown") = RMExists(t, Dom), "M17.DomainRM")
                 \cup E(Len(e.lms) = Len(t.lms)
                        /\ \A i \in 1 .. Len(e.lms) : (e.lms[i] # "unknown") = (t.lms[i] \in DomLM),
                        "M17.DomainLM")
                 \cup E((e.sched # "unknown") = SchedExists(t, Dom), "M17.DomainSched")
                 \cup E((e.exec # "unknown") = ExecExists(t, Dom), "M17.DomainExec")
                 \cup E(e.agent = AgentExists(t, Dom), "M17.DomainAgent"), l)
          [] e.ev = "Prepared" ->
               LET o == [jd |-> e.jd, agent |-> e.agent] IN
               /\ errs' = errs \cup (IF ~e.ok THEN {<<"C17.Prepares", l>>}
                                     ELSE At(SizeErrs(T.plat, e.size, o), l))
               /\ UNCHANGED bst
          [] e.ev = "AgentRM" ->
               LET q == Ev[l - 1]
                   o == [jd |-> q.jd, agent |-> q.agent] IN
               /\ errs' = errs \cup At(E(AgentRMAgrees(T.plat, q.size, o, e), "C17.AgentRMAgrees"), l)
               /\ UNCHANGED bst
          [] e.ev = "Bulk" ->
               /\ bst' = [bst EXCEPT !.cur = <<e.res, e.schema>>]
               /\ errs' = errs \cup At(E(\A i \in 1 .. Len(e.pids) : Named(e.pids[i]) = <<e.res, e.schema>>,
                                          "C17.SchemaOfPilot"), l)
          [] e.ev = "Launchers" ->
               \* PSI_J before SAGA, each if its module is installed
               /\ errs' = errs \cup At(E(e.names = T.lset, "M17.LauncherSet"), l)
               /\ UNCHANGED bst
          [] e.ev = "BPrepared" ->
               LET o  == [jd |-> e.jd, agent |-> e.agent]
                   pl == Pilot(e.pid) IN
               /\ bst' = [bst EXCEPT !.under[e.pid] = bst.cur, !.prep[e.pid] = e, !.prepd = @ \cup {e.pid}]
               /\ errs' = errs \cup At(
                      E(e.jm = pl.jm /\ e.fs = pl.fs /\ e.ajm = pl.jm /\ e.res = pl.plat, "C17.SchemaOfPilot")
                 \cup E(OwnTerms(pl, e), "C17.JobTermsPerPilot")
                 \cup (IF e.sized THEN SizeErrs(e.plat, e.size, o) ELSE {}), l)
          [] e.ev = "Staged" ->
               \* the agent config which goes to a pilot's sandbox is the one written for
               \* that pilot and tells the agent the figures prepared for it
               LET known == e.tpid \in bst.prepd IN
               /\ bst' = IF e.tpid \in Pids THEN [bst EXCEPT !.staged[e.tpid] = @ + 1] ELSE bst
               /\ errs' = errs \cup At(
                      E(known /\ e.cpid = e.tpid /\ e.agent = bst.prep[e.tpid].agent, "C17.JobShipsOwnAgent"), l)
          [] e.ev = "Launch" ->
               /\ bst' = [bst EXCEPT !.via = [q \in Pids |-> IF q \in SeqSet(e.pids) THEN e.by ELSE @[q]]]
               /\ errs' = errs \cup At(
                      \* handed to a launcher which cannot launch there: the job is never made
                      E(\A q \in SeqSet(e.pids) \cap Pids : CanLaunch(e.by, Pilot(q).scheme, PsijExecutors),
                        "C17.LauncherCan")
                 \cup E(\A q \in SeqSet(e.pids) \cap Pids : e.by = PickOf(q), "M17.LauncherChoice"), l)
          [] e.ev = "Job" ->
               LET known == e.pid \in bst.prepd
                   own   == bst.prep[e.pid] IN
               /\ bst' = IF e.pid \in Pids THEN [bst EXCEPT !.jobs[e.pid] = @ + 1] ELSE bst
               /\ errs' = errs \cup At(
                      IF ~known THEN {"C17.JobPerPilot"}
                      ELSE   E(SubmitSized(e.by, e.req, own.jd),             "C17.JobSizedPerPilot")
                        \cup E(SubmitTerms(e, own),                         "C17.JobTermsPerPilot")
                        \cup E(e.argpid = e.pid /\ e.dir = own.sandbox,     "C17.JobShipsOwnAgent")
                        \cup E(e.by = bst.via[e.pid],                       "C17.JobPerPilot")
                        \cup E(\A f \in {"nodes", "cpus", "gpus", "pph"} \ Conveys(e.by) :
                                  e.req[f] = 0 \/ e.req[f] = own.jd[f],    "M17.ExtraFigure"), l)
          [] e.ev = "Submit" ->
               /\ bst' = IF e.ok THEN [bst EXCEPT !.launched = @ \cup SeqSet(e.pids)] ELSE bst
               /\ errs' = errs
          [] e.ev = "Adv" ->
               /\ bst' = IF e.state = "FAILED" THEN [bst EXCEPT !.failed = @ \cup SeqSet(e.pids)] ELSE bst
               /\ errs' = errs
          [] OTHER -> errs' = errs \cup {<<"X.UnknownEvent", l>>} /\ UNCHANGED bst
  /\ UNCHANGED tid

\* end of a bulk: every pilot was prepared (under what it named: checked at the
\* events); FAILED exactly the pilots of the bucket whose submission was made to fail
\* and the pilots no installed launcher can take; every other pilot has exactly
\* one job; exactly one agent config went to the sandbox of every prepared pilot
MustFail(q) == Pilot(q).bucket = T.fail \/ PickOf(q) = "none"
BulkErrs ==
  IF T.kind # "bulk" THEN {}
  ELSE LET n == Len(Ev) + 1 IN
       At(  E(\A q \in Pids : bst.under[q] # <<>>, "C17.SchemaOfPilot")
       \cup E(\A q \in Pids :
                 ((q \in bst.failed /\ bst.under[q] # <<>>) => MustFail(q))
                 /\ (MustFail(q) => (q \in bst.failed)),
              "C17.LaunchFailureLocal")
       \cup E(\A q \in Pids : q \notin bst.failed => (bst.jobs[q] = 1 /\ q \in bst.launched),
              "C17.JobPerPilot")
       \cup E(\A q \in Pids : bst.jobs[q] <= 1, "C17.JobPerPilot")
       \cup E(\A q \in Pids : q \notin bst.failed => bst.staged[q] = 1, "C17.JobShipsOwnAgent"), n)

Finish ==
  /\ ~fin /\ l > Len(Ev)
  /\ fin' = TRUE
  /\ PrintT(<<"RESULT", T.tid, errs \cup BulkErrs>>)
  /\ UNCHANGED <<tid, l, bst, errs>>

Next == Step \/ Finish
Spec == Init /\ [][Next]_vars
=============================================================================
