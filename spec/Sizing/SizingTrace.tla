---------------------------- MODULE SizingTrace -----------------------------
(***************************************************************************)
(* Trace monitor for C17.  Two kinds of traces recorded by sizing_rig.py:  *)
(*                                                                         *)
(* kind "resolve" (one per shipped platform x schema):                     *)
(*   Config     outcome of the real Session.get_resource_config            *)
(*   Factories  what the real factories (ResourceManager.create,           *)
(*              LaunchMethod.create, AgentSchedulingComponent.create,      *)
(*              AgentExecutingComponent.create, constructors stubbed) and  *)
(*              the agent config lookup returned for the resolved names    *)
(* kind "size" (one per platform, one event per pilot size):               *)
(*   Prepared   node_count / total_cpu_count / total_gpu_count of the job  *)
(*              description and nodes / cores / gpus of the agent config   *)
(*              produced by the real _prepare_pilot                        *)
(*                                                                         *)
(*   AgentRM    (after a Prepared) the platform's real resource manager     *)
(*              initialised from the agent config _prepare_pilot wrote, in *)
(*              a faked allocation of the size the job requests            *)
(* kind "bulk" (one per bulk of 2-3 pilots run through the real work() ->  *)
(*   _start_pilot_bulk -> _prepare_pilot):                                 *)
(*   Bulk       _start_pilot_bulk(resource, schema, pilots) was entered    *)
(*   BPrepared  _prepare_pilot returned for a pilot: endpoints of the      *)
(*              resource config it was given, figures as in Prepared       *)
(*   Submit     the launcher was handed the pilots (ok = it did not raise) *)
(*   Adv        advance(pilots, state)                                     *)
(*                                                                         *)
(* errs collects <<clause, event index>>; "C17." clauses of the property,  *)
(* "M17." disagreement between code and model that breaks no clause.      *)
(* The factories' domains are constants of the batch.                      *)
(***************************************************************************)
EXTENDS SizingOps, TLC, Json, IOUtils

CONSTANTS DomRM, DomLM, DomSched, DomExec, DomAgent

Dom == [rm |-> DomRM, lm |-> DomLM, sched |-> DomSched, exec |-> DomExec, agent |-> DomAgent]

Batch  == JsonDeserialize(IOEnv.TRACE_FILE)
Traces == Batch.traces

VARIABLES tid, l, bst, errs, fin

vars == <<tid, l, bst, errs, fin>>

T  == Traces[tid]
Ev == T.events

At(S, i) == {<<c, i>> : c \in S}

ToPair(e) == [name |-> T.name, schema |-> T.schema, ok |-> e.ok, rm |-> e.rm, lms |-> e.lms,
              lmkeys |-> SeqSet(e.lmkeys), sched |-> e.sched, spawner |-> e.spawner,
              agentcfg |-> e.agentcfg, defschema |-> e.defschema, schemas |-> SeqSet(e.schemas),
              jm |-> e.jm, fs |-> e.fs]

(* ---- bulk traces: bookkeeping per pilot ------------------------------------ *)
Pids       == {T.pilots[i].pid : i \in 1 .. Len(T.pilots)}
Pilot(pid) == CHOOSE p \in SeqSet(T.pilots) : p.pid = pid
Named(pid) == <<Pilot(pid).plat, Pilot(pid).schema>>

SizeErrs(p, s, o) ==
       E(Minimal(p, s, o),     "C17.Minimal")
  \cup E(CoversReq(p, s, o),   "C17.Covers")
  \cup E(NodesGiven(p, s, o),  "C17.NodesGiven")
  \cup E(JobSized(p, s, o),    "C17.JobSized")
  \cup E(AgentAgrees(p, s, o), "C17.AgentAgrees")
  \cup E(o.jd = Prepared(p, s).jd /\ o.agent = Prepared(p, s).agent, "M17.Arithmetic")

\* the agent's resource manager works with the figures the job requested
AgentRMAgrees(p, s, o, e) ==
  /\ e.ok /\ e.uniform
  /\ e.ncores = CpnT(p, s) /\ e.cpn = AvailC(p, s) /\ SeqSet(e.downc) = SeqSet(p.bc)
  /\ e.ngpus = p.gpn /\ e.gpn = AvailG(p) /\ SeqSet(e.downg) = SeqSet(p.bg)
  /\ e.nnodes = o.agent.nodes
  /\ e.cpn * o.jd.nodes = o.jd.cpus
  /\ AvailG(p) > 0 => e.gpn * o.jd.nodes = o.jd.gpus

Init ==
  /\ tid \in 1 .. Len(Traces)
  /\ l = 1 /\ errs = {} /\ fin = FALSE
  /\ bst = IF Traces[tid].kind = "bulk"
           THEN [under |-> [q \in {Traces[tid].pilots[i].pid : i \in 1 .. Len(Traces[tid].pilots)} |-> <<>>],
                 cur |-> <<>>, failed |-> {}, launched |-> {}]
           ELSE [under |-> <<>>, cur |-> <<>>, failed |-> {}, launched |-> {}]

Step ==
  /\ ~fin /\ l <= Len(Ev)
  /\ LET e == Ev[l] IN
     /\ l' = l + 1
     /\ fin' = FALSE
     /\ CASE e.ev = "Config" ->
               /\ errs' = errs \cup At(ResolveErrs(ToPair(e), Dom), l)
               /\ UNCHANGED bst
          [] e.ev = "Factories" ->
               \* what the real factories said for the names of the Config event
               LET t == ToPair(Ev[l - 1]) IN
               /\ UNCHANGED bst
               /\ errs' = errs \cup At(
                      E(e.rm # "unknown", "C17.RMExists")
                 \cup E(\A i \in 1 .. Len(e.lms) : e.lms[i] # "unknown", "C17.LaunchMethodsExist")
                 \cup E(e.sched # "unknown", "C17.SchedulerExists")
                 \cup E(e.exec # "unknown", "C17.ExecutorExists")
                 \cup E(e.agent, "C17.AgentConfigExists")
                 \* the domains handed to TLC are the factories' behaviour
                 \cup E((e.rm # "unknown") = RMExists(t, Dom), "M17.DomainRM")
                 \cup E(Len(e.lms) = Len(t.lms)
                        /\ \A i \in 1 .. Len(e.lms) : (e.lms[i] # "unknown") = (t.lms[i] \in DomLM),
                        "M17.DomainLM")
                 \cup E((e.sched # "unknown") = SchedExists(t, Dom), "M17.DomainSched")
                 \cup E((e.exec # "unknown") = ExecExists(t, Dom), "M17.DomainExec")
                 \cup E(e.agent = AgentExists(t, Dom), "M17.DomainAgent"), l)
          [] e.ev = "Prepared" ->
               LET o == [jd |-> e.jd, agent |-> e.agent] IN
               /\ errs' = errs \cup (IF ~e.ok THEN {<<"C17.Prepares", l>>}
                                     ELSE At(SizeErrs(T.plat, e.size, o), l))
               /\ UNCHANGED bst
          [] e.ev = "AgentRM" ->
               LET q == Ev[l - 1]
                   o == [jd |-> q.jd, agent |-> q.agent] IN
               /\ errs' = errs \cup At(E(AgentRMAgrees(T.plat, q.size, o, e), "C17.AgentRMAgrees"), l)
               /\ UNCHANGED bst
          [] e.ev = "Bulk" ->
               /\ bst' = [bst EXCEPT !.cur = <<e.res, e.schema>>]
               /\ errs' = errs \cup At(E(\A i \in 1 .. Len(e.pids) : Named(e.pids[i]) = <<e.res, e.schema>>,
                                          "C17.SchemaOfPilot"), l)
          [] e.ev = "BPrepared" ->
               LET o  == [jd |-> e.jd, agent |-> e.agent]
                   pl == Pilot(e.pid) IN
               /\ bst' = [bst EXCEPT !.under[e.pid] = bst.cur]
               /\ errs' = errs \cup At(
                      E(e.jm = pl.jm /\ e.fs = pl.fs /\ e.ajm = pl.jm /\ e.res = pl.plat, "C17.SchemaOfPilot")
                 \cup (IF e.sized THEN SizeErrs(e.plat, e.size, o) ELSE {}), l)
          [] e.ev = "Submit" ->
               /\ bst' = IF e.ok THEN [bst EXCEPT !.launched = @ \cup SeqSet(e.pids)] ELSE bst
               /\ errs' = errs
          [] e.ev = "Adv" ->
               /\ bst' = IF e.state = "FAILED" THEN [bst EXCEPT !.failed = @ \cup SeqSet(e.pids)] ELSE bst
               /\ errs' = errs
          [] OTHER -> errs' = errs \cup {<<"X.UnknownEvent", l>>} /\ UNCHANGED bst
  /\ UNCHANGED tid

\* end of a bulk: every pilot was prepared (under what it named: checked at the
\* events); FAILED exactly the pilots of the bucket whose submission was made to fail
BulkErrs ==
  IF T.kind # "bulk" THEN {}
  ELSE LET n == Len(Ev) + 1 IN
       At(  E(\A q \in Pids : bst.under[q] # <<>>, "C17.SchemaOfPilot")
       \cup E(\A q \in Pids :
                 ((q \in bst.failed /\ bst.under[q] # <<>>) => (Pilot(q).bucket = T.fail))
                 /\ ((Pilot(q).bucket = T.fail) => (q \in bst.failed)),
              "C17.LaunchFailureLocal"), n)

Finish ==
  /\ ~fin /\ l > Len(Ev)
  /\ fin' = TRUE
  /\ PrintT(<<"RESULT", T.tid, errs \cup BulkErrs>>)
  /\ UNCHANGED <<tid, l, bst, errs>>

Next == Step \/ Finish
Spec == Init /\ [][Next]_vars
=============================================================================
