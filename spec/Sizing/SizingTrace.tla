---------------------------- MODULE SizingTrace -----------------------------
(***************************************************************************)
(* Trace monitor for C17.  Two kinds of traces recorded by sizing_rig.py:  *)
(*                                                                         *)
(* kind "resolve" (one per shipped platform x schema):                     *)
(*   Config     outcome of the real Session.get_resource_config            *)
(*   Factories  what the real factories (ResourceManager.create,           *)
(*              LaunchMethod.create, AgentSchedulingComponent.create,      *)
(*              AgentExecutingComponent.create, constructors stubbed) and  *)
(*              the agent config lookup returned for the resolved names    *)
(* kind "size" (one per platform, one event per pilot size):               *)
(*   Prepared   node_count / total_cpu_count / total_gpu_count of the job  *)
(*              description and nodes / cores / gpus of the agent config   *)
(*              produced by the real _prepare_pilot                        *)
(*                                                                         *)
(* errs collects <<clause, event index>>; "C17." clauses of the property,  *)
(* "M17." disagreement between code and model that breaks no clause.      *)
(* The factories' domains are constants of the batch.                      *)
(***************************************************************************)
EXTENDS SizingOps, TLC, Json, IOUtils

CONSTANTS DomRM, DomLM, DomSched, DomExec, DomAgent

Dom == [rm |-> DomRM, lm |-> DomLM, sched |-> DomSched, exec |-> DomExec, agent |-> DomAgent]

Batch  == JsonDeserialize(IOEnv.TRACE_FILE)
Traces == Batch.traces

VARIABLES tid, l, errs, fin

vars == <<tid, l, errs, fin>>

T  == Traces[tid]
Ev == T.events

At(S, i) == {<<c, i>> : c \in S}

ToPair(e) == [name |-> T.name, schema |-> T.schema, ok |-> e.ok, rm |-> e.rm, lms |-> e.lms,
              lmkeys |-> SeqSet(e.lmkeys), sched |-> e.sched, spawner |-> e.spawner,
              agentcfg |-> e.agentcfg, defschema |-> e.defschema, schemas |-> SeqSet(e.schemas),
              jm |-> e.jm, fs |-> e.fs]

Init ==
  /\ tid \in 1 .. Len(Traces)
  /\ l = 1 /\ errs = {} /\ fin = FALSE

Step ==
  /\ ~fin /\ l <= Len(Ev)
  /\ LET e == Ev[l] IN
     /\ l' = l + 1
     /\ fin' = FALSE
     /\ CASE e.ev = "Config" ->
               errs' = errs \cup At(ResolveErrs(ToPair(e), Dom), l)
          [] e.ev = "Factories" ->
               \* what the real factories said for the names of the Config event
               LET t == ToPair(Ev[l - 1]) IN
               errs' = errs \cup At(
                      E(e.rm # "unknown", "C17.RMExists")
                 \cup E(\A i \in 1 .. Len(e.lms) : e.lms[i] # "unknown", "C17.LaunchMethodsExist")
                 \cup E(e.sched # "unknown", "C17.SchedulerExists")
                 \cup E(e.exec # "unknown", "C17.ExecutorExists")
                 \cup E(e.agent, "C17.AgentConfigExists")
                 \* the domains handed to TLC are the factories' behaviour
                 \cup E((e.rm # "unknown") = RMExists(t, Dom), "M17.DomainRM")
                 \cup E(Len(e.lms) = Len(t.lms)
                        /\ \A i \in 1 .. Len(e.lms) : (e.lms[i] # "unknown") = (t.lms[i] \in DomLM),
                        "M17.DomainLM")
                 \cup E((e.sched # "unknown") = SchedExists(t, Dom), "M17.DomainSched")
                 \cup E((e.exec # "unknown") = ExecExists(t, Dom), "M17.DomainExec")
                 \cup E(e.agent = AgentExists(t, Dom), "M17.DomainAgent"), l)
          [] e.ev = "Prepared" ->
               LET p == T.plat
                   s == e.size
                   o == [jd |-> e.jd, agent |-> e.agent] IN
               IF ~e.ok THEN errs' = errs \cup {<<"C17.Prepares", l>>}
               ELSE errs' = errs \cup At(
                      E(Minimal(p, s, o),     "C17.Minimal")
                 \cup E(CoversReq(p, s, o),   "C17.Covers")
                 \cup E(NodesGiven(p, s, o),  "C17.NodesGiven")
                 \cup E(JobSized(p, s, o),    "C17.JobSized")
                 \cup E(AgentAgrees(p, s, o), "C17.AgentAgrees")
                 \cup E(o.jd = Prepared(p, s).jd /\ o.agent = Prepared(p, s).agent, "M17.Arithmetic"), l)
          [] OTHER -> errs' = errs \cup {<<"X.UnknownEvent", l>>}
  /\ UNCHANGED tid

Finish ==
  /\ ~fin /\ l > Len(Ev)
  /\ fin' = TRUE
  /\ PrintT(<<"RESULT", T.tid, errs>>)
  /\ UNCHANGED <<tid, l, errs>>

Next == Step \/ Finish
Spec == Init /\ [][Next]_vars
=============================================================================
