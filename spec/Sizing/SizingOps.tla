----------------------------- MODULE SizingOps ------------------------------
(***************************************************************************)
(* Pure operators shared by the design model Sizing and the trace monitor  *)
(* SizingTrace (C17).                                                      *)
(*                                                                         *)
(* (a) Resolution.  A resolved (platform, schema) pair is a record         *)
(*   [name, schema, ok, rm, lms, lmkeys, sched, spawner, agentcfg,         *)
(*    defschema, schemas, jm, fs]                                          *)
(* as Session.get_resource_config returns it: `ok` = schema merge and      *)
(* verify() succeeded; `lms` = the launch methods in the order the agent   *)
(* tries them (launch_methods.order, else the keys); `lmkeys` = all keys   *)
(* of the launch_methods section (the scheduler factory looks for JSRUN    *)
(* there); `jm` / `fs` = job manager / file system endpoint are given.     *)
(* The domains D = [rm, lm, sched, exec, agent] are the key sets of the    *)
(* factories' tables, extracted from the code when the check runs.         *)
(*                                                                         *)
(* (b) Sizing.  A platform is [name, cpn, gpn, smt, nbc, nbg] (cores and   *)
(* GPUs per node, hardware threads per core, numbers of blocked cores and  *)
(* GPUs); a pilot size is [nodes, cores, gpus, backup, smt] (smt = 0: the  *)
(* platform's value, else $RADICAL_SMT).                                   *)
(*                                                                         *)
(* (c) Launcher side.  Which pilot launcher (PSI_J, SAGA) takes the pilots *)
(* of a resolved (platform, schema), and what of a pilot's job description *)
(* the launcher's interface carries to the batch system.                   *)
(***************************************************************************)
EXTENDS Integers, Sequences, FiniteSets

SeqSet(s)     == {s[i] : i \in 1 .. Len(s)}
MaxOf(a, b)   == IF a >= b THEN a ELSE b
CeilDiv(a, b) == (a + b - 1) \div b

(* ---- (a) resolution ------------------------------------------------------ *)
\* AgentSchedulingComponent.create switches CONTINUOUS to CONTINUOUS_JSRUN when
\* the platform has a JSRUN launch method section
EffSched(t) == IF "JSRUN" \in t.lmkeys /\ t.sched = "CONTINUOUS" THEN "CONTINUOUS_JSRUN" ELSE t.sched

RMExists(t, D)      == t.rm \in D.rm
LMsExist(t, D)      == /\ Len(t.lms) > 0
                       /\ \A i \in 1 .. Len(t.lms) : t.lms[i] \in D.lm /\ t.lms[i] \in t.lmkeys
SchedExists(t, D)   == EffSched(t) \in D.sched
ExecExists(t, D)    == t.spawner \in D.exec
AgentExists(t, D)   == t.agentcfg \in D.agent
SchemaOK(t)         == t.ok /\ (t.schema = "" => t.defschema \in t.schemas)
EndpointsGiven(t)   == t.jm /\ t.fs

Resolves(t, D) == /\ SchemaOK(t) /\ RMExists(t, D) /\ LMsExist(t, D) /\ SchedExists(t, D)
                  /\ ExecExists(t, D) /\ AgentExists(t, D) /\ EndpointsGiven(t)

E(cond, name) == IF cond THEN {} ELSE {name}

\* a pair that does not even load has nothing else to look at
ResolveErrs(t, D) ==
  IF ~t.ok THEN {"C17.SchemaResolves"}
  ELSE   E(SchemaOK(t),       "C17.SchemaResolves")
    \cup E(RMExists(t, D),    "C17.RMExists")
    \cup E(LMsExist(t, D),    "C17.LaunchMethodsExist")
    \cup E(SchedExists(t, D), "C17.SchedulerExists")
    \cup E(ExecExists(t, D),  "C17.ExecutorExists")
    \cup E(AgentExists(t, D), "C17.AgentConfigExists")
    \cup E(EndpointsGiven(t), "C17.EndpointsGiven")

(* ---- (b) node / core / GPU arithmetic ------------------------------------ *)
Smt(p, s)    == IF s.smt > 0 THEN s.smt ELSE p.smt
CpnT(p, s)   == p.cpn * Smt(p, s)                  \* hardware threads of a node
AvailC(p, s) == CpnT(p, s) - p.nbc                 \* usable cores of a node
AvailG(p)    == p.gpn - p.nbg                      \* usable GPUs of a node

\* n nodes cover the request
Covers(p, s, n) == /\ n * AvailC(p, s) >= s.cores
                   /\ AvailG(p) > 0 => n * AvailG(p) >= s.gpus

\* the figures _prepare_pilot is meant to derive
Nodes(p, s) == IF s.nodes > 0 THEN s.nodes
               ELSE MaxOf(CeilDiv(s.cores, AvailC(p, s)),
                          IF AvailG(p) > 0 THEN CeilDiv(s.gpus, AvailG(p)) ELSE 0)

Figures(p, s, n) ==
  LET tot == n + s.backup
      cpu == tot * AvailC(p, s)
      gpu == IF AvailG(p) > 0 THEN tot * AvailG(p) ELSE s.gpus   \* no usable GPU known: request passed on
  IN [jd    |-> [nodes |-> tot, cpus |-> cpu, gpus |-> gpu, pph |-> AvailC(p, s), smt |-> Smt(p, s)],
      agent |-> [nodes |-> n, backup |-> s.backup, cores |-> cpu, gpus |-> gpu,
                 cpn |-> CpnT(p, s), gpn |-> p.gpn]]

Prepared(p, s) == Figures(p, s, Nodes(p, s))

\* the properties on an outcome o = [jd, agent]
Minimal(p, s, o) ==      \* size given as cores / GPUs: no smaller node count covers it
  s.nodes = 0 => LET n == o.jd.nodes - s.backup
                 IN n >= 0 /\ (n = 0 \/ ~Covers(p, s, n - 1))
CoversReq(p, s, o) == s.nodes = 0 => Covers(p, s, o.jd.nodes - s.backup)
NodesGiven(p, s, o) == s.nodes > 0 => o.jd.nodes = s.nodes + s.backup
JobSized(p, s, o) ==     \* whole nodes: cores and GPUs follow from the node count
  /\ o.jd.cpus = o.jd.nodes * AvailC(p, s)
  /\ AvailG(p) > 0 => o.jd.gpus = o.jd.nodes * AvailG(p)
  /\ o.jd.smt = Smt(p, s)
AgentAgrees(p, s, o) ==
  /\ o.agent.nodes + o.agent.backup = o.jd.nodes /\ o.agent.backup = s.backup
  /\ o.agent.cores = o.jd.cpus /\ o.agent.gpus = o.jd.gpus
  /\ o.agent.cpn = CpnT(p, s) /\ o.agent.gpn = p.gpn

(* ---- (c) the launcher side: which launcher, what the job requests ----------- *)
(* pmgr/launching/base.py asks its launchers in the order it constructed them  *)
(* (PSI_J before SAGA, each only if its optional module is installed) and      *)
(* takes the first which can_launch() the resolved resource configuration.     *)
(* `parts` = the "+"-separated parts of the job manager endpoint's URL scheme  *)
(* ("slurm+ssh://host" -> <<"slurm", "ssh">>), X = the executors psij knows.   *)
\* PilotLauncherPSIJ._get_schema: exactly one part besides ssh / gsissh names the
\* batch system ("" = PSI/J cannot handle the endpoint)
PsijName(parts) ==
  LET r == SelectSeq(parts, LAMBDA x : x \notin {"ssh", "gsissh"})
  IN IF Len(r) # 1 THEN ""
     ELSE IF r[1] = "pbspro" THEN "pbs" ELSE IF r[1] = "fork" THEN "local" ELSE r[1]

CanLaunch(l, parts, X) == IF l = "PSI_J" THEN PsijName(parts) \in X ELSE l = "SAGA"

\* the launcher a pilot goes to ("none": no installed launcher can take it)
Pick(lset, parts, X) ==
  LET ok == SelectSeq(lset, LAMBDA l : CanLaunch(l, parts, X))
  IN IF Len(ok) = 0 THEN "none" ELSE ok[1]

\* figures of the job description which the launcher's interface to the batch
\* system carries: PSI/J ResourceSpecV1(node_count, process_count); SAGA derives
\* the node count itself from total_cpu_count / processes_per_host
Conveys(l) == IF l = "PSI_J" THEN {"nodes", "cpus"} ELSE {"cpus", "gpus", "pph"}

\* the submitted job `sub` requests what _prepare_pilot computed for this pilot (`jd`)
SubmitSized(l, sub, jd) == \A f \in Conveys(l) : sub[f] = jd[f]
SubmitTerms(sub, own)   == sub.walltime = own.walltime /\ sub.queue = own.queue /\ sub.project = own.project

\* pilot sizes around multiples of the node size
CoreSizes(a, ks) == {x \in {k * a + d : k \in ks, d \in {-1, 0, 1}} : x >= 1}
GpuSizes(g, ks)  == IF g > 0 THEN {x \in {k * g + d : k \in ks, d \in {-1, 0, 1}} : x >= 0}
                    ELSE {0, 1, 3}
=============================================================================
