----------------------------- MODULE SizingBulk -----------------------------
(***************************************************************************)
(* Design model of PMGRLaunchingComponent.work() (pmgr/launching/base.py): *)
(* a bulk of pilots which name different platforms / access schemas is     *)
(* sorted into (resource, schema) buckets (python dicts: insertion order), *)
(* each bucket is resolved (Session.get_resource_config(resource, schema)),*)
(* its pilots are prepared (_prepare_pilot) and submitted; a bucket whose   *)
(* launch raises is advanced to FAILED, the others to PMGR_ACTIVE_PENDING.  *)
(*                                                                         *)
(* C17: a pilot description naming (platform, schema) is turned into a     *)
(* batch job under exactly that pair - whatever else is in the bulk and in *)
(* whatever order.  Ghost `under` records the pair each pilot was prepared *)
(* under, `everFailed` the pilots ever reported FAILED.  TLC chooses the   *)
(* bulk (2-3 pilots over a group of (platform, schema) choices, every      *)
(* order) and the bucket whose submission fails (0 = none).                *)
(***************************************************************************)
EXTENDS Naturals, Sequences, FiniteSets, TLC

CONSTANTS Groups,         \* set of sets of choices <<platform, schema>> ("" = none named)
          SchemasOf,      \* [platform -> schemas the platform declares]
          BulkSizes,      \* numbers of pilots in a bulk
          PrintCases,
          DevStaleSchema,   \* bucket resolved under the schema of the last pilot of the bulk
          DevFailAll        \* a failing bucket fails all pilots of the call

VARIABLES bulk, fail, buckets, pos, under, st, everFailed, phase

vars == <<bulk, fail, buckets, pos, under, st, everFailed, phase>>

IsIn(x, s) == \E i \in 1 .. Len(s) : s[i] = x

RECURSIVE Distinct(_)
Distinct(s) == IF Len(s) = 0 THEN <<>>
               ELSE LET d == Distinct(SubSeq(s, 1, Len(s) - 1))
                        x == s[Len(s)]
                    IN IF IsIn(x, d) THEN d ELSE Append(d, x)

RECURSIVE Flatten(_)
Flatten(ss) == IF Len(ss) = 0 THEN <<>> ELSE ss[1] \o Flatten(Tail(ss))

\* buckets[resource][schema] of work(): resources in first-appearance order, the
\* schemas of a resource in first-appearance order
BucketsOf(b) ==
  LET rs == Distinct([i \in 1 .. Len(b) |-> b[i][1]])
  IN Flatten([k \in 1 .. Len(rs) |->
                Distinct(SelectSeq(b, LAMBDA c : c[1] = rs[k]))])

Members(b, bk) == {i \in 1 .. Len(b) : b[i] = bk}

Bulks(g) == UNION {[1 .. n -> g] : n \in BulkSizes}

Init ==
  /\ \E g \in Groups : bulk \in Bulks(g)
  /\ fail \in 0 .. Len(BucketsOf(bulk))
  /\ buckets = <<>> /\ pos = 0
  /\ under = [i \in 1 .. Len(bulk) |-> <<>>]
  /\ st = [i \in 1 .. Len(bulk) |-> "LAUNCHING_PENDING"]
  /\ everFailed = {} /\ phase = "start"

Sort ==
  /\ phase = "start"
  /\ buckets' = BucketsOf(bulk) /\ pos' = 1
  /\ st' = [i \in 1 .. Len(bulk) |-> "LAUNCHING"]
  /\ phase' = "loop"
  /\ (PrintCases => PrintT(<<"BULK", bulk, fail>>))
  /\ UNCHANGED <<bulk, fail, under, everFailed>>

\* one iteration of the loop over the buckets
Launch ==
  /\ phase = "loop" /\ pos <= Len(buckets)
  /\ LET bk   == buckets[pos]
         mem  == Members(bulk, bk)
         sch  == IF DevStaleSchema THEN bulk[Len(bulk)][2] ELSE bk[2]
         res  == sch = "" \/ sch \in SchemasOf[bk[1]]        \* get_resource_config succeeds
         bad  == ~res \/ pos = fail
         hit  == IF DevFailAll THEN 1 .. Len(bulk) ELSE mem
     IN /\ under' = [i \in 1 .. Len(bulk) |-> IF i \in mem /\ res THEN <<bk[1], sch>> ELSE under[i]]
        /\ st' = [i \in 1 .. Len(bulk) |->
                    IF bad THEN (IF i \in hit THEN "FAILED" ELSE st[i])
                    ELSE (IF i \in mem THEN "ACTIVE_PENDING" ELSE st[i])]
        /\ everFailed' = IF bad THEN everFailed \cup hit ELSE everFailed
  /\ pos' = pos + 1
  /\ phase' = IF pos = Len(buckets) THEN "done" ELSE "loop"
  /\ UNCHANGED <<bulk, fail, buckets>>

Next == Sort \/ Launch
Spec == Init /\ [][Next]_vars

TypeOK == phase \in {"start", "loop", "done"}

\* every pilot is prepared under exactly the (platform, schema) it named
InvSchemaOfPilot == \A i \in 1 .. Len(bulk) : under[i] # <<>> => under[i] = bulk[i]
InvAllPrepared   == phase = "done" => \A i \in 1 .. Len(bulk) : under[i] # <<>>
\* a launch failure of one bucket fails exactly the pilots of that bucket
InvLaunchFailureLocal ==
  phase = "done" => everFailed = (IF fail = 0 THEN {} ELSE Members(bulk, buckets[fail]))
InvOthersPending ==
  phase = "done" => \A i \in 1 .. Len(bulk) : i \notin everFailed => st[i] = "ACTIVE_PENDING"
=============================================================================
