----------------------------- MODULE SizingBulk -----------------------------
(***************************************************************************)
(* Design model of PMGRLaunchingComponent.work() (pmgr/launching/base.py)  *)
(* down to the launcher (pmgr/launching/psi_j.py, saga.py):                *)
(* a bulk of pilots which name different platforms / access schemas and    *)
(* are of different size is sorted into (resource, schema) buckets (python *)
(* dicts: insertion order), each bucket is resolved                        *)
(* (Session.get_resource_config(resource, schema)), its pilots are         *)
(* prepared (_prepare_pilot), the first installed launcher which can       *)
(* launch the resolved configuration is picked and is handed the pilots of *)
(* the bucket; it submits ONE batch job PER PILOT.  A bucket whose launch  *)
(* raises (no launcher, submission refused) is advanced to FAILED, the     *)
(* others to PMGR_ACTIVE_PENDING.                                          *)
(*                                                                         *)
(* C17: a pilot description naming (platform, schema) is turned into a     *)
(* batch job under exactly that pair - whatever else is in the bulk and in *)
(* whatever order - and the job submitted for a pilot requests that        *)
(* pilot's own size (nodes / cores / gpus), walltime / queue / project and *)
(* carries that pilot's own arguments / sandbox / agent config - whichever *)
(* launcher is picked and whatever else is in the bucket.                  *)
(*                                                                         *)
(* Ghosts: `under` the pair each pilot was prepared under, `everFailed`    *)
(* the pilots ever reported FAILED, `via` the launcher a pilot was handed   *)
(* to, `job` for every submitted pilot the pilots whose prepared figures   *)
(* (res), terms and agent data the job was built from.                     *)
(*                                                                         *)
(* TLC chooses the bulk (1-3 pilots over a group of (platform, schema)     *)
(* choices, every order), the size of each pilot (abstract size ids: a     *)
(* different id is a different request in every respect; only the pattern  *)
(* of equal / different matters, so the ids are canonical: the first pilot *)
(* is size 1, a new size is the next id), the launchers installed, and the *)
(* bucket whose submission is refused (0 = none).                          *)
(***************************************************************************)
EXTENDS SizingOps, TLC

CONSTANTS Groups,         \* set of sets of choices <<platform, schema>> ("" = none named)
          SchemasOf,      \* [platform -> schemas the platform declares]
          SchemeOf,       \* [choice -> parts of the URL scheme of its job manager endpoint]
          PsijExecutors,  \* batch systems psij has an executor for
          LauncherSets,   \* set of sequences: launchers the component holds, in the order it asks them
          SizeIds,        \* 1 .. K
          BulkSizes,      \* numbers of pilots in a bulk
          PrintCases,
          DevStaleSchema,         \* bucket resolved under the schema of the last pilot of the bulk
          DevFailAll,             \* a failing bucket fails all pilots of the call
          DevSpecFromFirstPilot,  \* launcher builds the resource request once, from the first pilot it is handed
          DevLauncherPerResource  \* launcher picked once per resource (first schema seen), not per (resource, schema)

VARIABLES bulk, size, lset, fail, buckets, pos, under, st, everFailed, via, job, phase

vars == <<bulk, size, lset, fail, buckets, pos, under, st, everFailed, via, job, phase>>

IsIn(x, s) == \E i \in 1 .. Len(s) : s[i] = x

RECURSIVE Distinct(_)
Distinct(s) == IF Len(s) = 0 THEN <<>>
               ELSE LET d == Distinct(SubSeq(s, 1, Len(s) - 1))
                        x == s[Len(s)]
                    IN IF IsIn(x, d) THEN d ELSE Append(d, x)

RECURSIVE Flatten(_)
Flatten(ss) == IF Len(ss) = 0 THEN <<>> ELSE ss[1] \o Flatten(Tail(ss))

\* buckets[resource][schema] of work(): resources in first-appearance order, the
\* schemas of a resource in first-appearance order
BucketsOf(b) ==
  LET rs == Distinct([i \in 1 .. Len(b) |-> b[i][1]])
  IN Flatten([k \in 1 .. Len(rs) |->
                Distinct(SelectSeq(b, LAMBDA c : c[1] = rs[k]))])

Members(b, bk) == {i \in 1 .. Len(b) : b[i] = bk}
MinOf(S)       == CHOOSE x \in S : \A y \in S : x <= y

Bulks(g) == UNION {[1 .. n -> g] : n \in BulkSizes}

\* canonical size patterns (restricted growth): 1, 11, 12, 111, 112, 121, 122, 123
Canon(s) == \A i \in 1 .. Len(s) :
              \/ s[i] = 1
              \/ \E j \in 1 .. i - 1 : s[j] = s[i] \/ s[j] = s[i] - 1

Init ==
  /\ \E g \in Groups : bulk \in Bulks(g)
  /\ size \in {s \in [1 .. Len(bulk) -> SizeIds] : Canon(s)}
  /\ lset \in LauncherSets
  /\ fail \in 0 .. Len(BucketsOf(bulk))
  /\ buckets = <<>> /\ pos = 0
  /\ under = [i \in 1 .. Len(bulk) |-> <<>>]
  /\ st = [i \in 1 .. Len(bulk) |-> "LAUNCHING_PENDING"]
  /\ via = [i \in 1 .. Len(bulk) |-> "none"]
  /\ job = [i \in 1 .. Len(bulk) |-> <<>>]
  /\ everFailed = {} /\ phase = "start"

Sort ==
  /\ phase = "start"
  /\ buckets' = BucketsOf(bulk) /\ pos' = 1
  /\ st' = [i \in 1 .. Len(bulk) |-> "LAUNCHING"]
  /\ phase' = "loop"
  /\ (PrintCases => PrintT(<<"BULK", bulk, fail, size, lset,
                              [i \in 1 .. Len(bulk) |-> Pick(lset, SchemeOf[bulk[i]], PsijExecutors)],
                              [i \in 1 .. Len(bulk) |-> CHOOSE k \in 1 .. Len(buckets') : buckets'[k] = bulk[i]]>>))
  /\ UNCHANGED <<bulk, size, lset, fail, under, everFailed, via, job>>

\* the launcher _start_pilot_bulk picks for the pilots of bucket bk
PickFor(bk) ==
  LET first == CHOOSE k \in 1 .. Len(buckets) :
                 buckets[k][1] = bk[1] /\ \A m \in 1 .. k - 1 : buckets[m][1] # bk[1]
      lk    == IF DevLauncherPerResource THEN buckets[first] ELSE bk
  IN Pick(lset, SchemeOf[lk], PsijExecutors)

\* one iteration of the loop over the buckets: resolve, prepare, pick, launch
Launch ==
  /\ phase = "loop" /\ pos <= Len(buckets)
  /\ LET bk   == buckets[pos]
         mem  == Members(bulk, bk)
         sch  == IF DevStaleSchema THEN bulk[Len(bulk)][2] ELSE bk[2]
         res  == sch = "" \/ sch \in SchemasOf[bk[1]]        \* get_resource_config succeeds
         l    == PickFor(bk)
         bad  == ~res \/ l = "none" \/ pos = fail             \* _start_pilot_bulk raises
         hit  == IF DevFailAll THEN 1 .. Len(bulk) ELSE mem
         head == MinOf(mem)                                   \* first pilot the launcher is handed
     IN /\ under' = [i \in 1 .. Len(bulk) |-> IF i \in mem /\ res THEN <<bk[1], sch>> ELSE under[i]]
        /\ via'   = [i \in 1 .. Len(bulk) |-> IF i \in mem /\ res THEN l ELSE via[i]]
        /\ job'   = [i \in 1 .. Len(bulk) |->
                       IF i \in mem /\ ~bad
                       THEN [res   |-> IF DevSpecFromFirstPilot THEN head ELSE i,
                             terms |-> i, agent |-> i]
                       ELSE job[i]]
        /\ st' = [i \in 1 .. Len(bulk) |->
                    IF bad THEN (IF i \in hit THEN "FAILED" ELSE st[i])
                    ELSE (IF i \in mem THEN "ACTIVE_PENDING" ELSE st[i])]
        /\ everFailed' = IF bad THEN everFailed \cup hit ELSE everFailed
  /\ pos' = pos + 1
  /\ phase' = IF pos = Len(buckets) THEN "done" ELSE "loop"
  /\ UNCHANGED <<bulk, size, lset, fail, buckets>>

Next == Sort \/ Launch
Spec == Init /\ [][Next]_vars

TypeOK == phase \in {"start", "loop", "done"}

Idx == 1 .. Len(bulk)

\* every pilot is prepared under exactly the (platform, schema) it named
InvSchemaOfPilot == \A i \in Idx : under[i] # <<>> => under[i] = bulk[i]
InvAllPrepared   == phase = "done" => \A i \in Idx : under[i] # <<>>
\* a launch failure of one bucket fails exactly the pilots of that bucket; so does
\* the lack of a launcher for the endpoint of a bucket
NoLauncher(i) == Pick(lset, SchemeOf[bulk[i]], PsijExecutors) = "none"
InvLaunchFailureLocal ==
  phase = "done" => everFailed = (IF fail = 0 THEN {} ELSE Members(bulk, buckets[fail]))
                                 \cup {i \in Idx : NoLauncher(i)}
InvOthersPending ==
  phase = "done" => \A i \in Idx : i \notin everFailed => st[i] = "ACTIVE_PENDING"
\* a pilot is only handed to a launcher which can launch on its endpoint
InvLauncherCan ==
  \A i \in Idx : via[i] # "none" => CanLaunch(via[i], SchemeOf[bulk[i]], PsijExecutors)
\* one job per launched pilot, none left out
InvJobPerPilot ==
  phase = "done" => \A i \in Idx : (i \notin everFailed) <=> (job[i] # <<>>)
\* the job of a pilot requests that pilot's own size / terms and carries its own agent data
InvJobSizedPerPilot == \A i \in Idx : job[i] # <<>> => size[job[i].res]   = size[i]
InvJobTermsPerPilot == \A i \in Idx : job[i] # <<>> => size[job[i].terms] = size[i]
InvJobShipsOwnAgent == \A i \in Idx : job[i] # <<>> => job[i].agent = i
=============================================================================
