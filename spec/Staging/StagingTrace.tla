---------------------------- MODULE StagingTrace ----------------------------
(***************************************************************************)
(* Trace monitor for data staging (C11): consumes the events recorded by   *)
(* staging_rig.py from the REAL expand_description, the four real stagers  *)
(* and the real StagingHelper_Local, and compares the file trees found on  *)
(* disk with the maps of the design model Staging.                         *)
(*                                                                         *)
(* The monitor runs the design model in lock step: the case of the trace   *)
(* is the model's input, every event fires the model action of the same    *)
(* component (Expand, TIn, AIn, Exec, AOut, TOut), then the logged trees   *)
(* and task states are compared with the model's primed variables.         *)
(*                                                                         *)
(*  C11.*  what the property demands (Dev constants FALSE = intended       *)
(*         design): per directive of a task that passed, the named place   *)
(*         holds the content; a directive that cannot be carried out fails *)
(*         its task; output of a failed task leaves the trees unchanged;   *)
(*         the bystander task B is never affected.  Partial effects of     *)
(*         failed tasks are not judged.                                    *)
(*  N.*    observations outside the statement of C11 (stage_on_error)      *)
(*  M.*    exact conformance of trees and states with the model - used in  *)
(*         a second run with the Dev constants set to what the code does   *)
(*                                                                         *)
(* The monitor is total: it never blocks, every failing clause is added to *)
(* errs.  One TLC run validates a batch: tid is chosen in Init.            *)
(***************************************************************************)
EXTENDS Staging, Json, IOUtils

CONSTANT Mode        \* "property": clauses C11.* and N.*;  "conform": clauses M.*

Batch  == JsonDeserialize(IOEnv.TRACE_FILE)
Traces == Batch.traces

VARIABLES tid, l, errs, fin

mvars == <<tid, l, errs, fin>>

T  == Traces[tid]
Ev == T.events

EventOf == [expanded |-> "Expand", tin |-> "TmgrIn", ain |-> "AgentIn", exec |-> "Exec",
            aout |-> "AgentOut", tout |-> "TmgrOut", new |-> "Env"]

\* one generation of tasks gives six events; a case with a second generation
\* gives the environment step and six more (same stager objects)
NEv == IF inp.g2 = "none" THEN 6 ELSE 13

Err(cond, name) == IF cond THEN {} ELSE {name}

(* ---- the logged trees ---------------------------------------------------- *)
ObsSet(e)    == {e.files[n] : n \in 1 .. Len(e.files)}
ObsAt(e, k)  == {f \in ObsSet(e) : f.l = k[1] /\ f.p = k[2]}
ObsHas(e, k) == ObsAt(e, k) # {}
ObsF(e, k)   == CHOOSE f \in ObsAt(e, k) : TRUE

\* files the model talks about (the transferred tar file is binary)
ObsText(e)   == {[l |-> f.l, p |-> f.p, c |-> f.c] : f \in {g \in ObsSet(e) : g.c # "binary"}}
ModText(F)   == {[l |-> k[1], p |-> k[2], c |-> F[k].c] : k \in DOMAIN F}
\* names that denote one file: the classes of more than one name
ObsTextF(e)  == {h \in ObsSet(e) : h.c # "binary"}
ObsShared(e) == {s \in {{<<f.l, f.p>> : f \in {h \in ObsTextF(e) : h.g = g0}} :
                          g0 \in {h.g : h \in ObsTextF(e)}} : Cardinality(s) > 1}
ModShared(F) == {s \in {{k \in DOMAIN F : F[k].i = i0} : i0 \in {F[k].i : k \in DOMAIN F}} :
                   Cardinality(s) > 1}

NotBFiles(e) == {f \in ObsSet(e) : f.p \notin {"ba", "bc", "bo"}}

(* ---- per directive: is the named data in the named place ---------------- *)
\* L: the model's log, F: the model's file map, both after the event
DirErrs(e, L, F, t, dir) ==
  UNION {
    IF L[n].t = t /\ L[n].dir = dir /\ Carried(L, n)
    THEN    (IF ~ConsumedIn(L, n)
             THEN Err(ObsHas(e, L[n].tk) /\ ObsF(e, L[n].tk).c = L[n].c, "C11.Placed")
             ELSE {})
       \cup (IF L[n].kind = "move" /\ ~Has(F, L[n].sk)
             THEN Err(~ObsHas(e, L[n].sk), "C11.MoveRemovesSource")
             ELSE {})
       \cup (IF L[n].kind = "link" /\ Has(F, L[n].sk) /\ Has(F, L[n].tk) /\ F[L[n].sk].i = F[L[n].tk].i
             THEN Err(ObsHas(e, L[n].sk) /\ ObsHas(e, L[n].tk)
                      /\ ObsF(e, L[n].sk).g = ObsF(e, L[n].tk).g, "C11.LinkSharesIdentity")
             ELSE {})
    ELSE {} : n \in 1 .. Len(L)}

Local(t, es) == IF t = "B" /\ es # {} THEN {"C11.FailureLocal"} ELSE es

\* verdict on one staging direction of task t: mf / of = failed in the model /
\* in the real run
Verdict(e, L, F, t, dir, mf, of) ==
  Local(t, IF mf /\ ~of THEN {"C11.FailsTask"}
           ELSE IF ~mf /\ of THEN {"C11.SpuriousFailure"}
           ELSE IF ~mf THEN DirErrs(e, L, F, t, dir)
           ELSE {})

Conform(e, F, S) ==
       Err(ModText(F) = ObsText(e), "M.Files." \o e.ev)
  \cup Err(ModShared(F) = ObsShared(e), "M.Links." \o e.ev)
  \cup Err(\A t \in Tasks : S[t] = e.st[t], "M.State." \o e.ev)

\* e: the event, the other arguments: the model's state after its action
\* b: index of the event before the current generation's first one
Check(e, EE, F, S, L, P, b) ==
  IF Mode = "conform" THEN Conform(e, F, S) ELSE
  (CASE e.ev = "Expand" ->
          Err(/\ e.dirs.A.din = EE["A"].din /\ e.dirs.A.dout = EE["A"].dout
              /\ e.dirs.B.din = EE["B"].din /\ e.dirs.B.dout = EE["B"].dout, "C11.Expansion")
     [] e.ev = "AgentIn" ->
          UNION {Verdict(e, L, F, t, "in", S[t] = "failed", e.st[t] = "failed") : t \in Tasks}
     [] e.ev = "TmgrOut" ->
          UNION {
            IF ~P[t] \/ Ev[b + 3].st[t] = "failed" THEN {}           \* judged after input staging
            ELSE IF Oc(t) = "DONE"
                 THEN Verdict(e, L, F, t, "out", S[t] = "failed", e.st[t] = "failed")
            ELSE IF ~Soe(t)          \* FAILED or CANCELED, no staging on error: nothing happens,
                 THEN Err(NotBFiles(e) = NotBFiles(Ev[b + 4])        \* and nothing can fail
                          /\ (Oc(t) = "CANCELED" => e.st[t] # "failed"), "C11.OutOnlyIfDone")
            ELSE IF DirErrs(e, L, F, t, "out") # {} THEN {"N.StageOnErrorNotCarriedOut"} ELSE {}
            : t \in Tasks}
     [] OTHER -> {})

Init ==
  /\ tid \in 1 .. Len(Traces)
  /\ inp = Traces[tid].case
  /\ InitRest
  /\ l = 1 /\ errs = {} /\ fin = FALSE

Step ==
  /\ ~fin /\ Len(Ev) = NEv /\ l <= Len(Ev)
  /\ Next
  /\ l' = l + 1 /\ fin' = FALSE /\ UNCHANGED tid
  /\ errs' = errs \cup Err(Ev[l].ev = EventOf[stage'], "X.EventOrder")
                  \cup Check(Ev[l], E', fs', st', log', passedIn', IF gen' = 2 THEN 7 ELSE 0)

\* I.*: what the model did with the case (used to classify a failing trace)
Info ==
       {"I.Missed." \o E[log[n].t][IF log[n].dir = "in" THEN "din" ELSE "dout"][log[n].j].act :
          n \in {m \in 1 .. Len(log) : log[m].kind = "missed" /\ log[m].t = "A"}}
  \cup {"I.Did." \o log[n].kind : n \in {m \in 1 .. Len(log) : log[m].t = "A"}}

Finish ==
  /\ ~fin /\ (Len(Ev) # NEv \/ l > Len(Ev))
  /\ fin' = TRUE
  /\ PrintT(<<"RESULT", T.tid, errs \cup Info \cup Err(Len(Ev) = NEv, "X.EventCount")>>)
  /\ UNCHANGED <<tid, l, errs>> /\ UNCHANGED svars

MNext == Step \/ Finish
Spec  == Init /\ [][MNext]_<<svars, mvars>>
=============================================================================
