------------------------------ MODULE Staging ------------------------------
(***************************************************************************)
(* Design model of task data staging (property C11)                        *)
(*   staging_directives.py    : expand_description, complete_url           *)
(*   tmgr/staging_input       : Default.work / _handle_task   (client)     *)
(*   agent/staging_input      : Default._work / _handle_task_staging       *)
(*   agent/staging_output     : Default.work  / _handle_task_staging       *)
(*   tmgr/staging_output      : Default.work  / _handle_task  (client)     *)
(*   utils/staging_helper.py  : StagingHelper_Local (cp, link, move)       *)
(*                                                                         *)
(* Abstract file system: fs is a finite map  <<location, path>> -> file,   *)
(* file = [c: content id, i: inode id].  Locations: client, endpoint,      *)
(* resource, session, pilot and one task sandbox per task (taskA, taskB).  *)
(* Absolute paths live in the endpoint location (local back end: client    *)
(* host = target host; SAGA / remote back ends are out of scope).          *)
(*                                                                         *)
(* A case (the model's input, chosen in Init) is the pair of directive     *)
(* lists of task A in the *user's* syntax (string short forms, bare names, *)
(* dictionaries), the outcome of A's execution and stage_on_error.  Task B *)
(* is a bystander with fixed directives on files A never names.  The       *)
(* pipeline is deterministic: Expand, TIn, AIn, Exec, AOut, TOut, one      *)
(* action per component call, in the shape of the code (the client side    *)
(* packs all TARBALL sources before it transfers anything, the agent       *)
(* unpacks after its own directives).  Every file operation is recorded in *)
(* the ghost variable log; the properties are stated over log and fs.      *)
(*                                                                         *)
(* Known deviations of the code from the intended design are boolean       *)
(* constants DevXxx (FALSE = intended design).                             *)
(*                                                                         *)
(* Not modelled: directories as sources (cp -r), DOWNLOAD, remote back     *)
(* ends, TARBALL on output (no stager acts on it), two directives naming   *)
(* the same target.  Targets that exist before staging are modelled for    *)
(* the input side (stale file at an absolute target, same-named file in    *)
(* the agent's working directory, existing directory).                     *)
(***************************************************************************)
EXTENDS Naturals, Sequences, FiniteSets, TLC

CONSTANTS DevTarballSkipped,      \* D11: agent input stager drops TARBALL before its untar branch
          DevCopyIgnoresStatus,   \* D12: local copy ignores the exit status of cp
          DevClientSkipsOnError,  \* client output stager ignores stage_on_error
          DevCopyUnquoted,        \* cp command line built by interpolation: a name with a space is split
          DevDirTestInCwd,        \* agent input: "target is an existing folder" tested in the working directory
          DevSlashDropped,        \* complete_url loses the trailing slash of a directory target
          DevLinkNoDirTarget,     \* os.link(src, "dir/") is an error: LINK cannot take a directory target
          DevClientIsCwd,         \* client side paths resolved against the process cwd, not the session's client sandbox
          DevMkdirCached,         \* the long-lived helper remembers the directories it made and skips mkdir
          DevAbsSandboxLocal,     \* an absolute td.sandbox loses schema and host of the pilot's file system
          Scope,                  \* "single" | "pairs" | "hostile" | "dev" | "all" | "given" (trace monitor)
          Emit                    \* print every case (the rig's enumerator)

VARIABLES inp, E, fs, nx, log, tar, st, passedIn, stage, snap,
          gen,      \* task generation: 1, then (cases with g2) 2 - same stager objects, new tasks
          made      \* ghost: directories the first generation's directives created

svars == <<inp, E, fs, nx, log, tar, st, passedIn, stage, snap, gen, made>>

Tasks    == {"A", "B"}
NonTask  == {"client", "endpoint", "resource", "session", "pilot"}
Schemas  == NonTask \cup {"task"}
TaskLocG(t, g) == IF g = 2 THEN "task" \o t \o "2" ELSE "task" \o t
TaskLoc(t)     == TaskLocG(t, gen)

\* os.path.basename over the path alphabet
Base(p) == CASE p = "s/a" -> "a" [] p = "s/o" -> "o" [] p = "t/b" -> "b" [] OTHER -> p

(* ------------------------------------------------------------------------ *)
(* (a) expansion of the user's forms (Task.__init__ -> expand_description)  *)
(*     bare name      : source = name, target = basename, TRANSFER          *)
(*     "s > t" "s >> t" "t < s" "t << s" : TRANSFER                         *)
(*     dict           : target defaults to basename(source), action to      *)
(*                      TRANSFER.  No URL is completed at this point.       *)
(* ------------------------------------------------------------------------ *)
Norm(d) == [act |-> d.act,
            s   |-> [k |-> d.sk, p |-> d.sp],
            t   |-> IF d.tk = "omit" THEN [k |-> "rel", p |-> Base(d.sp)]
                    ELSE IF d.tk \in {"empty", "absdir"} THEN [k |-> d.tk, p |-> ""]
                    ELSE IF d.tk = "absfile" THEN [k |-> "abs", p |-> d.tp]
                    ELSE IF d.tk \in {"relcwd", "relcwddir"} THEN [k |-> "rel", p |-> d.tp]
                    ELSE [k |-> d.tk, p |-> d.tp]]

\* target exists already: tk = "absfile" is an absolute target path at which a
\* stale regular file exists, tk = "relcwd" a relative target while the working
\* directory of the acting component holds a regular file of that name (which
\* is none of the directive's business: the target is in the task sandbox);
\* tk = "relcwddir": the same with a DIRECTORY of that name in the working
\* directory - still none of the directive's business, the task sandbox holds
\* no such directory; tk = "absdir" is an existing directory that IS the target
\* (the source's basename goes inside)
StaleKeys(c) ==
       {<<"endpoint", c.din[j].tp>> : j \in {i \in 1 .. Len(c.din) : c.din[i].tk = "absfile"}}
  \cup {<<"cwd", c.din[j].tp>>      : j \in {i \in 1 .. Len(c.din) : c.din[i].tk = "relcwd"}}

NormList(ds) == [j \in 1 .. Len(ds) |-> Norm(ds[j])]

(* ------------------------------------------------------------------------ *)
(* (b) resolution contexts, (c) who acts                                    *)
(*     cin  : tmgr  staging_input   TRANSFER, TARBALL   pwd: src client, tgt task *)
(*     ain  : agent staging_input   COPY LINK MOVE      pwd: task sandbox   *)
(*     aout : agent staging_output  COPY LINK MOVE      pwd: task sandbox   *)
(*     cout : tmgr  staging_output  TRANSFER            pwd: src task, tgt client *)
(* ------------------------------------------------------------------------ *)
SideOf(dir, act) ==
  IF dir = "in" THEN (IF act \in {"TRANSFER", "TARBALL"} THEN "cin" ELSE "ain")
                ELSE (IF act = "TRANSFER" THEN "cout" ELSE "aout")

DefaultLoc(side, role, tl) ==
  CASE side = "cin"  -> (IF role = "s" THEN "client" ELSE tl)
    [] side = "cout" -> (IF role = "s" THEN tl ELSE "client")
    [] OTHER         -> tl

\* x: [k, p], sp: the source path (an empty or existing-directory target
\* receives the basename of the source)
\* Three kinds of target: default (omitted / empty: the source's basename),
\* a file name, and a DIRECTORY, written with a trailing slash ("inputs/",
\* "task:///local/", "pilot:///shared/", an absolute "/x/dir/").  Neither
\* expand_staging_directives nor complete_url touch the slash
\* (complete_url: ret.path += "/" + purl.path), so the stager is handed
\* "<location>/<dir>/": the directory is created on demand (mkdir of the
\* dirname, which for ".../dir/" is the directory itself) and the data ends
\* up at <dir>/<basename(source)> - never as a plain file named like the
\* directory - whether or not the directory existed before.
DirTP     == {"d/", "e/"}        \* d: does not exist yet, e: exists in every non-task location
IsDirP(p) == p \in DirTP
InDir(p, sp) == IF IsDirP(p) THEN p \o Base(sp) ELSE p

\* tl: the location of the task's sandbox
KeyOfL(side, role, x, sp, tl) ==
  CASE x.k = "rel"    -> <<DefaultLoc(side, role, tl), InDir(x.p, sp)>>
    [] x.k = "empty"  -> <<DefaultLoc(side, role, tl), Base(sp)>>
    [] x.k = "abs"    -> <<"endpoint", InDir(x.p, sp)>>
    [] x.k = "absdir" -> <<"endpoint", "dd/" \o Base(sp)>>
    [] x.k = "task"   -> <<tl, InDir(x.p, sp)>>
    [] OTHER          -> <<x.k, InDir(x.p, sp)>>
KeyOf(side, role, x, sp, t) == KeyOfL(side, role, x, sp, TaskLoc(t))

SrcKey(side, n, t) == KeyOf(side, "s", n.s, n.s.p, t)
TgtKey(side, n, t) == KeyOf(side, "t", n.t, n.s.p, t)

(* ------------------------------------------------------------------------ *)
(* (d) effect on the file map.  M = [fs, nx, log, ok, tar]                  *)
(* ------------------------------------------------------------------------ *)
Has(F, k)    == k \in DOMAIN F
Put(F, k, f) == [x \in (DOMAIN F) \cup {k} |-> IF x = k THEN f ELSE F[x]]
Del(F, k)    == [x \in (DOMAIN F) \ {k} |-> F[x]]
Ino(n)       == "n" \o ToString(n)

Entry(id, kind, sk, tk, c) ==
  [t |-> id[1], dir |-> id[2], j |-> id[3], kind |-> kind, sk |-> sk, tk |-> tk, c |-> c]

Carried(L, n) == L[n].kind # "missed"

\* (e) a directive that cannot be carried out fails the task (ok = FALSE);
\*     `tolerated` is the deviation: the failure goes unnoticed
\*     why: "nosource" | "exists" (legitimate reasons) | "unquoted" (deviation)
Missed(M, id, sk, tk, why, tolerated) ==
  [M EXCEPT !.log = Append(@, Entry(id, "missed", sk, tk, why)), !.ok = tolerated]

Hostile(k) == k[2] = "h h"

\* the directory a path of the alphabet lies in ("" = the location itself)
DirOf(p) == CASE p \in {"t/b"}               -> "t"
              [] p \in {"d/a", "d/o", "d/ba"} -> "d"
              [] p \in {"e/a", "e/o"}         -> "e"
              [] OTHER                        -> ""
DirKey(k)          == <<k[1], DirOf(k[2])>>
ParentIsFile(F, k) == DirOf(k[2]) # "" /\ Has(F, DirKey(k))
DirGone(F, k)      == ~\E x \in DOMAIN F : x[1] = k[1] /\ DirOf(x[2]) = DirOf(k[2])
\* deviation: the helper object lives as long as the stager; a directory it
\* made for an earlier task and which is gone by now is not made again
MkdirSkipped(F, k) == /\ DevMkdirCached /\ gen = 2 /\ DirOf(k[2]) # ""
                      /\ DirKey(k) \in made /\ DirGone(F, k)

\* cp -r src tgt  (TRANSFER on the client side, COPY on the agent side)
DoCopy(M, id, sk, tk) ==
  IF ~Has(M.fs, sk) THEN Missed(M, id, sk, tk, "nosource", DevCopyIgnoresStatus)
  ELSE IF DevCopyUnquoted /\ (Hostile(sk) \/ Hostile(tk))
  THEN Missed(M, id, sk, tk, "unquoted", DevCopyIgnoresStatus)
  ELSE IF Has(M.fs, tk)           \* cp writes into the existing file: all its names change
  THEN [M EXCEPT !.fs  = [x \in DOMAIN M.fs |-> IF M.fs[x].i = M.fs[tk].i
                                                 THEN [c |-> M.fs[sk].c, i |-> M.fs[tk].i]
                                                 ELSE M.fs[x]],
                 !.log = Append(@, Entry(id, "copy", sk, tk, M.fs[sk].c))]
  ELSE [M EXCEPT !.fs  = Put(@, tk, [c |-> M.fs[sk].c, i |-> Ino(M.nx)]),
                 !.nx  = @ + 1,
                 !.log = Append(@, Entry(id, "copy", sk, tk, M.fs[sk].c))]

\* os.link: same file under a second name; an existing target is an error
DoLink(M, id, sk, tk, nolink) ==
  IF nolink /\ Has(M.fs, sk) THEN Missed(M, id, sk, tk, "dirtarget", FALSE)
  ELSE IF Has(M.fs, sk) /\ ~Has(M.fs, tk)
  THEN [M EXCEPT !.fs  = Put(@, tk, M.fs[sk]),
                 !.log = Append(@, Entry(id, "link", sk, tk, M.fs[sk].c))]
  ELSE Missed(M, id, sk, tk, IF Has(M.fs, sk) THEN "exists" ELSE "nosource", FALSE)

\* shutil.move: the file keeps its identity, the source name disappears
DoMove(M, id, sk, tk) ==
  IF Has(M.fs, sk)
  THEN [M EXCEPT !.fs  = Put(Del(@, sk), tk, M.fs[sk]),
                 !.log = Append(@, Entry(id, "move", sk, tk, M.fs[sk].c))]
  ELSE Missed(M, id, sk, tk, "nosource", FALSE)

\* nolink (deviation): the target was written as a directory, and it is not
\* the absolute existing one which the stager's "is a folder" fix-up handles
NoLink(n) == DevLinkNoDirTarget /\ IsDirP(n.t.p) /\ ~(n.t.k = "abs" /\ n.t.p = "e/")

\* every directive is judged on the file system as it is when it runs: the
\* target's directory is made on demand (again, if it is gone); a regular file
\* in its place cannot be helped - the directive fails its task
Do(M, id, act, sk, tk, nolink) ==
  IF Has(M.fs, sk) /\ ParentIsFile(M.fs, tk) THEN Missed(M, id, sk, tk, "notdir", FALSE)
  ELSE IF Has(M.fs, sk) /\ MkdirSkipped(M.fs, tk) THEN Missed(M, id, sk, tk, "cachedmkdir", FALSE)
  ELSE
  CASE act \in {"TRANSFER", "COPY"} -> DoCopy(M, id, sk, tk)
    [] act = "LINK"                 -> DoLink(M, id, sk, tk, nolink)
    [] act = "MOVE"                 -> DoMove(M, id, sk, tk)

\* the directives of list ns which `side` acts on, in list order; stops at
\* the first failure
RECURSIVE RunActs(_, _, _, _, _, _)
RunActs(M, ns, j, t, dir, side) ==
  IF j > Len(ns) \/ ~M.ok THEN M
  ELSE LET n == ns[j] IN
       IF n.act = "TARBALL" \/ SideOf(dir, n.act) # side
       THEN RunActs(M, ns, j + 1, t, dir, side)
       ELSE RunActs(Do(M, <<t, dir, j>>, n.act, SrcKey(side, n, t), TgtKey(side, n, t), NoLink(n)),
                    ns, j + 1, t, dir, side)

\* client side, first loop of _handle_task: every TARBALL source is added to
\* one tar file under the name of its completed target
RECURSIVE TarAdd(_, _, _, _)
TarAdd(M, ns, j, t) ==
  IF j > Len(ns) \/ ~M.ok THEN M
  ELSE IF ns[j].act # "TARBALL" THEN TarAdd(M, ns, j + 1, t)
  ELSE LET sk == SrcKey("cin", ns[j], t)
           tk == TgtKey("cin", ns[j], t) IN
       IF Has(M.fs, sk)
       THEN TarAdd([M EXCEPT !.tar = Append(@, [j |-> j, sk |-> sk, tk |-> tk, c |-> M.fs[sk].c])],
                   ns, j + 1, t)
       ELSE Missed(M, <<t, "in", j>>, sk, tk, "nosource", FALSE)

\* agent side: the tar file is unpacked, every member appears at its target
RECURSIVE Untar(_, _, _)
Untar(M, t, n) ==
  IF n > Len(M.tar) THEN M
  ELSE LET e == M.tar[n] IN
       Untar([M EXCEPT !.fs  = Put(@, e.tk, [c |-> e.c, i |-> Ino(M.nx)]),
                       !.nx  = @ + 1,
                       !.log = Append(@, Entry(<<t, "in", e.j>>, "untar", e.sk, e.tk, e.c))],
             t, n + 1)

ClientIn(M, ns, t) ==
  LET M1 == TarAdd(M, ns, 1, t) IN
  IF M1.ok THEN RunActs(M1, ns, 1, t, "in", "cin") ELSE M1

AgentIn(M, ns, t) ==
  LET M1 == RunActs(M, ns, 1, t, "in", "ain") IN
  IF M1.ok /\ ~DevTarballSkipped THEN Untar(M1, t, 1) ELSE M1

(* ------------------------------------------------------------------------ *)
(* the cases                                                                *)
(* ------------------------------------------------------------------------ *)
Rec(forms, acts, sks, sps, tks, tps) ==
  [form : forms, act : acts, sk : sks, sp : sps, tk : tks, tp : tps]

AnyK   == {"rel", "abs"} \cup Schemas
ISP    == {"a", "s/a", "m"}         \* m: exists nowhere
OSP    == {"o", "s/o", "m"}         \* what a task writes into its sandbox
TP     == {"b", "t/b"}
Short  == {"gt", "gtgt", "lt", "ltlt"}
CLM    == {"COPY", "LINK", "MOVE"}
AgentK == {"abs", "endpoint", "resource", "session", "pilot", "task"}   \* no client on the agent side
NoTp   == {""}

\* false-alarm guard: agent-side actions on input take explicit sources only,
\* on output explicit targets only (relative ones are documented two ways)
InSingles ==
       Rec({"dict"}, {"TRANSFER"}, AnyK, ISP, AnyK, TP)
  \cup Rec({"dict"}, {"TRANSFER"}, AnyK, ISP, {"omit", "empty", "absdir"}, NoTp)
  \cup Rec({"dictna"}, {"TRANSFER"}, {"rel", "client"}, ISP, {"rel", "task"}, TP)
  \cup Rec({"dictna"}, {"TRANSFER"}, {"rel", "client"}, ISP, {"omit"}, NoTp)
  \cup Rec(Short, {"TRANSFER"}, {"rel", "abs", "client"}, ISP, {"rel", "abs", "task", "pilot", "resource"}, TP)
  \cup Rec({"bare"}, {"TRANSFER"}, AnyK, ISP, {"omit"}, NoTp)
  \cup Rec({"dict"}, {"TARBALL"}, {"rel", "abs", "client", "pilot"}, ISP,
           {"rel", "abs", "task", "pilot", "session", "resource", "endpoint"}, TP)
  \cup Rec({"dict"}, {"TARBALL"}, {"rel", "abs", "client", "pilot"}, ISP, {"omit"}, NoTp)
  \cup Rec({"dict"}, CLM, AgentK, ISP, {"rel"} \cup AgentK, TP)
  \cup Rec({"dict"}, CLM, AgentK, ISP, {"omit", "empty", "absdir"}, NoTp)
  \cup Rec({"dict"}, CLM, {"pilot", "abs"}, ISP, {"absfile", "relcwd", "relcwddir"}, TP)  \* target exists already
  \cup Rec({"dict"}, {"TRANSFER"}, {"rel"}, {"a", "m"}, {"absfile"}, TP)

OutSingles ==
       Rec({"dict"}, {"TRANSFER"}, {"rel", "task"}, OSP, AnyK, TP)
  \cup Rec({"dict"}, {"TRANSFER"}, {"rel", "task"}, OSP, {"omit", "empty", "absdir"}, NoTp)
  \cup Rec({"dict"}, {"TRANSFER"}, {"pilot", "abs"}, {"a", "m"}, AnyK, TP)
  \cup Rec({"dictna"}, {"TRANSFER"}, {"rel"}, OSP, {"rel", "client"}, TP)
  \cup Rec({"dictna"}, {"TRANSFER"}, {"rel"}, OSP, {"omit"}, NoTp)
  \cup Rec(Short, {"TRANSFER"}, {"rel", "task"}, OSP, {"rel", "abs", "client"}, TP)
  \cup Rec({"bare"}, {"TRANSFER"}, {"rel", "task"}, OSP, {"omit"}, NoTp)
  \cup Rec({"dict"}, CLM, {"rel", "task"}, OSP, AgentK, TP)
  \cup Rec({"dict"}, CLM, {"rel", "task"}, OSP, {"absdir"}, NoTp)
  \cup Rec({"dict"}, CLM, {"pilot", "session", "abs"}, {"a", "m"}, AgentK, TP)

\* a smaller alphabet for lists of two: chains (a target that is the source
\* of the next directive), moves of shared sources, missing sources
CoreIn ==
       Rec({"dict"}, {"TRANSFER", "TARBALL"}, {"rel"}, {"a", "m"}, {"task", "pilot"}, {"b"})
  \cup Rec({"gt"}, {"TRANSFER"}, {"rel"}, {"a"}, {"rel"}, {"t/b"})
  \cup Rec({"bare"}, {"TRANSFER"}, {"client"}, {"s/a"}, {"omit"}, NoTp)
  \cup Rec({"dict"}, CLM, {"pilot"}, {"a", "b", "m"}, {"task"}, TP)
  \cup Rec({"dict"}, CLM, {"task"}, {"b"}, {"session"}, {"b"})
  \cup Rec({"dict"}, {"COPY", "LINK"}, {"session"}, {"a"}, {"omit"}, NoTp)

CoreOut ==
       Rec({"dict"}, {"TRANSFER"}, {"rel"}, {"o", "m"}, {"client", "pilot"}, {"b"})
  \cup Rec({"lt"}, {"TRANSFER"}, {"rel"}, {"o"}, {"rel"}, {"t/b"})
  \cup Rec({"bare"}, {"TRANSFER"}, {"rel"}, {"s/o"}, {"omit"}, NoTp)
  \cup Rec({"dict"}, CLM, {"rel"}, {"o", "m"}, {"pilot", "session"}, {"b"})
  \cup Rec({"dict"}, {"TRANSFER"}, {"pilot"}, {"b"}, {"client"}, {"t/b"})

\* every task outcome: DONE, FAILED, CANCELED (target_state as the executor
\* sets it: exit code, or its cancel path while the task runs)
Outcomes == {[oc |-> "DONE", soe |-> FALSE], [oc |-> "FAILED", soe |-> FALSE],
             [oc |-> "FAILED", soe |-> TRUE], [oc |-> "DONE", soe |-> TRUE],
             [oc |-> "CANCELED", soe |-> FALSE], [oc |-> "CANCELED", soe |-> TRUE]}
Outcomes2 == {[oc |-> "DONE", soe |-> FALSE], [oc |-> "FAILED", soe |-> FALSE],
              [oc |-> "FAILED", soe |-> TRUE], [oc |-> "CANCELED", soe |-> FALSE]}

\* cs: the session's client sandbox (session config client_sandbox,
\* Session._get_client_sandbox, handed to the stagers as task.client_sandbox by
\* TMGRSchedulingComponent._assign_pilot) and the working directory of the
\* client process.  "differs": two directories, the working directory holds
\* decoy files named like the client sandbox' files (location "cwd");
\* "same": the default (no client_sandbox configured), one directory.
\* client:// and the relative client side paths ALWAYS denote the session's
\* client sandbox (location "client").
\* sb: td.sandbox - "default" (<pilot sandbox>/<uid>/), "rel" (<pilot sandbox>/<name>/),
\*     "abs" (the given absolute path ON THE PILOT'S FILE SYSTEM: Session._get_task_sandbox
\*     keeps schema and host of the pilot sandbox URL)
\* ep: file system endpoint of the pilot's resource - "local" (file://localhost/) or
\*     "remote" (sftp://<host>/): task:// and the relative task side paths of client side
\*     directives denote the task sandbox on THAT host, never a same-named local path
\*     (location "stray").  Remote cases hold client side TRANSFER directives only.
\* g2: "none", or what happens to the directory a directive's target lies in before a
\*     second generation of the same tasks passes the same stager objects:
\*     "rmdir" (the application removes it), "mvdir" (a MOVE directive of an intermediate
\*     task carries it away), "file" (a regular file takes its name)
Case(di, do, x) == [din |-> di, dout |-> do, oc |-> x.oc, soe |-> x.soe, cs |-> "differs",
                    sb |-> "default", ep |-> "local", g2 |-> "none"]
Ok1 == [oc |-> "DONE", soe |-> FALSE]

\* directory targets (trailing slash), both directions, client side TRANSFER
\* in dict and short form, agent side COPY / LINK / MOVE
InDirSingles ==
       Rec({"dict"}, {"TRANSFER"}, {"rel", "client"}, {"s/a", "m"}, AnyK, DirTP)
  \cup Rec(Short, {"TRANSFER"}, {"rel"}, {"s/a"}, {"rel", "task", "pilot", "abs"}, DirTP)
  \cup Rec({"dict"}, CLM, {"pilot", "abs"}, {"s/a", "m"}, {"rel"} \cup AgentK, DirTP)
OutDirSingles ==
       Rec({"dict"}, {"TRANSFER"}, {"rel", "task"}, {"s/o", "m"}, AnyK, DirTP)
  \cup Rec(Short, {"TRANSFER"}, {"rel"}, {"s/o"}, {"rel", "client", "abs"}, DirTP)
  \cup Rec({"dict"}, CLM, {"rel"}, {"s/o", "m"}, AgentK, DirTP)
Outcomes3 == {Ok1, [oc |-> "FAILED", soe |-> FALSE], [oc |-> "CANCELED", soe |-> FALSE]}

SingleCases ==
       {Case(<<d>>, <<>>, Ok1) : d \in InSingles \cup InDirSingles}
  \cup {Case(<<>>, <<d>>, x) : d \in OutDirSingles, x \in Outcomes3}
  \cup {Case(<<>>, <<d>>, x) : d \in {e \in OutSingles : e.form = "dict" /\ e.tp # "t/b"}, x \in Outcomes}
  \cup {Case(<<>>, <<d>>, x) : d \in {e \in OutSingles : e.form # "dict" \/ e.tp = "t/b"}, x \in Outcomes2}
  \cup {Case(<<>>, <<>>, x) : x \in Outcomes}

\* client side directives naming the client sandbox, run with cs = "same" as well
SameIn  == {e \in InSingles \cup InDirSingles :
               /\ e.act \in {"TRANSFER", "TARBALL"} /\ e.sp # "m"
               /\ e.sk \in {"rel", "client"} /\ e.tk \in {"rel", "task", "client", "omit", "empty"}}
SameOut == {e \in OutSingles \cup OutDirSingles :
               /\ e.act = "TRANSFER" /\ e.sp # "m"
               /\ e.sk \in {"rel", "task"} /\ e.tk \in {"rel", "client", "omit", "empty"}}
SameCases ==
       {[Case(<<d>>, <<>>, Ok1) EXCEPT !.cs = "same"] : d \in SameIn}
  \cup {[Case(<<>>, <<d>>, Ok1) EXCEPT !.cs = "same"] : d \in SameOut}

\* resolution contexts: sandbox kind x endpoint
CtxIn  == Rec({"bare"}, {"TRANSFER"}, {"rel"}, {"a"}, {"omit"}, NoTp)
     \cup Rec({"dict"}, {"TRANSFER"}, {"client"}, {"s/a"}, {"task", "pilot"}, {"t/b"})
     \cup Rec({"gt"}, {"TRANSFER"}, {"rel"}, {"a"}, {"rel"}, {"b", "d/"})
CtxOut == Rec({"bare"}, {"TRANSFER"}, {"rel"}, {"o"}, {"omit"}, NoTp)
     \cup Rec({"dict"}, {"TRANSFER"}, {"task"}, {"s/o"}, {"client"}, {"t/b"})
     \cup Rec({"lt"}, {"TRANSFER"}, {"rel"}, {"o"}, {"rel"}, {"b"})
CtxAgent == Rec({"dict"}, CLM, {"pilot"}, {"a"}, {"task", "rel"}, {"b"})
Ctxs == {x \in [sb : {"default", "rel", "abs"}, ep : {"local", "remote"}] :
            ~(x.sb = "default" /\ x.ep = "local")}
CtxCases ==
       {[Case(<<d>>, <<>>, Ok1) EXCEPT !.sb = x.sb, !.ep = x.ep] : d \in CtxIn,  x \in Ctxs}
  \cup {[Case(<<>>, <<d>>, Ok1) EXCEPT !.sb = x.sb, !.ep = x.ep] : d \in CtxOut, x \in Ctxs}
  \cup {[Case(<<d>>, <<>>, Ok1) EXCEPT !.sb = b] : d \in CtxAgent, b \in {"rel", "abs"}}

\* two generations of tasks through the same stager objects
GenIn  == Rec({"dict"}, {"TRANSFER"}, {"rel"}, {"a"}, {"pilot"}, {"t/b", "d/"})
     \cup Rec({"dict"}, CLM, {"session"}, {"a"}, {"pilot", "resource"}, {"t/b"})
     \cup Rec({"dict"}, {"COPY", "LINK"}, {"session"}, {"a"}, {"pilot"}, {"d/"})
GenOut == Rec({"dict"}, {"TRANSFER"}, {"rel"}, {"o"}, {"client"}, {"t/b", "d/"})
     \cup Rec({"dict"}, {"COPY", "MOVE"}, {"rel"}, {"o"}, {"pilot"}, {"t/b"})
GenCases ==
       {[Case(<<d>>, <<>>, Ok1) EXCEPT !.g2 = g] : d \in GenIn,  g \in {"rmdir", "mvdir", "file"}}
  \cup {[Case(<<>>, <<d>>, Ok1) EXCEPT !.g2 = g] : d \in GenOut, g \in {"rmdir", "mvdir", "file"}}

PairCases ==
       {Case(<<d1, d2>>, <<>>, Ok1) : d1 \in CoreIn, d2 \in CoreIn}
  \cup {Case(<<>>, <<d1, d2>>, x) : d1 \in CoreOut, d2 \in CoreOut, x \in Outcomes2}
  \cup {Case(<<d1>>, <<d2>>, x) : d1 \in {d \in CoreIn : d.sp \in {"a", "s/a"}}, d2 \in CoreOut,
                                   x \in {Ok1, [oc |-> "FAILED", soe |-> FALSE],
                                          [oc |-> "CANCELED", soe |-> FALSE]}}

\* a small hostile-name class (a space in the name), reported separately:
\* the property is about WHERE, not about quoting
HName   == {"h h"}
HostIn  ==
       Rec({"dict"}, {"TRANSFER"} \cup CLM, {"pilot"}, HName, {"task"}, {"b"})
  \cup Rec({"dict"}, {"TRANSFER"} \cup CLM, {"pilot"}, {"a"}, {"task"}, HName)
  \cup Rec({"bare"}, {"TRANSFER"}, {"rel"}, HName, {"omit"}, NoTp)
  \cup Rec({"gt", "lt"}, {"TRANSFER"}, {"rel"}, HName, {"rel"}, {"b"})
  \cup Rec({"dict"}, {"TARBALL"}, {"rel"}, HName, {"task"}, {"b"})
HostOut == Rec({"dict"}, {"TRANSFER"} \cup CLM, {"rel"}, {"o"}, {"task"}, HName)
HostileCases ==
       {Case(<<d>>, <<>>, Ok1) : d \in HostIn}
  \cup {Case(<<>>, <<d>>, Ok1) : d \in HostOut}

InitKeys == {<<l, p>> : l \in NonTask, p \in {"a", "s/a", "ba", "h h"}}
InitFs   == [k \in InitKeys |-> [c |-> k[1] \o ":" \o k[2], i |-> "init:" \o k[1] \o ":" \o k[2]]]
DecoyKeys(c) == IF c.cs = "differs" THEN {<<"cwd", p>> : p \in {"a", "s/a", "ba"}} ELSE {}
InitFsOf(c) == [k \in InitKeys \cup StaleKeys(c) \cup DecoyKeys(c) |->
                  IF k \in InitKeys THEN InitFs[k]
                  ELSE IF k \in DecoyKeys(c)
                  THEN [c |-> "decoy:" \o k[2], i |-> "decoy:" \o k[2]]
                  ELSE [c |-> "stale:" \o k[1] \o ":" \o k[2], i |-> "stale:" \o k[1] \o ":" \o k[2]]]
ExecFiles(t) == IF t = "A" THEN {"o", "s/o"} ELSE {"bo"}

\* lists in which no two directives name the same target, no directive names
\* an initial or task-written file as target, or its own source
CaseKeys(c, what) ==
  LET nin  == NormList(c.din)
      nout == NormList(c.dout) IN
     {<<"in",  j, KeyOfL(SideOf("in",  nin[j].act),  what, IF what = "s" THEN nin[j].s  ELSE nin[j].t,
                        nin[j].s.p,  "taskA")>> : j \in 1 .. Len(nin)}
  \cup {<<"out", j, KeyOfL(SideOf("out", nout[j].act), what, IF what = "s" THEN nout[j].s ELSE nout[j].t,
                        nout[j].s.p, "taskA")>> : j \in 1 .. Len(nout)}

WellFormed(c) ==
  LET tks == CaseKeys(c, "t")
      sks == CaseKeys(c, "s") IN
  /\ \A x \in tks : /\ x[3] \notin InitKeys
                    /\ x[3] \notin {<<"taskA", p>> : p \in ExecFiles("A")}
                    /\ \A y \in sks : (y[1] = x[1] /\ y[2] = x[2]) => y[3] # x[3]
                    /\ \A y \in tks : (y[1] # x[1] \/ y[2] # x[2]) => y[3] # x[3]

\* a small scope in which every deviation constant shows
DevCases ==
       {Case(<<d>>, <<>>, Ok1) : d \in CoreIn \cup {e \in InDirSingles : e.tk \in {"rel", "pilot"}}
                                           \cup Rec({"dict"}, CLM, {"pilot"}, {"a"}, {"relcwddir"}, {"b"})}
  \cup {Case(<<>>, <<d>>, x) : d \in CoreOut, x \in Outcomes}
  \cup HostileCases
  \cup {c \in SameCases : c.din # <<>> => c.din[1].form \in {"bare", "gt"}}
  \cup CtxCases \cup GenCases

Cases ==
  CASE Scope = "single" -> {c \in SingleCases : WellFormed(c)}
    [] Scope = "pairs"  -> {c \in PairCases   : WellFormed(c)}
    [] Scope = "dev"    -> {c \in DevCases : WellFormed(c)}
    [] Scope = "hostile" -> {c \in HostileCases : WellFormed(c)}
    [] Scope = "all"    -> {c \in SingleCases \cup SameCases \cup PairCases \cup HostileCases
                                    \cup CtxCases \cup GenCases : WellFormed(c)}
    [] OTHER            -> {}

(* ------------------------------------------------------------------------ *)
(* the pipeline                                                             *)
(* ------------------------------------------------------------------------ *)
BIn  == << [form |-> "bare", act |-> "TRANSFER", sk |-> "rel",   sp |-> "ba", tk |-> "omit", tp |-> ""],
           [form |-> "dict", act |-> "COPY",     sk |-> "pilot", sp |-> "ba", tk |-> "task", tp |-> "bc"] >>
BOut == << [form |-> "bare", act |-> "TRANSFER", sk |-> "rel",   sp |-> "bo", tk |-> "omit", tp |-> ""] >>

\* (no agent side action with a remote endpoint: the rig cannot act on that host)
RawOf(t) == IF t = "A" THEN [din |-> inp.din, dout |-> inp.dout]
            ELSE [din |-> IF inp.ep = "remote" THEN <<BIn[1]>> ELSE BIn, dout |-> BOut]

\* what the agent input stager makes of the directive: a relative target is
\* tested for "exists and is a folder" in the component's working directory
\* instead of the task sandbox, and then gets the source's basename appended
CwdK(x, isdefault) == IF x.k = "client" \/ (x.k = "rel" /\ isdefault) THEN [x EXCEPT !.k = "cwd"] ELSE x
StrayK(x, isdefault) == IF x.k = "task" \/ (x.k = "rel" /\ isdefault) THEN [x EXCEPT !.k = "stray"] ELSE x
NormCode(d, dir) ==
  IF DevAbsSandboxLocal /\ inp.sb = "abs" /\ inp.ep = "remote" /\ d.act \in {"TRANSFER", "TARBALL"}
  THEN [Norm(d) EXCEPT !.s = StrayK(@, dir = "out"), !.t = StrayK(@, dir = "in")]
  ELSE IF DevClientIsCwd /\ inp.cs = "differs" /\ d.act \in {"TRANSFER", "TARBALL"}
  THEN [Norm(d) EXCEPT !.s = CwdK(@, dir = "in"), !.t = CwdK(@, dir = "out")]
  ELSE IF DevDirTestInCwd /\ d.tk = "relcwddir" /\ d.act \in CLM
  THEN [Norm(d) EXCEPT !.t = [k |-> "rel", p |-> d.tp \o "/" \o Base(d.sp)]]
  ELSE IF DevSlashDropped /\ d.tp = "d/"      \* the target becomes a plain file named like the directory
  THEN [Norm(d) EXCEPT !.t.p = "d"]
  ELSE Norm(d)

Oc(t)  == IF t = "A" THEN inp.oc ELSE "DONE"
Soe(t) == t = "A" /\ inp.soe

InitRest ==
  /\ E = [t \in Tasks |-> [din |-> <<>>, dout |-> <<>>]]
  /\ fs = InitFsOf(inp) /\ nx = 1 /\ log = <<>>
  /\ tar = [t \in Tasks |-> <<>>]
  /\ st = [t \in Tasks |-> "ok"]
  /\ passedIn = [t \in Tasks |-> FALSE]
  /\ stage = "new" /\ snap = InitFsOf(inp)
  /\ gen = 1 /\ made = {}

DesignInit == /\ inp \in Cases
              /\ (Emit => PrintT(<<"CASE", inp>>))
              /\ InitRest

\* one component call: task A, then task B, each with its own failure
Pack(S, t)   == [fs |-> S.fs, nx |-> S.nx, log |-> S.log, ok |-> TRUE, tar |-> S.tar[t]]
Unpack(S, t, M) == [fs |-> M.fs, nx |-> M.nx, log |-> M.log,
                    st  |-> [S.st EXCEPT ![t] = IF M.ok THEN "ok" ELSE "failed"],
                    tar |-> [S.tar EXCEPT ![t] = M.tar]]
Cur == [fs |-> fs, nx |-> nx, log |-> log, st |-> st, tar |-> tar]

ForBoth(F(_, _)) ==
  LET one(S, t) == IF S.st[t] # "ok" THEN S ELSE Unpack(S, t, F(Pack(S, t), t))
      S2 == one(one(Cur, "A"), "B") IN
  /\ fs' = S2.fs /\ nx' = S2.nx /\ log' = S2.log /\ st' = S2.st /\ tar' = S2.tar

Expand ==
  /\ stage = "new" /\ stage' = "expanded"
  /\ E' = [t \in Tasks |-> [din  |-> [j \in 1 .. Len(RawOf(t).din) |-> NormCode(RawOf(t).din[j], "in")],
                           dout |-> [j \in 1 .. Len(RawOf(t).dout) |-> NormCode(RawOf(t).dout[j], "out")]]]
  /\ UNCHANGED <<inp, fs, nx, log, tar, st, passedIn, snap, gen, made>>

TIn ==
  /\ stage = "expanded" /\ stage' = "tin"
  /\ LET F(M, t) == ClientIn(M, E[t].din, t) IN ForBoth(F)
  /\ UNCHANGED <<inp, E, passedIn, snap, gen, made>>

AIn ==
  /\ stage = "tin" /\ stage' = "ain"
  /\ LET F(M, t) == AgentIn(M, E[t].din, t) IN ForBoth(F)
  /\ passedIn' = [t \in Tasks |-> st'[t] = "ok"]
  /\ UNCHANGED <<inp, E, snap, gen, made>>

\* every task that reached the scheduler runs and writes its files
Exec ==
  /\ stage = "ain" /\ stage' = "exec"
  /\ LET wr == UNION {{<<TaskLoc(t), p>> : p \in ExecFiles(t)} : t \in {u \in Tasks : st[u] = "ok"}} IN
     /\ fs' = [k \in (DOMAIN fs) \cup wr |->
                 IF k \in wr THEN [c |-> k[1] \o ":" \o k[2], i |-> "exec:" \o k[1] \o ":" \o k[2]]
                 ELSE fs[k]]
     /\ snap' = fs'
  /\ UNCHANGED <<inp, E, nx, log, tar, st, passedIn, gen, made>>

AOut ==
  /\ stage = "exec" /\ stage' = "aout"
  /\ LET F(M, t) == IF Oc(t) = "DONE" \/ Soe(t)
                    THEN RunActs(M, E[t].dout, 1, t, "out", "aout") ELSE M IN ForBoth(F)
  /\ UNCHANGED <<inp, E, passedIn, snap, gen, made>>

TOut ==
  /\ stage = "aout" /\ stage' = "tout"
  /\ LET F(M, t) == IF Oc(t) = "DONE" \/ (Soe(t) /\ ~DevClientSkipsOnError)
                    THEN RunActs(M, E[t].dout, 1, t, "out", "cout") ELSE M
         one(S, t) == IF S.st[t] # "ok" THEN S ELSE Unpack(S, t, F(Pack(S, t), t))
         S2 == one(one(Cur, "A"), "B") IN
     /\ fs' = S2.fs /\ nx' = S2.nx /\ log' = S2.log /\ tar' = S2.tar
     /\ st' = [t \in Tasks |-> IF S2.st[t] # "ok" THEN S2.st[t]
                                ELSE CASE Oc(t) = "DONE"   -> "done"
                                       [] Oc(t) = "FAILED" -> "failed"
                                       [] OTHER            -> "canceled"]
  /\ UNCHANGED <<inp, E, passedIn, snap, gen, made>>

\* between the generations: the directory D the (first) directive's target lies in
\* disappears; the stager objects (and whatever they remember) stay
EnvDir == LET n  == IF inp.din # <<>> THEN Norm(inp.din[1]) ELSE Norm(inp.dout[1])
              dr == IF inp.din # <<>> THEN "in" ELSE "out" IN
          DirKey(TgtKey(SideOf(dr, n.act), n, "A"))
Env ==
  /\ stage = "tout" /\ gen = 1 /\ inp.g2 # "none"
  /\ LET D    == EnvDir
         keep == {k \in DOMAIN fs : ~(k[1] = D[1] /\ DirOf(k[2]) = D[2])}
         F1   == [k \in keep |-> fs[k]] IN
     /\ fs' = IF inp.g2 = "file" THEN Put(F1, D, [c |-> "envfile", i |-> "envfile"]) ELSE F1
     /\ snap' = fs'
  /\ made' = {DirKey(log[n].tk) : n \in {m \in 1 .. Len(log) : Carried(log, m) /\ DirOf(log[m].tk[2]) # ""}}
  /\ gen' = 2 /\ stage' = "new" /\ log' = <<>>
  /\ E' = [t \in Tasks |-> [din |-> <<>>, dout |-> <<>>]]
  /\ tar' = [t \in Tasks |-> <<>>]
  /\ st' = [t \in Tasks |-> "ok"]
  /\ passedIn' = [t \in Tasks |-> FALSE]
  /\ UNCHANGED <<inp, nx>>

Next == Expand \/ TIn \/ AIn \/ Exec \/ AOut \/ TOut \/ Env
Design == DesignInit /\ [][Next]_svars

(* ------------------------------------------------------------------------ *)
(* properties, over the ghost log and the file map                          *)
(* ------------------------------------------------------------------------ *)
AfterIn  == stage \in {"ain", "exec", "aout", "tout"}

\* the file placed by entry n was later replaced or moved away
ConsumedIn(L, n) ==
  \E m \in (n + 1) .. Len(L) : Carried(L, m) /\ (L[m].tk = L[n].tk \/ (L[m].kind = "move" /\ L[m].sk = L[n].tk))
\* the source name of entry n was later re-used or moved away
SrcGoneIn(L, n) ==
  \E m \in (n + 1) .. Len(L) : Carried(L, m) /\ (L[m].tk = L[n].sk \/ (L[m].kind = "move" /\ L[m].sk = L[n].sk))

\* where the documentation says directive j of t goes
DocTgt(t, dir, j) ==
  LET n == Norm(IF dir = "in" THEN RawOf(t).din[j] ELSE RawOf(t).dout[j]) IN
  TgtKey(SideOf(dir, n.act), n, t)

DocSrc(t, dir, j) ==
  LET n == Norm(IF dir = "in" THEN RawOf(t).din[j] ELSE RawOf(t).dout[j]) IN
  SrcKey(SideOf(dir, n.act), n, t)

TypeOK ==
  /\ stage \in {"new", "expanded", "tin", "ain", "exec", "aout", "tout"}
  /\ \A t \in Tasks : st[t] \in {"ok", "failed", "done", "canceled"}
  /\ \A k \in DOMAIN fs : k[1] \in NonTask \cup {"taskA", "taskB", "taskA2", "taskB2", "cwd", "stray"}

\* Placed: the named place holds the content the source had
InvPlaced ==
  /\ \A n \in 1 .. Len(log) :
        (Carried(log, n) /\ ~ConsumedIn(log, n)) =>
           LET k == DocTgt(log[n].t, log[n].dir, log[n].j) IN
           Has(fs, k) /\ fs[k].c = log[n].c
  \* ... and it was the NAMED data: taken from where the documentation says
  /\ \A n \in 1 .. Len(log) : log[n].sk = DocSrc(log[n].t, log[n].dir, log[n].j)

\* ... for every directive of a task that passed (a skipped directive is not carried out)
InvCarried ==
  /\ AfterIn => \A t \in Tasks : passedIn[t] =>
        \A j \in 1 .. Len(E[t].din) :
           \E n \in 1 .. Len(log) : log[n].t = t /\ log[n].dir = "in" /\ log[n].j = j
  /\ stage = "tout" => \A t \in Tasks : st[t] = "done" =>
        \A j \in 1 .. Len(E[t].dout) :
           \E n \in 1 .. Len(log) : log[n].t = t /\ log[n].dir = "out" /\ log[n].j = j

\* a directive that cannot be carried out fails its task
InvMissingFails ==
  \A n \in 1 .. Len(log) : log[n].kind = "missed" =>
     /\ (log[n].dir = "in"  /\ AfterIn) => ~passedIn[log[n].t]
     /\ (log[n].dir = "out" /\ stage = "tout") => st[log[n].t] = "failed"

\* ... and a task fails in staging only for a directive that cannot be carried out
Legit(n) == log[n].kind = "missed" /\ log[n].c \in {"nosource", "exists", "notdir"}
InvFailureJustified ==
  /\ AfterIn => \A t \in Tasks : ~passedIn[t] =>
        \E n \in 1 .. Len(log) : log[n].t = t /\ log[n].dir = "in" /\ Legit(n)
  /\ stage = "tout" => \A t \in Tasks : (passedIn[t] /\ Oc(t) # "FAILED" /\ st[t] = "failed") =>
        \E n \in 1 .. Len(log) : log[n].t = t /\ log[n].dir = "out" /\ Legit(n)

InvMoveRemoves ==
  \A n \in 1 .. Len(log) :
     (log[n].kind = "move" /\ ~\E m \in (n + 1) .. Len(log) : Carried(log, m) /\ log[m].tk = log[n].sk)
        => ~Has(fs, log[n].sk)

InvLinkShares ==
  \A n \in 1 .. Len(log) :
     (log[n].kind = "link" /\ ~ConsumedIn(log, n) /\ ~SrcGoneIn(log, n)) =>
        /\ Has(fs, log[n].sk) /\ Has(fs, log[n].tk)
        /\ fs[log[n].sk].i = fs[log[n].tk].i

\* OutOnlyIfDone: nothing of A's output directives happens after a failed run
NotB(F) == {k \in DOMAIN F : k[2] \notin {"ba", "bc", "bo"}}
InvOutOnlyIfDone ==
  (stage \in {"aout", "tout"} /\ inp.oc # "DONE" /\ ~inp.soe) =>
     /\ \A n \in 1 .. Len(log) : ~(log[n].t = "A" /\ log[n].dir = "out")
     /\ NotB(fs) = NotB(snap) /\ \A k \in NotB(fs) : fs[k] = snap[k]
     \* ... and a directive that is not carried out cannot fail: canceled stays canceled
     /\ (stage = "tout" /\ passedIn["A"]) =>
           st["A"] = IF inp.oc = "CANCELED" THEN "canceled" ELSE "failed"

\* documented for stage_on_error ("staging is attempted either way"); the
\* statement of C11 does not demand it - reported as an observation only
InvStageOnError ==
  (stage = "tout" /\ inp.oc # "DONE" /\ inp.soe /\ passedIn["A"]) =>
     \/ \E n \in 1 .. Len(log) : log[n].t = "A" /\ log[n].dir = "out" /\ log[n].kind = "missed"
     \/ \A j \in 1 .. Len(E["A"].dout) :
           \E n \in 1 .. Len(log) : log[n].t = "A" /\ log[n].dir = "out" /\ log[n].j = j

\* FailureLocal: whatever A asks for, B is staged and ends DONE
InvFailureLocal ==
  /\ AfterIn => /\ passedIn["B"]
                /\ Has(fs, <<TaskLoc("B"), "ba">>) /\ fs[<<TaskLoc("B"), "ba">>].c = "client:ba"
                /\ inp.ep = "local" =>
                      Has(fs, <<TaskLoc("B"), "bc">>) /\ fs[<<TaskLoc("B"), "bc">>].c = "pilot:ba"
  /\ stage = "tout" => /\ st["B"] = "done"
                       /\ Has(fs, <<"client", "bo">>) /\ fs[<<"client", "bo">>].c = TaskLoc("B") \o ":bo"
=============================================================================
