---------------------------- MODULE RaptorCache ----------------------------
(***************************************************************************)
(* Design model of the scheduler's cache of tasks which are bound to a     *)
(* raptor master whose queue is not registered yet                         *)
(*   agent/scheduler/base.py : _schedule_incoming (cache / forward),       *)
(*                             control_cb: cancel_tasks over _raptor_tasks, *)
(*                             register_raptor_queue relaying the cache    *)
(* A cancel request names 1 .. 3 uids (cached or not).  Exactly the named  *)
(* cached tasks are advanced CANCELED and dropped from the cache; none of  *)
(* them is relayed when the master's queue registers; every other cached   *)
(* task is relayed exactly once.                                           *)
(***************************************************************************)
EXTENDS Naturals, Sequences, FiniteSets, TLC

CONSTANTS Tasks, Masters, Rid,     \* [Tasks -> Masters]
          MaxCancel,               \* cancel requests per behaviour
          DevSkipNeighbour,        \* removal while iterating skips the next entry
          DevCancelKeepsCached     \* named tasks are canceled but stay cached

VARIABLES arrived, cache, reg, fwd, canc, named, cnamed, ncan

vars == <<arrived, cache, reg, fwd, canc, named, cnamed, ncan>>

SeqSet(s) == {s[i] : i \in 1 .. Len(s)}
Without(s, i) == SubSeq(s, 1, i - 1) \o SubSeq(s, i + 1, Len(s))

Init ==
  /\ arrived = {} /\ cache = [m \in Masters |-> <<>>] /\ reg = [m \in Masters |-> FALSE]
  /\ fwd = [t \in Tasks |-> 0] /\ canc = [t \in Tasks |-> 0]
  /\ named = {} /\ cnamed = {} /\ ncan = 0

\* _schedule_incoming: forward to the registered queue or keep
Arrive(t) ==
  /\ t \notin arrived /\ arrived' = arrived \cup {t}
  /\ IF reg[Rid[t]]
     THEN fwd' = [fwd EXCEPT ![t] = @ + 1] /\ UNCHANGED cache
     ELSE cache' = [cache EXCEPT ![Rid[t]] = Append(@, t)] /\ UNCHANGED fwd
  /\ UNCHANGED <<reg, canc, named, cnamed, ncan>>

\* what is left of a cached list: intended, and "for x in list: list.remove(x)"
Kept(s, S) == SelectSeq(s, LAMBDA t : t \notin S)
RECURSIVE Walk(_, _, _)
Walk(s, i, S) == IF i > Len(s) THEN s
                 ELSE IF s[i] \in S THEN Walk(Without(s, i), i + 1, S)
                 ELSE Walk(s, i + 1, S)
Left(s, S) == IF DevSkipNeighbour THEN Walk(s, 1, S) ELSE Kept(s, S)

Cancel(S) ==
  /\ Cardinality(S) \in 1 .. 3
  /\ ncan < MaxCancel /\ ncan' = ncan + 1
  /\ \E m \in Masters : cache[m] # <<>>          \* arriving while tasks are cached
  /\ LET hit  == {t \in S : \E m \in Masters : t \in SeqSet(cache[m])}
         gone == {t \in hit : t \notin SeqSet(Left(cache[Rid[t]], S))}
     IN /\ named' = named \cup S
        /\ cnamed' = cnamed \cup hit
        /\ canc' = [t \in Tasks |-> IF t \in gone THEN canc[t] + 1 ELSE canc[t]]
        /\ cache' = IF DevCancelKeepsCached THEN cache
                    ELSE [m \in Masters |-> Left(cache[m], S)]
  /\ UNCHANGED <<arrived, reg, fwd>>

\* register_raptor_queue: relay what was kept
Register(m) ==
  /\ ~reg[m] /\ reg' = [reg EXCEPT ![m] = TRUE]
  /\ fwd' = [t \in Tasks |-> IF t \in SeqSet(cache[m]) THEN fwd[t] + 1 ELSE fwd[t]]
  /\ cache' = [cache EXCEPT ![m] = <<>>]
  /\ UNCHANGED <<arrived, canc, named, cnamed, ncan>>

Next == \/ \E t \in Tasks : Arrive(t)
        \/ \E S \in SUBSET Tasks : Cancel(S)
        \/ \E m \in Masters : Register(m)
Spec == Init /\ [][Next]_vars

Cached(t) == \E m \in Masters : t \in SeqSet(cache[m])

TypeOK == arrived \subseteq Tasks /\ cnamed \subseteq named
InvNamedNeverRelayed ==
  \A t \in cnamed : fwd[t] = 0 /\ canc[t] = 1 /\ ~Cached(t)
InvBystanderRelayedOnce ==
  \A t \in Tasks \ cnamed :
     /\ canc[t] = 0 /\ fwd[t] <= 1
     /\ (t \in arrived => IF reg[Rid[t]] THEN fwd[t] = 1 /\ ~Cached(t)
                          ELSE fwd[t] = 0 /\ Cached(t))
=============================================================================
