---------------------------- MODULE RaptorCache ----------------------------
(***************************************************************************)
(* Design model of the scheduler's cache of tasks which are bound to a     *)
(* raptor master whose queue is not registered yet                         *)
(*   agent/scheduler/base.py : _schedule_incoming (cache / forward),       *)
(*                             control_cb: cancel_tasks over _raptor_tasks, *)
(*                             register_raptor_queue relaying the cache    *)
(* A cancel request names 1 .. 3 uids (cached or not).  Exactly the named  *)
(* cached tasks are advanced CANCELED and dropped from the cache; none of  *)
(* them is relayed when the master's queue registers; every other cached   *)
(* task is relayed exactly once.                                           *)
(***************************************************************************)
EXTENDS Naturals, Sequences, FiniteSets, TLC

CONSTANTS Tasks, Masters, Rid,     \* [Tasks -> Masters \cup {"*"}]; "*": any master will do
          MaxCancel,               \* cancel requests per behaviour
          DevSkipNeighbour,        \* removal while iterating skips the next entry
          DevCancelKeepsCached,    \* named tasks are canceled but stay cached
          DevStarOnlyIfNoOwn       \* registration relays the "*" backlog only if the master
                                   \* has no backlog of its own (elif)

Keys == Masters \cup {"*"}        \* the cache is keyed by master uid or "*"

VARIABLES arrived, cache, keys, reg, fwd, canc, named, cnamed, ncan

vars == <<arrived, cache, keys, reg, fwd, canc, named, cnamed, ncan>>

SeqSet(s) == {s[i] : i \in 1 .. Len(s)}
Without(s, i) == SubSeq(s, 1, i - 1) \o SubSeq(s, i + 1, Len(s))
AnyReg == \E m \in Masters : reg[m]
\* is there a queue the task can go to?
Served(t) == IF Rid[t] = "*" THEN AnyReg ELSE reg[Rid[t]]

Init ==
  /\ arrived = {} /\ cache = [k \in Keys |-> <<>>] /\ keys = {}
  /\ reg = [m \in Masters |-> FALSE]
  /\ fwd = [t \in Tasks |-> 0] /\ canc = [t \in Tasks |-> 0]
  /\ named = {} /\ cnamed = {} /\ ncan = 0

\* _schedule_incoming: forward to a registered queue (round robin for "*") or keep
Arrive(t) ==
  /\ t \notin arrived /\ arrived' = arrived \cup {t}
  /\ IF Served(t)
     THEN fwd' = [fwd EXCEPT ![t] = @ + 1] /\ UNCHANGED <<cache, keys>>
     ELSE /\ cache' = [cache EXCEPT ![Rid[t]] = Append(@, t)]
          /\ keys' = keys \cup {Rid[t]} /\ UNCHANGED fwd
  /\ UNCHANGED <<reg, canc, named, cnamed, ncan>>

\* what is left of a cached list: intended, and "for x in list: list.remove(x)"
Kept(s, S) == SelectSeq(s, LAMBDA t : t \notin S)
RECURSIVE Walk(_, _, _)
Walk(s, i, S) == IF i > Len(s) THEN s
                 ELSE IF s[i] \in S THEN Walk(Without(s, i), i + 1, S)
                 ELSE Walk(s, i + 1, S)
Left(s, S) == IF DevSkipNeighbour THEN Walk(s, 1, S) ELSE Kept(s, S)

\* the list stays under its key even if the request empties it
Cancel(S) ==
  /\ Cardinality(S) \in 1 .. 3
  /\ ncan < MaxCancel /\ ncan' = ncan + 1
  /\ \E k \in Keys : cache[k] # <<>>             \* arriving while tasks are cached
  /\ LET hit  == {t \in S : \E k \in Keys : t \in SeqSet(cache[k])}
         gone == {t \in hit : t \notin SeqSet(Left(cache[Rid[t]], S))}
     IN /\ named' = named \cup S
        /\ cnamed' = cnamed \cup hit
        /\ canc' = [t \in Tasks |-> IF t \in gone THEN canc[t] + 1 ELSE canc[t]]
        /\ cache' = IF DevCancelKeepsCached THEN cache
                    ELSE [k \in Keys |-> Left(cache[k], S)]
  /\ UNCHANGED <<arrived, keys, reg, fwd>>

\* register_raptor_queue: relay the master's own backlog and the "*" backlog
Register(m) ==
  /\ ~reg[m] /\ reg' = [reg EXCEPT ![m] = TRUE]
  /\ LET star == ~(DevStarOnlyIfNoOwn /\ m \in keys)
         out  == SeqSet(cache[m]) \cup (IF star THEN SeqSet(cache["*"]) ELSE {})
     IN /\ fwd' = [t \in Tasks |-> IF t \in out THEN fwd[t] + 1 ELSE fwd[t]]
        /\ cache' = [k \in Keys |-> IF k = m \/ (k = "*" /\ star) THEN <<>> ELSE cache[k]]
        /\ keys' = keys \ ({m} \cup (IF star THEN {"*"} ELSE {}))
  /\ UNCHANGED <<arrived, canc, named, cnamed, ncan>>

Next == \/ \E t \in Tasks : Arrive(t)
        \/ \E S \in SUBSET Tasks : Cancel(S)
        \/ \E m \in Masters : Register(m)
Spec == Init /\ [][Next]_vars

Cached(t) == \E k \in Keys : t \in SeqSet(cache[k])

TypeOK == arrived \subseteq Tasks /\ cnamed \subseteq named /\ keys \subseteq Keys
InvNamedNeverRelayed ==
  \A t \in cnamed : fwd[t] = 0 /\ canc[t] = 1 /\ ~Cached(t)
InvBystanderRelayedOnce ==
  \A t \in Tasks \ cnamed :
     /\ canc[t] = 0 /\ fwd[t] <= 1
     /\ (t \in arrived => IF Served(t) THEN fwd[t] = 1 /\ ~Cached(t)
                          ELSE fwd[t] = 0 /\ Cached(t))
\* once SOME master has registered, nothing addressed to "*" or to a registered
\* master stays behind
InvNoTaskStuck ==
  /\ AnyReg => cache["*"] = <<>>
  /\ \A m \in Masters : reg[m] => cache[m] = <<>>
=============================================================================
