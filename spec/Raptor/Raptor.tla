------------------------------- MODULE Raptor -------------------------------
(***************************************************************************)
(* Design model of the raptor request path                                 *)
(*   agent/scheduler/base.py  : raptor hand-off in _schedule_incoming,     *)
(*                              control_cb register/unregister_raptor_queue *)
(*   raptor/master.py         : Master._request_cb/_submit_tasks/_result_cb *)
(*   raptor/worker_default.py : DefaultWorker._request_cb/_alloc/_dealloc/ *)
(*                              _dispatch/_result_watcher/_result_cb        *)
(*   raptor/worker.py         : the per-mode dispatchers (contract only)   *)
(*                                                                         *)
(* A request r travels                                                     *)
(*   new -> (scheduler) -> backlog | mq -> (master) ->                     *)
(*      executable  : agent -> (scheduler, raptor_seen) -> local -> out    *)
(*      function-like: wq -> held -> run -> resq -> mres -> out            *)
(* The dispatch process of a request with a timeout (parent _dispatch and  *)
(* child _worker_proc) is stepped operation by operation: see Finish ff.   *)
(* The MPI worker has its own model, RaptorMPI.                            *)
(* Ghost variables (runningOn, put, back, target, ec, visits) state the    *)
(* property independently of the code's bookkeeping (cores, gpus, slots,   *)
(* pool).  Known / conceivable deviations are boolean constants DevXxx.    *)
(***************************************************************************)
EXTENDS RaptorOps, TLC

CONSTANTS Reqs,             \* request ids
          Demand,           \* [Reqs -> [c, g]]
          Mode,             \* [Reqs -> "exe" | "func" | "eval" | "exec" | "proc" | "shell"]
          Kind,             \* [Reqs -> payload kind]
          MayTimeout,       \* requests that carry a timeout
          MaySpawnFail,     \* requests whose process may fail to start
          DevNoDeallocOnSpawnFail,  \* spawn failure keeps the allocation
          DevAllocIgnoresBusy,      \* _alloc hands out busy indices
          DevPutOutsideLock,        \* _dispatch child: result queued before res_lock is taken
          DevDupKillsWatcher,       \* a duplicated result ends the result thread
          DevStartOutsideLock,      \* _request_cb starts the dispatch process before it
                                    \* takes the pool lock under which the pid is registered
          DevNoSynthWithoutTimeout, \* _dispatch makes up a result for a silent child only
                                    \* if the request has a timeout
          DevTargetIgnoresMissing,  \* missing exit code counted as success
          DevNoSeen,                \* master forgets raptor_seen
          DevEnvLeak                \* dispatcher does not restore the environment

ASSUME \A r \in Reqs : ValidDemand(Demand[r]) /\ (Mode[r] = ExeMode \/ KindOK(Kind[r], Mode[r]))

VARIABLES st, reg, backlog, seen, mq, wq, cur, polled,
          cores, gpus, slots, pool, resq, wdead, mres, env, sout,
          runningOn, put, back, target, ec, visits,
          cpc, ppc, lk, rdone, act,    \* the dispatch process pair of a request (see below)
          win,                         \* request whose process runs, pid not yet in the pool
          fate                         \* ghost: what really happened ("ok" | "failed")

dvars == <<cpc, ppc, lk, rdone, act, win>>
vars == <<st, reg, backlog, seen, mq, wq, cur, polled, cores, gpus, slots, pool, resq,
          wdead, mres, env, sout, runningOn, put, back, target, ec, visits, dvars, fate>>

IsExe(r)  == Mode[r] = ExeMode
NatRet(r) == IF Succeeds(Kind[r]) THEN "0" ELSE IF Mode[r] \in ProcModes THEN "3" ELSE "1"
SeqSet(s) == {s[i] : i \in 1 .. Len(s)}

Init ==
  /\ st = [r \in Reqs |-> "new"]
  /\ reg = "no" /\ backlog = <<>> /\ seen = {} /\ mq = <<>> /\ wq = <<>>
  /\ cur = "none" /\ polled = FALSE
  /\ cores = ZeroCores /\ gpus = ZeroGpus
  /\ slots = [r \in Reqs |-> NoSlots] /\ pool = {} /\ resq = {} /\ wdead = FALSE /\ mres = {}
  /\ env = Env0 /\ sout = "orig"
  /\ runningOn = [r \in Reqs |-> NoSlots]
  /\ put = [r \in Reqs |-> 0] /\ back = [r \in Reqs |-> 0]
  /\ target = [r \in Reqs |-> "none"] /\ ec = [r \in Reqs |-> "unset"]
  /\ visits = [r \in Reqs |-> 0]
  /\ cpc = [r \in Reqs |-> "idle"] /\ ppc = [r \in Reqs |-> "idle"]
  /\ lk = [r \in Reqs |-> "free"] /\ rdone = [r \in Reqs |-> FALSE] /\ act = "none" /\ win = "none"
  /\ fate = [r \in Reqs |-> "none"]

(* ------------------------------------------------------------------------ *)
(* scheduler hand-off (_schedule_incoming, control_cb)                      *)
(* ------------------------------------------------------------------------ *)
SchedIn(r) ==
  /\ st[r] \in {"new", "agent"}
  /\ IF r \in seen
     THEN /\ st' = [st EXCEPT ![r] = "local"]
          /\ UNCHANGED <<mq, backlog>>
     ELSE IF reg = "yes"
     THEN /\ mq' = Append(mq, r) /\ st' = [st EXCEPT ![r] = "mq"] /\ UNCHANGED backlog
     ELSE /\ backlog' = Append(backlog, r) /\ st' = [st EXCEPT ![r] = "backlog"] /\ UNCHANGED mq
  /\ UNCHANGED <<reg, seen, wq, cur, polled, cores, gpus, slots, pool, resq, wdead, mres,
                 env, sout, runningOn, put, back, target, ec, visits, dvars, fate>>

Register ==
  /\ reg = "no" /\ reg' = "yes"
  /\ mq' = mq \o backlog /\ backlog' = <<>>
  /\ st' = [r \in Reqs |-> IF r \in SeqSet(backlog) THEN "mq" ELSE st[r]]
  /\ UNCHANGED <<seen, wq, cur, polled, cores, gpus, slots, pool, resq, wdead, mres,
                 env, sout, runningOn, put, back, target, ec, visits, dvars, fate>>

\* the master is gone: what was kept for it is failed
Unregister ==
  /\ (reg = "yes" /\ \A r \in Reqs : st[r] \notin {"mq"}) \/ (reg # "yes" /\ backlog # <<>>)
  /\ reg' = IF reg = "yes" THEN "gone" ELSE reg
  /\ backlog' = <<>>
  /\ st' = [r \in Reqs |-> IF r \in SeqSet(backlog) THEN "failed" ELSE st[r]]
  /\ UNCHANGED <<seen, mq, wq, cur, polled, cores, gpus, slots, pool, resq, wdead, mres,
                 env, sout, runningOn, put, back, target, ec, visits, dvars, fate>>

(* ------------------------------------------------------------------------ *)
(* master                                                                   *)
(* ------------------------------------------------------------------------ *)
Dispatch(r) ==
  /\ mq # <<>> /\ Head(mq) = r
  /\ mq' = Tail(mq)
  /\ visits' = [visits EXCEPT ![r] = @ + 1]
  /\ IF IsExe(r)
     THEN /\ seen' = IF DevNoSeen THEN seen ELSE seen \cup {r}
          /\ st' = [st EXCEPT ![r] = "agent"]
          /\ UNCHANGED wq
     ELSE /\ wq' = Append(wq, r)
          /\ st' = [st EXCEPT ![r] = "wq"]
          /\ UNCHANGED seen
  /\ UNCHANGED <<reg, backlog, cur, polled, cores, gpus, slots, pool, resq, wdead, mres,
                 env, sout, runningOn, put, back, target, ec, dvars, fate>>

Back(r, e) ==
  /\ back' = [back EXCEPT ![r] = @ + 1]
  /\ ec' = [ec EXCEPT ![r] = e]
  /\ target' = [target EXCEPT ![r] = IF DevTargetIgnoresMissing /\ e = "none" THEN "DONE"
                                      ELSE TargetOf(e)]
  /\ st' = [st EXCEPT ![r] = "out"]

\* an executable request ran through the pilot's normal path (raptor_state_update)
LocalDone(r, e) ==
  /\ st[r] = "local" /\ e \in {"0", "1"}
  /\ Back(r, e)
  /\ UNCHANGED <<reg, backlog, seen, mq, wq, cur, polled, cores, gpus, slots, pool, resq,
                 wdead, mres, env, sout, runningOn, put, visits, dvars>>
  /\ fate' = [fate EXCEPT ![r] = IF e = "0" THEN "ok" ELSE "failed"]

\* a result taken from the result queue
Result(r) ==
  /\ \E x \in mres : /\ x.r = r
                      /\ mres' = mres \ {x}
                      /\ Back(r, x.ec)
  /\ UNCHANGED <<reg, backlog, seen, mq, wq, cur, polled, cores, gpus, slots, pool, resq,
                 wdead, env, sout, runningOn, put, visits, dvars, fate>>

(* ------------------------------------------------------------------------ *)
(* worker                                                                   *)
(* ------------------------------------------------------------------------ *)
Take(r) ==
  /\ cur = "none" /\ wq # <<>> /\ Head(wq) = r
  /\ wq' = Tail(wq) /\ cur' = r /\ polled' = FALSE
  /\ st' = [st EXCEPT ![r] = "held"]
  /\ UNCHANGED <<reg, backlog, seen, mq, cores, gpus, slots, pool, resq, wdead, mres,
                 env, sout, runningOn, put, back, target, ec, visits, dvars, fate>>

CodeFits(r) == DevAllocIgnoresBusy \/ FitsOcc(cores, gpus, Demand[r])
CodeAlloc(r) == IF DevAllocIgnoresBusy
                THEN [cores |-> LowestN(Core, Demand[r].c), gpus |-> LowestN(Gpu, Demand[r].g)]
                ELSE AllocOf(cores, gpus, Demand[r])

\* the wait-for-resources poll of _request_cb
Wait ==
  /\ cur # "none" /\ win = "none" /\ ~CodeFits(cur) /\ ~polled
  /\ polled' = TRUE
  /\ UNCHANGED <<st, reg, backlog, seen, mq, wq, cur, cores, gpus, slots, pool, resq, wdead,
                 mres, env, sout, runningOn, put, back, target, ec, visits, dvars, fate>>

\* _request_cb: the dispatch process is started and runs from now on; its pid
\* is registered in the pool in a second step.  Both happen under the pool lock
\* (_plock), which the result thread needs to take a pid out of the pool.
StartProc(r) ==
  /\ cur = r /\ win = "none" /\ CodeFits(r)
  /\ LET a == CodeAlloc(r) IN
     /\ cores' = MarkCores(cores, a.cores, 1) /\ gpus' = MarkGpus(gpus, a.gpus, 1)
     /\ slots' = [slots EXCEPT ![r] = a]
     /\ runningOn' = [runningOn EXCEPT ![r] = a]
  /\ win' = r
  /\ st' = [st EXCEPT ![r] = "run"]
  /\ UNCHANGED <<reg, backlog, seen, mq, wq, cur, polled, pool, resq, wdead, mres, env, sout,
                 put, back, target, ec, visits, cpc, ppc, lk, rdone, act, fate>>

RegisterPid(r) ==
  /\ win = r
  /\ pool' = pool \cup {r} /\ win' = "none" /\ cur' = "none"
  /\ UNCHANGED <<st, reg, backlog, seen, mq, wq, polled, cores, gpus, slots, resq, wdead,
                 mres, env, sout, runningOn, put, back, target, ec, visits,
                 cpc, ppc, lk, rdone, act, fate>>

PoolLockFree == win = "none" \/ DevStartOutsideLock

\* allocation succeeded, the process could not be started: release, report
SpawnFails(r) ==
  /\ cur = r /\ win = "none" /\ CodeFits(r) /\ r \in MaySpawnFail
  /\ LET a == CodeAlloc(r) IN
     IF DevNoDeallocOnSpawnFail
     THEN /\ cores' = MarkCores(cores, a.cores, 1) /\ gpus' = MarkGpus(gpus, a.gpus, 1)
          /\ slots' = [slots EXCEPT ![r] = a]
     ELSE /\ UNCHANGED <<cores, gpus>> /\ slots' = [slots EXCEPT ![r] = a]
  /\ cur' = "none"
  /\ mres' = mres \cup {[r |-> r, ec |-> "none"]}
  /\ put' = [put EXCEPT ![r] = @ + 1]
  /\ st' = [st EXCEPT ![r] = "mres"]
  /\ UNCHANGED <<reg, backlog, seen, mq, wq, polled, pool, resq, wdead, env, sout,
                 runningOn, back, target, ec, visits, dvars>>
  /\ fate' = [fate EXCEPT ![r] = "failed"]

(* ---- the dispatch process of a request ---------------------------------- *)
(* DefaultWorker._dispatch (parent) and its nested _worker_proc (child).     *)
(* A request without timeout: the parent can only wait for the child, the    *)
(* pair is one step (Finish).  A request with a timeout: parent and child    *)
(* race, and every operation on what they share is a step of its own:        *)
(*   child : payload | take res_lock | put result | set res_done + release   *)
(*   parent: join(timeout) returns | take res_lock | res_done.is_set() |     *)
(*           terminate child | put timeout result + release                  *)
(* Dispatch processes of different requests share nothing but the result     *)
(* queue (a bag), so only one pair is stepped at a time (act).               *)
Micro(r) == r \in MayTimeout
NatRes(r) == [r |-> r, ret |-> NatRet(r), n |-> 1]
TmoRes(r) == [r |-> r, ret |-> "1", n |-> 2]
EnvAfter(r) == IF DevEnvLeak THEN During(env, Kind[r], Mode[r]) ELSE env
Queued(r) == [st EXCEPT ![r] = IF @ = "run" THEN "resq" ELSE @]

Silent(r) == Kind[r] = "die"          \* the child ends without reporting
PayFate(r) == IF Succeeds(Kind[r]) THEN "ok" ELSE "failed"

\* no timeout: the parent waits for the child; a child which ended without a
\* result gets one made up by the parent (exit code 1)
Finish(r) ==
  /\ st[r] = "run" /\ ~Micro(r)
  /\ IF Silent(r) /\ DevNoSynthWithoutTimeout
     THEN /\ st' = [st EXCEPT ![r] = "lost"] /\ UNCHANGED resq
     ELSE /\ resq' = resq \cup {IF Silent(r) THEN TmoRes(r) ELSE NatRes(r)}
          /\ st' = Queued(r)
  /\ fate' = [fate EXCEPT ![r] = PayFate(r)]
  /\ env' = IF Silent(r) THEN env ELSE EnvAfter(r)
  /\ sout' = sout
  /\ UNCHANGED <<reg, backlog, seen, mq, wq, cur, polled, cores, gpus, slots, pool, wdead,
                 mres, runningOn, put, back, target, ec, visits, dvars>>

DUnch == UNCHANGED <<win, reg, backlog, seen, mq, wq, cur, polled, cores, gpus, slots, pool, wdead,
                     mres, sout, runningOn, put, back, target, ec, visits>>

PStart(r) ==
  /\ st[r] = "run" /\ Micro(r) /\ ppc[r] = "idle" /\ act = "none"
  /\ act' = r /\ ppc' = [ppc EXCEPT ![r] = "join"] /\ cpc' = [cpc EXCEPT ![r] = "ready"]
  /\ DUnch /\ UNCHANGED <<fate, st, resq, env, lk, rdone>>

\* the payload runs; the child arrives at its first shared operation
CRun(r) ==
  /\ cpc[r] = "ready"
  /\ cpc' = [cpc EXCEPT ![r] = IF Silent(r) THEN "done"
                                ELSE IF DevPutOutsideLock THEN "put" ELSE "wlock"]
  /\ env' = IF Silent(r) THEN env ELSE EnvAfter(r)
  /\ DUnch /\ UNCHANGED <<fate, st, resq, ppc, lk, rdone, act>>

CLock(r) ==
  /\ cpc[r] = "wlock" /\ lk[r] = "free"
  /\ lk' = [lk EXCEPT ![r] = "c"]
  /\ cpc' = [cpc EXCEPT ![r] = IF DevPutOutsideLock THEN "set" ELSE "put"]
  /\ DUnch /\ UNCHANGED <<fate, st, resq, env, ppc, rdone, act>>

CPut(r) ==
  /\ cpc[r] = "put"
  /\ resq' = resq \cup {NatRes(r)} /\ st' = Queued(r)
  /\ fate' = [fate EXCEPT ![r] = PayFate(r)]
  /\ cpc' = [cpc EXCEPT ![r] = IF DevPutOutsideLock THEN "wlock" ELSE "set"]
  /\ DUnch /\ UNCHANGED <<env, ppc, lk, rdone, act>>

CSet(r) ==
  /\ cpc[r] = "set"
  /\ rdone' = [rdone EXCEPT ![r] = TRUE] /\ lk' = [lk EXCEPT ![r] = "free"]
  /\ cpc' = [cpc EXCEPT ![r] = "done"]
  /\ DUnch /\ UNCHANGED <<fate, st, resq, env, ppc, act>>

\* join(timeout) returns: the child ended or the timeout expired
PJoin(r) ==
  /\ ppc[r] = "join"
  /\ ppc' = [ppc EXCEPT ![r] = "wlock"]
  /\ DUnch /\ UNCHANGED <<fate, st, resq, env, cpc, lk, rdone, act>>

PLock(r) ==
  /\ ppc[r] = "wlock" /\ lk[r] = "free"
  /\ lk' = [lk EXCEPT ![r] = "p"] /\ ppc' = [ppc EXCEPT ![r] = "check"]
  /\ DUnch /\ UNCHANGED <<fate, st, resq, env, cpc, rdone, act>>

PCheck(r) ==
  /\ ppc[r] = "check"
  /\ IF rdone[r]
     THEN /\ lk' = [lk EXCEPT ![r] = "free"] /\ ppc' = [ppc EXCEPT ![r] = "exit"]
          /\ act' = "none"
     ELSE /\ ppc' = [ppc EXCEPT ![r] = "kill"] /\ UNCHANGED <<lk, act>>
  /\ DUnch /\ UNCHANGED <<fate, st, resq, env, cpc, rdone>>

PKill(r) ==
  /\ ppc[r] = "kill"
  /\ cpc' = [cpc EXCEPT ![r] = IF @ = "done" THEN @ ELSE "killed"]
  /\ ppc' = [ppc EXCEPT ![r] = "put2"]
  /\ DUnch /\ UNCHANGED <<fate, st, resq, env, lk, rdone, act>>

PPut2(r) ==
  /\ ppc[r] = "put2"
  /\ resq' = resq \cup {TmoRes(r)} /\ st' = Queued(r)
  /\ fate' = [fate EXCEPT ![r] = IF @ = "none" THEN "failed" ELSE @]
  /\ lk' = [lk EXCEPT ![r] = "free"] /\ ppc' = [ppc EXCEPT ![r] = "exit"] /\ act' = "none"
  /\ DUnch /\ UNCHANGED <<env, cpc, rdone>>

DispatchStep(r) == PStart(r) \/ CRun(r) \/ CLock(r) \/ CPut(r) \/ CSet(r)
                   \/ PJoin(r) \/ PLock(r) \/ PCheck(r) \/ PKill(r) \/ PPut2(r)

\* result watcher -> _result_cb
Deliver(r, n) ==
  /\ ~wdead /\ PoolLockFree
  /\ \E x \in resq :
     /\ x.r = r /\ x.n = n
     /\ resq' = resq \ {x}
     /\ IF r \in pool
        THEN /\ pool' = pool \ {r}
             /\ cores' = MarkCores(cores, slots[r].cores, 0)
             /\ gpus'  = MarkGpus(gpus, slots[r].gpus, 0)
             /\ runningOn' = [runningOn EXCEPT ![r] = NoSlots]
             /\ mres' = mres \cup {[r |-> r, ec |-> x.ret]}
             /\ put' = [put EXCEPT ![r] = @ + 1]
             /\ st' = [st EXCEPT ![r] = "mres"]
             /\ UNCHANGED wdead
        ELSE /\ wdead' = DevDupKillsWatcher
             /\ UNCHANGED <<pool, cores, gpus, runningOn, mres, put, st>>
  /\ UNCHANGED <<reg, backlog, seen, mq, wq, cur, polled, slots, env, sout,
                 back, target, ec, visits, dvars, fate>>

Done == \A r \in Reqs : st[r] \in {"out", "failed"}
Terminated == Done /\ UNCHANGED vars

Sched  == (\E r \in Reqs : SchedIn(r)) \/ Register \/ Unregister
Master == \E r \in Reqs : Dispatch(r) \/ (\E e \in {"0", "1"} : LocalDone(r, e))
Worker == \/ \E r \in Reqs : Take(r) \/ StartProc(r) \/ RegisterPid(r) \/ SpawnFails(r)
                              \/ Finish(r) \/ DispatchStep(r)
          \/ Wait
          \/ \E r \in Reqs, n \in {1, 2} : Deliver(r, n)
MRes   == \E r \in Reqs : Result(r)

Next == Sched \/ Master \/ Worker \/ MRes \/ Terminated
Spec == Init /\ [][Next]_vars

(* ------------------------------------------------------------------------ *)
(* properties                                                               *)
(* ------------------------------------------------------------------------ *)
States == {"new", "backlog", "mq", "agent", "local", "wq", "held", "run", "resq", "mres",
           "out", "failed", "lost"}
TypeOK ==
  /\ st \in [Reqs -> States]
  /\ cur \in Reqs \cup {"none"} /\ pool \subseteq Reqs
  /\ \A i \in Core : cores[i] \in {0, 1}
  /\ \A i \in Gpu  : gpus[i]  \in {0, 1}
  /\ act \in Reqs \cup {"none"}
  /\ \A r \in Reqs : /\ cpc[r] \in {"idle", "ready", "wlock", "put", "set", "done", "killed"}
                      /\ ppc[r] \in {"idle", "join", "wlock", "check", "kill", "put2", "exit"}
                      /\ lk[r] \in {"free", "c", "p"}

Running == {r \in Reqs : runningOn[r] # NoSlots}

\* NoShare
InvNoShare    == Disjoint(runningOn, Reqs) /\ Within(runningOn, Reqs)
InvDemandMet  == \A r \in Reqs : st[r] = "run" =>
                    /\ Cardinality(runningOn[r].cores) = Demand[r].c
                    /\ Cardinality(runningOn[r].gpus)  = Demand[r].g
InvOccMatches == OccMatches(cores, gpus, runningOn, Reqs)
\* AllBack
InvAllBack    == (pool = {} /\ cur = "none") => AllZero(cores, gpus)
\* ResultOnce (the deadlock check adds: every request comes back at all)
InvResultOnce == \A r \in Reqs : /\ put[r] <= 1 /\ back[r] <= 1
                                 /\ (st[r] = "out" => back[r] = 1)
                                 /\ (st[r] = "out" /\ ~IsExe(r) => put[r] = 1)
\* TargetFromExit
InvTarget     == \A r \in Reqs : st[r] = "out" => target[r] = TargetOf(ec[r])
\* truthfulness at the master: DONE exactly for what really succeeded
InvTruth      == \A r \in Reqs : st[r] = "out" => ((target[r] = "DONE") <=> (fate[r] = "ok"))
\* Routing
WorkerStates  == {"wq", "held", "run", "resq", "mres", "lost"}
InvRouting    == \A r \in Reqs :
                    /\ visits[r] <= 1
                    /\ (IsExe(r)  => st[r] \notin WorkerStates)
                    /\ (~IsExe(r) => st[r] \notin {"agent", "local"})
                    /\ (st[r] = "local" => r \in seen /\ visits[r] = 1)
\* Restored
InvRestored   == env = Env0 /\ sout = "orig"
=============================================================================
