------------------------------- MODULE Raptor -------------------------------
(***************************************************************************)
(* Design model of the raptor request path                                 *)
(*   agent/scheduler/base.py  : raptor hand-off in _schedule_incoming,     *)
(*                              control_cb register/unregister_raptor_queue *)
(*   raptor/master.py         : Master._request_cb/_submit_tasks/_result_cb *)
(*   raptor/worker_default.py : DefaultWorker._request_cb/_alloc/_dealloc/ *)
(*                              _dispatch/_result_watcher/_result_cb        *)
(*   raptor/worker.py         : the per-mode dispatchers (contract only)   *)
(*                                                                         *)
(* A request r travels                                                     *)
(*   new -> (scheduler) -> backlog | mq -> (master) ->                     *)
(*      executable  : agent -> (scheduler, raptor_seen) -> local -> out    *)
(*      function-like: wq -> held -> run -> resq -> mres -> out            *)
(* Ghost variables (runningOn, put, back, target, ec, visits) state the    *)
(* property independently of the code's bookkeeping (cores, gpus, slots,   *)
(* pool).  Known / conceivable deviations are boolean constants DevXxx.    *)
(***************************************************************************)
EXTENDS RaptorOps, TLC

CONSTANTS Reqs,             \* request ids
          Demand,           \* [Reqs -> [c, g]]
          Mode,             \* [Reqs -> "exe" | "func" | "eval" | "exec" | "proc" | "shell"]
          Kind,             \* [Reqs -> payload kind]
          MayTimeout,       \* requests that carry a timeout
          MaySpawnFail,     \* requests whose process may fail to start
          DevNoDeallocOnSpawnFail,  \* spawn failure keeps the allocation
          DevAllocIgnoresBusy,      \* _alloc hands out busy indices
          DevTimeoutRace,           \* _dispatch: result put and kill both fire
          DevDupKillsWatcher,       \* a duplicated result ends the result thread
          DevSysExitLost,           \* a payload leaving via SystemExit reports nothing
          DevTargetIgnoresMissing,  \* missing exit code counted as success
          DevNoSeen,                \* master forgets raptor_seen
          DevEnvLeak                \* dispatcher does not restore the environment

ASSUME \A r \in Reqs : ValidDemand(Demand[r]) /\ (Mode[r] = ExeMode \/ KindOK(Kind[r], Mode[r]))

VARIABLES st, reg, backlog, seen, mq, wq, cur, polled,
          cores, gpus, slots, pool, resq, wdead, mres, env, sout,
          runningOn, put, back, target, ec, visits

vars == <<st, reg, backlog, seen, mq, wq, cur, polled, cores, gpus, slots, pool, resq,
          wdead, mres, env, sout, runningOn, put, back, target, ec, visits>>

IsExe(r)  == Mode[r] = ExeMode
NatRet(r) == IF Succeeds(Kind[r]) THEN "0" ELSE IF Mode[r] \in ProcModes THEN "3" ELSE "1"
SeqSet(s) == {s[i] : i \in 1 .. Len(s)}

Init ==
  /\ st = [r \in Reqs |-> "new"]
  /\ reg = "no" /\ backlog = <<>> /\ seen = {} /\ mq = <<>> /\ wq = <<>>
  /\ cur = "none" /\ polled = FALSE
  /\ cores = ZeroCores /\ gpus = ZeroGpus
  /\ slots = [r \in Reqs |-> NoSlots] /\ pool = {} /\ resq = {} /\ wdead = FALSE /\ mres = {}
  /\ env = Env0 /\ sout = "orig"
  /\ runningOn = [r \in Reqs |-> NoSlots]
  /\ put = [r \in Reqs |-> 0] /\ back = [r \in Reqs |-> 0]
  /\ target = [r \in Reqs |-> "none"] /\ ec = [r \in Reqs |-> "unset"]
  /\ visits = [r \in Reqs |-> 0]

(* ------------------------------------------------------------------------ *)
(* scheduler hand-off (_schedule_incoming, control_cb)                      *)
(* ------------------------------------------------------------------------ *)
SchedIn(r) ==
  /\ st[r] \in {"new", "agent"}
  /\ IF r \in seen
     THEN /\ st' = [st EXCEPT ![r] = "local"]
          /\ UNCHANGED <<mq, backlog>>
     ELSE IF reg = "yes"
     THEN /\ mq' = Append(mq, r) /\ st' = [st EXCEPT ![r] = "mq"] /\ UNCHANGED backlog
     ELSE /\ backlog' = Append(backlog, r) /\ st' = [st EXCEPT ![r] = "backlog"] /\ UNCHANGED mq
  /\ UNCHANGED <<reg, seen, wq, cur, polled, cores, gpus, slots, pool, resq, wdead, mres,
                 env, sout, runningOn, put, back, target, ec, visits>>

Register ==
  /\ reg = "no" /\ reg' = "yes"
  /\ mq' = mq \o backlog /\ backlog' = <<>>
  /\ st' = [r \in Reqs |-> IF r \in SeqSet(backlog) THEN "mq" ELSE st[r]]
  /\ UNCHANGED <<seen, wq, cur, polled, cores, gpus, slots, pool, resq, wdead, mres,
                 env, sout, runningOn, put, back, target, ec, visits>>

\* the master is gone: what was kept for it is failed
Unregister ==
  /\ (reg = "yes" /\ \A r \in Reqs : st[r] \notin {"mq"}) \/ (reg # "yes" /\ backlog # <<>>)
  /\ reg' = IF reg = "yes" THEN "gone" ELSE reg
  /\ backlog' = <<>>
  /\ st' = [r \in Reqs |-> IF r \in SeqSet(backlog) THEN "failed" ELSE st[r]]
  /\ UNCHANGED <<seen, mq, wq, cur, polled, cores, gpus, slots, pool, resq, wdead, mres,
                 env, sout, runningOn, put, back, target, ec, visits>>

(* ------------------------------------------------------------------------ *)
(* master                                                                   *)
(* ------------------------------------------------------------------------ *)
Dispatch(r) ==
  /\ mq # <<>> /\ Head(mq) = r
  /\ mq' = Tail(mq)
  /\ visits' = [visits EXCEPT ![r] = @ + 1]
  /\ IF IsExe(r)
     THEN /\ seen' = IF DevNoSeen THEN seen ELSE seen \cup {r}
          /\ st' = [st EXCEPT ![r] = "agent"]
          /\ UNCHANGED wq
     ELSE /\ wq' = Append(wq, r)
          /\ st' = [st EXCEPT ![r] = "wq"]
          /\ UNCHANGED seen
  /\ UNCHANGED <<reg, backlog, cur, polled, cores, gpus, slots, pool, resq, wdead, mres,
                 env, sout, runningOn, put, back, target, ec>>

Back(r, e) ==
  /\ back' = [back EXCEPT ![r] = @ + 1]
  /\ ec' = [ec EXCEPT ![r] = e]
  /\ target' = [target EXCEPT ![r] = IF DevTargetIgnoresMissing /\ e = "none" THEN "DONE"
                                      ELSE TargetOf(e)]
  /\ st' = [st EXCEPT ![r] = "out"]

\* an executable request ran through the pilot's normal path (raptor_state_update)
LocalDone(r, e) ==
  /\ st[r] = "local" /\ e \in {"0", "1"}
  /\ Back(r, e)
  /\ UNCHANGED <<reg, backlog, seen, mq, wq, cur, polled, cores, gpus, slots, pool, resq,
                 wdead, mres, env, sout, runningOn, put, visits>>

\* a result taken from the result queue
Result(r) ==
  /\ \E x \in mres : /\ x.r = r
                      /\ mres' = mres \ {x}
                      /\ Back(r, x.ec)
  /\ UNCHANGED <<reg, backlog, seen, mq, wq, cur, polled, cores, gpus, slots, pool, resq,
                 wdead, env, sout, runningOn, put, visits>>

(* ------------------------------------------------------------------------ *)
(* worker                                                                   *)
(* ------------------------------------------------------------------------ *)
Take(r) ==
  /\ cur = "none" /\ wq # <<>> /\ Head(wq) = r
  /\ wq' = Tail(wq) /\ cur' = r /\ polled' = FALSE
  /\ st' = [st EXCEPT ![r] = "held"]
  /\ UNCHANGED <<reg, backlog, seen, mq, cores, gpus, slots, pool, resq, wdead, mres,
                 env, sout, runningOn, put, back, target, ec, visits>>

CodeFits(r) == DevAllocIgnoresBusy \/ FitsOcc(cores, gpus, Demand[r])
CodeAlloc(r) == IF DevAllocIgnoresBusy
                THEN [cores |-> LowestN(Core, Demand[r].c), gpus |-> LowestN(Gpu, Demand[r].g)]
                ELSE AllocOf(cores, gpus, Demand[r])

\* the wait-for-resources poll of _request_cb
Wait ==
  /\ cur # "none" /\ ~CodeFits(cur) /\ ~polled
  /\ polled' = TRUE
  /\ UNCHANGED <<st, reg, backlog, seen, mq, wq, cur, cores, gpus, slots, pool, resq, wdead,
                 mres, env, sout, runningOn, put, back, target, ec, visits>>

Start(r) ==
  /\ cur = r /\ CodeFits(r)
  /\ LET a == CodeAlloc(r) IN
     /\ cores' = MarkCores(cores, a.cores, 1) /\ gpus' = MarkGpus(gpus, a.gpus, 1)
     /\ slots' = [slots EXCEPT ![r] = a]
     /\ runningOn' = [runningOn EXCEPT ![r] = a]
  /\ pool' = pool \cup {r} /\ cur' = "none"
  /\ st' = [st EXCEPT ![r] = "run"]
  /\ UNCHANGED <<reg, backlog, seen, mq, wq, polled, resq, wdead, mres, env, sout,
                 put, back, target, ec, visits>>

\* allocation succeeded, the process could not be started: release, report
SpawnFails(r) ==
  /\ cur = r /\ CodeFits(r) /\ r \in MaySpawnFail
  /\ LET a == CodeAlloc(r) IN
     IF DevNoDeallocOnSpawnFail
     THEN /\ cores' = MarkCores(cores, a.cores, 1) /\ gpus' = MarkGpus(gpus, a.gpus, 1)
          /\ slots' = [slots EXCEPT ![r] = a]
     ELSE /\ UNCHANGED <<cores, gpus>> /\ slots' = [slots EXCEPT ![r] = a]
  /\ cur' = "none"
  /\ mres' = mres \cup {[r |-> r, ec |-> "none"]}
  /\ put' = [put EXCEPT ![r] = @ + 1]
  /\ st' = [st EXCEPT ![r] = "mres"]
  /\ UNCHANGED <<reg, backlog, seen, mq, wq, polled, pool, resq, wdead, env, sout,
                 runningOn, back, target, ec, visits>>

Outcomes(r) ==
     (IF Kind[r] = "sysexit" /\ DevSysExitLost THEN {"die"} ELSE {"nat"})
  \cup (IF r \in MayTimeout THEN {"timeout"} ELSE {})
  \cup (IF r \in MayTimeout /\ DevTimeoutRace /\ ~(Kind[r] = "sysexit" /\ DevSysExitLost)
        THEN {"late"} ELSE {})

\* the dispatch process ends: what it leaves on the worker's internal result queue
Finish(r, o) ==
  /\ st[r] = "run" /\ o \in Outcomes(r)
  /\ LET nat == [r |-> r, ret |-> NatRet(r), n |-> 1]
         tmo == [r |-> r, ret |-> "1", n |-> 2]
     IN resq' = resq \cup (IF o = "nat" THEN {nat} ELSE IF o = "timeout" THEN {tmo}
                           ELSE IF o = "late" THEN {nat, tmo} ELSE {})
  /\ st' = [st EXCEPT ![r] = IF o = "die" THEN "lost" ELSE "resq"]
  \* the call ran (dispatcher contract): what it touched is restored
  /\ env'  = IF o \in {"nat", "late"} /\ DevEnvLeak THEN During(env, Kind[r], Mode[r]) ELSE env
  /\ sout' = sout
  /\ UNCHANGED <<reg, backlog, seen, mq, wq, cur, polled, cores, gpus, slots, pool, wdead,
                 mres, runningOn, put, back, target, ec, visits>>

\* result watcher -> _result_cb
Deliver(r, n) ==
  /\ ~wdead
  /\ \E x \in resq :
     /\ x.r = r /\ x.n = n
     /\ resq' = resq \ {x}
     /\ IF r \in pool
        THEN /\ pool' = pool \ {r}
             /\ cores' = MarkCores(cores, slots[r].cores, 0)
             /\ gpus'  = MarkGpus(gpus, slots[r].gpus, 0)
             /\ runningOn' = [runningOn EXCEPT ![r] = NoSlots]
             /\ mres' = mres \cup {[r |-> r, ec |-> x.ret]}
             /\ put' = [put EXCEPT ![r] = @ + 1]
             /\ st' = [st EXCEPT ![r] = "mres"]
             /\ UNCHANGED wdead
        ELSE /\ wdead' = DevDupKillsWatcher
             /\ UNCHANGED <<pool, cores, gpus, runningOn, mres, put, st>>
  /\ UNCHANGED <<reg, backlog, seen, mq, wq, cur, polled, slots, env, sout,
                 back, target, ec, visits>>

Done == \A r \in Reqs : st[r] \in {"out", "failed"}
Terminated == Done /\ UNCHANGED vars

Sched  == (\E r \in Reqs : SchedIn(r)) \/ Register \/ Unregister
Master == \E r \in Reqs : Dispatch(r) \/ (\E e \in {"0", "1"} : LocalDone(r, e))
Worker == \/ \E r \in Reqs : Take(r) \/ Start(r) \/ SpawnFails(r)
                              \/ (\E o \in {"nat", "timeout", "late", "die"} : Finish(r, o))
          \/ Wait
          \/ \E r \in Reqs, n \in {1, 2} : Deliver(r, n)
MRes   == \E r \in Reqs : Result(r)

Next == Sched \/ Master \/ Worker \/ MRes \/ Terminated
Spec == Init /\ [][Next]_vars

(* ------------------------------------------------------------------------ *)
(* properties                                                               *)
(* ------------------------------------------------------------------------ *)
States == {"new", "backlog", "mq", "agent", "local", "wq", "held", "run", "resq", "mres",
           "out", "failed", "lost"}
TypeOK ==
  /\ st \in [Reqs -> States]
  /\ cur \in Reqs \cup {"none"} /\ pool \subseteq Reqs
  /\ \A i \in Core : cores[i] \in {0, 1}
  /\ \A i \in Gpu  : gpus[i]  \in {0, 1}

Running == {r \in Reqs : runningOn[r] # NoSlots}

\* NoShare
InvNoShare    == Disjoint(runningOn, Reqs) /\ Within(runningOn, Reqs)
InvDemandMet  == \A r \in Reqs : st[r] = "run" =>
                    /\ Cardinality(runningOn[r].cores) = Demand[r].c
                    /\ Cardinality(runningOn[r].gpus)  = Demand[r].g
InvOccMatches == OccMatches(cores, gpus, runningOn, Reqs)
\* AllBack
InvAllBack    == (pool = {} /\ cur = "none") => AllZero(cores, gpus)
\* ResultOnce (the deadlock check adds: every request comes back at all)
InvResultOnce == \A r \in Reqs : /\ put[r] <= 1 /\ back[r] <= 1
                                 /\ (st[r] = "out" => back[r] = 1)
                                 /\ (st[r] = "out" /\ ~IsExe(r) => put[r] = 1)
\* TargetFromExit
InvTarget     == \A r \in Reqs : st[r] = "out" => target[r] = TargetOf(ec[r])
\* Routing
WorkerStates  == {"wq", "held", "run", "resq", "mres", "lost"}
InvRouting    == \A r \in Reqs :
                    /\ visits[r] <= 1
                    /\ (IsExe(r)  => st[r] \notin WorkerStates)
                    /\ (~IsExe(r) => st[r] \notin {"agent", "local"})
                    /\ (st[r] = "local" => r \in seen /\ visits[r] = 1)
\* Restored
InvRestored   == env = Env0 /\ sout = "orig"
=============================================================================
