----------------------------- MODULE RaptorMPI -----------------------------
(***************************************************************************)
(* Design model of the MPI raptor worker (raptor/worker_mpi.py), rank 0's  *)
(* two threads and the worker ranks:                                       *)
(*   _TaskPuller.run    : take a request, _Resources._alloc (blocks on the *)
(*                        resource event), send one copy to every rank     *)
(*   MPIWorkerRank.run  : run the copy (per-mode dispatcher), report       *)
(*   _ResultPusher.run  : _check_ranks collects the ranks' results; when   *)
(*                        all are in: _Resources._dealloc, aggregate, put  *)
(*   Master._result_cb  : exit code -> target state                        *)
(* A rank's outcome (ok / raise / sig = killed by a signal, exit code < 0) *)
(* is chosen in Init.  A request succeeded iff every rank succeeded.       *)
(* A request may fail in the worker before any rank runs it: it asks for   *)
(* more ranks than the worker has (_alloc raises), or sending it to its    *)
(* ranks fails after the ranks were allocated.  It then comes back with an *)
(* exception and WITHOUT an exit code, holds nothing, and must end FAILED. *)
(***************************************************************************)
EXTENDS Integers, Sequences, FiniteSets, TLC

CONSTANTS NRanks,            \* ranks of the worker
          Reqs, Need,        \* [Reqs -> number of ranks asked for (may exceed NRanks)]
          SendFails,         \* requests for which sending the first rank's copy fails
          Outs,              \* [Reqs -> subset of {"ok", "raise", "sig"}]
          DevAggMin,         \* aggregate = smallest rank exit code
          DevAggSignedMax,   \* aggregate = largest rank exit code, sign included
          DevAllocBusy,      \* _alloc hands out busy ranks
          DevNoDealloc,      \* ranks are not given back
          DevNoDeallocOnSendFail,  \* a failed send keeps the ranks allocated
          DevMissingIsDone,  \* master: a result without exit code counts as success
          Fine,              \* step _Resources._alloc / _dealloc operation by operation
          DevCheckOutsideLock  \* _alloc counts the free ranks (and clears the event)
                               \* before it takes the resource lock

Rank == 0 .. NRanks - 1
Code(o) == IF o = "ok" THEN 0 ELSE IF o = "raise" THEN 1 ELSE -9

VARIABLES oc, st, tq, cur, evt, occ, rq, rres, cache, mres,
          held, put, back, ecm, target,
          tpc, upc, ureq, rlk        \* Fine: where puller / pusher are, the resource lock

fv   == <<tpc, upc, ureq, rlk>>
vars == <<oc, st, tq, cur, evt, occ, rq, rres, cache, mres, held, put, back, ecm, target, fv>>

SetMax(S) == CHOOSE x \in S : \A y \in S : y <= x
SetMin(S) == CHOOSE x \in S : \A y \in S : x <= y
Agg(S) == LET cs == {x.ec : x \in S} IN
          IF DevAggMin THEN SetMin(cs)
          ELSE IF DevAggSignedMax THEN SetMax(cs)
          ELSE IF cs = {0} THEN 0 ELSE SetMax({IF c < 0 THEN -c ELSE c : c \in cs})

Init ==
  /\ oc \in [Reqs -> [Rank -> {"ok", "raise", "sig"}]]
  /\ \A r \in Reqs : \A i \in Rank : IF i < Need[r] THEN oc[r][i] \in Outs[r] ELSE oc[r][i] = "ok"
  /\ st = [r \in Reqs |-> "new"] /\ tq = <<>> /\ cur = "none" /\ evt = TRUE
  /\ occ = [k \in Rank |-> 0] /\ rq = [k \in Rank |-> <<>>]
  /\ rres = {} /\ cache = [r \in Reqs |-> {}] /\ mres = {}
  /\ held = [r \in Reqs |-> {}]
  /\ put = [r \in Reqs |-> 0] /\ back = [r \in Reqs |-> 0]
  /\ ecm = [r \in Reqs |-> 0] /\ target = [r \in Reqs |-> "none"]
  /\ tpc = "idle" /\ upc = "idle" /\ ureq = "none" /\ rlk = "free"

Free == {k \in Rank : occ[k] = 0}
LowestN(S, n) == {i \in S : Cardinality({j \in S : j < i}) < n}
Oversize(r) == Need[r] > NRanks
Fits(r) == DevAllocBusy \/ Need[r] <= Cardinality(Free)
Pick(r) == IF DevAllocBusy THEN LowestN(Rank, Need[r]) ELSE LowestN(Free, Need[r])
Idx(S, k) == Cardinality({j \in S : j < k})       \* position of rank k in the request

Submit(r) ==
  /\ st[r] = "new" /\ st' = [st EXCEPT ![r] = "tq"] /\ tq' = Append(tq, r)
  /\ UNCHANGED <<oc, cur, evt, occ, rq, rres, cache, mres, held, put, back, ecm, target, fv>>

Place(r) ==
  LET S == Pick(r) IN
  /\ occ' = [k \in Rank |-> IF k \in S THEN 1 ELSE occ[k]]
  /\ held' = [held EXCEPT ![r] = S]
  /\ rq' = [k \in Rank |-> IF k \in S THEN Append(rq[k], <<r, Idx(S, k)>>) ELSE rq[k]]
  /\ st' = [st EXCEPT ![r] = "run"]

\* the request cannot be run: reported with an exception, without exit code
Refuse(r) ==
  /\ mres' = mres \cup {[r |-> r, ec |-> 0, has |-> FALSE]}
  /\ put' = [put EXCEPT ![r] = @ + 1]
  /\ st' = [st EXCEPT ![r] = "mres"]

\* ranks are there; send the copies - or fail to, give the ranks back, report
PlaceOrFail(r) ==
  IF r \in SendFails
  THEN /\ Refuse(r) /\ UNCHANGED <<held, rq>>
       /\ occ' = IF DevNoDeallocOnSendFail
                 THEN [k \in Rank |-> IF k \in Pick(r) THEN 1 ELSE occ[k]] ELSE occ
  ELSE Place(r) /\ UNCHANGED <<mres, put>>

\* the puller takes the next request: refuses it, places it or starts waiting
MTake(r) ==
  /\ ~Fine /\ cur = "none" /\ tq # <<>> /\ Head(tq) = r /\ tq' = Tail(tq)
  /\ IF Oversize(r) THEN Refuse(r) /\ UNCHANGED <<cur, evt, occ, held, rq>>
     ELSE IF Fits(r) THEN PlaceOrFail(r) /\ UNCHANGED <<cur, evt>>
     ELSE /\ cur' = r /\ evt' = FALSE /\ st' = [st EXCEPT ![r] = "held"]
          /\ UNCHANGED <<occ, held, rq, mres, put>>
  /\ UNCHANGED <<oc, rres, cache, back, ecm, target, fv>>

\* ranks were given back: the puller tries again
MRetry ==
  /\ ~Fine /\ cur # "none" /\ evt
  /\ IF Fits(cur) THEN PlaceOrFail(cur) /\ cur' = "none" /\ UNCHANGED evt
     ELSE evt' = FALSE /\ UNCHANGED <<cur, occ, held, rq, st, mres, put>>
  /\ UNCHANGED <<oc, tq, rres, cache, back, ecm, target, fv>>

RankRun(k) ==
  /\ rq[k] # <<>>
  /\ LET r == Head(rq[k])[1] i == Head(rq[k])[2] IN
     rres' = rres \cup {[r |-> r, k |-> k, ec |-> Code(oc[r][i])]}
  /\ rq' = [rq EXCEPT ![k] = Tail(@)]
  /\ UNCHANGED <<oc, st, tq, cur, evt, occ, cache, mres, held, put, back, ecm, target, fv>>

\* the pusher gets one rank's result; the last one completes the request
Collect(r, k) ==
  \E x \in rres :
    /\ ~Fine
    /\ x.r = r /\ x.k = k
    /\ rres' = rres \ {x}
    /\ LET c == cache[r] \cup {x} IN
       /\ cache' = [cache EXCEPT ![r] = c]
       /\ IF Cardinality(c) = Need[r]
          THEN /\ occ' = IF DevNoDealloc THEN occ
                         ELSE [j \in Rank |-> IF j \in {y.k : y \in c} THEN 0 ELSE occ[j]]
               /\ held' = [held EXCEPT ![r] = {}]
               /\ evt' = TRUE
               /\ mres' = mres \cup {[r |-> r, ec |-> Agg(c), has |-> TRUE]}
               /\ put' = [put EXCEPT ![r] = @ + 1]
               /\ st' = [st EXCEPT ![r] = "mres"]
          ELSE UNCHANGED <<occ, held, evt, mres, put, st>>
    /\ UNCHANGED <<oc, tq, cur, rq, back, ecm, target, fv>>

(* ---- Fine: _Resources._alloc and _dealloc, one step per shared operation ---- *)
(*   _alloc  : while True: if evt.is_set(): with lock: if need > free: evt.clear(); *)
(*             continue; <take ranks>; return   else: evt.wait()                    *)
(*   _dealloc: with lock: <free ranks>; evt.set()                                   *)
(* The count of free ranks and the clear must be one step w.r.t. _dealloc (both     *)
(* under the lock): otherwise the set can fall between them and is wiped out.       *)
TUnch == UNCHANGED <<oc, tq, rres, cache, back, ecm, target, upc, ureq>>

FGet(r) ==
  /\ Fine /\ tpc = "idle" /\ cur = "none" /\ tq # <<>> /\ Head(tq) = r
  /\ tq' = Tail(tq)
  /\ IF Oversize(r) THEN Refuse(r) /\ UNCHANGED <<cur, tpc>>
     ELSE /\ cur' = r /\ tpc' = "isset" /\ st' = [st EXCEPT ![r] = "held"]
          /\ UNCHANGED <<mres, put>>
  /\ UNCHANGED <<oc, evt, occ, rq, rres, cache, held, back, ecm, target, upc, ureq, rlk>>

FIsSet ==
  /\ tpc = "isset"
  /\ tpc' = IF ~evt THEN "wait" ELSE IF DevCheckOutsideLock THEN "count" ELSE "lock"
  /\ TUnch /\ UNCHANGED <<st, cur, evt, occ, rq, mres, held, put, rlk>>

FWait ==
  /\ tpc = "wait" /\ evt /\ tpc' = "isset"
  /\ TUnch /\ UNCHANGED <<st, cur, evt, occ, rq, mres, held, put, rlk>>

\* ranks are taken: the puller sends the copies and goes for the next request
FPlace ==
  /\ PlaceOrFail(cur) /\ cur' = "none" /\ tpc' = "idle" /\ rlk' = "free"
  /\ TUnch /\ UNCHANGED evt

FLock ==
  /\ tpc = "lock" /\ rlk = "free"
  /\ IF DevCheckOutsideLock THEN FPlace
     ELSE /\ rlk' = "t" /\ tpc' = "count"
          /\ TUnch /\ UNCHANGED <<st, cur, evt, occ, rq, mres, held, put>>

FCount ==
  /\ tpc = "count"
  /\ IF ~Fits(cur)
     THEN /\ tpc' = "clear" /\ TUnch /\ UNCHANGED <<st, cur, evt, occ, rq, mres, held, put, rlk>>
     ELSE IF DevCheckOutsideLock
     THEN /\ tpc' = "lock" /\ TUnch /\ UNCHANGED <<st, cur, evt, occ, rq, mres, held, put, rlk>>
     ELSE FPlace

FClear ==
  /\ tpc = "clear"
  /\ evt' = FALSE /\ tpc' = "isset" /\ rlk' = IF rlk = "t" THEN "free" ELSE rlk
  /\ TUnch /\ UNCHANGED <<st, cur, occ, rq, mres, held, put>>

\* the pusher: a rank's result; the last one goes on to give the ranks back
FCollect(r, k) ==
  \E x \in rres :
    /\ Fine /\ upc = "idle" /\ x.r = r /\ x.k = k
    /\ rres' = rres \ {x}
    /\ cache' = [cache EXCEPT ![r] = @ \cup {x}]
    /\ IF Cardinality(cache[r] \cup {x}) = Need[r]
       THEN upc' = "lock" /\ ureq' = r ELSE UNCHANGED <<upc, ureq>>
    /\ UNCHANGED <<oc, st, tq, cur, evt, occ, rq, mres, held, put, back, ecm, target, tpc, rlk>>

FULock ==
  /\ upc = "lock" /\ rlk = "free"
  /\ rlk' = "u" /\ upc' = "set"
  /\ occ' = IF DevNoDealloc THEN occ
            ELSE [j \in Rank |-> IF j \in {y.k : y \in cache[ureq]} THEN 0 ELSE occ[j]]
  /\ held' = [held EXCEPT ![ureq] = {}]
  /\ st' = [st EXCEPT ![ureq] = "freed"]
  /\ UNCHANGED <<oc, tq, cur, evt, rq, rres, cache, mres, put, back, ecm, target, tpc, ureq>>

FUSet ==
  /\ upc = "set"
  /\ evt' = TRUE /\ rlk' = "free" /\ upc' = "idle" /\ ureq' = "none"
  /\ mres' = mres \cup {[r |-> ureq, ec |-> Agg(cache[ureq]), has |-> TRUE]}
  /\ put' = [put EXCEPT ![ureq] = @ + 1]
  /\ st' = [st EXCEPT ![ureq] = "mres"]
  /\ UNCHANGED <<oc, tq, cur, occ, rq, rres, cache, held, back, ecm, target, tpc>>

FineStep == \/ \E r \in Reqs : FGet(r)
            \/ FIsSet \/ FWait \/ FLock \/ FCount \/ FClear
            \/ \E r \in Reqs, k \in Rank : FCollect(r, k)
            \/ FULock \/ FUSet

Result(r) ==
  /\ \E x \in mres : /\ x.r = r /\ mres' = mres \ {x}
                      /\ ecm' = [ecm EXCEPT ![r] = x.ec]
                      /\ target' = [target EXCEPT ![r] =
                             IF (x.has /\ x.ec = 0) \/ (~x.has /\ DevMissingIsDone)
                             THEN "DONE" ELSE "FAILED"]
  /\ back' = [back EXCEPT ![r] = @ + 1]
  /\ st' = [st EXCEPT ![r] = "out"]
  /\ UNCHANGED <<oc, tq, cur, evt, occ, rq, rres, cache, held, put, fv>>

Done == \A r \in Reqs : st[r] = "out"
Terminated == Done /\ UNCHANGED vars

Next == \/ \E r \in Reqs : Submit(r) \/ MTake(r) \/ Result(r)
        \/ MRetry
        \/ \E k \in Rank : RankRun(k)
        \/ \E r \in Reqs, k \in Rank : Collect(r, k)
        \/ FineStep
        \/ Terminated
Spec == Init /\ [][Next]_vars

(* ---- properties ----------------------------------------------------------- *)
Ran(r)   == ~Oversize(r) /\ r \notin SendFails
AllOk(r) == Ran(r) /\ \A i \in Rank : i < Need[r] => oc[r][i] = "ok"

TypeOK == /\ \A k \in Rank : occ[k] \in {0, 1}
          /\ cur \in Reqs \cup {"none"}
          /\ \A r \in Reqs : st[r] \in {"new", "tq", "held", "run", "freed", "mres", "out"}
InvNoShare    == /\ \A r, s \in Reqs : r # s => held[r] \cap held[s] = {}
                 /\ \A r \in Reqs : held[r] \subseteq Rank
InvDemandMet  == \A r \in Reqs : st[r] = "run" => Cardinality(held[r]) = Need[r]
InvRefused    == \A r \in Reqs : ~Ran(r) => held[r] = {} /\ \A k \in Rank : \A i \in 1 .. Len(rq[k]) : rq[k][i][1] # r
InvOccMatches == \A k \in Rank : (occ[k] = 1) <=> (\E r \in Reqs : k \in held[r])
InvAllBack    == (\A r \in Reqs : held[r] = {}) => \A k \in Rank : occ[k] = 0
InvResultOnce == \A r \in Reqs : put[r] <= 1 /\ back[r] <= 1 /\ (st[r] = "out" => put[r] = 1 /\ back[r] = 1)
\* Outcome over ranks / TargetFromExit
InvAgg        == \A r \in Reqs : \A x \in mres : x.r = r =>
                    /\ x.has = Ran(r)
                    /\ (x.has => ((x.ec = 0) <=> AllOk(r)))
InvTarget     == \A r \in Reqs : st[r] = "out" => ((target[r] = "DONE") <=> AllOk(r))
InvEvt        == (~Fine /\ cur = "none") => evt
=============================================================================
