---------------------------- MODULE RaptorTrace ----------------------------
(***************************************************************************)
(* Trace monitor for the raptor request path: consumes the events recorded *)
(* from the real Master / DefaultWorker / dispatchers / scheduler hand-off *)
(* (raptor_rig.py) and checks every step against the contract of Raptor /  *)
(* RaptorOps.  Total: a failing clause is added to errs as "C20.<clause>"  *)
(* and the monitor re-synchronises on the logged state.  Three families of *)
(* traces share the module: "worker" (master + worker + dispatchers),      *)
(* "chain" (dispatchers alone), "sched" (scheduler hand-off), and "mpi"    *)
(* (MPI worker: the map is the rank occupancy, a request's demand is its   *)
(* number of ranks; the result must say success iff every rank succeeded). *)
(***************************************************************************)
EXTENDS RaptorOps, TLC, Json, IOUtils

Batch  == JsonDeserialize(IOEnv.TRACE_FILE)
Traces == Batch.traces

VARIABLES tid, l, co, gp, held, nput, nback, mvis, tow, disp, rres, truth,
          sreg, sfw, sloc, sfail, sarr, snamed, scn, scanc, errs, fin

vars == <<tid, l, co, gp, held, nput, nback, mvis, tow, disp, rres, truth,
          sreg, sfw, sloc, sfail, sarr, snamed, scn, scanc, errs, fin>>

T         == Traces[tid]
Ev        == T.events
SeqSet(s) == {s[i] : i \in 1 .. Len(s)}
Uids      == SeqSet(T.uids)
Rq(u)     == T.reqs[u]
Count(s, u) == Cardinality({i \in 1 .. Len(s) : s[i] = u})
E(cond, name) == IF cond THEN {} ELSE {name}

MapSized(e) == Len(e.cores) = NCores /\ Len(e.gpus) = NGpus
ToCo(e) == [i \in Core |-> e.cores[i + 1]]
ToGp(e) == [i \in Gpu  |-> e.gpus[i + 1]]

Init ==
  /\ tid \in 1 .. Len(Traces)
  /\ l = 1
  /\ co = ZeroCores /\ gp = ZeroGpus
  /\ held  = [u \in Uids |-> NoSlots]
  /\ nput  = [u \in Uids |-> 0] /\ nback = [u \in Uids |-> 0] /\ mvis = [u \in Uids |-> 0]
  /\ tow = {} /\ disp = {} /\ rres = [u \in Uids |-> {}]
  /\ truth = [u \in Uids |-> "none"]
  /\ sreg = {} /\ sfw = [u \in Uids |-> 0] /\ sloc = {} /\ sfail = {} /\ sarr = {}
  /\ snamed = {} /\ scn = {} /\ scanc = [u \in Uids |-> 0]
  /\ errs = {} /\ fin = FALSE

(* ---- scheduler hand-off -------------------------------------------------- *)
\* must go through the raptor master first
Needs(u) == Rq(u).rid # "none" /\ ~Rq(u).worker /\ ~Rq(u).seen

\* snamed: named by some cancel request; scn: named while it was kept for its
\* master; scanc: times advanced CANCELED
SchedStep(e) ==
  LET us == IF e.ev \in {"SArrive", "SFwd", "SCancelReq", "SCancelDone"} THEN SeqSet(e.uids) ELSE {}
      bf == IF e.ev \in {"SCancelReq", "SCancelDone"} THEN SeqSet(e.before) ELSE {}
  IN
  /\ sarr'   = IF e.ev = "SArrive" THEN sarr \cup us ELSE sarr
  /\ sreg'   = IF e.ev = "SReg" THEN sreg \cup {e.queue}
               ELSE IF e.ev = "SUnreg" THEN sreg \ {e.queue} ELSE sreg
  /\ sfw'    = IF e.ev = "SFwd"
               THEN [u \in Uids |-> IF u \in us THEN sfw[u] + Count(e.uids, u) ELSE sfw[u]] ELSE sfw
  /\ sloc'   = IF e.ev = "SLocal" THEN sloc \cup {e.uid} ELSE sloc
  /\ sfail'  = IF e.ev = "SFail" THEN sfail \cup {e.uid} ELSE sfail
  /\ snamed' = IF e.ev = "SCancelReq" THEN snamed \cup us ELSE snamed
  /\ scn'    = IF e.ev = "SCancelReq" THEN scn \cup (us \cap bf) ELSE scn
  /\ scanc'  = IF e.ev = "SCancel" THEN [scanc EXCEPT ![e.uid] = @ + 1] ELSE scanc
  /\ errs' = errs \cup
     (CASE e.ev = "SFwd" ->
            E(e.queue \in sreg, "C20.Routing")
            \cup UNION {E(Needs(u), "C20.Routing")
                        \cup E(Rq(u).rid \in {e.queue, "*"}, "C20.Routing")
                        \cup E(sfw[u] = 0 /\ Count(e.uids, u) = 1, "C20.Routing")
                        \cup E(u \in sarr, "C20.Routing")
                        \cup E(u \notin scn, "C08.NamedRelayed") : u \in us}
        [] e.ev = "SLocal" -> E(~Needs(e.uid), "C20.Routing")
        \* a queue has registered: nothing it could take is left behind
        [] e.ev = "SRegDone" ->
            UNION {E(~(Rq(u).rid \in sreg \/ (Rq(u).rid = "*" /\ sreg # {})), "C05.RaptorTaskStuck")
                   : u \in SeqSet(e.after)}
        [] e.ev = "SCancel" ->
            E(e.uid \in snamed, "C08.CanceledNotNamed") \cup E(scanc[e.uid] = 0, "C08.CanceledTwice")
        [] e.ev = "SCancelDone" ->
            LET af == SeqSet(e.after) IN
                 UNION {E(u \notin af, "C08.NamedStillCached")
                        \cup E(scanc[u] = 1, "C08.NamedNotCanceled") : u \in us \cap bf}
            \cup UNION {E(u \in af, "C08.BystanderDropped")
                        \cup E(scanc[u] = 0, "C08.BystanderCanceled") : u \in bf \ us}
            \cup E(af \subseteq bf /\ Len(e.after) = Cardinality(af), "C08.CacheCorrupted")
        [] e.ev = "SEnd" ->
            LET bl == SeqSet(e.backlog) qs == SeqSet(e.queues)
                kept(u) == u \in bl /\ Rq(u).rid \notin qs /\ ~(Rq(u).rid = "*" /\ qs # {})
                gone(u) == scanc[u] >= 1 /\ u \in snamed
            IN UNION {E(~(u \in bl /\ (Rq(u).rid \in qs \/ (Rq(u).rid = "*" /\ qs # {}))),
                        "C05.RaptorTaskStuck") : u \in sarr}
               \cup UNION {
                (IF Needs(u)
                 THEN E(u \notin sloc, "C20.Routing")
                      \cup E((sfw[u] = 1 /\ u \notin bl)
                             \/ (sfw[u] = 0 /\ (u \in sfail \/ kept(u) \/ gone(u))), "C20.Routing")
                      \cup (IF u \in scn
                            THEN E(sfw[u] = 0, "C08.NamedRelayed")
                                 \cup E(scanc[u] = 1, "C08.NamedNotCanceled")
                            ELSE E(scanc[u] = 0 \/ u \in snamed, "C08.BystanderCanceled")
                                 \cup E(sfw[u] = 1 \/ u \in sfail \/ kept(u) \/ gone(u),
                                        "C08.BystanderNotRelayed"))
                 ELSE E(sfw[u] = 0 /\ u \notin bl, "C20.Routing")
                      \cup E(u \in sloc \/ u \in sfail \/ gone(u), "C20.Routing")) : u \in sarr}
        [] OTHER -> {})

IsSched(e) == e.ev \in {"SArrive", "SReg", "SUnreg", "SFwd", "SLocal", "SFail", "SEnd",
                        "SCancelReq", "SCancel", "SCancelDone", "SRegDone"}

(* ---- dispatcher contract -------------------------------------------------- *)
CallErrs(e) ==
  LET k == e.kind m == e.mode IN
  IF k = "die" THEN {} ELSE    \* the process is gone: nothing to ask of the dispatcher
       E(e.returned, "C20.OutcomeReturned")
  \cup (IF e.returned
        THEN E((e.ret = "0") <=> Succeeds(k), "C20.OutcomeRet")
             \cup (IF Succeeds(k)
                   THEN E(e.val = ExpVal(k, m), "C20.OutcomeVal")
                        \cup E(e.errh = ExpErr(k, m), "C20.OutcomeErr")
                        \cup E(~e.exc, "C20.OutcomeExc")
                   ELSE E(m \in ProcModes \/ e.exc, "C20.OutcomeExc"))
             \cup E(e.out = ExpOut(k, m), "C20.OutcomeOut")
        ELSE {})
  \* the serving process' base environment (_task_env) is not touched by a request
  \cup E(e.a.tT = e.b.tT /\ e.a.ntenv = e.b.ntenv, "C20.RestoredTaskEnv")
  \cup E(e.a.X = e.b.X /\ e.a.KEEP = e.b.KEEP /\ e.a.T = e.b.T /\ e.a.nenv = e.b.nenv,
         "C20.RestoredEnv")
  \cup E(e.a.pX = e.b.pX /\ e.a.pKEEP = e.b.pKEEP /\ e.a.pT = e.b.pT, "C20.RestoredProcEnv")
  \cup E(e.a.out = e.b.out /\ e.a.err = e.b.err, "C20.RestoredStreams")

(* ---- master + worker ------------------------------------------------------ *)
\* mpi family: what the ranks of a request reported (rres also keeps what each
\* rank's dispatcher returned, k = "call")
RankRes(u) == {x \in rres[u] : x.k = "done"}

\* worker family: what really happened to a request, from what was observed
\* on its way: the call returned normally (callok) and it is the child's own
\* result (n = 1) which the result thread got first -> ok; a made-up result, a
\* failed call, a process which did not start -> failed
NewTruth(e) ==
  IF T.family # "worker" THEN truth
  ELSE IF e.ev = "Call"
  THEN [truth EXCEPT ![e.uid] = IF @ = "none" /\ e.returned /\ Succeeds(e.kind) THEN "callok" ELSE @]
  ELSE IF e.ev = "Deliver"
  THEN [truth EXCEPT ![e.uid] = IF @ \in {"none", "callok"}
                                THEN (IF e.n = 1 /\ @ = "callok" THEN "ok" ELSE "failed") ELSE @]
  ELSE IF e.ev = "Spawn"
  THEN [truth EXCEPT ![e.uid] = IF e.ok THEN @ ELSE "failed"]
  ELSE IF e.ev \in {"Local", "Inject"}
  THEN [truth EXCEPT ![e.uid] = IF e.ec = "0" THEN "ok" ELSE "failed"]
  ELSE truth

WorkerStep(e) ==
  LET ok == MapSized(e)
      lo == IF ok THEN ToCo(e) ELSE co
      lg == IF ok THEN ToGp(e) ELSE gp
      e0 == E(ok, "C20.MapShape")
      same == E(lo = co /\ lg = gp, "C20.MapChangedSilently")
  IN
  /\ co' = lo /\ gp' = lg
  /\ truth' = NewTruth(e)
  /\ CASE e.ev = "MDispatch" ->
            LET us == SeqSet(e.uids) IN
            /\ mvis' = [u \in Uids |-> IF u \in us THEN mvis[u] + 1 ELSE mvis[u]]
            /\ tow'  = tow \cup SeqSet(e.to_worker)
            /\ disp' = disp \cup us
            /\ errs' = errs \cup e0 \cup same
                 \cup UNION {E(mvis[u] = 0, "C20.Routing")
                             \cup E(Count(e.failed, u) = 0, "C20.Routing")
                             \cup (IF Rq(u).mode = ExeMode
                                   THEN E(Count(e.to_agent, u) = 1 /\ Count(e.to_worker, u) = 0
                                          /\ Count(e.seen, u) = 1, "C20.Routing")
                                   ELSE E(Count(e.to_worker, u) = 1 /\ Count(e.to_agent, u) = 0,
                                          "C20.Routing")) : u \in us}
                 \cup E(SeqSet(e.to_worker) \cup SeqSet(e.to_agent) \subseteq us, "C20.Routing")
            /\ UNCHANGED <<held, nput, nback, rres>>
       [] e.ev = "Submit" ->
            \* mpi family: the request is put on the worker's queue directly
            /\ tow' = tow \cup {e.uid} /\ disp' = disp \cup {e.uid}
            /\ errs' = errs \cup e0 \cup same
            /\ UNCHANGED <<held, nput, nback, mvis, rres>>
       [] e.ev = "RankDone" ->
            /\ rres' = [rres EXCEPT ![e.uid] = @ \cup {[rank |-> e.rank, ec |-> e.ec, k |-> "done"]}]
            /\ errs' = errs \cup e0 \cup same
                 \* (a copy which went out before the request was refused may still run)
                 \cup E(e.rank \in held[e.uid].cores \/ nput[e.uid] >= 1, "C20.NoShare")
                 \cup E(\A x \in RankRes(e.uid) : x.rank # e.rank, "C20.ResultOnce")
                 \* the rank reports what its dispatcher returned
                 \cup E(\A x \in rres[e.uid] : (x.k = "call" /\ x.rank = e.rank) => x.ec = e.ec,
                        "C20.OutcomeRanks")
            /\ UNCHANGED <<held, nput, nback, mvis, tow, disp>>
       [] e.ev = "Local" ->
            /\ errs' = errs \cup e0 \cup same
                 \cup E(e.seen /\ Rq(e.uid).mode = ExeMode, "C20.Routing")
            /\ UNCHANGED <<held, nput, nback, mvis, tow, disp, rres>>
       [] e.ev = "Take" ->
            /\ errs' = errs \cup e0 \cup same
                 \cup E(Rq(e.uid).mode # ExeMode /\ e.uid \in tow, "C20.Routing")
            /\ UNCHANGED <<held, nput, nback, mvis, tow, disp, rres>>
       [] e.ev = "Alloc" ->
            LET u  == e.uid
                sc == SeqSet(e.sc) sg == SeqSet(e.sg)
                inr == sc \subseteq Core /\ sg \subseteq Gpu
            IN
            /\ held' = [held EXCEPT ![u] = [cores |-> sc, gpus |-> sg]]
            /\ errs' = errs \cup e0
                 \cup E(inr, "C20.NoShare")
                 \cup E(\A i \in sc \cap Core : co[i] = 0, "C20.NoShare")
                 \cup E(\A i \in sg \cap Gpu  : gp[i] = 0, "C20.NoShare")
                 \cup E(\A r \in Uids \ {u} : held[r].cores \cap sc = {} /\ held[r].gpus \cap sg = {},
                        "C20.NoShare")
                 \cup E(held[u] = NoSlots, "C20.AllocTwice")
                 \cup E(Len(e.sc) = Rq(u).c /\ Cardinality(sc) = Rq(u).c
                        /\ Len(e.sg) = Rq(u).g /\ Cardinality(sg) = Rq(u).g, "C20.AllocSize")
                 \cup (IF inr THEN E(lo = MarkCores(co, sc, 1) /\ lg = MarkGpus(gp, sg, 1),
                                    "C20.MapNotMarked") ELSE {})
            /\ UNCHANGED <<nput, nback, mvis, tow, disp, rres>>
       [] e.ev = "Dealloc" ->
            LET u == e.uid h == held[u] IN
            /\ held' = [held EXCEPT ![u] = NoSlots]
            /\ errs' = errs \cup e0
                 \cup E(h # NoSlots, "C20.ReleasedTwice")
                 \cup (IF h.cores \subseteq Core /\ h.gpus \subseteq Gpu
                       THEN E(lo = MarkCores(co, h.cores, 0) /\ lg = MarkGpus(gp, h.gpus, 0),
                              "C20.AllBack") ELSE {})
            /\ UNCHANGED <<nput, nback, mvis, tow, disp, rres>>
       [] e.ev = "ResPut" ->
            LET u == e.uid IN
            /\ nput' = [nput EXCEPT ![u] = @ + 1]
            /\ errs' = errs \cup e0 \cup same
                 \cup E(nput[u] = 0, "C20.ResultOnce")
                 \cup E(held[u] = NoSlots, "C20.AllBack")
                 \cup (IF T.family = "mpi"
                       THEN IF e.ec = "none"       \* could not be run at all
                            THEN E(e.exc, "C20.OutcomeExc")
                            ELSE E(Cardinality(RankRes(u)) = Rq(u).c
                                   /\ ((e.ec = "0") <=> (\A x \in RankRes(u) : x.ec = "0")),
                                   "C20.OutcomeRanks")
                       ELSE {})
            /\ UNCHANGED <<held, nback, mvis, tow, disp, rres>>
       [] e.ev = "MResult" ->
            LET u == e.uid IN
            /\ nback' = [nback EXCEPT ![u] = @ + 1]
            /\ errs' = errs \cup e0 \cup same
                 \cup E(nback[u] = 0, "C20.ResultOnce")
                 \cup E(u \in disp, "C20.ResultOnce")
                 \cup E(e.target = TargetOf(e.ec), "C20.TargetFromExit")
                 \cup (IF T.family = "mpi"
                       THEN E((e.target = "DONE") <=> (/\ Cardinality(RankRes(u)) = Rq(u).c
                                                       /\ \A x \in RankRes(u) : x.ec = "0"),
                              "C20.TargetTruth")
                       ELSE E(truth[u] = "none" \/ ((e.target = "DONE") <=> (truth[u] = "ok")),
                              "C20.TargetTruth"))
                 \cup E(e.state = "AGENT_STAGING_OUTPUT_PENDING", "C20.ResultNotForwarded")
            /\ UNCHANGED <<held, nput, mvis, tow, disp, rres>>
       [] e.ev = "Call" ->
            /\ errs' = errs \cup e0 \cup same \cup CallErrs(e)
            /\ rres' = IF T.family = "mpi"
                       THEN [rres EXCEPT ![e.uid] = @ \cup {[rank |-> e.rank, ec |-> e.ret, k |-> "call"]}]
                       ELSE rres
            /\ UNCHANGED <<held, nput, nback, mvis, tow, disp>>
       [] e.ev \in {"Poll", "Spawn", "Fin", "QPut", "Deliver", "WatcherDied", "Inject", "SendFail"} ->
            /\ errs' = errs \cup e0 \cup same
            /\ UNCHANGED <<held, nput, nback, mvis, tow, disp, rres>>
       [] e.ev = "End" ->
            /\ errs' = errs \cup e0 \cup same
                 \cup E(\A u \in Uids : held[u] = NoSlots, "C20.AllBack")
                 \cup E(AllZero(lo, lg) /\ e.npool = 0, "C20.AllBack")
                 \* mpi: the puller still waits for ranks although all of them are free
                 \cup (IF T.family = "mpi"
                       THEN E(e.waiting = "none" \/ ~AllZero(lo, lg), "C20.NotStuck") ELSE {})
                 \cup UNION {E(nput[u] >= 1, "C20.ResultLost") : u \in tow}
                 \cup UNION {E(nback[u] >= 1, "C20.ResultLost") : u \in disp}
            /\ UNCHANGED <<held, nput, nback, mvis, tow, disp, rres>>
       [] OTHER ->
            /\ errs' = errs \cup {"X.UnknownEvent"}
            /\ UNCHANGED <<held, nput, nback, mvis, tow, disp, rres>>

Step ==
  /\ ~fin /\ l <= Len(Ev)
  /\ l' = l + 1 /\ fin' = FALSE
  /\ LET e == Ev[l] IN
     IF IsSched(e)
     THEN /\ SchedStep(e)
          /\ UNCHANGED <<co, gp, held, nput, nback, mvis, tow, disp, rres, truth>>
     ELSE IF T.family = "chain"
     THEN /\ errs' = errs \cup (IF e.ev = "Call" THEN CallErrs(e) ELSE {"X.UnknownEvent"})
          /\ UNCHANGED <<co, gp, held, nput, nback, mvis, tow, disp, rres, truth, sreg, sfw, sloc, sfail, sarr, snamed, scn, scanc>>
     ELSE /\ WorkerStep(e)
          /\ UNCHANGED <<sreg, sfw, sloc, sfail, sarr, snamed, scn, scanc>>
  /\ UNCHANGED tid

Finish ==
  /\ ~fin /\ l > Len(Ev)
  /\ fin' = TRUE
  /\ PrintT(<<"RESULT", T.tid, errs>>)
  /\ UNCHANGED <<tid, l, co, gp, held, nput, nback, mvis, tow, disp, rres, truth,
                 sreg, sfw, sloc, sfail, sarr, snamed, scn, scanc, errs>>

Next == Step \/ Finish
Spec == Init /\ [][Next]_vars
=============================================================================
