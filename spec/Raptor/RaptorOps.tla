----------------------------- MODULE RaptorOps -----------------------------
(***************************************************************************)
(* Pure operators shared by the Raptor design model and its trace monitor: *)
(* the worker-local occupancy map (DefaultWorker._alloc / _dealloc), the   *)
(* exit code -> target state rule of Master._result_cb, and the dispatcher *)
(* contract (Worker._dispatch_func/eval/exec/proc/shell) over a small      *)
(* catalogue of payload kinds.                                             *)
(***************************************************************************)
EXTENDS Naturals, Sequences, FiniteSets

CONSTANTS NCores, NGpus          \* size of the worker's own allotment

Core == 0 .. NCores - 1
Gpu  == 0 .. NGpus - 1

ZeroCores == [i \in Core |-> 0]
ZeroGpus  == [i \in Gpu  |-> 0]

FreeOf(occ, D)  == {i \in D : occ[i] = 0}
LowestN(S, n)   == {i \in S : Cardinality({j \in S : j < i}) < n}

ValidDemand(d)  == d.c >= 1 /\ d.c <= NCores /\ d.g >= 0 /\ d.g <= NGpus
FitsOcc(co, gp, d) == /\ d.c <= Cardinality(FreeOf(co, Core))
                      /\ d.g <= Cardinality(FreeOf(gp, Gpu))

\* _alloc: lowest free indices
AllocOf(co, gp, d) == [cores |-> LowestN(FreeOf(co, Core), d.c),
                       gpus  |-> LowestN(FreeOf(gp, Gpu),  d.g)]
NoSlots == [cores |-> {}, gpus |-> {}]

MarkCores(co, S, v) == [i \in Core |-> IF i \in S THEN v ELSE co[i]]
MarkGpus(gp, S, v)  == [i \in Gpu  |-> IF i \in S THEN v ELSE gp[i]]

\* ghost statements over what running requests hold
Disjoint(ro, R) == \A r, s \in R : r # s =>
                       /\ ro[r].cores \cap ro[s].cores = {}
                       /\ ro[r].gpus  \cap ro[s].gpus  = {}
Within(ro, R)   == \A r \in R : ro[r].cores \subseteq Core /\ ro[r].gpus \subseteq Gpu
OccMatches(co, gp, ro, R) ==
  /\ \A i \in Core : (co[i] = 1) <=> (\E r \in R : i \in ro[r].cores)
  /\ \A i \in Gpu  : (gp[i] = 1) <=> (\E r \in R : i \in ro[r].gpus)
AllZero(co, gp) == co = ZeroCores /\ gp = ZeroGpus

(* ---- master: exit code (a string, "none" == not reported) -> target ---- *)
TargetOf(ec) == IF ec = "0" THEN "DONE" ELSE "FAILED"

(* ---- dispatcher contract ------------------------------------------------ *)
PyModes   == {"func", "eval", "exec"}
ProcModes == {"proc", "shell"}
FnModes   == PyModes \cup ProcModes
ExeMode   == "exe"

\* payload kinds: what the call does
\*   ret     returns 7                    print   writes hello / oops, returns nothing
\*   raise   writes partial, then fails   setenv  sets RPV_X        delenv  deletes RPV_KEEP
\*   swapout replaces sys.stdout/stderr   coro    coroutine function returning 7
\*   tenv    reads RPV_T which the task description's environment provides
\*   sysexit leaves via SystemExit
\*   sig     (proc / shell only) the process is killed by a signal
\*   die     (python modes) the payload takes its own process down without reporting
\*           (os._exit, SIGKILL, SIGSEGV): no result, no exception, nothing restored
Kinds     == {"ret", "print", "raise", "setenv", "delenv", "swapout", "coro", "tenv", "sysexit",
              "die"}
\*   probe   (proc / shell only) prints RPV_T, which this request does not provide
ProcKinds == {"ret", "print", "raise", "tenv", "sig", "probe"}
KindOK(k, m) == IF m \in ProcModes THEN k \in ProcKinds
                ELSE IF k = "coro" THEN m = "func" ELSE k \in Kinds

Succeeds(k)  == k \notin {"raise", "sysexit", "sig", "die"}

\* expected outcome tuple, in the projection the rig logs (newline shown as /)
ExpVal(k, m) == IF m \in ProcModes \/ ~Succeeds(k) THEN "none"
                ELSE IF k \in {"ret", "coro"} THEN "7"
                ELSE IF k = "tenv" THEN "'v'" ELSE "none"
ExpOut(k, m) == IF k = "probe" THEN "unset/" ELSE IF k = "print" THEN "hello/"
                ELSE IF k = "raise" THEN "partial/"
                ELSE IF k = "tenv" /\ m \in ProcModes THEN "v/" ELSE ""
ExpErr(k, m) == IF k = "print" THEN "oops/" ELSE ""

\* worker-side state a payload may touch: tracked variables and the streams
Env0    == [X |-> "none", KEEP |-> "k", T |-> "none"]
During(e, k, m) ==            \* state while the call runs (python modes only)
  IF m \in ProcModes THEN e
  ELSE IF k = "setenv" THEN [e EXCEPT !.X = "1"]
  ELSE IF k = "delenv" THEN [e EXCEPT !.KEEP = "none"]
  ELSE IF k = "tenv"   THEN [e EXCEPT !.T = "v"]
  ELSE e
StreamDuring(s, k, m) == IF m \in PyModes /\ k = "swapout" THEN "other" ELSE s
=============================================================================
