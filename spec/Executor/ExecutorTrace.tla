--------------------------- MODULE ExecutorTrace ---------------------------
(***************************************************************************)
(* Trace monitor for the Popen executor: consumes the events recorded by   *)
(* exec_rig.py from the real Popen / AgentExecutingComponent code running  *)
(* under the baton controller and maintains the ghost counters of the      *)
(* design model (Executor.tla): ann, handon, unsched, cann, collected.     *)
(* Total: a failing clause is added to errs, the monitor carries on.       *)
(***************************************************************************)
EXTENDS Naturals, Integers, Sequences, FiniteSets, TLC, Json, IOUtils

Batch  == JsonDeserialize(IOEnv.TRACE_FILE)
Traces == Batch.traces

VARIABLES tid, l, ann, handon, unsched, cann, collected, accepted, named, toreg,
          pexit, killed, target, spawned, excused, errs, fin

vars == <<tid, l, ann, handon, unsched, cann, collected, accepted, named, toreg,
          pexit, killed, target, spawned, excused, errs, fin>>

T      == Traces[tid]
Ev     == T.events
Uids   == {T.uids[i] : i \in 1 .. Len(T.uids)}
SeqSet(s) == {s[i] : i \in 1 .. Len(s)}
E(cond, name) == IF cond THEN {} ELSE {name}

Init ==
  /\ tid \in 1 .. Len(Traces) /\ l = 1
  /\ ann = [t \in Uids |-> 0] /\ handon = [t \in Uids |-> 0]
  /\ unsched = [t \in Uids |-> 0] /\ cann = [t \in Uids |-> 0]
  /\ collected = [t \in Uids |-> {}]
  /\ accepted = {} /\ named = {} /\ toreg = {}
  /\ pexit = [t \in Uids |-> "none"]      \* exit code of the process, "none" = not exited
  /\ killed = {}
  /\ target = [t \in Uids |-> "none"]
  /\ spawned = {}        \* tasks whose process object was attached to the task
  /\ excused = {}        \* named tasks a canceler looked at and found already done / owned by the watcher
  /\ errs = {} /\ fin = FALSE

Asked(t) == t \in named \/ t \in toreg

Step ==
  /\ ~fin /\ l <= Len(Ev)
  /\ LET e == Ev[l] t == e.uid IN
     /\ l' = l + 1 /\ fin' = FALSE
     /\ CASE e.ev = "Accept" ->
               /\ accepted' = accepted \cup {t}
               /\ errs' = errs \cup E(t \notin accepted, "C07.AcceptedTwice")
               /\ UNCHANGED <<ann, handon, unsched, cann, collected, named, toreg, pexit, killed, target, spawned, excused>>
          [] e.ev = "CancelMsg" ->
               /\ named' = named \cup SeqSet(e.uids)
               /\ UNCHANGED <<ann, handon, unsched, cann, collected, accepted, toreg, pexit, killed, target, spawned, excused, errs>>
          [] e.ev = "RegTimeout" ->
               /\ toreg' = toreg \cup {t}
               /\ UNCHANGED <<ann, handon, unsched, cann, collected, accepted, named, pexit, killed, target, spawned, excused, errs>>
          [] e.ev = "ProcExit" ->
               /\ pexit' = [pexit EXCEPT ![t] = e.code]
               /\ UNCHANGED <<ann, handon, unsched, cann, collected, accepted, named, toreg, killed, target, spawned, excused, errs>>
          [] e.ev = "Kill" ->
               /\ killed' = killed \cup {t}
               /\ errs' = errs \cup E(Asked(t), "C08.KilledNotNamed")
                               \cup E(collected[t] # {}, "C07.KilledWithoutOwning")
               /\ UNCHANGED <<ann, handon, unsched, cann, collected, accepted, named, toreg, pexit, target, spawned, excused>>
          [] e.ev = "DelTasks" ->
               /\ collected' = [collected EXCEPT ![t] = @ \cup {e.who}]
               /\ errs' = errs \cup E(collected[t] = {}, "C07.CollectedTwice")
               /\ UNCHANGED <<ann, handon, unsched, cann, accepted, named, toreg, pexit, killed, target, spawned, excused>>
          [] e.ev = "PubUnsched" ->
               /\ unsched' = [u \in Uids |-> IF u \in SeqSet(e.uids) THEN unsched[u] + 1 ELSE unsched[u]]
               /\ errs' = errs \cup UNION {E(unsched[u] = 0, "C07.ReleasedTwice") : u \in SeqSet(e.uids)}
                               \cup UNION {E(u \in accepted, "C07.ReleaseUnknown") : u \in SeqSet(e.uids)}
               /\ UNCHANGED <<ann, handon, cann, collected, accepted, named, toreg, pexit, killed, target, spawned, excused>>
          [] e.ev = "Adv" ->
               IF e.state = "AGENT_EXECUTING" THEN
                 /\ ann' = [ann EXCEPT ![t] = @ + 1]
                 /\ errs' = errs \cup E(ann[t] = 0, "C07.StartAnnouncedTwice")
                                 \cup E(t \in accepted, "C07.StartWithoutAccept")
                 /\ UNCHANGED <<handon, unsched, cann, collected, accepted, named, toreg, pexit, killed, target, spawned, excused>>
               ELSE IF e.state = "AGENT_STAGING_OUTPUT_PENDING" /\ e.push THEN
                 /\ handon' = [handon EXCEPT ![t] = @ + 1]
                 /\ target' = [target EXCEPT ![t] = e.target]
                 /\ errs' = errs \cup E(handon[t] = 0, "C07.HandedOnTwice")
                      \cup E(ann[t] = 1, "C07.HandOnWithoutStart")
                      \cup E(e.target \in {"DONE", "FAILED", "CANCELED"}, "C07.OutcomeMissing")
                      \cup E(e.target = "DONE" => (e.exit = "0" /\ pexit[t] = "0"), "C07.OutcomeWrong")
                      \cup E(e.target = "FAILED" => (e.exit # "0" /\ e.exit # "none" /\ e.exit = pexit[t]), "C07.OutcomeWrong")
                      \cup E(e.target = "CANCELED" => Asked(t), "C08.CanceledNotNamed")
                      \cup E(e.target = "CANCELED" => collected[t] \subseteq {"intake", "control", "timeout"}, "C07.CanceledAndCollected")
                      \cup E(e.target \in {"DONE", "FAILED"} => collected[t] = {"watcher"}, "C07.CanceledAndCollected")
                      \cup E(pexit[t] # "none", "C07.HandedOnWhileRunning")
                 /\ UNCHANGED <<ann, unsched, cann, collected, accepted, named, toreg, pexit, killed, spawned, excused>>
               ELSE IF e.state = "FAILED" THEN
                 /\ handon' = [handon EXCEPT ![t] = @ + 1]
                 /\ target' = [target EXCEPT ![t] = "FAILED"]
                 /\ errs' = errs \cup E(handon[t] = 0, "C07.HandedOnTwice")
                      \cup E(T.spec[t].fault # "none", "C07.FailedAlthoughLaunched")
                 /\ UNCHANGED <<ann, unsched, cann, collected, accepted, named, toreg, pexit, killed, spawned, excused>>
               ELSE IF e.state = "CANCELED" THEN
                 /\ cann' = [cann EXCEPT ![t] = @ + 1]
                 /\ errs' = errs \cup E(cann[t] = 0, "C07.CancelAnnouncedTwice")
                                 \cup E(t \in named, "C08.CanceledNotNamed")
                 /\ UNCHANGED <<ann, handon, unsched, collected, accepted, named, toreg, pexit, killed, target, spawned, excused>>
               ELSE
                 /\ errs' = errs \cup {"C07.UnexpectedAdvance"}
                 /\ UNCHANGED <<ann, handon, unsched, cann, collected, accepted, named, toreg, pexit, killed, target, spawned, excused>>
          [] e.ev = "End" ->
               /\ errs' = errs
                    \cup E(e.error = "none", "C07.ThreadDiedOrDeadlock")
                    \cup UNION {E(handon[u] = 1, "C07.LeftBehind") : u \in accepted}
                    \cup UNION {E(unsched[u] = 1, "C07.NeverReleased") : u \in accepted}
                    \cup UNION {E(u \in killed => target[u] = "CANCELED", "C08.KilledButNotCanceled") : u \in accepted}
                    \* a named task is stopped, unless a canceler found it done / collected / never launched
                    \cup UNION {E(target[u] = "CANCELED" \/ u \in excused \/ T.spec[u].fault # "none",
                                  "C08.NamedNotStopped") : u \in (accepted \cap named)}
                    \cup E(SeqSet(e.tasks) \subseteq {u \in Uids : T.spec[u].fault # "none"}, "C07.StaleTaskEntry")
               /\ UNCHANGED <<ann, handon, unsched, cann, collected, accepted, named, toreg, pexit, killed, target, spawned, excused>>
          [] e.ev = "Spawn" ->
               /\ spawned' = spawned \cup {t}
               /\ UNCHANGED <<ann, handon, unsched, cann, collected, accepted, named, toreg, pexit, killed, target, excused, errs>>
          \* a canceling thread (control, timeout, intake after a positive late check)
          \* found the task already done, or already owned by the watcher
          [] e.ev = "Poll" /\ e.who \in {"control", "timeout", "intake"} ->
               /\ excused' = IF e.code # "none" THEN excused \cup {t} ELSE excused
               /\ UNCHANGED <<ann, handon, unsched, cann, collected, accepted, named, toreg, pexit, killed, target, spawned, errs>>
          [] e.ev = "Member" /\ e.who \in {"control", "timeout", "intake"} ->
               \* (not in the task table is an excuse only if the watcher has collected the task - a
               \*  task which is not registered YET is not excused)
               /\ excused' = IF ~e.res /\ collected[t] # {} THEN excused \cup {t} ELSE excused
               /\ UNCHANGED <<ann, handon, unsched, cann, collected, accepted, named, toreg, pexit, killed, target, spawned, errs>>
          [] e.ev = "GetProc" /\ e.who \in {"control", "timeout", "intake"} ->
               /\ excused' = IF ~e.present /\ t \in spawned THEN excused \cup {t} ELSE excused
               /\ UNCHANGED <<ann, handon, unsched, cann, collected, accepted, named, toreg, pexit, killed, target, spawned, errs>>
          [] e.ev = "GetTask" ->
               /\ excused' = IF ~e.present /\ t \in Uids /\ t \in accepted /\ collected[t] # {} THEN excused \cup {t} ELSE excused
               /\ UNCHANGED <<ann, handon, unsched, cann, collected, accepted, named, toreg, pexit, killed, target, spawned, errs>>
          \* kill probe (real LaunchMethod.cancel_task on real processes)
          [] e.ev = "ProbeEnd" ->
               \* (a target which had ended before the request is dead anyway; the request must
               \*  not raise: the caller has told the watcher to forget the task by then - C07)
               /\ errs' = errs \cup E(e.target \in SeqSet(e.dead), "C08.NamedNotKilled")
                               \cup E(SeqSet(e.dead) \subseteq {e.target}, "C08.BystanderKilled")
                               \cup E(e.raised = "none", "C07.CancelOfGoneTaskRaises")
               /\ UNCHANGED <<ann, handon, unsched, cann, collected, accepted, named, toreg, pexit, killed, target, spawned, excused>>
          [] OTHER ->
               UNCHANGED <<ann, handon, unsched, cann, collected, accepted, named, toreg, pexit, killed, target, spawned, excused, errs>>
  /\ UNCHANGED tid

Finish ==
  /\ ~fin /\ l > Len(Ev) /\ fin' = TRUE
  /\ PrintT(<<"RESULT", T.tid, errs>>)
  /\ UNCHANGED <<tid, l, ann, handon, unsched, cann, collected, accepted, named, toreg, pexit, killed, target, spawned, excused, errs>>

Next == Step \/ Finish
Spec == Init /\ [][Next]_vars
=============================================================================
