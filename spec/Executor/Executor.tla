------------------------------ MODULE Executor ------------------------------
(***************************************************************************)
(* Design model of the Popen executor (agent/executing/popen.py, base.py)  *)
(* in PlusCal, one label per access to state shared between its threads:   *)
(*   intake  : work -> _handle_task -> _launch_task (late cancel check)    *)
(*   watcher : _watch / _check_running                                     *)
(*   control : _control_cb(cancel_tasks) -> control_cb -> cancel_task      *)
(*   timeout : _to_watcher -> cancel_task                                  *)
(*   proc[t] : the task's process exits                                    *)
(* Shared: _tasks (intasks), _check_lock (lock), the 'proc' entry of the   *)
(* task dict (hasproc), the process itself (pst, killed), the watch queue  *)
(* (wq), the cancel list (clist), the timeout registrations (toreg).       *)
(* Ghosts: ann, handon, unsched, cann, collected, target.                  *)
(*                                                                         *)
(* Deviation constants (FALSE == code as intended):                        *)
(*   DevNoMember   : watcher skips the membership test under the lock      *)
(*   DevCancelNoMember : cancel_task skips the membership test             *)
(*   DevErrNoUnsched : launch error path forgets the unschedule message    *)
(*   DevCancelDone : cancel_task does not return for an exited process     *)
(***************************************************************************)
EXTENDS Naturals, Integers, Sequences, FiniteSets, TLC

CONSTANTS T,            \* task ids, in intake order given by Order
          Order,        \* sequence of the tasks as they are accepted
          Fault,        \* [T -> {"none", "nolauncher", "script", "spawn"}]
          ExitCode,     \* [T -> Int]
          HasTimeout,   \* [T -> BOOLEAN]
          CancelMsgs,   \* sequence of sets of uids (control messages)
          DevNoMember, DevCancelNoMember, DevErrNoUnsched, DevCancelDone

Callers == {"intake", "control", "timeout"}

(* --algorithm Executor {
variables
  intasks = {}, hasproc = [t \in T |-> FALSE], pst = [t \in T |-> "unborn"],
  code = [t \in T |-> 0], killed = [t \in T |-> FALSE], lock = "free",
  wq = <<>>, clist = {}, toreg = {},
  ann = [t \in T |-> 0], handon = [t \in T |-> 0], unsched = [t \in T |-> 0],
  cann = [t \in T |-> 0], collected = [t \in T |-> {}], target = [t \in T |-> "none"],
  accepted = {}, intakeDone = FALSE, controlDone = FALSE;

define {
  Settled == /\ intakeDone /\ controlDone
             /\ \A t \in T : handon[t] >= 1
}

procedure cancel_task(ct, who)
{
  K1: if (~hasproc[ct]) { return };                        \* task.get('proc')
  K2: if (pst[ct] = "exited" /\ ~DevCancelDone) { return };  \* proc.poll()
  K3: await lock = "free"; lock := who;                    \* with self._check_lock
  K4: if (ct \notin intasks /\ ~DevCancelNoMember) { lock := "free"; return };
  K5: intasks := intasks \ {ct};
      collected[ct] := collected[ct] \cup {who};
      lock := "free";
  K7: killed[ct] := TRUE;                                  \* launcher.cancel_task
  K8: await pst[ct] = "exited";                            \* proc.wait()
  K9: hasproc[ct] := FALSE;                                \* del task['proc']
      target[ct]  := "CANCELED";
      unsched[ct] := unsched[ct] + 1;                      \* publish unschedule
      handon[ct]  := handon[ct] + 1;                       \* advance -> staging output
      return;
}

fair process (intake = "intake")
  variables qi = Order, it = CHOOSE x \in T : TRUE;
{
  I0: while (qi # <<>>) {
        it := Head(qi); qi := Tail(qi);
        accepted := accepted \cup {it};
        ann[it] := ann[it] + 1;                            \* advance AGENT_EXECUTING
  I2:   intasks := intasks \cup {it};                      \* self._tasks.update
        if (Fault[it] = "none") { pst[it] := "running" };  \* sp.Popen(...)
  I3:   if (Fault[it] # "none") {                          \* except branch of work()
          if (~DevErrNoUnsched) { unsched[it] := unsched[it] + 1 };
          target[it] := "FAILED";
          handon[it] := handon[it] + 1;
        } else {
  I4:     hasproc[it] := TRUE;                             \* task['proc'] = ...
  I5:     if (HasTimeout[it]) { toreg := toreg \cup {it} };  \* handle_timeout
  I6:     wq := Append(wq, it);                            \* self._watch_queue.put
  I7:     if (it \in clist) {                              \* is_canceled
            clist := clist \ {it};
            cann[it] := cann[it] + 1;
            call cancel_task(it, "intake");
          }
        }
      };
  I9: intakeDone := TRUE;
}

fair process (watcher = "watcher")
  variables tw = <<>>, wi = 1, wt = CHOOSE x \in T : TRUE, toadv = {};
{
  W0: while (~Settled) {
        await wq # <<>> \/ Settled
              \/ \E i \in 1 .. Len(tw) : pst[tw[i]] = "exited" \/ ~hasproc[tw[i]];
  Wq:   while (wq # <<>>) { tw := Append(tw, Head(wq)); wq := Tail(wq) };
        wi := 1; toadv := {};
  W1:   while (wi <= Len(tw)) {
          wt := tw[wi];
          if (~hasproc[wt]) {                              \* task.get('proc') is None
            tw := SelectSeq(tw, LAMBDA x : x # wt);
          } else {
  W2:       if (pst[wt] # "exited") {                      \* proc.poll()
              wi := wi + 1;
            } else {
  W3:         tw := SelectSeq(tw, LAMBDA x : x # wt);       \* wait(), to_watch.remove
  W5:         hasproc[wt] := FALSE;                        \* del task['proc']
  W6:         await lock = "free"; lock := "watcher";
  W7:         if (wt \notin intasks /\ ~DevNoMember) {
                lock := "free";
              } else {
  W8:           intasks := intasks \ {wt};
                collected[wt] := collected[wt] \cup {"watcher"};
                lock := "free";
                toadv := toadv \cup {wt};
                target[wt] := IF code[wt] = 0 THEN "DONE" ELSE "FAILED";
              }
            }
          }
        };
  W9:   unsched := [t \in T |-> IF t \in toadv THEN unsched[t] + 1 ELSE unsched[t]];
        handon  := [t \in T |-> IF t \in toadv THEN handon[t]  + 1 ELSE handon[t]];
      }
}

fair process (control = "control")
  variables qc = CancelMsgs, cu = {}, cx = CHOOSE x \in T : TRUE;
{
  C0: while (qc # <<>>) {
        cu := Head(qc); qc := Tail(qc);
  C1:   clist := clist \cup cu;                            \* _cancel_list += uids
  C2:   while (cu # {}) {
          cx := CHOOSE x \in cu : TRUE; cu := cu \ {cx};
          if (cx \in intasks) {                            \* get_task
            call cancel_task(cx, "control");
          }
        }
      };
  C9: controlDone := TRUE;
}

fair process (timeout = "timeout")
  variables due = {}, tx = CHOOSE x \in T : TRUE;
{
  T0: while (~Settled) {
        await toreg # {} \/ Settled;
        due := toreg; toreg := {};
  T1:   while (due # {}) {
          tx := CHOOSE x \in due : TRUE; due := due \ {tx};
          call cancel_task(tx, "timeout");
        }
      }
}

fair process (proc \in T)
{
  P0: await pst[self] = "running";
      pst[self]  := "exited";
      code[self] := IF killed[self] THEN -15 ELSE ExitCode[self];
}
} *)
\* BEGIN TRANSLATION
CONSTANT defaultInitValue
VARIABLES pc, intasks, hasproc, pst, code, killed, lock, wq, clist, toreg, 
          ann, handon, unsched, cann, collected, target, accepted, intakeDone, 
          controlDone, stack

(* define statement *)
Settled == /\ intakeDone /\ controlDone
           /\ \A t \in T : handon[t] >= 1

VARIABLES ct, who, qi, it, tw, wi, wt, toadv, qc, cu, cx, due, tx

vars == << pc, intasks, hasproc, pst, code, killed, lock, wq, clist, toreg, 
           ann, handon, unsched, cann, collected, target, accepted, 
           intakeDone, controlDone, stack, ct, who, qi, it, tw, wi, wt, toadv, 
           qc, cu, cx, due, tx >>

ProcSet == {"intake"} \cup {"watcher"} \cup {"control"} \cup {"timeout"} \cup (T)

Init == (* Global variables *)
        /\ intasks = {}
        /\ hasproc = [t \in T |-> FALSE]
        /\ pst = [t \in T |-> "unborn"]
        /\ code = [t \in T |-> 0]
        /\ killed = [t \in T |-> FALSE]
        /\ lock = "free"
        /\ wq = <<>>
        /\ clist = {}
        /\ toreg = {}
        /\ ann = [t \in T |-> 0]
        /\ handon = [t \in T |-> 0]
        /\ unsched = [t \in T |-> 0]
        /\ cann = [t \in T |-> 0]
        /\ collected = [t \in T |-> {}]
        /\ target = [t \in T |-> "none"]
        /\ accepted = {}
        /\ intakeDone = FALSE
        /\ controlDone = FALSE
        (* Procedure cancel_task *)
        /\ ct = [ self \in ProcSet |-> defaultInitValue]
        /\ who = [ self \in ProcSet |-> defaultInitValue]
        (* Process intake *)
        /\ qi = Order
        /\ it = CHOOSE x \in T : TRUE
        (* Process watcher *)
        /\ tw = <<>>
        /\ wi = 1
        /\ wt = CHOOSE x \in T : TRUE
        /\ toadv = {}
        (* Process control *)
        /\ qc = CancelMsgs
        /\ cu = {}
        /\ cx = CHOOSE x \in T : TRUE
        (* Process timeout *)
        /\ due = {}
        /\ tx = CHOOSE x \in T : TRUE
        /\ stack = [self \in ProcSet |-> << >>]
        /\ pc = [self \in ProcSet |-> CASE self = "intake" -> "I0"
                                        [] self = "watcher" -> "W0"
                                        [] self = "control" -> "C0"
                                        [] self = "timeout" -> "T0"
                                        [] self \in T -> "P0"]

K1(self) == /\ pc[self] = "K1"
            /\ IF ~hasproc[ct[self]]
                  THEN /\ pc' = [pc EXCEPT ![self] = Head(stack[self]).pc]
                       /\ ct' = [ct EXCEPT ![self] = Head(stack[self]).ct]
                       /\ who' = [who EXCEPT ![self] = Head(stack[self]).who]
                       /\ stack' = [stack EXCEPT ![self] = Tail(stack[self])]
                  ELSE /\ pc' = [pc EXCEPT ![self] = "K2"]
                       /\ UNCHANGED << stack, ct, who >>
            /\ UNCHANGED << intasks, hasproc, pst, code, killed, lock, wq, 
                            clist, toreg, ann, handon, unsched, cann, 
                            collected, target, accepted, intakeDone, 
                            controlDone, qi, it, tw, wi, wt, toadv, qc, cu, cx, 
                            due, tx >>

K2(self) == /\ pc[self] = "K2"
            /\ IF pst[ct[self]] = "exited" /\ ~DevCancelDone
                  THEN /\ pc' = [pc EXCEPT ![self] = Head(stack[self]).pc]
                       /\ ct' = [ct EXCEPT ![self] = Head(stack[self]).ct]
                       /\ who' = [who EXCEPT ![self] = Head(stack[self]).who]
                       /\ stack' = [stack EXCEPT ![self] = Tail(stack[self])]
                  ELSE /\ pc' = [pc EXCEPT ![self] = "K3"]
                       /\ UNCHANGED << stack, ct, who >>
            /\ UNCHANGED << intasks, hasproc, pst, code, killed, lock, wq, 
                            clist, toreg, ann, handon, unsched, cann, 
                            collected, target, accepted, intakeDone, 
                            controlDone, qi, it, tw, wi, wt, toadv, qc, cu, cx, 
                            due, tx >>

K3(self) == /\ pc[self] = "K3"
            /\ lock = "free"
            /\ lock' = who[self]
            /\ pc' = [pc EXCEPT ![self] = "K4"]
            /\ UNCHANGED << intasks, hasproc, pst, code, killed, wq, clist, 
                            toreg, ann, handon, unsched, cann, collected, 
                            target, accepted, intakeDone, controlDone, stack, 
                            ct, who, qi, it, tw, wi, wt, toadv, qc, cu, cx, 
                            due, tx >>

K4(self) == /\ pc[self] = "K4"
            /\ IF ct[self] \notin intasks /\ ~DevCancelNoMember
                  THEN /\ lock' = "free"
                       /\ pc' = [pc EXCEPT ![self] = Head(stack[self]).pc]
                       /\ ct' = [ct EXCEPT ![self] = Head(stack[self]).ct]
                       /\ who' = [who EXCEPT ![self] = Head(stack[self]).who]
                       /\ stack' = [stack EXCEPT ![self] = Tail(stack[self])]
                  ELSE /\ pc' = [pc EXCEPT ![self] = "K5"]
                       /\ UNCHANGED << lock, stack, ct, who >>
            /\ UNCHANGED << intasks, hasproc, pst, code, killed, wq, clist, 
                            toreg, ann, handon, unsched, cann, collected, 
                            target, accepted, intakeDone, controlDone, qi, it, 
                            tw, wi, wt, toadv, qc, cu, cx, due, tx >>

K5(self) == /\ pc[self] = "K5"
            /\ intasks' = intasks \ {ct[self]}
            /\ collected' = [collected EXCEPT ![ct[self]] = collected[ct[self]] \cup {who[self]}]
            /\ lock' = "free"
            /\ pc' = [pc EXCEPT ![self] = "K7"]
            /\ UNCHANGED << hasproc, pst, code, killed, wq, clist, toreg, ann, 
                            handon, unsched, cann, target, accepted, 
                            intakeDone, controlDone, stack, ct, who, qi, it, 
                            tw, wi, wt, toadv, qc, cu, cx, due, tx >>

K7(self) == /\ pc[self] = "K7"
            /\ killed' = [killed EXCEPT ![ct[self]] = TRUE]
            /\ pc' = [pc EXCEPT ![self] = "K8"]
            /\ UNCHANGED << intasks, hasproc, pst, code, lock, wq, clist, 
                            toreg, ann, handon, unsched, cann, collected, 
                            target, accepted, intakeDone, controlDone, stack, 
                            ct, who, qi, it, tw, wi, wt, toadv, qc, cu, cx, 
                            due, tx >>

K8(self) == /\ pc[self] = "K8"
            /\ pst[ct[self]] = "exited"
            /\ pc' = [pc EXCEPT ![self] = "K9"]
            /\ UNCHANGED << intasks, hasproc, pst, code, killed, lock, wq, 
                            clist, toreg, ann, handon, unsched, cann, 
                            collected, target, accepted, intakeDone, 
                            controlDone, stack, ct, who, qi, it, tw, wi, wt, 
                            toadv, qc, cu, cx, due, tx >>

K9(self) == /\ pc[self] = "K9"
            /\ hasproc' = [hasproc EXCEPT ![ct[self]] = FALSE]
            /\ target' = [target EXCEPT ![ct[self]] = "CANCELED"]
            /\ unsched' = [unsched EXCEPT ![ct[self]] = unsched[ct[self]] + 1]
            /\ handon' = [handon EXCEPT ![ct[self]] = handon[ct[self]] + 1]
            /\ pc' = [pc EXCEPT ![self] = Head(stack[self]).pc]
            /\ ct' = [ct EXCEPT ![self] = Head(stack[self]).ct]
            /\ who' = [who EXCEPT ![self] = Head(stack[self]).who]
            /\ stack' = [stack EXCEPT ![self] = Tail(stack[self])]
            /\ UNCHANGED << intasks, pst, code, killed, lock, wq, clist, toreg, 
                            ann, cann, collected, accepted, intakeDone, 
                            controlDone, qi, it, tw, wi, wt, toadv, qc, cu, cx, 
                            due, tx >>

cancel_task(self) == K1(self) \/ K2(self) \/ K3(self) \/ K4(self)
                        \/ K5(self) \/ K7(self) \/ K8(self) \/ K9(self)

I0 == /\ pc["intake"] = "I0"
      /\ IF qi # <<>>
            THEN /\ it' = Head(qi)
                 /\ qi' = Tail(qi)
                 /\ accepted' = (accepted \cup {it'})
                 /\ ann' = [ann EXCEPT ![it'] = ann[it'] + 1]
                 /\ pc' = [pc EXCEPT !["intake"] = "I2"]
            ELSE /\ pc' = [pc EXCEPT !["intake"] = "I9"]
                 /\ UNCHANGED << ann, accepted, qi, it >>
      /\ UNCHANGED << intasks, hasproc, pst, code, killed, lock, wq, clist, 
                      toreg, handon, unsched, cann, collected, target, 
                      intakeDone, controlDone, stack, ct, who, tw, wi, wt, 
                      toadv, qc, cu, cx, due, tx >>

I2 == /\ pc["intake"] = "I2"
      /\ intasks' = (intasks \cup {it})
      /\ IF Fault[it] = "none"
            THEN /\ pst' = [pst EXCEPT ![it] = "running"]
            ELSE /\ TRUE
                 /\ pst' = pst
      /\ pc' = [pc EXCEPT !["intake"] = "I3"]
      /\ UNCHANGED << hasproc, code, killed, lock, wq, clist, toreg, ann, 
                      handon, unsched, cann, collected, target, accepted, 
                      intakeDone, controlDone, stack, ct, who, qi, it, tw, wi, 
                      wt, toadv, qc, cu, cx, due, tx >>

I3 == /\ pc["intake"] = "I3"
      /\ IF Fault[it] # "none"
            THEN /\ IF ~DevErrNoUnsched
                       THEN /\ unsched' = [unsched EXCEPT ![it] = unsched[it] + 1]
                       ELSE /\ TRUE
                            /\ UNCHANGED unsched
                 /\ target' = [target EXCEPT ![it] = "FAILED"]
                 /\ handon' = [handon EXCEPT ![it] = handon[it] + 1]
                 /\ pc' = [pc EXCEPT !["intake"] = "I0"]
            ELSE /\ pc' = [pc EXCEPT !["intake"] = "I4"]
                 /\ UNCHANGED << handon, unsched, target >>
      /\ UNCHANGED << intasks, hasproc, pst, code, killed, lock, wq, clist, 
                      toreg, ann, cann, collected, accepted, intakeDone, 
                      controlDone, stack, ct, who, qi, it, tw, wi, wt, toadv, 
                      qc, cu, cx, due, tx >>

I4 == /\ pc["intake"] = "I4"
      /\ hasproc' = [hasproc EXCEPT ![it] = TRUE]
      /\ pc' = [pc EXCEPT !["intake"] = "I5"]
      /\ UNCHANGED << intasks, pst, code, killed, lock, wq, clist, toreg, ann, 
                      handon, unsched, cann, collected, target, accepted, 
                      intakeDone, controlDone, stack, ct, who, qi, it, tw, wi, 
                      wt, toadv, qc, cu, cx, due, tx >>

I5 == /\ pc["intake"] = "I5"
      /\ IF HasTimeout[it]
            THEN /\ toreg' = (toreg \cup {it})
            ELSE /\ TRUE
                 /\ toreg' = toreg
      /\ pc' = [pc EXCEPT !["intake"] = "I6"]
      /\ UNCHANGED << intasks, hasproc, pst, code, killed, lock, wq, clist, 
                      ann, handon, unsched, cann, collected, target, accepted, 
                      intakeDone, controlDone, stack, ct, who, qi, it, tw, wi, 
                      wt, toadv, qc, cu, cx, due, tx >>

I6 == /\ pc["intake"] = "I6"
      /\ wq' = Append(wq, it)
      /\ pc' = [pc EXCEPT !["intake"] = "I7"]
      /\ UNCHANGED << intasks, hasproc, pst, code, killed, lock, clist, toreg, 
                      ann, handon, unsched, cann, collected, target, accepted, 
                      intakeDone, controlDone, stack, ct, who, qi, it, tw, wi, 
                      wt, toadv, qc, cu, cx, due, tx >>

I7 == /\ pc["intake"] = "I7"
      /\ IF it \in clist
            THEN /\ clist' = clist \ {it}
                 /\ cann' = [cann EXCEPT ![it] = cann[it] + 1]
                 /\ /\ ct' = [ct EXCEPT !["intake"] = it]
                    /\ stack' = [stack EXCEPT !["intake"] = << [ procedure |->  "cancel_task",
                                                                 pc        |->  "I0",
                                                                 ct        |->  ct["intake"],
                                                                 who       |->  who["intake"] ] >>
                                                             \o stack["intake"]]
                    /\ who' = [who EXCEPT !["intake"] = "intake"]
                 /\ pc' = [pc EXCEPT !["intake"] = "K1"]
            ELSE /\ pc' = [pc EXCEPT !["intake"] = "I0"]
                 /\ UNCHANGED << clist, cann, stack, ct, who >>
      /\ UNCHANGED << intasks, hasproc, pst, code, killed, lock, wq, toreg, 
                      ann, handon, unsched, collected, target, accepted, 
                      intakeDone, controlDone, qi, it, tw, wi, wt, toadv, qc, 
                      cu, cx, due, tx >>

I9 == /\ pc["intake"] = "I9"
      /\ intakeDone' = TRUE
      /\ pc' = [pc EXCEPT !["intake"] = "Done"]
      /\ UNCHANGED << intasks, hasproc, pst, code, killed, lock, wq, clist, 
                      toreg, ann, handon, unsched, cann, collected, target, 
                      accepted, controlDone, stack, ct, who, qi, it, tw, wi, 
                      wt, toadv, qc, cu, cx, due, tx >>

intake == I0 \/ I2 \/ I3 \/ I4 \/ I5 \/ I6 \/ I7 \/ I9

W0 == /\ pc["watcher"] = "W0"
      /\ IF ~Settled
            THEN /\ wq # <<>> \/ Settled
                    \/ \E i \in 1 .. Len(tw) : pst[tw[i]] = "exited" \/ ~hasproc[tw[i]]
                 /\ pc' = [pc EXCEPT !["watcher"] = "Wq"]
            ELSE /\ pc' = [pc EXCEPT !["watcher"] = "Done"]
      /\ UNCHANGED << intasks, hasproc, pst, code, killed, lock, wq, clist, 
                      toreg, ann, handon, unsched, cann, collected, target, 
                      accepted, intakeDone, controlDone, stack, ct, who, qi, 
                      it, tw, wi, wt, toadv, qc, cu, cx, due, tx >>

Wq == /\ pc["watcher"] = "Wq"
      /\ IF wq # <<>>
            THEN /\ tw' = Append(tw, Head(wq))
                 /\ wq' = Tail(wq)
                 /\ pc' = [pc EXCEPT !["watcher"] = "Wq"]
                 /\ UNCHANGED << wi, toadv >>
            ELSE /\ wi' = 1
                 /\ toadv' = {}
                 /\ pc' = [pc EXCEPT !["watcher"] = "W1"]
                 /\ UNCHANGED << wq, tw >>
      /\ UNCHANGED << intasks, hasproc, pst, code, killed, lock, clist, toreg, 
                      ann, handon, unsched, cann, collected, target, accepted, 
                      intakeDone, controlDone, stack, ct, who, qi, it, wt, qc, 
                      cu, cx, due, tx >>

W1 == /\ pc["watcher"] = "W1"
      /\ IF wi <= Len(tw)
            THEN /\ wt' = tw[wi]
                 /\ IF ~hasproc[wt']
                       THEN /\ tw' = SelectSeq(tw, LAMBDA x : x # wt')
                            /\ pc' = [pc EXCEPT !["watcher"] = "W1"]
                       ELSE /\ pc' = [pc EXCEPT !["watcher"] = "W2"]
                            /\ tw' = tw
            ELSE /\ pc' = [pc EXCEPT !["watcher"] = "W9"]
                 /\ UNCHANGED << tw, wt >>
      /\ UNCHANGED << intasks, hasproc, pst, code, killed, lock, wq, clist, 
                      toreg, ann, handon, unsched, cann, collected, target, 
                      accepted, intakeDone, controlDone, stack, ct, who, qi, 
                      it, wi, toadv, qc, cu, cx, due, tx >>

W2 == /\ pc["watcher"] = "W2"
      /\ IF pst[wt] # "exited"
            THEN /\ wi' = wi + 1
                 /\ pc' = [pc EXCEPT !["watcher"] = "W1"]
            ELSE /\ pc' = [pc EXCEPT !["watcher"] = "W3"]
                 /\ wi' = wi
      /\ UNCHANGED << intasks, hasproc, pst, code, killed, lock, wq, clist, 
                      toreg, ann, handon, unsched, cann, collected, target, 
                      accepted, intakeDone, controlDone, stack, ct, who, qi, 
                      it, tw, wt, toadv, qc, cu, cx, due, tx >>

W3 == /\ pc["watcher"] = "W3"
      /\ tw' = SelectSeq(tw, LAMBDA x : x # wt)
      /\ pc' = [pc EXCEPT !["watcher"] = "W5"]
      /\ UNCHANGED << intasks, hasproc, pst, code, killed, lock, wq, clist, 
                      toreg, ann, handon, unsched, cann, collected, target, 
                      accepted, intakeDone, controlDone, stack, ct, who, qi, 
                      it, wi, wt, toadv, qc, cu, cx, due, tx >>

W5 == /\ pc["watcher"] = "W5"
      /\ hasproc' = [hasproc EXCEPT ![wt] = FALSE]
      /\ pc' = [pc EXCEPT !["watcher"] = "W6"]
      /\ UNCHANGED << intasks, pst, code, killed, lock, wq, clist, toreg, ann, 
                      handon, unsched, cann, collected, target, accepted, 
                      intakeDone, controlDone, stack, ct, who, qi, it, tw, wi, 
                      wt, toadv, qc, cu, cx, due, tx >>

W6 == /\ pc["watcher"] = "W6"
      /\ lock = "free"
      /\ lock' = "watcher"
      /\ pc' = [pc EXCEPT !["watcher"] = "W7"]
      /\ UNCHANGED << intasks, hasproc, pst, code, killed, wq, clist, toreg, 
                      ann, handon, unsched, cann, collected, target, accepted, 
                      intakeDone, controlDone, stack, ct, who, qi, it, tw, wi, 
                      wt, toadv, qc, cu, cx, due, tx >>

W7 == /\ pc["watcher"] = "W7"
      /\ IF wt \notin intasks /\ ~DevNoMember
            THEN /\ lock' = "free"
                 /\ pc' = [pc EXCEPT !["watcher"] = "W1"]
            ELSE /\ pc' = [pc EXCEPT !["watcher"] = "W8"]
                 /\ lock' = lock
      /\ UNCHANGED << intasks, hasproc, pst, code, killed, wq, clist, toreg, 
                      ann, handon, unsched, cann, collected, target, accepted, 
                      intakeDone, controlDone, stack, ct, who, qi, it, tw, wi, 
                      wt, toadv, qc, cu, cx, due, tx >>

W8 == /\ pc["watcher"] = "W8"
      /\ intasks' = intasks \ {wt}
      /\ collected' = [collected EXCEPT ![wt] = collected[wt] \cup {"watcher"}]
      /\ lock' = "free"
      /\ toadv' = (toadv \cup {wt})
      /\ target' = [target EXCEPT ![wt] = IF code[wt] = 0 THEN "DONE" ELSE "FAILED"]
      /\ pc' = [pc EXCEPT !["watcher"] = "W1"]
      /\ UNCHANGED << hasproc, pst, code, killed, wq, clist, toreg, ann, 
                      handon, unsched, cann, accepted, intakeDone, controlDone, 
                      stack, ct, who, qi, it, tw, wi, wt, qc, cu, cx, due, tx >>

W9 == /\ pc["watcher"] = "W9"
      /\ unsched' = [t \in T |-> IF t \in toadv THEN unsched[t] + 1 ELSE unsched[t]]
      /\ handon' = [t \in T |-> IF t \in toadv THEN handon[t]  + 1 ELSE handon[t]]
      /\ pc' = [pc EXCEPT !["watcher"] = "W0"]
      /\ UNCHANGED << intasks, hasproc, pst, code, killed, lock, wq, clist, 
                      toreg, ann, cann, collected, target, accepted, 
                      intakeDone, controlDone, stack, ct, who, qi, it, tw, wi, 
                      wt, toadv, qc, cu, cx, due, tx >>

watcher == W0 \/ Wq \/ W1 \/ W2 \/ W3 \/ W5 \/ W6 \/ W7 \/ W8 \/ W9

C0 == /\ pc["control"] = "C0"
      /\ IF qc # <<>>
            THEN /\ cu' = Head(qc)
                 /\ qc' = Tail(qc)
                 /\ pc' = [pc EXCEPT !["control"] = "C1"]
            ELSE /\ pc' = [pc EXCEPT !["control"] = "C9"]
                 /\ UNCHANGED << qc, cu >>
      /\ UNCHANGED << intasks, hasproc, pst, code, killed, lock, wq, clist, 
                      toreg, ann, handon, unsched, cann, collected, target, 
                      accepted, intakeDone, controlDone, stack, ct, who, qi, 
                      it, tw, wi, wt, toadv, cx, due, tx >>

C1 == /\ pc["control"] = "C1"
      /\ clist' = (clist \cup cu)
      /\ pc' = [pc EXCEPT !["control"] = "C2"]
      /\ UNCHANGED << intasks, hasproc, pst, code, killed, lock, wq, toreg, 
                      ann, handon, unsched, cann, collected, target, accepted, 
                      intakeDone, controlDone, stack, ct, who, qi, it, tw, wi, 
                      wt, toadv, qc, cu, cx, due, tx >>

C2 == /\ pc["control"] = "C2"
      /\ IF cu # {}
            THEN /\ cx' = (CHOOSE x \in cu : TRUE)
                 /\ cu' = cu \ {cx'}
                 /\ IF cx' \in intasks
                       THEN /\ /\ ct' = [ct EXCEPT !["control"] = cx']
                               /\ stack' = [stack EXCEPT !["control"] = << [ procedure |->  "cancel_task",
                                                                             pc        |->  "C2",
                                                                             ct        |->  ct["control"],
                                                                             who       |->  who["control"] ] >>
                                                                         \o stack["control"]]
                               /\ who' = [who EXCEPT !["control"] = "control"]
                            /\ pc' = [pc EXCEPT !["control"] = "K1"]
                       ELSE /\ pc' = [pc EXCEPT !["control"] = "C2"]
                            /\ UNCHANGED << stack, ct, who >>
            ELSE /\ pc' = [pc EXCEPT !["control"] = "C0"]
                 /\ UNCHANGED << stack, ct, who, cu, cx >>
      /\ UNCHANGED << intasks, hasproc, pst, code, killed, lock, wq, clist, 
                      toreg, ann, handon, unsched, cann, collected, target, 
                      accepted, intakeDone, controlDone, qi, it, tw, wi, wt, 
                      toadv, qc, due, tx >>

C9 == /\ pc["control"] = "C9"
      /\ controlDone' = TRUE
      /\ pc' = [pc EXCEPT !["control"] = "Done"]
      /\ UNCHANGED << intasks, hasproc, pst, code, killed, lock, wq, clist, 
                      toreg, ann, handon, unsched, cann, collected, target, 
                      accepted, intakeDone, stack, ct, who, qi, it, tw, wi, wt, 
                      toadv, qc, cu, cx, due, tx >>

control == C0 \/ C1 \/ C2 \/ C9

T0 == /\ pc["timeout"] = "T0"
      /\ IF ~Settled
            THEN /\ toreg # {} \/ Settled
                 /\ due' = toreg
                 /\ toreg' = {}
                 /\ pc' = [pc EXCEPT !["timeout"] = "T1"]
            ELSE /\ pc' = [pc EXCEPT !["timeout"] = "Done"]
                 /\ UNCHANGED << toreg, due >>
      /\ UNCHANGED << intasks, hasproc, pst, code, killed, lock, wq, clist, 
                      ann, handon, unsched, cann, collected, target, accepted, 
                      intakeDone, controlDone, stack, ct, who, qi, it, tw, wi, 
                      wt, toadv, qc, cu, cx, tx >>

T1 == /\ pc["timeout"] = "T1"
      /\ IF due # {}
            THEN /\ tx' = (CHOOSE x \in due : TRUE)
                 /\ due' = due \ {tx'}
                 /\ /\ ct' = [ct EXCEPT !["timeout"] = tx']
                    /\ stack' = [stack EXCEPT !["timeout"] = << [ procedure |->  "cancel_task",
                                                                  pc        |->  "T1",
                                                                  ct        |->  ct["timeout"],
                                                                  who       |->  who["timeout"] ] >>
                                                              \o stack["timeout"]]
                    /\ who' = [who EXCEPT !["timeout"] = "timeout"]
                 /\ pc' = [pc EXCEPT !["timeout"] = "K1"]
            ELSE /\ pc' = [pc EXCEPT !["timeout"] = "T0"]
                 /\ UNCHANGED << stack, ct, who, due, tx >>
      /\ UNCHANGED << intasks, hasproc, pst, code, killed, lock, wq, clist, 
                      toreg, ann, handon, unsched, cann, collected, target, 
                      accepted, intakeDone, controlDone, qi, it, tw, wi, wt, 
                      toadv, qc, cu, cx >>

timeout == T0 \/ T1

P0(self) == /\ pc[self] = "P0"
            /\ pst[self] = "running"
            /\ pst' = [pst EXCEPT ![self] = "exited"]
            /\ code' = [code EXCEPT ![self] = IF killed[self] THEN -15 ELSE ExitCode[self]]
            /\ pc' = [pc EXCEPT ![self] = "Done"]
            /\ UNCHANGED << intasks, hasproc, killed, lock, wq, clist, toreg, 
                            ann, handon, unsched, cann, collected, target, 
                            accepted, intakeDone, controlDone, stack, ct, who, 
                            qi, it, tw, wi, wt, toadv, qc, cu, cx, due, tx >>

proc(self) == P0(self)

(* Allow infinite stuttering to prevent deadlock on termination. *)
Terminating == /\ \A self \in ProcSet: pc[self] = "Done"
               /\ UNCHANGED vars

Next == intake \/ watcher \/ control \/ timeout
           \/ (\E self \in ProcSet: cancel_task(self))
           \/ (\E self \in T: proc(self))
           \/ Terminating

Spec == /\ Init /\ [][Next]_vars
        /\ WF_vars(intake) /\ WF_vars(cancel_task("intake"))
        /\ WF_vars(watcher)
        /\ WF_vars(control) /\ WF_vars(cancel_task("control"))
        /\ WF_vars(timeout) /\ WF_vars(cancel_task("timeout"))
        /\ \A self \in T : WF_vars(proc(self))

Termination == <>(\A self \in ProcSet: pc[self] = "Done")

\* END TRANSLATION

\* the process of a task that was never spawned (launch error, canceled on intake) never runs:
\* termination of the executor means all threads are done and every process that was born has ended
TerminationX == <>(\A self \in ProcSet : pc[self] = "Done" \/ (self \in T /\ pst[self] = "unborn"))

(* ------------------------------------------------------------------------ *)
(* properties (C07, executor part of C03 / C08)                             *)
(* ------------------------------------------------------------------------ *)
StartOnce   == \A t \in T : ann[t] <= 1
HandOnOnce  == \A t \in T : handon[t] <= 1
ReleaseOnce == \A t \in T : unsched[t] <= 1
NotBoth     == \A t \in T : Cardinality(collected[t]) <= 1
AnnounceOnce == \A t \in T : cann[t] <= 1
\* (the process of a task which was never spawned never runs: it counts as done)
AllDone == \A p \in ProcSet : pc[p] = "Done" \/ (p \in T /\ pst[p] = "unborn")
\* never left behind: when every thread is done every accepted task was handed
\* on once and its resources were released once
NeverLeftBehind == AllDone => \A t \in T : handon[t] = 1 /\ unsched[t] = 1
\* a task ends CANCELED only if a cancel named it or its run-time limit exists
CanceledOnlyIfAsked ==
  \A t \in T : target[t] = "CANCELED"
      => (HasTimeout[t] \/ \E i \in 1 .. Len(CancelMsgs) : t \in CancelMsgs[i])
\* outcome tells the truth
OutcomeTrue == \A t \in T : (target[t] = "DONE" => (pst[t] = "exited" /\ code[t] = 0))
                         /\ (handon[t] = 1 /\ target[t] = "FAILED" /\ Fault[t] = "none" => code[t] # 0)
\* the lock is never held at rest
LockFree == AllDone => lock = "free"
\* every behaviour terminates (no thread waits forever): the translation's Termination
=============================================================================
