------------------------------ MODULE PilotKill ------------------------------
(***************************************************************************)
(* Design model of kill requests for pilots:                               *)
(*   pilot_manager.py : kill_pilots, cancel_pilots, close                  *)
(*   pmgr/launching/base.py : control_cb ('kill_pilots'), _kill_pilots,    *)
(*                            work (pilots canceled before they arrive),   *)
(*                            _state_cb                                    *)
(*   pmgr/launching/saga.py, psi_j.py : kill_pilots, job state callbacks   *)
(*                                                                         *)
(* A pilot manager holds 1..3 pilots; an application names a set of uids   *)
(* in a request (kill / cancel through the manager, a raw control message, *)
(* a message of a foreign manager, close()); the control message travels   *)
(* (ctl) and is delivered to the launcher later - pilots are launched,     *)
(* become active and their batch jobs end meanwhile.                       *)
(*                                                                         *)
(* Code bookkeeping: lv (launcher: _pilots[pid]['state']), pre (launcher:  *)
(* _cancelled), cs (client: Pilot.state), ctl.  Ghosts: named (pilots some *)
(* request of this manager named, explicitly or by "all"), ext (pilots     *)
(* whose batch job the environment ended as CANCELED), jobc / annc (batch  *)
(* job cancel requested / CANCELED announced by the launcher), due (the    *)
(* pilots a delivered kill means and found not final).                     *)
(*                                                                         *)
(* Launching is not one step.  work() takes a bulk (WorkBegin: pilots a    *)
(* kill named before are dropped), prepares and stages (phase "staging",   *)
(* no lock), then takes the component lock, submits the jobs (phase        *)
(* "submit") and registers the pilots (LaunchEnd).  control_cb ->          *)
(* _kill_pilots takes the same lock: a kill cannot be delivered in phase   *)
(* "submit", it waits for LaunchEnd and finds the pilots registered.  A    *)
(* kill delivered while the bulk is staged finds the pilots unknown and    *)
(* remembers them: they are looked at again once the bulk is registered    *)
(* (LaunchEnd: _kill_pilots(late)).  The batch layer reports job states    *)
(* from inside the submission on (JobEnds for a pilot of the bulk in phase *)
(* "submit"): the launchers know the job by then, every report reaches the *)
(* pilot it is for (ghosts: rep = pilots whose job reported a final state  *)
(* while the manager listened, wrong = a report changed another pilot).    *)
(*                                                                         *)
(* Deviations (FALSE = intended):                                          *)
(*   DevFinalFilterFirst : pilots final in the launcher's books are taken  *)
(*        off the list BEFORE the "empty list means all" default: a kill   *)
(*        naming only final pilots becomes a kill of all pilots            *)
(*   DevNoPmgrCheck      : kill messages of other managers are enacted     *)
(*   DevStopAtUnknown    : an unknown uid ends the handling of the request *)
(*   DevNoRecheckAtLaunch : the pilots remembered while the bulk was       *)
(*        staged are not looked at again: they are launched, the kill is   *)
(*        lost                                                             *)
(*   DevLaunchOutsideLock : the jobs are submitted without the lock: a     *)
(*        kill is delivered during the submission, finds the pilot         *)
(*        unknown and remembers it.  NOT a deviation which breaks C14 as   *)
(*        long as the remembered pilots are killed at LaunchEnd (the kill  *)
(*        is enacted a moment later; C14 states no immediacy) - it does    *)
(*        together with DevNoRecheckAtLaunch                               *)
(*   DevRegisterAfterSubmit : the PSI/J launcher learns the job id only    *)
(*        after submit() returned: a state reported from inside submit()   *)
(*        is dropped                                                       *)
(*   DevReportForMate : a SAGA job state is reported for some pilot of the *)
(*        same bulk (late binding callback)                                *)
(*   DevTerminateAlways : close(terminate=False) still broadcasts the      *)
(*        forwarded `terminate` command: every agent stops (cause cancel)  *)
(***************************************************************************)
EXTENDS PilotKillOps, TLC

CONSTANTS Pilots,         \* the pilots of the manager
          Ghost,          \* a uid no manager and no launcher knows
          MaxReq,         \* bound on requests
          MaxCtl,         \* bound on control messages in flight
          DevFinalFilterFirst, DevNoPmgrCheck, DevStopAtUnknown,
          DevNoRecheckAtLaunch, DevLaunchOutsideLock, DevRegisterAfterSubmit, DevReportForMate,
          DevTerminateAlways

VARIABLES kind, lv, cs, pre, ctl, closed, nreq, last,
          wk,             \* the bulk work() is busy with
          wph,            \* "idle" | "staging" | "submit" (lock held)
          mates,          \* per pilot: the bulk it was submitted in
          jdone,          \* pilots whose batch job reported a final state
          named, ext, jobc, annc, due, rep, wrong,
          told            \* ghost: pilots a message forwarded to the agents told to end

vars == <<kind, lv, cs, pre, ctl, closed, nreq, last, wk, wph, mates, jdone,
          named, ext, jobc, annc, due, rep, wrong, told>>
wvars == <<wk, wph, mates>>

Uids == Pilots \cup {Ghost}
Perms == Permutations(Pilots)       \* the pilots are interchangeable (cfg: SYMMETRY Perms)
Msg(c, o, U) == [cmd |-> c, own |-> o, U |-> U]

Init ==
  /\ kind \in [Pilots -> {"saga", "psij"}]
  /\ lv = [p \in Pilots |-> "none"] /\ cs = [p \in Pilots |-> "PEND"]
  /\ pre = {} /\ ctl = <<>> /\ closed = FALSE /\ nreq = 0 /\ last = "init"
  /\ named = {} /\ ext = {} /\ due = {} /\ rep = {} /\ wrong = FALSE /\ told = {}
  /\ wk = {} /\ wph = "idle" /\ mates = [p \in Pilots |-> {}] /\ jdone = {}
  /\ jobc = [p \in Pilots |-> FALSE] /\ annc = [p \in Pilots |-> FALSE]

LView(u)   == IF u \in Pilots THEN lv[u] ELSE "none"
LaunchedP  == {p \in Pilots : Launched(lv[p])}
\* the client takes a state notification (not after close: the manager stopped listening)
Seen(p, s) == IF closed THEN cs[p] ELSE CNext(cs[p], s)

(* ---- environment ----------------------------------------------------------- *)
\* the launcher's work() gets a bulk of pilots: those a kill named already are dropped
\* (CANCELED), the others are prepared and staged
WorkBegin(S) ==
  /\ wph = "idle" /\ S # {} /\ \A p \in S : lv[p] = "none"
  /\ LET drop == S \cap pre IN
     /\ lv'   = [p \in Pilots |-> IF p \in drop THEN "dropped" ELSE lv[p]]
     /\ annc' = [p \in Pilots |-> annc[p] \/ p \in drop]
     /\ cs'   = [p \in Pilots |-> IF p \in drop THEN Seen(p, "CANCELED")
                                  ELSE IF p \in S THEN Seen(p, "LAUNCH") ELSE cs[p]]
     /\ wk'   = S \ drop
     /\ wph'  = IF S \ drop = {} THEN "idle" ELSE "staging"
  /\ last' = "work_begin"
  /\ UNCHANGED <<kind, pre, ctl, closed, nreq, mates, jdone, named, ext, jobc, due, rep, wrong, told>>

\* staging is done, the lock is taken, the jobs are being submitted
LaunchBegin ==
  /\ wph = "staging" /\ wph' = "submit" /\ last' = "launch_begin"
  /\ UNCHANGED <<kind, lv, cs, pre, ctl, closed, nreq, wk, mates, jdone, named, ext, jobc, annc, due, rep, wrong, told>>

\* the jobs are submitted, the pilots registered; those a kill had the launcher remember
\* meanwhile (while the bulk was prepared and staged - or, without the lock, submitted) are
\* killed now: _kill_pilots(late).  Then the lock is released.
LaunchEnd ==
  /\ wph = "submit"
  /\ LET late == IF DevNoRecheckAtLaunch THEN {} ELSE wk \cap pre
         sag  == {p \in late : kind[p] = "saga"} IN
     /\ lv'   = [p \in Pilots |-> IF p \in sag THEN "CANCELED" ELSE IF p \in wk THEN "live" ELSE lv[p]]
     /\ jobc' = [p \in Pilots |-> jobc[p] \/ p \in late]
     /\ annc' = [p \in Pilots |-> annc[p] \/ p \in sag]
     /\ cs'   = [p \in Pilots |-> IF p \in sag THEN Seen(p, "CANCELED") ELSE cs[p]]
  /\ mates' = [p \in Pilots |-> IF p \in wk THEN wk ELSE mates[p]]
  /\ wk' = {} /\ wph' = "idle" /\ last' = "launch_end"
  /\ UNCHANGED <<kind, pre, ctl, closed, nreq, jdone, named, ext, due, rep, wrong, told>>

\* the agent reports in
Active(p) ==
  /\ lv[p] = "live" /\ cs[p] = "LAUNCH" /\ ~closed /\ p \notin jdone
  /\ cs' = [cs EXCEPT ![p] = "ACTIVE"] /\ last' = "active"
  /\ UNCHANGED <<kind, lv, pre, ctl, closed, nreq, wvars, jdone, named, ext, jobc, annc, due, rep, wrong, told>>

\* the batch layer reports the end of a job - at any time from inside the submission on.
\* CANCELED without a cancel request of the launcher is the environment's doing.
\* q is the pilot the launcher reports the state for (intended: p itself)
JobEnds(p, s, q) ==
  /\ s \in Final /\ p \notin jdone
  /\ lv[p] = "live" \/ (wph = "submit" /\ p \in wk)
  /\ q = p \/ (DevReportForMate /\ kind[p] = "saga" /\ lv[p] = "live" /\ q \in mates[p] /\ lv[q] = "live")
  /\ LET lost == DevRegisterAfterSubmit /\ kind[p] = "psij" /\ lv[p] # "live" IN
     /\ jdone' = jdone \cup {p}
     /\ rep'   = IF closed THEN rep ELSE rep \cup {p}
     /\ ext'   = IF s = "CANCELED" /\ ~jobc[p] THEN ext \cup {p} ELSE ext
     /\ wrong' = (wrong \/ q # p)
     /\ lv'    = IF lost \/ lv[q] # "live" THEN lv ELSE [lv EXCEPT ![q] = s]
     /\ cs'    = IF lost THEN cs ELSE [cs EXCEPT ![q] = Seen(q, s)]
     /\ annc'  = IF lost THEN annc ELSE [annc EXCEPT ![q] = annc[q] \/ s = "CANCELED"]
  /\ last' = "job_ends"
  /\ UNCHANGED <<kind, pre, ctl, closed, nreq, wvars, named, jobc, due, told>>

(* ---- requests ---------------------------------------------------------------- *)
CanReq(n) == ~closed /\ nreq < MaxReq /\ Len(ctl) + n <= MaxCtl

\* PilotManager.kill_pilots(uids): no uids = all pilots of the manager; an unknown uid
\* is refused (ValueError) before anything is sent
ReqKill(U) ==
  /\ CanReq(1) /\ nreq' = nreq + 1 /\ last' = "req_kill"
  /\ LET V == IF U = {} THEN Pilots ELSE U IN
     /\ named' = named \cup (V \cap Pilots)
     /\ ctl'   = IF Ghost \in V THEN ctl ELSE Append(ctl, Msg("kill", TRUE, V))
  /\ UNCHANGED <<kind, lv, cs, pre, closed, ext, jobc, annc, due, wvars, jdone, rep, wrong, told>>

\* PilotManager.cancel_pilots(uids): a message for the agents; the launcher has no part
ReqCancel(U) ==
  /\ CanReq(1) /\ nreq' = nreq + 1 /\ last' = "req_cancel"
  /\ LET V == IF U = {} THEN Pilots ELSE U IN
     /\ named' = named \cup (V \cap Pilots)
     /\ told'  = told \cup (V \cap Pilots)            \* forwarded to the agents
     /\ ctl'   = Append(ctl, Msg("cancel", TRUE, V))
  /\ UNCHANGED <<kind, lv, cs, pre, closed, ext, jobc, annc, due, wvars, jdone, rep, wrong>>

\* a kill_pilots control message as such: any uids, also none ("all you launched")
ReqRaw(U, own) ==
  /\ CanReq(1) /\ nreq' = nreq + 1 /\ last' = "req_raw"
  /\ named' = IF own THEN named \cup (IF U = {} THEN Pilots ELSE U \cap Pilots) ELSE named
  /\ ctl'   = Append(ctl, Msg("kill", own, U))
  /\ UNCHANGED <<kind, lv, cs, pre, closed, ext, jobc, annc, due, wvars, jdone, rep, wrong, told>>

\* Session.close() / PilotManager.close() with terminate (the default): the session tells all
\* components - through the proxy also the agents - to terminate, the manager cancels all
\* pilots (message for the agents), kills all (message for the launcher), stops listening
Close ==
  /\ CanReq(2) /\ nreq' = nreq + 1 /\ last' = "close"
  /\ named' = Pilots /\ closed' = TRUE /\ told' = Pilots
  /\ ctl' = ctl \o <<Msg("cancel", TRUE, Pilots), Msg("kill", TRUE, Pilots)>>
  /\ UNCHANGED <<kind, lv, cs, pre, ext, jobc, annc, due, wvars, jdone, rep, wrong>>

\* close(terminate=False): the managers stop listening, the pilots are left alone - nothing is
\* sent which an agent or the launcher would take for a request to end a pilot
CloseKeep ==
  /\ CanReq(0) /\ nreq' = nreq + 1 /\ last' = "close_keep"
  /\ closed' = TRUE
  /\ told' = IF DevTerminateAlways THEN Pilots ELSE told
  /\ UNCHANGED <<kind, lv, cs, pre, ctl, named, ext, jobc, annc, due, wvars, jdone, rep, wrong>>

(* ---- the launcher gets a control message --------------------------------------- *)
\* (not while work() holds the lock for the submission: the control thread waits)
Deliver ==
  /\ ctl # <<>> /\ (wph # "submit" \/ DevLaunchOutsideLock)
  /\ LET m    == Head(ctl)
         on   == m.cmd = "kill" /\ (m.own \/ DevNoPmgrCheck)
         U0   == IF DevFinalFilterFirst THEN {u \in m.U : LView(u) \notin Final} ELSE m.U
         pids == IF ~on THEN {} ELSE IF U0 = {} THEN LaunchedP ELSE U0     \* the code's list
         unk  == {u \in pids : ~Launched(LView(u))}
         kn   == IF DevStopAtUnknown /\ unk # {} THEN {} ELSE pids \ unk
         \* what the request means
         mean == IF m.cmd = "kill" /\ m.own THEN Meant(m.U, LaunchedP) \cap Pilots ELSE {}
     IN
     /\ ctl'  = Tail(ctl)
     /\ pre'  = pre \cup unk
     /\ jobc' = [p \in Pilots |-> jobc[p] \/ (p \in kn /\ (lv[p] = "live" \/ kind[p] = "psij"))]
     \* SAGA: the launcher announces CANCELED itself; PSI/J: the job status callback will
     /\ lv'   = [p \in Pilots |-> IF p \in kn /\ kind[p] = "saga" THEN "CANCELED" ELSE lv[p]]
     /\ annc' = [p \in Pilots |-> annc[p] \/ (p \in kn /\ kind[p] = "saga" /\ lv[p] # "CANCELED")]
     /\ cs'   = [p \in Pilots |-> IF p \in kn /\ kind[p] = "saga" THEN Seen(p, "CANCELED") ELSE cs[p]]
     \* the delivered kill means them and they are not final: they are due to be canceled
     /\ due' = due \cup {p \in mean : OwesJobCancel(lv[p]) \/ OwesRemember(lv[p])}
  /\ last' = "deliver"
  /\ UNCHANGED <<kind, closed, nreq, named, ext, wvars, jdone, rep, wrong, told>>

Next == \/ \E S \in SUBSET Pilots : WorkBegin(S)
        \/ LaunchBegin \/ LaunchEnd
        \/ \E p \in Pilots : Active(p) \/ \E s \in Final, q \in Pilots : JobEnds(p, s, q)
        \/ \E U \in SUBSET Uids : ReqKill(U) \/ ReqCancel(U) \/ ReqRaw(U, TRUE) \/ ReqRaw(U, FALSE)
        \/ Close \/ CloseKeep \/ Deliver
Spec == Init /\ [][Next]_vars

(* ---- properties ------------------------------------------------------------------ *)
TypeOK == /\ \A p \in Pilots : lv[p] \in LViews /\ cs[p] \in CViews
          /\ pre \subseteq Uids /\ named \subseteq Pilots /\ ext \subseteq Pilots /\ due \subseteq Pilots
          /\ wk \subseteq Pilots /\ wph \in {"idle", "staging", "submit"} /\ jdone \subseteq Pilots

\* C14.KilledNotNamed: a pilot nobody named is never canceled - its batch job is not
\* canceled, it is not remembered for cancellation, the launcher announces CANCELED for it
\* only if the batch system said so, the application sees CANCELED only then
InvKilledNotNamed ==
  \A p \in Pilots : /\ jobc[p] => p \in named
                    /\ p \in pre => p \in named
                    /\ p \in told => p \in named
                    /\ annc[p] => p \in named \cup ext
                    /\ cs[p] = "CANCELED" => p \in named \cup ext
\* C14.NamedNotKilled, an EVENTUAL obligation judged where nothing is in flight (no bulk being
\* launched, no control message on its way): every pilot a delivered kill means and found not
\* final had its job canceled (or the job ended by itself, or the launcher holds it final), or
\* was dropped on arrival, or has not arrived and is remembered
Quiet == wph = "idle" /\ ctl = <<>>
InvNamedKilled ==
  Quiet => \A p \in due : \/ jobc[p] \/ p \in jdone \/ lv[p] \in Final \/ lv[p] = "dropped"
                          \/ lv[p] = "none" /\ p \in pre
\* C15.PilotFinalNotReported: a final job state the batch layer reported - also from inside
\* the submission - made the pilot final at the client (Pilot.wait / wait_pilots return)
InvFinalReported == \A p \in rep : cs[p] \in Final
\* C14.StateForWrongPilot: a job state is published for the pilot the job belongs to
InvRightPilot == ~wrong
\* a final state at the client is kept
ActFinalKept == [][\A p \in Pilots : cs[p] \in Final => cs'[p] = cs[p]]_vars
=============================================================================
