------------------------------ MODULE PilotKill ------------------------------
(***************************************************************************)
(* Design model of kill requests for pilots:                               *)
(*   pilot_manager.py : kill_pilots, cancel_pilots, close                  *)
(*   pmgr/launching/base.py : control_cb ('kill_pilots'), _kill_pilots,    *)
(*                            work (pilots canceled before they arrive),   *)
(*                            _state_cb                                    *)
(*   pmgr/launching/saga.py, psi_j.py : kill_pilots, job state callbacks   *)
(*                                                                         *)
(* A pilot manager holds 1..3 pilots; an application names a set of uids   *)
(* in a request (kill / cancel through the manager, a raw control message, *)
(* a message of a foreign manager, close()); the control message travels   *)
(* (ctl) and is delivered to the launcher later - pilots are launched,     *)
(* become active and their batch jobs end meanwhile.                       *)
(*                                                                         *)
(* Code bookkeeping: lv (launcher: _pilots[pid]['state']), pre (launcher:  *)
(* _cancelled), cs (client: Pilot.state), ctl.  Ghosts: named (pilots some *)
(* request of this manager named, explicitly or by "all"), ext (pilots     *)
(* whose batch job the environment ended as CANCELED), jobc / annc (batch  *)
(* job cancel requested / CANCELED announced by the launcher), owed (a     *)
(* delivered kill did not do what it owes to a pilot it means).            *)
(*                                                                         *)
(* Deviations (FALSE = intended):                                          *)
(*   DevFinalFilterFirst : pilots final in the launcher's books are taken  *)
(*        off the list BEFORE the "empty list means all" default: a kill   *)
(*        naming only final pilots becomes a kill of all pilots            *)
(*   DevNoPmgrCheck      : kill messages of other managers are enacted     *)
(*   DevStopAtUnknown    : an unknown uid ends the handling of the request *)
(*   DevLaunchPrecancelled : work() launches pilots a kill named before    *)
(*        they arrived                                                     *)
(***************************************************************************)
EXTENDS PilotKillOps, TLC

CONSTANTS Pilots,         \* the pilots of the manager
          Ghost,          \* a uid no manager and no launcher knows
          MaxReq,         \* bound on requests
          MaxCtl,         \* bound on control messages in flight
          DevFinalFilterFirst, DevNoPmgrCheck, DevStopAtUnknown, DevLaunchPrecancelled

VARIABLES kind, lv, cs, pre, ctl, closed, nreq, last,
          named, ext, jobc, annc, owed

vars == <<kind, lv, cs, pre, ctl, closed, nreq, last, named, ext, jobc, annc, owed>>

Uids == Pilots \cup {Ghost}
Perms == Permutations(Pilots)       \* the pilots are interchangeable (cfg: SYMMETRY Perms)
Msg(c, o, U) == [cmd |-> c, own |-> o, U |-> U]

Init ==
  /\ kind \in [Pilots -> {"saga", "psij"}]
  /\ lv = [p \in Pilots |-> "none"] /\ cs = [p \in Pilots |-> "PEND"]
  /\ pre = {} /\ ctl = <<>> /\ closed = FALSE /\ nreq = 0 /\ last = "init"
  /\ named = {} /\ ext = {} /\ owed = {}
  /\ jobc = [p \in Pilots |-> FALSE] /\ annc = [p \in Pilots |-> FALSE]

LView(u)   == IF u \in Pilots THEN lv[u] ELSE "none"
LaunchedP  == {p \in Pilots : Launched(lv[p])}
\* the client takes a state notification (not after close: the manager stopped listening)
Seen(p, s) == IF closed THEN cs[p] ELSE CNext(cs[p], s)

(* ---- environment ----------------------------------------------------------- *)
\* the launcher's work() gets a bulk of pilots
Work(S) ==
  /\ S # {} /\ \A p \in S : lv[p] = "none"
  /\ LET drop == IF DevLaunchPrecancelled THEN {} ELSE S \cap pre IN
     /\ lv'   = [p \in Pilots |-> IF p \in drop THEN "dropped" ELSE IF p \in S THEN "live" ELSE lv[p]]
     /\ annc' = [p \in Pilots |-> annc[p] \/ p \in drop]
     /\ cs'   = [p \in Pilots |-> IF p \in drop THEN Seen(p, "CANCELED")
                                  ELSE IF p \in S THEN Seen(p, "LAUNCH") ELSE cs[p]]
     /\ owed' = owed \cup ((S \cap pre) \ drop)
  /\ last' = "work"
  /\ UNCHANGED <<kind, pre, ctl, closed, nreq, named, ext, jobc>>

\* the agent reports in
Active(p) ==
  /\ lv[p] = "live" /\ cs[p] = "LAUNCH" /\ ~closed
  /\ cs' = [cs EXCEPT ![p] = "ACTIVE"] /\ last' = "active"
  /\ UNCHANGED <<kind, lv, pre, ctl, closed, nreq, named, ext, jobc, annc, owed>>

\* the batch system reports the end of a job; CANCELED without a cancel request of
\* the launcher is the environment's doing (administrator, wall time policy)
JobEnds(p, s) ==
  /\ lv[p] = "live" /\ s \in Final
  /\ ext' = IF s = "CANCELED" /\ ~jobc[p] THEN ext \cup {p} ELSE ext
  /\ lv' = [lv EXCEPT ![p] = s] /\ cs' = [cs EXCEPT ![p] = Seen(p, s)]
  /\ annc' = [annc EXCEPT ![p] = annc[p] \/ s = "CANCELED"]
  /\ last' = "job_ends"
  /\ UNCHANGED <<kind, pre, ctl, closed, nreq, named, jobc, owed>>

(* ---- requests ---------------------------------------------------------------- *)
CanReq(n) == ~closed /\ nreq < MaxReq /\ Len(ctl) + n <= MaxCtl

\* PilotManager.kill_pilots(uids): no uids = all pilots of the manager; an unknown uid
\* is refused (ValueError) before anything is sent
ReqKill(U) ==
  /\ CanReq(1) /\ nreq' = nreq + 1 /\ last' = "req_kill"
  /\ LET V == IF U = {} THEN Pilots ELSE U IN
     /\ named' = named \cup (V \cap Pilots)
     /\ ctl'   = IF Ghost \in V THEN ctl ELSE Append(ctl, Msg("kill", TRUE, V))
  /\ UNCHANGED <<kind, lv, cs, pre, closed, ext, jobc, annc, owed>>

\* PilotManager.cancel_pilots(uids): a message for the agents; the launcher has no part
ReqCancel(U) ==
  /\ CanReq(1) /\ nreq' = nreq + 1 /\ last' = "req_cancel"
  /\ LET V == IF U = {} THEN Pilots ELSE U IN
     /\ named' = named \cup (V \cap Pilots)
     /\ ctl'   = Append(ctl, Msg("cancel", TRUE, V))
  /\ UNCHANGED <<kind, lv, cs, pre, closed, ext, jobc, annc, owed>>

\* a kill_pilots control message as such: any uids, also none ("all you launched")
ReqRaw(U, own) ==
  /\ CanReq(1) /\ nreq' = nreq + 1 /\ last' = "req_raw"
  /\ named' = IF own THEN named \cup (IF U = {} THEN Pilots ELSE U \cap Pilots) ELSE named
  /\ ctl'   = Append(ctl, Msg("kill", own, U))
  /\ UNCHANGED <<kind, lv, cs, pre, closed, ext, jobc, annc, owed>>

\* PilotManager.close(): cancel all, kill all, stop listening
Close ==
  /\ CanReq(2) /\ nreq' = nreq + 1 /\ last' = "close"
  /\ named' = Pilots /\ closed' = TRUE
  /\ ctl' = ctl \o <<Msg("cancel", TRUE, Pilots), Msg("kill", TRUE, Pilots)>>
  /\ UNCHANGED <<kind, lv, cs, pre, ext, jobc, annc, owed>>

(* ---- the launcher gets a control message --------------------------------------- *)
Deliver ==
  /\ ctl # <<>>
  /\ LET m    == Head(ctl)
         on   == m.cmd = "kill" /\ (m.own \/ DevNoPmgrCheck)
         U0   == IF DevFinalFilterFirst THEN {u \in m.U : LView(u) \notin Final} ELSE m.U
         pids == IF ~on THEN {} ELSE IF U0 = {} THEN LaunchedP ELSE U0     \* the code's list
         unk  == {u \in pids : ~Launched(LView(u))}
         kn   == IF DevStopAtUnknown /\ unk # {} THEN {} ELSE pids \ unk
         \* what the request means
         mean == IF m.cmd = "kill" /\ m.own THEN Meant(m.U, LaunchedP) \cap Pilots ELSE {}
     IN
     /\ ctl'  = Tail(ctl)
     /\ pre'  = pre \cup unk
     /\ jobc' = [p \in Pilots |-> jobc[p] \/ (p \in kn /\ (lv[p] = "live" \/ kind[p] = "psij"))]
     \* SAGA: the launcher announces CANCELED itself; PSI/J: the job status callback will
     /\ lv'   = [p \in Pilots |-> IF p \in kn /\ kind[p] = "saga" THEN "CANCELED" ELSE lv[p]]
     /\ annc' = [p \in Pilots |-> annc[p] \/ (p \in kn /\ kind[p] = "saga" /\ lv[p] # "CANCELED")]
     /\ cs'   = [p \in Pilots |-> IF p \in kn /\ kind[p] = "saga" THEN Seen(p, "CANCELED") ELSE cs[p]]
     /\ owed' = owed \cup {p \in mean : \/ OwesJobCancel(lv[p]) /\ ~jobc'[p]
                                        \/ OwesRemember(lv[p])  /\ p \notin pre'}
  /\ last' = "deliver"
  /\ UNCHANGED <<kind, closed, nreq, named, ext>>

Next == \/ \E S \in SUBSET Pilots : Work(S)
        \/ \E p \in Pilots : Active(p) \/ \E s \in Final : JobEnds(p, s)
        \/ \E U \in SUBSET Uids : ReqKill(U) \/ ReqCancel(U) \/ ReqRaw(U, TRUE) \/ ReqRaw(U, FALSE)
        \/ Close \/ Deliver
Spec == Init /\ [][Next]_vars

(* ---- properties ------------------------------------------------------------------ *)
TypeOK == /\ \A p \in Pilots : lv[p] \in LViews /\ cs[p] \in CViews
          /\ pre \subseteq Uids /\ named \subseteq Pilots /\ ext \subseteq Pilots /\ owed \subseteq Pilots

\* C14.KilledNotNamed: a pilot nobody named is never canceled - its batch job is not
\* canceled, it is not remembered for cancellation, the launcher announces CANCELED for it
\* only if the batch system said so, the application sees CANCELED only then
InvKilledNotNamed ==
  \A p \in Pilots : /\ jobc[p] => p \in named
                    /\ p \in pre => p \in named
                    /\ annc[p] => p \in named \cup ext
                    /\ cs[p] = "CANCELED" => p \in named \cup ext
\* C14.NamedNotKilled: a delivered kill cancels the job of every launched, non-final pilot it
\* means and remembers the ones which did not arrive yet; those are not launched later
InvNamedKilled == owed = {}
\* a final state at the client is kept
ActFinalKept == [][\A p \in Pilots : cs[p] \in Final => cs'[p] = cs[p]]_vars
=============================================================================
