---------------------------- MODULE PilotKillOps ----------------------------
(***************************************************************************)
(* Pure operators shared by the design model PilotKill and the trace       *)
(* monitor PilotKillTrace: what a kill request naming a set of pilot uids  *)
(* means to the pilot launcher (C14: CANCELED only when canceled by        *)
(* request - a pilot nobody named is never canceled).                      *)
(***************************************************************************)
EXTENDS Naturals, Sequences, FiniteSets

Final == {"DONE", "FAILED", "CANCELED"}

\* the launcher's view of a uid
\*   "none"    not (yet) handed to the launcher, or a uid nobody knows
\*   "dropped" arrived after a kill had named it: CANCELED on arrival, never launched
\*   "live"    batch job submitted, not final in the launcher's books
\*   Final     final in the launcher's books (the batch job said so, or a kill)
LViews  == {"none", "dropped", "live"} \cup Final
Launched(l) == l \in {"live"} \cup Final

\* the client's view of a pilot (abstract): non-final stages in order, then final
CViews  == {"PEND", "LAUNCH", "ACTIVE"} \cup Final
CRank(c) == CASE c = "PEND" -> 0 [] c = "LAUNCH" -> 1 [] c = "ACTIVE" -> 2 [] OTHER -> 3
\* forward only, final kept (C14 first half; ClientState is the authority)
CNext(c, s) == IF c \in Final \/ CRank(s) < CRank(c) THEN c ELSE s

\* the uids a delivered kill request means: the listed ones - whatever their states,
\* known or not; only an explicitly empty list means every pilot the launcher launched
Meant(U, launched) == IF U = {} THEN launched ELSE U

\* what a kill which means p owes, by the launcher's view of p at delivery
OwesJobCancel(l) == l = "live"
OwesRemember(l)  == l = "none"
=============================================================================
