--------------------------- MODULE PilotKillTrace ---------------------------
(***************************************************************************)
(* Trace monitor for kill requests: consumes the events pilotkill_rig.py   *)
(* records from the REAL PilotManager (kill_pilots / cancel_pilots /       *)
(* close), the REAL PMGRLaunchingComponent (control_cb, _kill_pilots,      *)
(* work, _state_cb) and the REAL SAGA / PSI-J launchers on a recording     *)
(* batch system, and judges them with the operators of PilotKillOps the    *)
(* design model PilotKill uses.                                            *)
(*                                                                         *)
(* trace : pilots = <<[pid, kind]>>, ghost, events                         *)
(* every event: msgs (control messages published: cmd, own, uids), pubs    *)
(*   (<<pid, state>> published by the launcher), cbs (<<pid, state>> seen  *)
(*   by the application), jobc (pids whose batch job got a cancel), post   *)
(*   (per pilot, in the order of pilots: lv, cs, pre), prex, raised        *)
(*   during (where work() was: none | staging | tarball | submit | unlock) *)
(*   lvpre (launcher views before the event, in the order of pilots)       *)
(*   cspre (client views before the event; logged by JobEnds)              *)
(* events: WorkBegin(pids) work() sorted out the pilots a kill had named   *)
(*           and starts to stage; Work(pids) work() returned; the events   *)
(*           in between happened while it was busy (other threads)         *)
(*         Active(pid) JobEnds(pid, state, final, asked, listening)        *)
(*         Request(api, uids, own)  api = kill | cancel | raw | close |    *)
(*           pclose | sclose (PilotManager.close / Session.close with      *)
(*           e.terminate); msgs carry fwd: the message is forwarded to the *)
(*           agents - a forwarded `terminate` makes every agent stop (the  *)
(*           base component's _control_cb; Agent_0 records cause cancel),  *)
(*           a forwarded cancel_pilots the agents of the uids it lists     *)
(*         Deliver(msg) End                                                *)
(*                                                                         *)
(* Total: failing clauses go to errs, the monitor re-synchronises on post. *)
(*   C14.KilledNotNamed  something was canceled (batch job, announcement   *)
(*        of the launcher, remembered for cancellation, seen by the        *)
(*        application, listed in a control message) for a pilot no request *)
(*        named / the delivered message does not mean                      *)
(*   C14.NamedNotKilled  an EVENTUAL obligation (C14 states no immediacy): *)
(*        a pilot a delivered kill means and finds not final (owe) has its *)
(*        job canceled and CANCELED announced (SAGA; PSI/J: by the batch   *)
(*        layer's confirmation) - by the end of the delivery if the pilot  *)
(*        is registered with the launcher already, else by the end of the  *)
(*        work() call in which it gets registered (or it is not launched   *)
(*        and announced CANCELED), and in any case by the end of the trace *)
(*        (after the flush); a job which ended by itself owes nothing.     *)
(*        Also: a request did not send what it has to                      *)
(*   C14.FinalLeft       the application's view left a final state         *)
(*   C14.StateForWrongPilot  a job state the batch layer reported for one  *)
(*        pilot was published for another one                              *)
(*   C15.PilotFinalNotReported  a final job state the batch layer reported *)
(*        (also from inside the submission) did not make the pilot final   *)
(*        at the client: Pilot.wait / wait_pilots would not return         *)
(***************************************************************************)
EXTENDS PilotKillOps, TLC, Json, IOUtils

Batch  == JsonDeserialize(IOEnv.TRACE_FILE)
Traces == Batch.traces

VARIABLES tid, l, lv, cs, pre, named, ext, errs, fin,
          wk,     \* the bulk work() is busy with (after WorkBegin)
          jc,     \* pilots whose batch job got a cancel so far
          jd,     \* pilots whose batch job reported a final state
          ann,    \* pilots the launcher announced CANCELED for
          owe     \* pilots a delivered kill means and found not final

vars == <<tid, l, lv, cs, pre, named, ext, errs, fin, wk, jc, jd, ann, owe>>

T    == Traces[tid]
Ev   == T.events
N    == Len(T.pilots)
Pids == {T.pilots[i].pid : i \in 1 .. N}
Kind(p) == LET i == CHOOSE j \in 1 .. N : T.pilots[j].pid = p IN T.pilots[i].kind
SeqSet(s) == {s[i] : i \in 1 .. Len(s)}
E(cond, name) == IF cond THEN {} ELSE {name}

Post(e, p) == LET i == CHOOSE j \in 1 .. N : e.post[j].pid = p IN e.post[i]
Pubs(e)    == SeqSet(e.pubs)
Cbs(e)     == SeqSet(e.cbs)
Idx(p)     == CHOOSE j \in 1 .. N : T.pilots[j].pid = p
\* the launcher's view just before the event (a pilot dropped on arrival stays dropped)
LvPre(e, p) == IF lv[p] = "dropped" THEN "dropped" ELSE e.lvpre[Idx(p)]

Init ==
  /\ tid \in 1 .. Len(Traces)
  /\ l = 1 /\ lv = [p \in Pids |-> "none"] /\ cs = [p \in Pids |-> "PEND"]
  /\ pre = {} /\ named = {} /\ ext = {} /\ errs = {} /\ fin = FALSE /\ wk = {} /\ jc = {}
  /\ jd = {} /\ ann = {} /\ owe = {}

\* who a request names (the manager's "all" is every pilot it holds)
IsClose(e) == e.api \in {"pclose", "sclose"}
Names(e) == LET U == SeqSet(e.uids) IN
            IF ~e.own THEN {}
            ELSE IF IsClose(e) THEN (IF e.terminate THEN Pids ELSE {})
            ELSE IF e.api = "close" \/ U = {} THEN Pids ELSE U \cap Pids
\* the pilots the messages of an event tell to end: their agents (forwarded terminate / cancel)
Told(e) == UNION {IF ~m.fwd THEN {} ELSE IF m.cmd = "terminate" THEN Pids
                  ELSE IF m.cmd = "cancel_pilots" THEN SeqSet(m.uids) \cap Pids ELSE {} : m \in SeqSet(e.msgs)}
\* ... or the launcher (kill message of this manager)
KillNamed(e) == UNION {IF m.cmd = "kill_pilots" /\ m.own THEN (IF m.uids = <<>> THEN Pids ELSE SeqSet(m.uids) \cap Pids)
                       ELSE {} : m \in SeqSet(e.msgs)}
\* the control messages a request has to send: <<cmd, own, uids>>*
Wanted(e) == LET U == SeqSet(e.uids)
                 V == IF U = {} THEN Pids ELSE U IN
             CASE e.api = "kill"   -> IF V \subseteq Pids THEN <<<<"kill_pilots", V>>>> ELSE <<>>
               [] e.api = "cancel" -> <<<<"cancel_pilots", V>>>>
               [] e.api = "close"  -> <<<<"cancel_pilots", Pids>>, <<"kill_pilots", Pids>>>>
               [] OTHER            -> <<<<"kill_pilots", U>>>>

\* clauses every event has to satisfy, given who is named / externally canceled after it
Common(e, nm, ex) ==
       E(\A x \in Pubs(e) : x[2] = "CANCELED" => x[1] \in nm \cup ex, "C14.KilledNotNamed")
  \cup E(Told(e) \subseteq nm, "C14.KilledNotNamed")
  \cup E(\A x \in Cbs(e)  : x[2] = "CANCELED" => x[1] \in nm \cup ex, "C14.KilledNotNamed")
  \cup E(SeqSet(e.jobc) \subseteq nm, "C14.KilledNotNamed")
  \cup E(\A p \in Pids : Post(e, p).pre => p \in nm, "C14.KilledNotNamed")
  \cup E(\A p \in Pids : Post(e, p).cs = "CANCELED" => p \in nm \cup ex, "C14.KilledNotNamed")
  \cup E(\A p \in Pids : cs[p] \in Final => Post(e, p).cs = cs[p], "C14.FinalLeft")

Resync(e) ==
  /\ cs'  = [p \in Pids |-> Post(e, p).cs]
  /\ pre' = {p \in Pids : Post(e, p).pre} \cup SeqSet(e.prex)
  /\ jc'  = jc \cup SeqSet(e.jobc)
  /\ jd'  = IF e.ev = "JobEnds" /\ e.final THEN jd \cup {e.pid} ELSE jd
  /\ ann' = ann \cup {x[1] : x \in {y \in Pubs(e) : y[2] = "CANCELED"}}
  \* a pilot which went through work() and is not registered was dropped (CANCELED on arrival)
  /\ lv'  = [p \in Pids |-> IF lv[p] = "dropped" \/ (e.ev = "Work" /\ p \in SeqSet(e.pids)
                                                      /\ Post(e, p).lv = "none")
                              THEN "dropped" ELSE Post(e, p).lv]

Step ==
  /\ ~fin /\ l <= Len(Ev)
  /\ LET e == Ev[l] IN
     /\ l' = l + 1 /\ fin' = FALSE /\ Resync(e)
     /\ CASE e.ev = "WorkBegin" ->
               /\ wk' = SeqSet(e.pids)
               /\ UNCHANGED <<named, ext, owe>>
               /\ errs' = errs \cup Common(e, named, ext)
          [] e.ev = "Work" ->
               \* work() is through: a pilot of the bulk which a delivered kill means (before it
               \* arrived, while it was staged, while it was submitted) is not alive and forgotten -
               \* it was not launched and announced CANCELED, or its job got the cancel
               /\ wk' = {}
               /\ UNCHANGED <<named, ext, owe>>
               /\ errs' = errs \cup Common(e, named, ext)
                    \cup E(\A p \in SeqSet(e.pids) \cap owe :
                              /\ (Post(e, p).lv = "live" /\ p \notin jd') => p \in jc'
                              /\ Post(e, p).lv = "none" => p \in ann', "C14.NamedNotKilled")
                    \* a pilot no delivered kill means is launched, not dropped on arrival
                    \cup E(\A p \in SeqSet(e.pids) \ owe : Post(e, p).lv = "none" => p \notin ann',
                           "C14.KilledNotNamed")
                    \cup E(\A p \in SeqSet(e.pids) \ owe : Post(e, p).lv = "none" => p \in ann', "X.NotLaunched")
          [] e.ev = "Active" ->
               /\ UNCHANGED <<named, ext, wk, owe>>
               /\ errs' = errs \cup Common(e, named, ext)
          [] e.ev = "JobEnds" ->
               LET ex == IF e.state = "CANCELED" /\ ~e.asked THEN ext \cup {e.pid} ELSE ext IN
               /\ ext' = ex /\ UNCHANGED <<named, wk, owe>>
               /\ errs' = errs \cup Common(e, named, ex)
                    \* the report is for the pilot the job belongs to, nobody else
                    \cup E(\A x \in Pubs(e) \cup Cbs(e) : x[1] = e.pid, "C14.StateForWrongPilot")
                    \cup E(\A p \in Pids \ {e.pid} : Post(e, p).cs = e.cspre[Idx(p)], "C14.StateForWrongPilot")
                    \* a final job state makes the pilot final at the client (which listens)
                    \cup E((e.final /\ e.listening) => Post(e, e.pid).cs \in Final, "C15.PilotFinalNotReported")
          [] e.ev = "Request" ->
               LET nm   == named \cup Names(e)
                   want == Wanted(e)
                   got  == e.msgs IN
               /\ named' = nm /\ UNCHANGED <<ext, wk, owe>>
               /\ errs' = errs \cup Common(e, nm, ext)
                    \* what this request sends tells nobody to end whom it does not name
                    \cup E(Told(e) \cup KillNamed(e) \subseteq Names(e) \/ ~e.own, "C14.KilledNotNamed")
                    \cup (IF IsClose(e)
                          \* close with terminate: every pilot is told to end (agent) or named to the launcher
                          THEN E(e.terminate => Pids \subseteq Told(e) \cup KillNamed(e), "C14.NamedNotKilled")
                          ELSE
                       E(Len(got) <= Len(want), "C14.KilledNotNamed")
                    \cup E(Len(got) >= Len(want), "C14.NamedNotKilled")
                    \cup UNION {   E(got[i].cmd = want[i][1], "C14.NamedNotKilled")
                              \cup E(SeqSet(got[i].uids) \subseteq want[i][2], "C14.KilledNotNamed")
                              \cup E(want[i][2] \subseteq SeqSet(got[i].uids), "C14.NamedNotKilled")
                              \cup E(got[i].own = e.own, "X.Sender")
                              : i \in 1 .. (IF Len(got) < Len(want) THEN Len(got) ELSE Len(want))})
          [] e.ev = "Deliver" ->
               LET m    == e.msg
                   kill == m.cmd = "kill_pilots" /\ m.own
                   U    == SeqSet(m.uids)
                   lvp  == [p \in Pids |-> LvPre(e, p)]
                   mean == IF kill THEN Meant(U, {p \in Pids : Launched(lvp[p])}) ELSE {}
                   nmx  == IF kill THEN named \cup (mean \cap Pids) ELSE named IN
               /\ named' = nmx /\ UNCHANGED <<ext, wk>>
               /\ owe' = owe \cup {p \in mean \cap Pids : OwesJobCancel(lvp[p]) \/ OwesRemember(lvp[p])}
               /\ errs' = errs \cup Common(e, nmx, ext)
                    \* exactly the pilots the message means are affected ...
                    \cup E(SeqSet(e.jobc) \subseteq mean, "C14.KilledNotNamed")
                    \cup E(\A x \in Pubs(e) : x[2] = "CANCELED" => x[1] \in mean, "C14.KilledNotNamed")
                    \cup E(\A p \in Pids : (Post(e, p).pre /\ p \notin pre) => p \in mean, "C14.KilledNotNamed")
                    \cup E(SeqSet(e.prex) \ pre \subseteq mean, "C14.KilledNotNamed")
                    \* ... and each of them gets what it is owed
                    \* ... and those which are registered with the launcher already get what they are
                    \* owed by the end of this delivery (the others: by the end of their work() call)
                    \cup E(\A p \in (mean \cap Pids) \ jd : OwesJobCancel(lvp[p]) => p \in SeqSet(e.jobc),
                           "C14.NamedNotKilled")
                    \cup E(\A p \in (mean \cap Pids) \ jd : (OwesJobCancel(lvp[p]) /\ Kind(p) = "saga")
                                                      => <<p, "CANCELED">> \in Pubs(e), "C14.NamedNotKilled")
          [] e.ev = "End" ->
               /\ UNCHANGED <<named, ext, wk, owe>>
               /\ errs' = errs \cup Common(e, named, ext)
                    \* everything is delivered and confirmed: no pilot a kill means is alive with a job
                    \* nobody canceled; one which has not arrived is remembered; a canceled job was announced
                    \cup E(\A p \in owe : /\ (lv[p] = "live" /\ p \notin jd) => p \in jc
                                          /\ lv[p] = "none" => Post(e, p).pre
                                          /\ p \in jc => (p \in ann \/ p \in jd), "C14.NamedNotKilled")
                    \* nobody named it, the batch system did not cancel it: not canceled
                    \cup E(\A p \in Pids \ (named \cup ext) : lv[p] # "CANCELED" /\ cs[p] # "CANCELED",
                           "C14.KilledNotNamed")
          [] OTHER ->
               /\ errs' = errs \cup {"X.UnknownEvent"} /\ UNCHANGED <<named, ext, wk, owe>>
  /\ UNCHANGED tid

Finish ==
  /\ ~fin /\ l > Len(Ev)
  /\ fin' = TRUE
  /\ PrintT(<<"RESULT", T.tid, errs>>)
  /\ UNCHANGED <<tid, l, lv, cs, pre, named, ext, errs, wk, jc, jd, ann, owe>>

Next == Step \/ Finish
Spec == Init /\ [][Next]_vars
=============================================================================
