--------------------------- MODULE PipelineTrace ---------------------------
(***************************************************************************)
(* Trace monitor for the in-memory radical.pilot pipeline (pipeline_rig).  *)
(* Every event carries the client-side Task states after the step; the     *)
(* monitor tracks, per task, whether a fault was met (its own fault or a   *)
(* raising work() routine on a bulk that contained it), whether it was     *)
(* killed, how the client state developed, and judges at every step and    *)
(* at quiescence ("end"):                                                  *)
(*   C05  one final state, final is never left, truthful outcome, faults   *)
(*        stay local to the task / bulk, components survive                *)
(*   C08  only named tasks are killed / CANCELED, bystanders reach their   *)
(*        natural outcome, everything is freed at quiescence               *)
(*   C03  all cores are free and the wait pool is empty at quiescence      *)
(*   C13  (not here)                                                       *)
(* Total: failing clauses are collected in errs.                           *)
(***************************************************************************)
EXTENDS Naturals, Integers, Sequences, FiniteSets, TLC, Json, IOUtils

Batch  == JsonDeserialize(IOEnv.TRACE_FILE)
Traces == Batch.traces

VARIABLES tid, l, cs, hit, killed, fincnt, relcnt, spawned, errs, fin
vars == <<tid, l, cs, hit, killed, fincnt, relcnt, spawned, errs, fin>>

T      == Traces[tid]
Ev     == T.events
Uids   == {T.uids[i] : i \in 1 .. Len(T.uids)}
Named  == {T.named[i] : i \in 1 .. Len(T.named)}
SeqSet(s) == {s[i] : i \in 1 .. Len(s)}
E(cond, name) == IF cond THEN {} ELSE {name}
Final  == {"DONE", "FAILED", "CANCELED"}

Init ==
  /\ tid \in 1 .. Len(Traces) /\ l = 1
  /\ cs = [t \in Uids |-> "none"]
  /\ hit = {} /\ killed = {}
  /\ fincnt = [t \in Uids |-> 0]
  /\ relcnt = [t \in Uids |-> 0]      \* unschedule messages delivered to the scheduler, per task
  /\ spawned = {}                     \* tasks for which a process was started
  /\ errs = {} /\ fin = FALSE

\* what the task's own description / process makes it end as, if nobody cancels it
\* (a request larger than the pilot can never be scheduled and is failed)
OwnFault(t) == T.spec[t].fault # "none" \/ T.spec[t].cores > T.ncores
Natural(h, t) == IF OwnFault(t) \/ t \in h THEN "FAILED" ELSE "DONE"

Step ==
  /\ ~fin /\ l <= Len(Ev)
  /\ LET e   == Ev[l]
         ncs == [t \in Uids |-> e.client[t].state]
         h2  == hit \cup SeqSet(e.raised)
         k2  == killed \cup SeqSet(e.killed)
     IN
     /\ l' = l + 1 /\ fin' = FALSE
     /\ cs' = ncs /\ hit' = h2 /\ killed' = k2
     /\ fincnt' = [t \in Uids |-> IF ncs[t] \in Final /\ cs[t] \notin Final THEN fincnt[t] + 1 ELSE fincnt[t]]
     /\ relcnt' = [t \in Uids |-> IF t \in SeqSet(e.rel) THEN relcnt[t] + 1 ELSE relcnt[t]]
     /\ spawned' = spawned \cup SeqSet(e.spawned)
     /\ errs' = errs
          \* an exception escaped a component or the client callback
          \cup E(e.err = "none", "C05.ComponentDied")
          \* final is final
          \cup UNION {E(cs[t] \in Final => ncs[t] = cs[t], "C05.FinalChanged") : t \in Uids}
          \* resources are given back once
          \cup UNION {E(relcnt[t] = 0, "C03.ReleasedTwice") : t \in SeqSet(e.rel)}
          \* C01, end to end: the processes running at any moment never use more cores than the pilot has
          \* (a task that keeps running after its slots were given back shows up here)
          \cup E(e.live <= T.ncores, "C01.RunningExceedsPilot")
          \* a task the application was told is final is not started (again) afterwards: the final
          \* state would not tell the truth; and no task gets a second process
          \cup UNION {E(cs[t] \notin Final, "C05.RunsAfterFinal") : t \in SeqSet(e.spawned)}
          \cup UNION {E(t \notin spawned, "C07.SpawnedTwice") : t \in SeqSet(e.spawned)}
          \* only named tasks are killed
          \cup UNION {E(t \in Named, "C08.KilledNotNamed") : t \in SeqSet(e.killed)}
          \cup (IF e.ev = "end" THEN
                  E(e.err = "none", "C05.NoQuiescence")
                  \cup UNION {
                       E(ncs[t] \in Final, "C05.NotFinal")
                       \cup E(ncs[t] = "DONE" => (~OwnFault(t) /\ t \notin h2 /\ e.client[t].exit = "0"),
                              "C05.DoneButFaulty")
                       \cup E(ncs[t] = "CANCELED" => t \in Named, "C05.CanceledNotAsked")
                       \cup E((ncs[t] = "FAILED" /\ T.spec[t].fault = "exit" /\ t \notin h2)
                                 => e.client[t].exit = "3", "C05.ExitCodeNotRecorded")
                       \cup E((ncs[t] = "FAILED" /\ (T.spec[t].fault \notin {"exit", "none"} \/ T.spec[t].cores > T.ncores))
                                 => e.client[t].exc, "C05.ExceptionNotRecorded")
                       \cup E((ncs[t] = "FAILED" /\ t \in h2) => e.client[t].exc, "C05.ExceptionNotRecorded")
                       \cup E(ncs[t] = "FAILED" => (OwnFault(t) \/ t \in h2), "C05.FailedWithoutFault")
                       \* not named: the natural outcome (faults stay local)
                       \cup E((t \notin Named /\ ncs[t] \in Final) => ncs[t] = Natural(h2, t),
                              IF Named = {} THEN "C05.WrongOutcome" ELSE "C08.BystanderChanged")
                       \* named: canceled, or what it would have been anyway
                       \cup E((t \in Named /\ ncs[t] \in Final) => ncs[t] \in {"CANCELED", Natural(h2, t)},
                              "C08.NamedWrongOutcome")
                       \cup E(t \in k2 => ncs[t] = "CANCELED", "C08.KilledButNotCanceled")
                       : t \in Uids}
                  \* everything given back
                  \cup E(e.free = T.ncores, IF Named = {} THEN "C03.NotAllReleased" ELSE "C08.ResourcesNotFreed")
                  \cup E(e.pool = <<>>, "C08.LeftInPool")
                  \cup E(SeqSet(e.intasks) \subseteq {t \in Uids : T.spec[t].fault \in {"nolauncher", "spawn"}
                                                                  \/ t \in h2},
                         "C07.StaleTaskEntry")
                ELSE {})
  /\ UNCHANGED tid

Finish ==
  /\ ~fin /\ l > Len(Ev) /\ fin' = TRUE
  /\ PrintT(<<"RESULT", T.tid, errs \cup UNION {E(fincnt[t] <= 1, "C05.FinalTwice") : t \in Uids}>>)
  /\ UNCHANGED <<tid, l, cs, hit, killed, fincnt, relcnt, spawned, errs>>

Next == Step \/ Finish
Spec == Init /\ [][Next]_vars
=============================================================================
