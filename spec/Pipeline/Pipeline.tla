------------------------------ MODULE Pipeline ------------------------------
(***************************************************************************)
(* Design model of a task's journey through radical.pilot:                 *)
(*   client -> tmgr scheduler (tsched) -> tmgr stage-in (tin) -> agent     *)
(*   stage-in (ain) -> agent scheduler (asched parent, aschedc loop) ->    *)
(*   executor (exec intake, watch, cancel) -> agent stage-out (aout) ->    *)
(*   tmgr stage-out (tout) -> client                                       *)
(* with the state notifications of every component travelling to the      *)
(* client on one FIFO per publisher (delivered in any interleaving), the   *)
(* control channel delivering a cancel request to every component          *)
(* separately, task-level faults, work() routines that raise for a bulk,   *)
(* and the client-side normalisation of task states (final is sticky).     *)
(*                                                                         *)
(* One action per step the pipeline rig can take (submit, step:<comp>,     *)
(* deliver:<pub>, unsched, exit:<t>, cancel, ctrl:<comp>).                 *)
(*                                                                         *)
(* Deviations of the code from the intended design (FALSE = intended):     *)
(*   DevIntakeCancelNoRelease : a task canceled by the executor's intake   *)
(*        filter is not unscheduled (its cores stay busy)                  *)
(*   DevExecRaiseNoRelease    : a failing executor work() routine fails    *)
(*        the bulk without unscheduling it                                 *)
(***************************************************************************)
EXTENDS Naturals, Integers, Sequences, FiniteSets, TLC

CONSTANTS Tasks,        \* task ids
          Bulks,        \* sequence of sets of tasks: the submission bulks
          Fault,        \* [Tasks -> {"none","tin","ain","nolauncher","spawn","exit","aout","tout"}]
          Raises,       \* [Tasks -> {"none","tin","ain","asched","exec","aout","tout"}]
          Cores,        \* [Tasks -> Nat]
          NCores,       \* cores of the pilot
          Cancels,      \* sequence of sets of tasks
          DevIntakeCancelNoRelease, DevExecRaiseNoRelease

Comps == <<"tsched", "tin", "ain", "asched", "exec", "aout", "tout">>
CompSet == {Comps[i] : i \in 1 .. Len(Comps)}
CtrlSet == CompSet \cup {"aschedc"}
Pubs   == CtrlSet \cup {"tmgr"}
NextOf(c) == CASE c = "tsched" -> "tin" [] c = "tin" -> "ain" [] c = "ain" -> "asched"
               [] c = "asched" -> "qS" [] c = "exec" -> "run" [] c = "aout" -> "tout"
               [] c = "tout" -> "client"

\* client visible states, ordered; the three finals are incomparable
Order == <<"NEW", "TMGR_SCHEDULING_PENDING", "TMGR_SCHEDULING", "TMGR_STAGING_INPUT_PENDING",
           "TMGR_STAGING_INPUT", "AGENT_STAGING_INPUT_PENDING", "AGENT_STAGING_INPUT",
           "AGENT_SCHEDULING_PENDING", "AGENT_SCHEDULING", "AGENT_EXECUTING_PENDING",
           "AGENT_EXECUTING", "AGENT_STAGING_OUTPUT_PENDING", "AGENT_STAGING_OUTPUT",
           "TMGR_STAGING_OUTPUT_PENDING", "TMGR_STAGING_OUTPUT">>
Final == {"DONE", "FAILED", "CANCELED"}
Val(s) == IF s \in Final THEN Len(Order) + 1 ELSE CHOOSE i \in 1 .. Len(Order) : Order[i] = s

VARIABLES q,        \* [CompSet -> sequence of bulks (sets of tasks)]
          qS, qU,   \* scheduler process queues (bulks / tasks)
          pool, free, holds,          \* agent scheduler
          clist,    \* [CtrlSet -> set of uids]  the components' cancel lists
          cpend,    \* [CtrlSet -> sequence of cancel sets]  undelivered control messages
          running, exited, killed, intasks, watched,
          tgt,      \* target_state of the task dict
          msgs,     \* [Pubs -> sequence of <<uid, state>>]
          unsq,     \* unschedule messages on their way to the scheduler
          cs,       \* client state
          nsub, ncan,
          hit,      \* ghost: tasks which met a fault / a raising work()
          fincnt,   \* ghost: how often the client state became final
          rel       \* ghost: releases

vars == <<q, qS, qU, pool, free, holds, clist, cpend, running, exited, killed, intasks,
          watched, tgt, msgs, unsq, cs, nsub, ncan, hit, fincnt, rel>>

Named == UNION {Cancels[i] : i \in 1 .. ncan}

Init ==
  /\ q = [c \in CompSet |-> <<>>] /\ qS = <<>> /\ qU = <<>>
  /\ pool = {} /\ free = NCores /\ holds = {}
  /\ clist = [c \in CtrlSet |-> {}] /\ cpend = [c \in CtrlSet |-> <<>>]
  /\ running = {} /\ exited = {} /\ killed = {} /\ intasks = {} /\ watched = {}
  /\ tgt = [t \in Tasks |-> "none"]
  /\ msgs = [p \in Pubs |-> <<>>] /\ unsq = <<>>
  /\ cs = [t \in Tasks |-> "NEW"]
  /\ nsub = 0 /\ ncan = 0
  /\ hit = {} /\ fincnt = [t \in Tasks |-> 0] /\ rel = [t \in Tasks |-> 0]

\* only final state notifications are kept in the model: the client side is
\* forward-only and final-sticky (C06), so the end state depends on the order
\* in which the *final* notifications of a task arrive, not on the others
Pub(m, p, pairs) == [m EXCEPT ![p] = @ \o SelectSeq(pairs, LAMBDA x : x[2] \in Final)]
\* a set of tasks published with one state, as one sequence (order irrelevant: distinct uids)
RECURSIVE SetSeq(_, _)
SetSeq(S, s) == IF S = {} THEN <<>> ELSE LET t == CHOOSE x \in S : TRUE IN <<<<t, s>>>> \o SetSeq(S \ {t}, s)

(* ---- client ------------------------------------------------------------ *)
Submit ==
  /\ nsub < Len(Bulks)
  /\ nsub' = nsub + 1
  /\ q' = [q EXCEPT !["tsched"] = Append(@, Bulks[nsub + 1])]
  /\ msgs' = Pub(msgs, "tmgr", SetSeq(Bulks[nsub + 1], "TMGR_SCHEDULING_PENDING"))
  /\ UNCHANGED <<qS, qU, pool, free, holds, clist, cpend, running, exited, killed, intasks,
                 watched, tgt, unsq, cs, ncan, hit, fincnt, rel>>

\* TaskManager._update_tasks: forward only, final sticky
Deliver(p) ==
  /\ msgs[p] # <<>>
  /\ LET m == Head(msgs[p]) t == m[1] s == m[2] IN
     /\ msgs' = [msgs EXCEPT ![p] = Tail(@)]
     /\ IF cs[t] \in Final \/ (s \notin Final /\ Val(s) <= Val(cs[t]))
        THEN UNCHANGED <<cs, fincnt>>
        ELSE /\ cs' = [cs EXCEPT ![t] = s]
             /\ fincnt' = IF s \in Final THEN [fincnt EXCEPT ![t] = @ + 1] ELSE fincnt
  /\ UNCHANGED <<q, qS, qU, pool, free, holds, clist, cpend, running, exited, killed, intasks,
                 watched, tgt, unsq, nsub, ncan, hit, rel>>

Cancel ==
  /\ ncan < Len(Cancels)
  /\ ncan' = ncan + 1
  /\ cpend' = [c \in CtrlSet |-> Append(cpend[c], Cancels[ncan + 1])]
  /\ UNCHANGED <<q, qS, qU, pool, free, holds, clist, running, exited, killed, intasks,
                 watched, tgt, msgs, unsq, cs, nsub, hit, fincnt, rel>>

(* ---- generic component step (stagers, tmgr scheduler) --------------------- *)
\* the last state a component publishes for a task it passes on
PassState(c) == CASE c = "tsched" -> "TMGR_STAGING_INPUT_PENDING"
                  [] c = "tin"    -> "AGENT_STAGING_INPUT_PENDING"
                  [] c = "ain"    -> "AGENT_SCHEDULING_PENDING"
                  [] c = "aout"   -> "TMGR_STAGING_OUTPUT_PENDING"
                  [] OTHER        -> "TMGR_STAGING_OUTPUT"

\* intake filter of work_cb: named things are announced CANCELED and dropped
Filter(c, B) == B \cap clist[c]

StepGeneric(c) ==
  /\ c \in {"tsched", "tin", "ain", "aout", "tout"}
  /\ q[c] # <<>>
  /\ LET B    == Head(q[c])
         can  == Filter(c, B)
         rest == B \ can
         boom == \E t \in rest : Raises[t] = c
         bad  == IF boom THEN rest ELSE {t \in rest : Fault[t] = c}
         ok   == rest \ bad
         fin(t) == IF c = "tout" THEN (IF tgt[t] = "none" THEN "DONE" ELSE tgt[t]) ELSE "x"
     IN
     /\ clist' = [clist EXCEPT ![c] = @ \ can]
     /\ hit' = hit \cup bad
     /\ msgs' = Pub(msgs, c, SetSeq(can, "CANCELED") \o SetSeq(bad, "FAILED")
                          \o (IF c = "tout"
                              THEN [i \in 1 .. Len(SetSeq(ok, "x")) |->
                                       <<SetSeq(ok, "x")[i][1], fin(SetSeq(ok, "x")[i][1])>>]
                              ELSE SetSeq(ok, PassState(c))))
     /\ IF c = "tout" \/ ok = {}
        THEN q' = [q EXCEPT ![c] = Tail(@)]
        ELSE q' = [q EXCEPT ![c] = Tail(@), ![NextOf(c)] = Append(@, ok)]
  /\ UNCHANGED <<qS, qU, pool, free, holds, cpend, running, exited, killed, intasks,
                 watched, tgt, unsq, cs, nsub, ncan, fincnt, rel>>

(* ---- agent scheduler ------------------------------------------------------ *)
StepSchedParent ==
  /\ q["asched"] # <<>>
  /\ LET B == Head(q["asched"]) can == Filter("asched", B) rest == B \ can
         boom == \E t \in rest : Raises[t] = "asched" IN
     /\ clist' = [clist EXCEPT !["asched"] = @ \ can]
     /\ q' = [q EXCEPT !["asched"] = Tail(@)]
     /\ hit' = IF boom THEN hit \cup rest ELSE hit
     /\ msgs' = Pub(msgs, "asched", SetSeq(can, "CANCELED")
                      \o (IF boom THEN SetSeq(rest, "FAILED") ELSE SetSeq(rest, "AGENT_SCHEDULING")))
     /\ qS' = IF boom \/ rest = {} THEN qS ELSE Append(qS, [k |-> "S", ts |-> rest])
  /\ UNCHANGED <<qU, pool, free, holds, cpend, running, exited, killed, intasks,
                 watched, tgt, unsq, cs, nsub, ncan, fincnt, rel>>

\* one burst of the scheduler loop: drain both queues, place what fits
RECURSIVE Place(_, _, _)
Place(S, f, acc) ==      \* greedy: returns <<granted set, free left>>
  IF S = {} THEN <<acc, f>>
  ELSE LET t == CHOOSE x \in S : \A y \in S : Cores[x] >= Cores[y] IN
       IF Cores[t] <= f THEN Place(S \ {t}, f - Cores[t], acc \cup {t})
       ELSE Place(S \ {t}, f, acc)

StepSchedLoop ==
  /\ (qS # <<>> \/ qU # <<>> \/ (pool # {} /\ \E t \in pool : Cores[t] <= free))
  /\ LET relT   == {qU[i] : i \in 1 .. Len(qU)}
         f0     == free + (IF relT = {} THEN 0 ELSE
                           LET RECURSIVE Sum(_)
                               Sum(S) == IF S = {} THEN 0 ELSE
                                         LET t == CHOOSE x \in S : TRUE IN Cores[t] + Sum(S \ {t})
                           IN Sum(relT \cap holds))
         canc   == UNION {qS[i].ts : i \in {j \in 1 .. Len(qS) : qS[j].k = "C"}}
         inc    == UNION {qS[i].ts : i \in {j \in 1 .. Len(qS) : qS[j].k = "S"}}
         poolc  == pool \cap canc
         cand   == (pool \ canc) \cup inc
         never  == {t \in cand : Cores[t] > NCores}
         pl     == Place(cand \ never, IF relT = {} THEN free ELSE f0, {})
         gr     == pl[1]
         wait   == (cand \ never) \ gr
         latec  == wait \cap clist["aschedc"]        \* post-insert cancel check
     IN
     /\ qS' = <<>> /\ qU' = <<>>
     /\ holds' = (holds \ relT) \cup gr
     /\ rel' = [t \in Tasks |-> IF t \in relT THEN rel[t] + 1 ELSE rel[t]]
     /\ free' = pl[2]
     /\ pool' = wait \ latec
     /\ clist' = [clist EXCEPT !["aschedc"] = @ \ latec]
     /\ hit' = hit \cup never
     /\ msgs' = Pub(msgs, "aschedc", SetSeq(poolc \cup latec, "CANCELED") \o SetSeq(never, "FAILED")
                                     \o SetSeq(gr, "AGENT_EXECUTING_PENDING"))
     /\ q' = IF gr = {} THEN q ELSE [q EXCEPT !["exec"] = Append(@, gr)]
  /\ UNCHANGED <<cpend, running, exited, killed, intasks, watched, tgt, unsq, cs, nsub, ncan, fincnt>>

Unsched ==
  /\ unsq # <<>>
  /\ qU' = Append(qU, Head(unsq)) /\ unsq' = Tail(unsq)
  /\ UNCHANGED <<q, qS, pool, free, holds, clist, cpend, running, exited, killed, intasks,
                 watched, tgt, msgs, cs, nsub, ncan, hit, fincnt, rel>>

(* ---- executor ---------------------------------------------------------------- *)
StepExec ==
  /\ q["exec"] # <<>>
  /\ LET B == Head(q["exec"]) can == Filter("exec", B) rest == B \ can
         boom == \E t \in rest : Raises[t] = "exec"
         lf   == IF boom THEN {} ELSE {t \in rest : Fault[t] \in {"nolauncher", "spawn"}}
         go   == IF boom THEN {} ELSE rest \ lf
         late == go \cap (clist["exec"] \ can)      \* always empty: the filter ran first
     IN
     /\ q' = [q EXCEPT !["exec"] = Tail(@)]
     /\ clist' = [clist EXCEPT !["exec"] = @ \ can]
     /\ hit' = hit \cup lf \cup (IF boom THEN rest ELSE {})
     /\ intasks' = intasks \cup (IF boom THEN {} ELSE rest)
     /\ running' = running \cup go
     /\ watched' = watched \cup go
     /\ msgs' = Pub(msgs, "exec", SetSeq(can, "CANCELED")
                      \o (IF boom THEN SetSeq(rest, "FAILED")
                          ELSE SetSeq(rest, "AGENT_EXECUTING") \o SetSeq(lf, "FAILED")))
     /\ unsq' = unsq \o [i \in 1 .. Len(SetSeq(lf, "x")) |-> SetSeq(lf, "x")[i][1]]
                     \o (IF DevIntakeCancelNoRelease THEN <<>>
                         ELSE [i \in 1 .. Len(SetSeq(can, "x")) |-> SetSeq(can, "x")[i][1]])
                     \o (IF boom /\ ~DevExecRaiseNoRelease
                         THEN [i \in 1 .. Len(SetSeq(rest, "x")) |-> SetSeq(rest, "x")[i][1]] ELSE <<>>)
  /\ UNCHANGED <<qS, qU, pool, free, holds, cpend, exited, killed, tgt, cs, nsub, ncan, fincnt, rel>>

Exit(t) ==
  /\ t \in running /\ t \notin exited
  /\ exited' = exited \cup {t}
  /\ hit' = IF Fault[t] = "exit" /\ t \notin killed THEN hit \cup {t} ELSE hit
  /\ UNCHANGED <<q, qS, qU, pool, free, holds, clist, cpend, running, killed, intasks,
                 watched, tgt, msgs, unsq, cs, nsub, ncan, fincnt, rel>>

StepWatch ==
  /\ \E t \in watched : t \in exited
  /\ LET col == {t \in watched : t \in exited /\ t \in intasks}
         gone == {t \in watched : t \in exited} IN
     /\ watched' = watched \ gone
     /\ intasks' = intasks \ col
     /\ running' = running \ col
     /\ tgt' = [t \in Tasks |-> IF t \in col THEN (IF Fault[t] = "exit" THEN "FAILED" ELSE "DONE") ELSE tgt[t]]
     /\ unsq' = unsq \o [i \in 1 .. Len(SetSeq(col, "x")) |-> SetSeq(col, "x")[i][1]]
     /\ msgs' = Pub(msgs, "exec", SetSeq(col, "AGENT_STAGING_OUTPUT_PENDING"))
     /\ q' = IF col = {} THEN q ELSE [q EXCEPT !["aout"] = Append(@, col)]
  /\ UNCHANGED <<qS, qU, pool, free, holds, clist, cpend, exited, killed, cs, nsub, ncan, hit, fincnt, rel>>

(* ---- control messages ------------------------------------------------------------ *)
Ctrl(c) ==
  /\ cpend[c] # <<>>
  /\ LET U == Head(cpend[c]) IN
     /\ cpend' = [cpend EXCEPT ![c] = Tail(@)]
     /\ clist' = [clist EXCEPT ![c] = @ \cup U]
     /\ IF c = "aschedc"
        THEN /\ qS' = Append(qS, [k |-> "C", ts |-> U])
             /\ UNCHANGED <<running, killed, exited, intasks, tgt, unsq, msgs, q>>
        ELSE IF c = "exec"
        THEN LET kill == {t \in U : t \in intasks /\ t \in running /\ t \notin exited} IN
             /\ killed' = killed \cup kill
             /\ exited' = exited \cup kill
             /\ intasks' = intasks \ kill
             /\ running' = running \ kill
             /\ tgt' = [t \in Tasks |-> IF t \in kill THEN "CANCELED" ELSE tgt[t]]
             /\ unsq' = unsq \o [i \in 1 .. Len(SetSeq(kill, "x")) |-> SetSeq(kill, "x")[i][1]]
             /\ msgs' = Pub(msgs, "exec", SetSeq(kill, "AGENT_STAGING_OUTPUT_PENDING"))
             /\ q' = IF kill = {} THEN q ELSE [q EXCEPT !["aout"] = Append(@, kill)]
             /\ UNCHANGED qS
        ELSE UNCHANGED <<qS, running, killed, exited, intasks, tgt, unsq, msgs, q>>
  /\ UNCHANGED <<qU, pool, free, holds, watched, cs, nsub, ncan, hit, fincnt, rel>>

Next == \/ Submit \/ Cancel \/ Unsched \/ StepSchedParent \/ StepSchedLoop \/ StepExec \/ StepWatch
        \/ \E c \in CompSet : StepGeneric(c)
        \/ \E p \in Pubs : Deliver(p)
        \/ \E t \in Tasks : Exit(t)
        \/ \E c \in CtrlSet : Ctrl(c)
Spec == Init /\ [][Next]_vars
FairSpec == Spec /\ WF_vars(Next)
\* C05 as liveness: under weak fairness of the whole system every run becomes quiet and every
\* submitted task ends, and stays, in a final client state
LiveQuiet == <>[](~ENABLED Next)
LiveFinal == \A t \in Tasks : <>[](cs[t] \in {"DONE", "FAILED", "CANCELED"})

(* ---- properties ---------------------------------------------------------------------- *)
Quiet == ~ENABLED Next
Natural(t) == IF t \in hit THEN "FAILED" ELSE "DONE"
AllNamed == UNION {Cancels[i] : i \in 1 .. Len(Cancels)}

\* C05
OneFinal    == \A t \in Tasks : fincnt[t] <= 1
EndsFinal   == Quiet => \A t \in Tasks : cs[t] \in Final
Truthful    == Quiet => \A t \in Tasks :
                  /\ (cs[t] = "DONE" => t \notin hit)
                  /\ (cs[t] = "CANCELED" => t \in AllNamed)
                  /\ (t \notin AllNamed => cs[t] = Natural(t))
\* C03 / C08
FreedAll    == Quiet => (free = NCores /\ holds = {} /\ pool = {})
ReleaseOnce == \A t \in Tasks : rel[t] <= 1
KilledNamed == killed \subseteq AllNamed
Terminates  == <>[]Quiet
=============================================================================
