-------------------------- MODULE AgentSchedTrace --------------------------
(***************************************************************************)
(* Trace monitor for the pilot scheduler: consumes the events recorded     *)
(* from the real AgentSchedulingComponent / Continuous (sched_rig.py) and  *)
(* checks every step against the contract of AgentSched / SchedOps.        *)
(*                                                                         *)
(* The monitor is total: it never blocks on a bad step.  Each failing      *)
(* clause is added to errs as "<property>.<clause>" and the monitor        *)
(* re-synchronises on the logged state, so the rest of the trace is still  *)
(* examined.  One TLC run validates a whole batch: tid is chosen in Init.  *)
(***************************************************************************)
EXTENDS SchedOps, TLC, Json, IOUtils

Batch  == JsonDeserialize(IOEnv.TRACE_FILE)
Traces == Batch.traces

VARIABLES tid, l, O, active, pool, H, where, rep, rel, hist, tagged, named, namedc, compl, errs, fin

vars == <<tid, l, O, active, pool, H, where, rep, rel, hist, tagged, named, namedc, compl, errs, fin>>

T       == Traces[tid]
Ev      == T.events
Uids    == {T.uids[i] : i \in 1 .. Len(T.uids)}
Sh(t)   == T.shapes[t]
Sup(t)  == T.supplied[t]
SeqSet(s) == {s[i] : i \in 1 .. Len(s)}

\* logged slots -> placement
ToSlot(s) == [node |-> s.node, cores |-> SeqSet(s.cores),
              gpus |-> {<<s.gpus[i][1], s.gpus[i][2]>> : i \in 1 .. Len(s.gpus)},
              lfs |-> s.lfs, mem |-> s.mem]
ToPlacement(ss) == [i \in 1 .. Len(ss) |-> ToSlot(ss[i])]

\* logged node map -> occupancy record; a map of the wrong size is reported
MapSized(nn) == /\ Len(nn) = NNodes
                /\ \A i \in 1 .. Len(nn) : Len(nn[i].cores) = NCores /\ Len(nn[i].gpus) = NGpus
ToOcc(nn) ==
  [cores |-> [n \in Node |-> [c \in Core |-> nn[n + 1].cores[c + 1]]],
   gpus  |-> [n \in Node |-> [g \in Gpu  |-> nn[n + 1].gpus[g + 1]]],
   lfs   |-> [n \in Node |-> nn[n + 1].lfs],
   mem   |-> [n \in Node |-> nn[n + 1].mem]]

\* nodes a tagged task may use ({} == no restriction): the nodes its colocate tag used before; a NEW tag
\* marked exclusive avoids the nodes any tag has used so far (`tagged`, which only grows) - unless every
\* node is tagged already, then it shares
Excl(t) == IF "excl" \in DOMAIN Sh(t) THEN Sh(t).excl ELSE FALSE
HistOfX(h, tg, t) == IF Sh(t).colo = "none" THEN {}
                     ELSE IF h[Sh(t).colo] # {} THEN h[Sh(t).colo]
                     ELSE IF Excl(t) /\ tg # {} /\ (Node \ tg) # {} THEN Node \ tg
                     ELSE {}
HistOf(h, t) == HistOfX(h, tagged, t)

\* tasks whose placement was decided by the application (task description carries slots)
IsSup(t) == Len(Sup(t)) > 0
SupP(t)  == ToPlacement(Sup(t))
FitsNowT(o, t, h) == IF IsSup(t) THEN SupUsable(SupP(t)) /\ CanTake(o, SupP(t))
                     ELSE Fits(o, Sh(t), HistOf(h, t), FALSE, FALSE)
FitsIdleT(t, h)   == IF IsSup(t) THEN SupUsable(SupP(t)) /\ CanTake(InitOcc, SupP(t))
                     ELSE FitsIdle(Sh(t), HistOf(h, t))
\* non-scattered mode: what the one-pass search from the logged node offset finds (NSQ: the trace asks for
\* the non-scattered quiescence obligations - set by the rig for the Continuous class only)
NSQ == IF "nsq" \in DOMAIN T THEN T.nsq ELSE FALSE
OffOf(e) == IF "off" \in DOMAIN e THEN e.off % NNodes ELSE 0
FitsNowC(o, t, h, off) == IF IsSup(t) THEN FitsNowT(o, t, h) ELSE FitsCont(o, Sh(t), HistOf(h, t), off)
Tags == {Sh(t).colo : t \in Uids} \ {"none"}

Init ==
  /\ tid \in 1 .. Len(Traces)
  /\ l = 1
  /\ O = InitOcc /\ active = 0 /\ pool = {}
  /\ H = [t \in Uids |-> <<>>]
  /\ where = [t \in Uids |-> "none"]
  /\ rep = [t \in Uids |-> 0] /\ rel = [t \in Uids |-> 0]
  /\ hist = [g \in Tags |-> {}] /\ tagged = {}
  /\ named = {} /\ namedc = {}
  /\ compl = {}         \* tasks for which the executor sent its unschedule message
  /\ errs = {} /\ fin = FALSE

(* ---- ghost invariants over what is held (C01) -------------------------- *)
GhostErrs(h) ==
     (IF NoCoreShared(h)  THEN {} ELSE {"C01.NoCoreShared"})
  \cup (IF GpuShareBound(h) THEN {} ELSE {"C01.GpuShareBound"})
  \cup (IF LfsBound(h)      THEN {} ELSE {"C01.LfsBound"})
  \cup (IF MemBound(h)      THEN {} ELSE {"C01.MemBound"})
  \cup (IF NoBlocked(h)     THEN {} ELSE {"C01.NoBlocked"})
  \cup (IF OnlyNodes(h)     THEN {} ELSE {"C01.OnlyNodes"})

E(cond, name) == IF cond THEN {} ELSE {name}

(* ---- pool bookkeeping (C04 / C08): how the logged pool may change ------ *)
\* wn: where after this event (removals), where: before it (additions)
PoolErrs(newpool, wn) ==
     UNION {E(wn[t] \in {"granted", "started", "failed", "canceled", "raised"} \/ t \in named,
              "C08.BystanderDroppedFromPool") : t \in (pool \ newpool)}
  \cup UNION {E(where[t] \in {"nofit", "waiting"}, "C04.PoolGhost") : t \in (newpool \ pool)}

Waiting(w) == {t \in Uids : w[t] \in {"nofit", "waiting"}}

(* ---- one monitor step per event ---------------------------------------- *)
Step ==
  /\ ~fin /\ l <= Len(Ev)
  /\ LET e   == Ev[l]
         lo  == IF MapSized(e.nodes) THEN ToOcc(e.nodes) ELSE O
         lp  == SeqSet(e.pool)
         e0  == E(MapSized(e.nodes), "C01.MapShape")
     IN
     /\ l' = l + 1
     /\ O' = lo
     /\ pool' = lp
     /\ active' = e.active
     /\ fin' = FALSE
     /\ CASE e.ev = "Arrive" ->
               /\ where' = [t \in Uids |-> IF t \in SeqSet(e.uids) THEN "queued" ELSE where[t]]
               /\ errs' = errs \cup e0
                    \cup UNION {E(where[t] = "none", "C04.ArrivedTwice") : t \in SeqSet(e.uids)}
                    \cup E(lo = O, "C01.MapChangedSilently")
                    \cup PoolErrs(lp, where')
               /\ UNCHANGED <<H, rep, rel, hist, tagged, named, namedc, compl>>
          [] e.ev = "CancelReq" ->
               /\ named' = named \cup SeqSet(e.uids)
               \* requests that reached the scheduler process (not only the parent part)
               /\ namedc' = IF e.to = "child" THEN namedc \cup SeqSet(e.uids) ELSE namedc
               /\ errs' = errs \cup e0 \cup E(lo = O, "C01.MapChangedSilently")
               /\ UNCHANGED <<H, where, rep, rel, hist, tagged, compl>>
          [] e.ev = "QGet" ->
               \* a task waiting for its named environment goes to the pool untried
               /\ where' = [t \in Uids |-> IF e.kind = "S" /\ t \in SeqSet(e.uids) /\ where[t] = "queued"
                                           THEN (IF Sh(t).named_env /\ Sh(t).ranks > 0 THEN "nofit" ELSE "sched")
                                           ELSE where[t]]
               /\ errs' = errs \cup e0 \cup E(lo = O, "C01.MapChangedSilently")
                    \cup PoolErrs(lp, where')
               /\ UNCHANGED <<H, rep, rel, hist, tagged, named, namedc, compl>>
          [] e.ev = "Try" ->
               LET t == e.uid sh == Sh(t) hs == HistOf(hist, t) IN
               IF e.res = "grant" THEN
                 LET p  == ToPlacement(e.slots)
                     h2 == [H EXCEPT ![t] = p]
                     inpass == e.phase = "wait" IN
                 /\ H' = h2
                 /\ where' = [where EXCEPT ![t] = "granted"]
                 /\ hist' = IF sh.colo = "none" THEN hist ELSE [hist EXCEPT ![sh.colo] = NodesOf(p)]
                 /\ tagged' = IF sh.colo = "none" THEN tagged ELSE tagged \cup NodesOf(p)
                 /\ errs' = errs \cup e0
                      \cup (IF IsSup(t)
                            THEN \* the application's placement is the requested shape
                                 E(p = SupP(t), "C02.SuppliedNotHonored")
                                 \cup E(SupInRange(p), "C01.OnlyNodes")
                            ELSE E(ShapeRanks(sh, p),  "C02.Ranks")
                                 \cup E(ShapeNodes(sh, p),  "C02.NodeExists")
                                 \cup E(ShapeCores(sh, p),  "C02.CoresPerRank")
                                 \cup E(ShapeGpus(sh, p),   "C02.GpusPerRank")
                                 \cup E(ShapeLfsMem(sh, p), "C02.LfsMemPerRank")
                                 \cup E(ShapeRpn(sh, p),    "C02.RanksPerNode")
                                 \cup E(ShapeColo(sh, p, hs), "C02.Colocate")
                                 \cup E(~Oversize(sh),      "C02.OversizeGranted"))
                      \cup E(H[t] = <<>>,        "C04.GrantedTwice")
                      \cup PoolErrs(lp, where')
                      \cup (IF (IF IsSup(t) THEN SupInRange(p)
                                ELSE ShapeNodes(sh, p) /\ ShapeCores(sh, p) /\ ShapeGpus(sh, p))
                            THEN E(SelfDisjoint(p),  "C01.RanksOverlap")
                                 \cup E(CoresFree(O, p), "C01.GrantedBusyCore")
                                 \cup E(GpusFree(O, p),  "C01.GrantedBusyGpu")
                                 \cup E(LfsFits(O, p),   "C01.LfsOverdraw")
                                 \cup E(MemFits(O, p),   "C01.MemOverdraw")
                                 \cup E(lo = Mark(O, p, "B"), "C01.MapNotMarked")
                                 \cup GhostErrs(h2)
                            ELSE {})
                      \cup (IF inpass /\ T.scattered
                            THEN UNION {E(~(pool = {t, u} /\ Sh(u).prio > sh.prio /\ ~Sh(u).named_env
                                            /\ FitsNowT(O, u, hist)),
                                          "C04.PriorityInversion") : u \in pool \ {t}}
                            ELSE {})
                 /\ UNCHANGED <<rep, rel, named, namedc, compl>>
               ELSE IF e.res = "nofit" THEN
                 /\ where' = [where EXCEPT ![t] = IF @ = "sched" THEN "nofit" ELSE @]
                 /\ errs' = errs \cup e0 \cup E(lo = O, "C01.MapChangedSilently") \cup PoolErrs(lp, where')
                 /\ UNCHANGED <<H, rep, rel, hist, tagged, named, namedc, compl>>
               ELSE \* raise
                 /\ where' = [where EXCEPT ![t] = "raised"]
                 /\ errs' = errs \cup e0 \cup E(lo = O, "C01.MapChangedSilently")
                      \cup E(Oversize(sh) \/ ~FitsIdleT(t, hist) \/ e.legit, "C04.FalseFailure")
                      \cup PoolErrs(lp, where')
                 /\ UNCHANGED <<H, rep, rel, hist, tagged, named, namedc, compl>>
          [] e.ev = "Adv" ->
               LET t == e.uid IN
               /\ rep' = [rep EXCEPT ![t] = @ + 1]
               /\ IF e.state = "started" THEN
                    LET sup == where[t] = "sched" /\ Sup(t) # <<>>      \* td.slots branch
                        p   == IF sup THEN ToPlacement(Sup(t)) ELSE H[t]
                        h2  == [H EXCEPT ![t] = p] IN
                    /\ H' = h2
                    /\ where' = [where EXCEPT ![t] = "started"]
                    /\ errs' = errs \cup e0
                         \cup E(rep[t] = 0, "C04.ReportedTwice")
                         \cup E(p # <<>>, "C04.StartedWithoutPlacement")
                         \cup E(ToPlacement(e.slots) = p, "C02.AttachedSlotsDiffer")
                         \cup (IF sup THEN GhostErrs(h2) \cup E(OccMatchesHeld(lo, h2), "C01.SuppliedNotMarked")
                                      ELSE {})
                         \cup PoolErrs(lp, where')
                  ELSE
                    /\ where' = [where EXCEPT ![t] = e.state]
                    /\ errs' = errs \cup e0
                         \cup E(rep[t] = 0, "C04.ReportedTwice")
                         \cup E(H[t] = <<>>, "C03.FinalWhileHolding")
                         \cup (IF e.state = "canceled" THEN E(t \in named, "C08.CanceledNotNamed") ELSE {})
                         \cup E(lo = O, "C01.MapChangedSilently")
                         \cup PoolErrs(lp, where')
                    /\ UNCHANGED H
               /\ UNCHANGED <<rel, hist, tagged, named, namedc, compl>>
          [] e.ev = "Complete" ->
               /\ compl' = compl \cup {e.uid}
               /\ errs' = errs \cup e0 \cup E(lo = O, "C01.MapChangedSilently") \cup PoolErrs(lp, where)
               /\ UNCHANGED <<H, where, rep, rel, hist, tagged, named, namedc>>
          [] e.ev = "QGetU" ->
               /\ errs' = errs \cup e0 \cup E(lo = O, "C01.MapChangedSilently") \cup PoolErrs(lp, where)
               /\ UNCHANGED <<H, where, rep, rel, hist, tagged, named, namedc, compl>>
          [] e.ev = "Release" ->
               LET t  == e.uid
                   h2 == [H EXCEPT ![t] = <<>>] IN
               /\ H' = h2
               /\ rel' = [rel EXCEPT ![t] = @ + 1]
               /\ where' = [where EXCEPT ![t] = "released"]
               /\ errs' = errs \cup e0
                    \cup E(H[t] # <<>>, "C03.ReleaseNotHeld")
                    \cup E(rel[t] = 0, "C03.ReleasedTwice")
                    \cup (IF H[t] # <<>> /\ OnlyNodes([x \in {t} |-> H[t]])
                          THEN E(lo = Mark(O, H[t], "F"), "C03.NotRestored") ELSE {})
                    \cup (IF Holding(h2) = {} THEN E(lo = InitOcc, "C03.IdleNotInitial") ELSE {})
                    \cup PoolErrs(lp, where')
               /\ UNCHANGED <<rep, hist, tagged, named, namedc, compl>>
          [] e.ev = "Sleep" ->
               LET wt == Waiting(where) IN
               /\ where' = [t \in Uids |-> IF t \in wt /\ t \in lp THEN "waiting" ELSE where[t]]
               /\ errs' = errs \cup e0 \cup E(lo = O, "C01.MapChangedSilently")
                    \cup E(OccMatchesHeld(lo, H), "C01.OccMatchesHeld")
                    \cup E(e.active = Cardinality(Holding(H)), "C03.ActiveCountDrift")
                    \cup E(Holding(H) # {} \/ lo = InitOcc, "C03.IdleNotInitial")
                    \* every unschedule message that was sent has been acted upon
                    \cup (IF e.qu_empty THEN UNION {E(rel[t] >= 1, "C03.ReleaseLost") : t \in compl} ELSE {})
                    \* exactly one place: nothing lost, nothing duplicated
                    \cup UNION {E(t \in lp, "C04.LostWhileWaiting") : t \in wt}
                    \cup UNION {E(t \in wt, "C04.PoolGhost") : t \in lp}
                    \cup UNION {E(where[t] \notin {"sched", "granted", "raised"}, "C04.LeftBehind") : t \in Uids}
                    \* ... in particular not because somebody else was canceled
                    \cup UNION {E(where[t] \notin {"sched", "granted", "raised"} \/ named = {} \/ t \in named,
                                  "C08.BystanderLost") : t \in Uids}
                    \* a named task does not stay in the pool once the request was handled
                    \cup (IF e.cancel_drained THEN UNION {E(t \notin namedc, "C08.NamedStillWaiting") : t \in lp} ELSE {})
                    \cup (IF T.scattered /\ e.quiet THEN
                            LET fits(t) == FitsNowT(lo, t, hist)
                                nonenv  == {t \in lp : ~Sh(t).named_env} IN
                               (IF Cardinality(lp) = 1 /\ nonenv = lp
                                THEN UNION {E(~fits(t), "C04.AloneNotStarted") : t \in lp} ELSE {})
                          \cup (IF Holding(H) = {} /\ nonenv # {} /\ nonenv = lp
                                THEN E(\E t \in lp : ~FitsIdleT(t, hist), "C04.IdleStartsNone")
                                     \cup (IF Cardinality(lp) = 1 THEN {"C04.UnfitAloneNotFailed"} ELSE {})
                                ELSE {})
                          ELSE {})
                    \* non-scattered mode: a task waiting alone for which the search from the current
                    \* offset finds a stretch must have been started; an idle pilot starts some task
                    \cup (IF NSQ /\ e.quiet THEN
                            LET nonenv == {t \in lp : ~Sh(t).named_env} IN
                               (IF Cardinality(lp) = 1 /\ nonenv = lp
                                THEN UNION {E(~FitsNowC(lo, t, hist, OffOf(e)), "C04.AloneNotStarted") : t \in lp} ELSE {})
                          \cup (IF Holding(H) = {} /\ nonenv # {} /\ nonenv = lp
                                THEN E(\E t \in lp : ~FitsNowC(InitOcc, t, hist, OffOf(e)), "C04.IdleStartsNone")
                                ELSE {})
                          ELSE {})
               /\ UNCHANGED <<H, rep, rel, hist, tagged, named, namedc, compl>>
          [] OTHER ->
               /\ errs' = errs \cup {"X.UnknownEvent"}
               /\ UNCHANGED <<H, where, rep, rel, hist, tagged, named, namedc, compl>>
  /\ UNCHANGED tid

Finish ==
  /\ ~fin /\ l > Len(Ev)
  /\ fin' = TRUE
  /\ PrintT(<<"RESULT", T.tid, errs>>)
  /\ UNCHANGED <<tid, l, O, active, pool, H, where, rep, rel, hist, tagged, named, namedc, compl, errs>>

Next == Step \/ Finish
Spec == Init /\ [][Next]_vars
=============================================================================
