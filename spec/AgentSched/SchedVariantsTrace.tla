------------------------- MODULE SchedVariantsTrace -------------------------
(***************************************************************************)
(* Notes on the policies two variant schedulers add on top of the contract *)
(* of AgentSched (C01..C04 are judged by AgentSchedTrace, for every        *)
(* scheduler class, from the same traces):                                 *)
(*                                                                         *)
(*   ContinuousOrdered : tags.order = [ns, order, size] - bag n of a name  *)
(*                       space is to start only after the `size` tasks of  *)
(*                       bag n-1 reached the trigger state (the rig sends  *)
(*                       that state notification with the Complete event)  *)
(*   ContinuousColo    : tags.colocate = [bag, size] - the tasks of a bag  *)
(*                       are to start together, on one node                *)
(*                                                                         *)
(* These are not clauses of C01..C04: the module only emits notes "N.*"    *)
(* per trace (which policies were seen at work, which were not kept); the  *)
(* check prints them, it never turns them into violations.                 *)
(* Same conventions as AgentSchedTrace: total, tid chosen in Init, one     *)
(* RESULT line per trace.                                                  *)
(***************************************************************************)
EXTENDS Naturals, Sequences, FiniteSets, TLC, Json, IOUtils

Batch  == JsonDeserialize(IOEnv.TRACE_FILE)
Traces == Batch.traces

VARIABLES tid, l, started, done, onnodes, notes, fin

vars == <<tid, l, started, done, onnodes, notes, fin>>

T      == Traces[tid]
Ev     == T.events
Uids   == {T.uids[i] : i \in 1 .. Len(T.uids)}
Ord(t) == T.order[t]
Bag(t) == T.bag[t]

\* the bag which has to be through before t may start
Pred(t)    == {u \in Uids : Ord(u).ns = Ord(t).ns /\ Ord(u).order = Ord(t).order - 1}
SameBag(t) == {u \in Uids : Bag(u).bag = Bag(t).bag}
NodesOfSlots(ss) == {ss[i].node : i \in 1 .. Len(ss)}

N(cond, name) == IF cond THEN {name} ELSE {}

Init ==
  /\ tid \in 1 .. Len(Traces)
  /\ l = 1
  /\ started = {} /\ done = {}
  /\ onnodes = [t \in Uids |-> {}]
  /\ notes = {} /\ fin = FALSE

Step ==
  /\ ~fin /\ l <= Len(Ev)
  /\ LET e == Ev[l] IN
     /\ l' = l + 1
     /\ fin' = FALSE
     /\ CASE e.ev = "Adv" /\ e.state = "started" ->
               LET t       == e.uid
                   ns      == NodesOfSlots(e.slots)
                   ordered == Ord(t).ns # "none"
                   later   == ordered /\ Ord(t).order > 0
                   inbag   == Bag(t).bag # "none"
                   mates   == (SameBag(t) \cap started) \ {t} IN
               /\ started' = started \cup {t}
               /\ onnodes' = [onnodes EXCEPT ![t] = ns]
               /\ notes' = notes
                    \cup N(ordered, "N.OrderedTaskStarted")
                    \cup N(later /\ (Pred(t) \ done) = {}, "N.OrderKept")
                    \cup N(later /\ (Pred(t) \ done) # {}, "N.StartedBeforePreviousBagDone")
                    \cup N(later /\ (Pred(t) \ started) # {}, "N.StartedBeforePreviousBagStarted")
                    \cup N(inbag, "N.BagTaskStarted")
                    \cup N(inbag /\ (Cardinality(ns) > 1 \/ \E u \in mates : onnodes[u] # ns),
                           "N.BagNotOnOneNode")
               /\ UNCHANGED done
          [] e.ev = "Complete" ->
               /\ done' = done \cup {e.uid}
               /\ UNCHANGED <<started, onnodes, notes>>
          [] e.ev = "Sleep" ->
               /\ notes' = notes \cup UNION {N(Bag(t).bag # "none" /\ t \in started
                                                 /\ (SameBag(t) \ started) # {},
                                               "N.BagStartedInParts") : t \in Uids}
               /\ UNCHANGED <<started, done, onnodes>>
          [] OTHER ->
               UNCHANGED <<started, done, onnodes, notes>>
  /\ UNCHANGED tid

Finish ==
  /\ ~fin /\ l > Len(Ev)
  /\ fin' = TRUE
  /\ PrintT(<<"RESULT", T.tid, notes>>)
  /\ UNCHANGED <<tid, l, started, done, onnodes, notes>>

Next == Step \/ Finish
Spec == Init /\ [][Next]_vars
=============================================================================
