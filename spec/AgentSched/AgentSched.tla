----------------------------- MODULE AgentSched -----------------------------
(***************************************************************************)
(* Design model of the pilot's scheduler component                         *)
(*   agent/scheduler/base.py  : AgentSchedulingComponent                   *)
(*   agent/scheduler/continuous.py : Continuous                            *)
(* in the shape of the code: the component's parent part (work_cb intake   *)
(* filter + work), the scheduler process with its three-phase loop         *)
(* (_schedule_waitpool, _schedule_incoming, _unschedule_completed), the    *)
(* two queues between them, the two copies of the cancel list, the node    *)
(* occupancy map and _active_cnt.  Ghost variables (H, where, rep, rel)    *)
(* state the properties independently of the code's bookkeeping.           *)
(*                                                                         *)
(* Known deviations of the code from the intended design are named         *)
(* boolean constants DevXxx: with all of them FALSE the properties must    *)
(* hold, with one TRUE the matching property must fail.                    *)
(***************************************************************************)
EXTENDS SchedOps, TLC

CONSTANTS Tasks,            \* task ids
          Shape,            \* [Tasks -> shape record]
          Supplied,         \* [Tasks -> placement]; <<>> == scheduler chooses
          Cancelable,       \* tasks for which a cancel request may be issued
          MaxBatch,         \* tasks per arriving bulk
          DevNoLfsCheck,        \* D1: lfs/mem debited but never compared
          DevFracSameGpu,       \* D2: fractional shares of one task on one GPU
          DevSuppliedUnmarked,  \* D3: app-supplied slots neither checked nor marked
          DevRanksFallthrough,  \* D4: ranks <= 0 failed, then scheduled anyway
          DevFracDownRaises,    \* D5: fractional GPU request meets blocked GPU -> raise
          DevNoWakeOnRelease    \* a release does not set the `resources` flag again (starvation)

VARIABLES O, active, pool, qS, qU, plist, clist,
          pc, resources, rwait, rinc, act, todo, towait, toSched, curPrio, lastw, uany,
          hist,
          H, where, rep, rel, done, creq

vars == <<O, active, pool, qS, qU, plist, clist, pc, resources, rwait, rinc, act,
          todo, towait, toSched, curPrio, lastw, uany, hist, H, where, rep, rel, done, creq>>

Prio(t)   == Shape[t].prio
\* nodes a tagged task may use ({} == no restriction): the nodes its colocate tag used before; a NEW tag
\* marked exclusive avoids the nodes any tag has used so far (kept under the reserved key TAGGED, it only
\* grows) - unless every node is tagged already, then it shares
TAGGED    == "__tagged"
Excl(t)   == IF "excl" \in DOMAIN Shape[t] THEN Shape[t].excl ELSE FALSE
Hist(t)   == IF Shape[t].colo = "none" THEN {}
             ELSE IF hist[Shape[t].colo] # {} THEN hist[Shape[t].colo]
             ELSE IF Excl(t) /\ hist[TAGGED] # {} /\ (Node \ hist[TAGGED]) # {} THEN Node \ hist[TAGGED]
             ELSE {}
Tags      == {Shape[t].colo : t \in Tasks} \ {"none"}
FitsNow(t)  == Fits(O, Shape[t], Hist(t), FALSE, FALSE)          \* intended accounting
FitsCode(t) == Fits(O, Shape[t], Hist(t), DevNoLfsCheck, DevFracSameGpu)
\* a task which brings its own placement fits when exactly that placement is free
SupValid(t)  == SupUsable(Supplied[t])
FitsNowS(t)  == IF Supplied[t] # <<>> THEN SupValid(t) /\ CanTake(O, Supplied[t]) ELSE FitsNow(t)
FitsIdleS(t) == IF Supplied[t] # <<>> THEN SupValid(t) /\ CanTake(InitOcc, Supplied[t])
                ELSE FitsIdle(Shape[t], Hist(t))

Init ==
  /\ O = InitOcc /\ active = 0 /\ pool = {} /\ qS = <<>> /\ qU = <<>>
  /\ plist = {} /\ clist = {}
  /\ pc = "top" /\ resources = TRUE /\ rwait = "T" /\ rinc = "N" /\ act = FALSE
  /\ todo = <<>> /\ towait = {} /\ toSched = {} /\ curPrio = -1 /\ lastw = FALSE /\ uany = FALSE
  /\ hist = [g \in Tags \cup {TAGGED} |-> {}]
  /\ H = [t \in Tasks |-> <<>>]
  /\ where = [t \in Tasks |-> "none"]
  /\ rep = [t \in Tasks |-> 0] /\ rel = [t \in Tasks |-> 0]
  /\ done = {} /\ creq = {}

(* ------------------------------------------------------------------------ *)
(* environment                                                              *)
(* ------------------------------------------------------------------------ *)
\* parent part: work_cb filters canceled tasks (parent's cancel list), work()
\* forwards the rest to the scheduler process
Arrive(B) ==
  /\ B # {} /\ Cardinality(B) <= MaxBatch
  /\ \A t \in B : where[t] = "none"
  /\ LET can == B \cap plist
         fwd == B \ plist
     IN /\ plist' = plist \ can
        /\ where' = [t \in Tasks |-> IF t \in can THEN "canceled"
                                     ELSE IF t \in fwd THEN "queued" ELSE where[t]]
        /\ rep' = [t \in Tasks |-> IF t \in can THEN rep[t] + 1 ELSE rep[t]]
        /\ qS' = IF fwd = {} THEN qS ELSE Append(qS, [k |-> "S", ts |-> fwd])
  /\ UNCHANGED <<O, active, pool, qU, clist, pc, resources, rwait, rinc, act, todo,
                 towait, toSched, curPrio, lastw, uany, hist, H, rel, done, creq>>

\* a cancel request reaches the parent's control subscriber
CancelP(t) ==
  /\ t \in Cancelable /\ <<t, "p">> \notin creq
  /\ creq' = creq \cup {<<t, "p">>}
  /\ plist' = plist \cup {t}
  /\ UNCHANGED <<O, active, pool, qS, qU, clist, pc, resources, rwait, rinc, act, todo,
                 towait, toSched, curPrio, lastw, uany, hist, H, where, rep, rel, done>>

\* ... and the scheduler process' control subscriber: first the cancel list,
CancelC1(t) ==
  /\ t \in Cancelable /\ <<t, "c1">> \notin creq
  /\ creq' = creq \cup {<<t, "c1">>}
  /\ clist' = clist \cup {t}
  /\ UNCHANGED <<O, active, pool, qS, qU, plist, pc, resources, rwait, rinc, act, todo,
                 towait, toSched, curPrio, lastw, uany, hist, H, where, rep, rel, done>>

\* ... then (control_cb) the _CANCEL item on the scheduling queue
CancelC2(t) ==
  /\ <<t, "c1">> \in creq /\ <<t, "c2">> \notin creq
  /\ creq' = creq \cup {<<t, "c2">>}
  /\ qS' = Append(qS, [k |-> "C", ts |-> {t}])
  /\ UNCHANGED <<O, active, pool, qU, plist, clist, pc, resources, rwait, rinc, act, todo,
                 towait, toSched, curPrio, lastw, uany, hist, H, where, rep, rel, done>>

\* the executor publishes the unschedule message of a started task (once: C07)
Complete(t) ==
  /\ where[t] = "started" /\ t \notin done
  /\ done' = done \cup {t}
  /\ qU' = Append(qU, t)
  /\ UNCHANGED <<O, active, pool, qS, plist, clist, pc, resources, rwait, rinc, act, todo,
                 towait, toSched, curPrio, lastw, uany, hist, H, where, rep, rel, creq>>

(* ------------------------------------------------------------------------ *)
(* _try_allocation                                                          *)
(* ------------------------------------------------------------------------ *)
FracRaise(t) == /\ DevFracDownRaises /\ BlockedGpus # {}
                /\ Shape[t].gpr > 0 /\ Shape[t].gpr < SU

TryOutcome(t) ==
  IF Supplied[t] # <<>> /\ ~DevSuppliedUnmarked
  THEN \* _claim_slots: the application's placement, once it is free
       IF SupValid(t) /\ CanTake(O, Supplied[t]) THEN "grant"
       ELSE IF active = 0 \/ ~SupValid(t) THEN "raise" ELSE "nofit"
  ELSE IF Oversize(Shape[t]) \/ FracRaise(t) THEN "raise"
  ELSE IF FitsCode(t) THEN "grant"
  ELSE IF active = 0 THEN "raise" ELSE "nofit"

PlacementFor(t) ==
  IF Supplied[t] # <<>> THEN Supplied[t]
  ELSE CanonPlacement(O, Shape[t], Hist(t), DevNoLfsCheck, DevFracSameGpu)

GrantEffect(t) ==
  LET p == PlacementFor(t) IN
  /\ O' = Mark(O, p, "B")
  /\ active' = active + 1
  /\ H' = [H EXCEPT ![t] = p]
  /\ hist' = IF Shape[t].colo = "none" THEN hist
             ELSE [hist EXCEPT ![Shape[t].colo] = NodesOf(p), ![TAGGED] = @ \cup NodesOf(p)]
  /\ where' = [where EXCEPT ![t] = "started"]
  /\ rep' = [rep EXCEPT ![t] = @ + 1]

FailEffect(t) ==
  /\ where' = [where EXCEPT ![t] = "failed"]
  /\ rep' = [rep EXCEPT ![t] = @ + 1]
  /\ UNCHANGED <<O, active, H, hist>>

(* ------------------------------------------------------------------------ *)
(* the scheduling loop                                                      *)
(* ------------------------------------------------------------------------ *)
Perms(S) == {s \in [1 .. Cardinality(S) -> S] : \A i, j \in DOMAIN s : i # j => s[i] # s[j]}
\* wait pool pass: priority descending, any order inside a priority class
PassOrders(S) == {s \in Perms(S) : \A i, j \in DOMAIN s : i < j => Prio(s[i]) >= Prio(s[j])}
\* incoming: priority descending, ranks descending
IncOrders(S)  == {s \in PassOrders(S) : \A i, j \in DOMAIN s :
                     (i < j /\ Prio(s[i]) = Prio(s[j])) => Shape[s[i]].ranks >= Shape[s[j]].ranks}

Top ==
  /\ pc = "top"
  /\ act' = FALSE /\ uany' = FALSE /\ lastw' = FALSE /\ curPrio' = -1
  /\ IF resources /\ pool # {}
     THEN /\ pc' = "wait" /\ rwait' = "T" /\ todo' \in PassOrders(pool)
     ELSE /\ pc' = "inc"  /\ rwait' = (IF resources THEN "T" ELSE "F") /\ todo' = <<>>
  /\ UNCHANGED <<O, active, pool, qS, qU, plist, clist, resources, rinc, towait, toSched,
                 hist, H, where, rep, rel, done, creq>>

WaitTry ==
  /\ pc = "wait" /\ todo # <<>>
  /\ LET t == Head(todo) out == TryOutcome(t) IN
     \/ /\ out = "grant" /\ GrantEffect(t)
        /\ pool' = pool \ {t} /\ act' = TRUE /\ todo' = Tail(todo) /\ UNCHANGED rwait
     \/ /\ out = "raise" /\ FailEffect(t)
        /\ pool' = pool \ {t} /\ todo' = Tail(todo) /\ UNCHANGED <<act, rwait>>
     \/ /\ out = "nofit" /\ rwait' = "F"
        \* lazy_bisect may skip the remaining (larger) tasks of this class
        /\ todo' \in {Tail(todo), SelectSeq(Tail(todo), LAMBDA u : Prio(u) # Prio(t))}
        /\ UNCHANGED <<O, active, pool, act, hist, H, where, rep>>
  /\ UNCHANGED <<qS, qU, plist, clist, pc, resources, rinc, towait, toSched, curPrio,
                 lastw, uany, rel, done, creq>>

WaitEnd ==
  /\ pc = "wait" /\ todo = <<>> /\ pc' = "inc"
  /\ UNCHANGED <<O, active, pool, qS, qU, plist, clist, resources, rwait, rinc, act, todo,
                 towait, toSched, curPrio, lastw, uany, hist, H, where, rep, rel, done, creq>>

IncGet ==
  /\ pc = "inc" /\ qS # <<>>
  /\ LET it == Head(qS) IN
     /\ qS' = Tail(qS)
     /\ IF it.k = "C"
        THEN LET rm == pool \cap it.ts IN
             /\ pool' = pool \ rm
             /\ where' = [t \in Tasks |-> IF t \in rm THEN "canceled" ELSE where[t]]
             /\ rep' = [t \in Tasks |-> IF t \in rm THEN rep[t] + 1 ELSE rep[t]]
             /\ UNCHANGED toSched
        ELSE LET bad == {t \in it.ts : Shape[t].ranks <= 0}
                 keep == IF DevRanksFallthrough THEN it.ts ELSE it.ts \ bad IN
             /\ toSched' = toSched \cup keep
             /\ where' = [t \in Tasks |-> IF t \in keep THEN "sched"
                                          ELSE IF t \in bad THEN "failed" ELSE where[t]]
             /\ rep' = [t \in Tasks |-> IF t \in bad THEN rep[t] + 1 ELSE rep[t]]
             /\ UNCHANGED pool
  /\ UNCHANGED <<O, active, qU, plist, clist, pc, resources, rwait, rinc, act, todo,
                 towait, curPrio, lastw, uany, hist, H, rel, done, creq>>

IncDone ==
  /\ pc = "inc" /\ qS = <<>>
  /\ IF toSched = {}
     THEN /\ rinc' = "N" /\ pc' = "unsched" /\ UNCHANGED <<act, todo>>
     ELSE /\ pc' = "isched" /\ act' = TRUE /\ todo' \in IncOrders(toSched) /\ UNCHANGED rinc
  /\ UNCHANGED <<O, active, pool, qS, qU, plist, clist, resources, rwait,
                 towait, toSched, curPrio, lastw, uany, hist, H, where, rep, rel, done, creq>>

\* one task of the incoming bulk: start / wait / fail
ITry ==
  /\ pc = "isched" /\ todo # <<>>
  /\ LET t == Head(todo) IN
     /\ (towait = {} \/ Prio(t) = curPrio)
     /\ curPrio' = Prio(t)
     /\ todo' = Tail(todo)
     /\ IF Supplied[t] # <<>> /\ DevSuppliedUnmarked
        THEN \* as coded: started with the application's slots, nothing marked
             /\ H' = [H EXCEPT ![t] = Supplied[t]]
             /\ where' = [where EXCEPT ![t] = "started"]
             /\ rep' = [rep EXCEPT ![t] = @ + 1]
             /\ lastw' = (IF Prio(t) = curPrio THEN lastw ELSE FALSE)
             /\ UNCHANGED <<O, active, hist, towait>>
        ELSE LET out == TryOutcome(t) IN
             \/ /\ out = "grant" /\ GrantEffect(t)
                /\ lastw' = (IF Prio(t) = curPrio THEN lastw ELSE FALSE) /\ UNCHANGED towait
             \/ /\ out = "raise" /\ FailEffect(t)
                /\ lastw' = (IF Prio(t) = curPrio THEN lastw ELSE FALSE) /\ UNCHANGED towait
             \/ /\ out = "nofit" /\ towait' = towait \cup {t} /\ lastw' = TRUE
                /\ UNCHANGED <<O, active, hist, H, where, rep>>
  /\ UNCHANGED <<pool, qS, qU, plist, clist, pc, resources, rwait, rinc, act,
                 toSched, uany, rel, done, creq>>

\* insert into the wait pool, then the post-insert cancel check (is_canceled)
IInsert ==
  /\ pc = "isched" /\ towait # {}
  /\ (IF todo = <<>> THEN TRUE ELSE Prio(Head(todo)) # curPrio)
  /\ \E t \in towait :
       /\ towait' = towait \ {t}
       /\ IF t \in clist
          THEN /\ clist' = clist \ {t}
               /\ where' = [where EXCEPT ![t] = "canceled"]
               /\ rep' = [rep EXCEPT ![t] = @ + 1]
               /\ UNCHANGED pool
          ELSE /\ pool' = pool \cup {t}
               /\ where' = [where EXCEPT ![t] = "waiting"]
               /\ UNCHANGED <<clist, rep>>
  /\ UNCHANGED <<O, active, qS, qU, plist, pc, resources, rwait, rinc, act, todo,
                 toSched, curPrio, lastw, uany, hist, H, rel, done, creq>>

IDone ==
  /\ pc = "isched" /\ todo = <<>> /\ towait = {}
  /\ rinc' = (IF lastw THEN "F" ELSE "T")
  /\ toSched' = {} /\ pc' = "unsched"
  /\ UNCHANGED <<O, active, pool, qS, qU, plist, clist, resources, rwait, act, todo,
                 towait, curPrio, lastw, uany, hist, H, where, rep, rel, done, creq>>

\* _unschedule_completed: one unschedule message
UGet ==
  /\ pc = "unsched" /\ qU # <<>>
  /\ LET t == Head(qU) IN
     /\ qU' = Tail(qU)
     /\ active' = active - 1
     /\ O' = Mark(O, H[t], "F")
     /\ H' = [H EXCEPT ![t] = <<>>]
     /\ rel' = [rel EXCEPT ![t] = @ + 1]
     /\ where' = [where EXCEPT ![t] = "released"]
  /\ uany' = TRUE
  /\ UNCHANGED <<pool, qS, plist, clist, pc, resources, rwait, rinc, act, todo,
                 towait, toSched, curPrio, lastw, hist, rep, done, creq>>

UDone ==
  /\ pc = "unsched" /\ qU = <<>>
  /\ LET r1 == IF resources /\ rwait = "F" /\ rinc = "F" THEN FALSE ELSE resources
         r2 == IF ~r1 /\ uany /\ ~DevNoWakeOnRelease THEN TRUE ELSE r1
     IN  resources' = r2
  /\ pc' = IF act \/ uany THEN "top" ELSE "sleep"
  /\ UNCHANGED <<O, active, pool, qS, qU, plist, clist, rwait, rinc, act, todo,
                 towait, toSched, curPrio, lastw, uany, hist, H, where, rep, rel, done, creq>>

Sleep ==
  /\ pc = "sleep" /\ pc' = "top"
  /\ UNCHANGED <<O, active, pool, qS, qU, plist, clist, resources, rwait, rinc, act, todo,
                 towait, toSched, curPrio, lastw, uany, hist, H, where, rep, rel, done, creq>>

Loop == Top \/ WaitTry \/ WaitEnd \/ IncGet \/ IncDone \/ ITry \/ IInsert \/ IDone
          \/ UGet \/ UDone \/ Sleep

Env == \/ \E B \in SUBSET Tasks : Arrive(B)
       \/ \E t \in Tasks : CancelP(t) \/ CancelC1(t) \/ CancelC2(t) \/ Complete(t)

Next == Loop \/ Env
Spec == Init /\ [][Next]_vars
FairSpec == Spec /\ WF_vars(Loop)

(* ------------------------------------------------------------------------ *)
(* properties                                                               *)
(* ------------------------------------------------------------------------ *)
TypeOK ==
  /\ pc \in {"top", "wait", "inc", "isched", "unsched", "sleep"}
  /\ pool \subseteq Tasks /\ towait \subseteq Tasks /\ toSched \subseteq Tasks
  /\ \A t \in Tasks : where[t] \in {"none", "queued", "sched", "waiting", "started",
                                   "released", "failed", "canceled"}

\* C01
InvNoCoreShared   == NoCoreShared(H)
InvGpuShareBound  == GpuShareBound(H)
InvLfsBound       == LfsBound(H)
InvMemBound       == MemBound(H)
InvNoBlocked      == NoBlocked(H)
InvOnlyNodes      == OnlyNodes(H)
InvOccMatchesHeld == OccMatchesHeld(O, H)

\* C02
InvShape == \A t \in Tasks : H[t] # <<>> => IF Supplied[t] # <<>> /\ ~DevSuppliedUnmarked
                                              THEN H[t] = Supplied[t]
                                              ELSE ShapeOK(Shape[t], H[t], {})
ActColo  == [][\A t \in Tasks : (H[t] = <<>> /\ H'[t] # <<>>) => ShapeColo(Shape[t], H'[t], Hist(t))]_vars
InvRejectOversize == \A t \in Tasks : (Oversize(Shape[t]) /\ Supplied[t] = <<>>) => H[t] = <<>>

\* C03
InvReleaseOnce   == \A t \in Tasks : rel[t] <= 1
InvIdleIsInitial == (Holding(H) = {}) => (O = InitOcc /\ active = 0)
InvActiveCount   == active = Cardinality(Holding(H))
ActRestores      == [][\A t \in Tasks : (H[t] # <<>> /\ H'[t] = <<>>) => O' = Mark(O, H[t], "F")]_vars

\* C04
InvPoolMatches  == pool = {t \in Tasks : where[t] = "waiting"}
InvReportedOnce == \A t \in Tasks : rep[t] <= 1
InvStartedHolds == \A t \in Tasks : where[t] = "started" => H[t] # <<>>

\* quiescence obligations: the loop goes to sleep only if ...
InvSleepAlone == (pc = "sleep" /\ Cardinality(pool) = 1)
                    => \A t \in pool : ~FitsNowS(t)                \* AloneStarts
InvSleepIdle  == (pc = "sleep" /\ Holding(H) = {} /\ pool # {})
                    => \E t \in pool : ~FitsIdleS(t)               \* IdleStartsSome
InvSleepUnfit == (pc = "sleep" /\ Holding(H) = {} /\ Cardinality(pool) = 1)
                    => FALSE                                       \* UnfitAloneFails / AloneStarts
\* a task that fits the idle pilot is never failed for lack of resources
ActNoFalseFailure ==
  [][\A t \in Tasks : (where[t] # "failed" /\ where'[t] = "failed")
        => (Oversize(Shape[t]) \/ ~FitsIdleS(t))]_vars
\* when only one of two waiting tasks can run, the higher priority one is started
ActPriorityWins ==
  [][\A t, u \in Tasks :
        (pc = "wait" /\ pool = {t, u} /\ t # u /\ where[t] = "waiting" /\ where'[t] = "started"
         /\ Prio(u) > Prio(t)) => ~FitsNowS(u)]_vars

\* liveness (checked under FairSpec, no cancel): a waiting task that fits from
\* some point on is eventually started
LiveStarts == \A t \in Tasks : [](where[t] = "waiting" => <>(where[t] # "waiting" \/ ~FitsNow(t)))

\* C04, no starvation: as long as the loop keeps running and every started task is
\* eventually reported back by the executor, every task the scheduler accepted leaves the
\* queue / the wait pool (started, failed or canceled) - whatever else arrives, completes
\* or is canceled in between.  This is where the `resources` flag logic of the loop
\* (retry the pool only if something was released) is on trial.
FairLive == Spec /\ WF_vars(Loop) /\ \A t \in Tasks : WF_vars(Complete(t))
LiveNoStarve == \A t \in Tasks : (where[t] \in {"queued", "waiting"}) ~> (where[t] \notin {"queued", "waiting"})
\* ... and whatever was started and completed is eventually released
LiveReleased == \A t \in Tasks : (t \in done) ~> (where[t] = "released")
=============================================================================
