------------------------------ MODULE SchedOps ------------------------------
(***************************************************************************)
(* Pure operators shared by the design model (AgentSched) and the trace    *)
(* monitor (AgentSchedTrace) of the pilot scheduler                        *)
(* (agent/scheduler/base.py + continuous.py).                              *)
(*                                                                         *)
(* Occupancy O == [cores : [Node -> [Core -> {"F","B","D"}]],              *)
(*                 gpus  : [Node -> [Gpu  -> {"F","B","D"}]],              *)
(*                 lfs   : [Node -> Int], mem : [Node -> Int]]             *)
(*   is the code's node map (self.nodes): FREE / BUSY / DOWN markers and   *)
(*   the remaining lfs / mem per node.                                     *)
(* Shape  sh == [ranks, cpr, gpr, lfs, mem, rpn, prio, colo]               *)
(*   gpr is in share units: SU units == one whole GPU.                     *)
(* Placement p == sequence of slots                                        *)
(*   [node, cores : SUBSET Core, gpus : SUBSET (Gpu \X 1..SU), lfs, mem]   *)
(***************************************************************************)
EXTENDS Naturals, Integers, Sequences, FiniteSets, SequencesExt, FiniteSetsExt

CONSTANTS NNodes, NCores, NGpus, LfsCap, MemCap, BlockedCores, BlockedGpus, SU

Node == 0 .. (NNodes - 1)
Core == 0 .. (NCores - 1)
Gpu  == 0 .. (NGpus  - 1)

Max2(a, b) == IF a > b THEN a ELSE b
Min2(a, b) == IF a < b THEN a ELSE b
BIG       == 9999

SumOver(S, f(_)) == FoldSet(LAMBDA x, acc : acc + f(x), 0, S)

InitOcc ==
  [cores |-> [n \in Node |-> [c \in Core |-> IF c \in BlockedCores THEN "D" ELSE "F"]],
   gpus  |-> [n \in Node |-> [g \in Gpu  |-> IF g \in BlockedGpus  THEN "D" ELSE "F"]],
   lfs   |-> [n \in Node |-> LfsCap],
   mem   |-> [n \in Node |-> MemCap]]

CprOf(sh) == Max2(sh.cpr, 1)
\* usable cores / gpus per node (the RM reduces cores_per_node by the blocked ones)
UCores == NCores - Cardinality(BlockedCores \cap Core)
UGpus  == NGpus  - Cardinality(BlockedGpus \cap Gpu)

(* ---- per-slot helpers ------------------------------------------------- *)
SlotUnits(s, g) == SumOver({x \in s.gpus : x[1] = g}, LAMBDA x : x[2])
SlotGpuSet(s)   == {x[1] : x \in s.gpus}
Idx(p)          == 1 .. Len(p)
OnNode(p, n)    == {i \in Idx(p) : p[i].node = n}
NodesOf(p)      == {p[i].node : i \in Idx(p)}

(* ---- C02: the shape of a granted placement ---------------------------- *)
GpuShapeOK(sh, s) ==
  IF sh.gpr = 0 THEN s.gpus = {}
  ELSE IF sh.gpr >= SU
       THEN /\ sh.gpr % SU = 0
            /\ Cardinality(s.gpus) = sh.gpr \div SU
            /\ Cardinality(SlotGpuSet(s)) = sh.gpr \div SU
            /\ \A x \in s.gpus : x[2] = SU
       ELSE /\ Cardinality(s.gpus) = 1
            /\ \A x \in s.gpus : x[2] = sh.gpr

ShapeRanks(sh, p) == Len(p) = sh.ranks
ShapeNodes(sh, p) == \A i \in Idx(p) : p[i].node \in Node
ShapeCores(sh, p) == \A i \in Idx(p) : /\ p[i].cores \subseteq Core
                                        /\ Cardinality(p[i].cores) = CprOf(sh)
ShapeGpus(sh, p)  == \A i \in Idx(p) : /\ SlotGpuSet(p[i]) \subseteq Gpu
                                        /\ GpuShapeOK(sh, p[i])
ShapeLfsMem(sh, p) == \A i \in Idx(p) : p[i].lfs = sh.lfs /\ p[i].mem = sh.mem
ShapeRpn(sh, p)   == sh.rpn > 0 => \A n \in NodesOf(p) : Cardinality(OnNode(p, n)) <= sh.rpn
\* colo: hist is the set of nodes used for the tag before ({} == tag not seen yet)
ShapeColo(sh, p, hist) == (sh.colo # "none" /\ hist # {}) => NodesOf(p) \subseteq hist

ShapeOK(sh, p, hist) ==
  /\ ShapeRanks(sh, p) /\ ShapeNodes(sh, p) /\ ShapeCores(sh, p)
  /\ ShapeGpus(sh, p)  /\ ShapeLfsMem(sh, p) /\ ShapeRpn(sh, p)
  /\ ShapeColo(sh, p, hist)

(* requests that can never be granted: must be rejected, never shrunk *)
Oversize(sh) ==
  \/ sh.ranks <= 0
  \/ CprOf(sh) > UCores
  \/ sh.gpr > UGpus * SU
  \/ (sh.gpr > SU /\ sh.gpr % SU # 0)
  \/ sh.lfs > LfsCap
  \/ sh.mem > MemCap

(* ---- internal consistency of one placement (ranks of ONE task) -------- *)
SelfDisjoint(p) ==
  /\ \A i, j \in Idx(p) : (i # j /\ p[i].node = p[j].node) => p[i].cores \cap p[j].cores = {}
  /\ \A n \in NodesOf(p) : \A g \in Gpu :
        SumOver(OnNode(p, n), LAMBDA i : SlotUnits(p[i], g)) <= SU

(* ---- C01: may p be taken from occupancy O? ---------------------------- *)
CoresFree(O, p) == \A i \in Idx(p) : \A c \in p[i].cores : O.cores[p[i].node][c] = "F"
GpusFree(O, p)  == \A i \in Idx(p) : \A g \in SlotGpuSet(p[i]) : O.gpus[p[i].node][g] = "F"
LfsFits(O, p)   == \A n \in NodesOf(p) : SumOver(OnNode(p, n), LAMBDA i : p[i].lfs) <= O.lfs[n]
MemFits(O, p)   == \A n \in NodesOf(p) : SumOver(OnNode(p, n), LAMBDA i : p[i].mem) <= O.mem[n]

CanTake(O, p) == /\ SelfDisjoint(p) /\ CoresFree(O, p) /\ GpusFree(O, p)
                 /\ LfsFits(O, p) /\ MemFits(O, p)

(* ---- a placement decided by the application (task description carries slots): it is the
        requested shape; usable at all iff every named resource exists, none is blocked and
        no rank of the task overlaps another one ---------------------------------------- *)
SupInRange(p) == \A i \in Idx(p) : /\ p[i].node \in Node /\ p[i].cores \subseteq Core
                                    /\ SlotGpuSet(p[i]) \subseteq Gpu
SupUsable(p)  == /\ SupInRange(p)
                 /\ \A i \in Idx(p) : /\ p[i].cores \cap BlockedCores = {}
                                       /\ SlotGpuSet(p[i]) \cap BlockedGpus = {}
                 /\ SelfDisjoint(p)

(* ---- effect of _change_slot_states ------------------------------------ *)
\* as coded: every listed core / gpu gets the new marker (a fractional share
\* marks the whole GPU), lfs / mem are debited / credited per slot.
Mark(O, p, new) ==
  LET sgn == IF new = "B" THEN -1 ELSE 1 IN
  [cores |-> [n \in Node |-> [c \in Core |->
                 IF \E i \in OnNode(p, n) : c \in p[i].cores THEN new ELSE O.cores[n][c]]],
   gpus  |-> [n \in Node |-> [g \in Gpu |->
                 IF \E i \in OnNode(p, n) : g \in SlotGpuSet(p[i]) THEN new ELSE O.gpus[n][g]]],
   lfs   |-> [n \in Node |-> O.lfs[n] + sgn * SumOver(OnNode(p, n), LAMBDA i : p[i].lfs)],
   mem   |-> [n \in Node |-> O.mem[n] + sgn * SumOver(OnNode(p, n), LAMBDA i : p[i].mem)]]

(* ---- ghost state: H == [Tasks -> placement]  (<<>> == holds nothing) --- *)
HeldIdx(H)  == UNION {{<<t, i>> : i \in Idx(H[t])} : t \in DOMAIN H}
Holding(H)  == {t \in DOMAIN H : H[t] # <<>>}
SlotAt(H, x) == H[x[1]][x[2]]

NoCoreShared(H) ==
  \A x, y \in HeldIdx(H) :
     (x # y /\ SlotAt(H, x).node = SlotAt(H, y).node)
        => SlotAt(H, x).cores \cap SlotAt(H, y).cores = {}

GpuShareBound(H) ==
  \A n \in Node : \A g \in Gpu :
     SumOver({x \in HeldIdx(H) : SlotAt(H, x).node = n},
             LAMBDA x : SlotUnits(SlotAt(H, x), g)) <= SU

LfsBound(H) ==
  \A n \in Node : SumOver({x \in HeldIdx(H) : SlotAt(H, x).node = n},
                          LAMBDA x : SlotAt(H, x).lfs) <= LfsCap
MemBound(H) ==
  \A n \in Node : SumOver({x \in HeldIdx(H) : SlotAt(H, x).node = n},
                          LAMBDA x : SlotAt(H, x).mem) <= MemCap

NoBlocked(H) ==
  \A x \in HeldIdx(H) : /\ SlotAt(H, x).cores \cap BlockedCores = {}
                        /\ SlotGpuSet(SlotAt(H, x)) \cap BlockedGpus = {}

OnlyNodes(H) == \A x \in HeldIdx(H) : SlotAt(H, x).node \in Node

\* the code's map agrees with what is really held
OccMatchesHeld(O, H) ==
  /\ \A n \in Node : \A c \in Core :
        O.cores[n][c] = (IF c \in BlockedCores THEN "D"
                         ELSE IF \E x \in HeldIdx(H) : SlotAt(H, x).node = n /\ c \in SlotAt(H, x).cores
                              THEN "B" ELSE "F")
  /\ \A n \in Node : \A g \in Gpu :
        O.gpus[n][g] = (IF g \in BlockedGpus THEN "D"
                        ELSE IF \E x \in HeldIdx(H) : SlotAt(H, x).node = n /\ g \in SlotGpuSet(SlotAt(H, x))
                             THEN "B" ELSE "F")
  /\ \A n \in Node :
        /\ O.lfs[n] = LfsCap - SumOver({x \in HeldIdx(H) : SlotAt(H, x).node = n}, LAMBDA x : SlotAt(H, x).lfs)
        /\ O.mem[n] = MemCap - SumOver({x \in HeldIdx(H) : SlotAt(H, x).node = n}, LAMBDA x : SlotAt(H, x).mem)

(* ---- the code's accounting: how many slots of shape sh fit on node n --- *)
FreeCores(O, n) == {c \in Core : O.cores[n][c] = "F"}
FreeGpus(O, n)  == {g \in Gpu  : O.gpus[n][g]  = "F"}

\* static limit (slots_per_node in Continuous.schedule_task)
SPN(sh) ==
  LET a == UCores \div CprOf(sh)
      b == IF sh.rpn > 0 THEN Min2(a, sh.rpn) ELSE a
      c == IF sh.gpr > 0 THEN Min2(b, (UGpus * SU) \div sh.gpr) ELSE b
      d == IF sh.lfs > 0 THEN Min2(c, LfsCap \div sh.lfs) ELSE c
  IN       IF sh.mem > 0 THEN Min2(d, MemCap \div sh.mem) ELSE d

GpuSlots(O, n, sh, fracSame) ==
  IF sh.gpr = 0 THEN BIG
  ELSE IF sh.gpr >= SU THEN Cardinality(FreeGpus(O, n)) \div (sh.gpr \div SU)
  ELSE IF fracSame THEN (IF FreeGpus(O, n) = {} THEN 0 ELSE BIG)
  ELSE Cardinality(FreeGpus(O, n)) * (SU \div sh.gpr)

Avail(O, n, sh, noLfs, fracSame) ==
  LET a == Cardinality(FreeCores(O, n)) \div CprOf(sh)
      b == Min2(a, GpuSlots(O, n, sh, fracSame))
      c == IF sh.lfs > 0 /\ ~noLfs THEN Min2(b, Max2(O.lfs[n], 0) \div sh.lfs) ELSE b
      d == IF sh.mem > 0 /\ ~noLfs THEN Min2(c, Max2(O.mem[n], 0) \div sh.mem) ELSE c
  IN  Min2(d, SPN(sh))

\* nodes a task may use: colocate tags restrict to the tag's history
Eligible(sh, hist) == IF sh.colo # "none" /\ hist # {} THEN hist \cap Node ELSE Node

\* scattered mode: a request fits iff the eligible nodes offer enough slots
Fits(O, sh, hist, noLfs, fracSame) ==
  /\ ~Oversize(sh)
  /\ SumOver(Eligible(sh, hist), LAMBDA n : Avail(O, n, sh, noLfs, fracSame)) >= sh.ranks

FitsIdle(sh, hist) == Fits(InitOcc, sh, hist, FALSE, FALSE)

\* non-scattered mode (Continuous.schedule_task with scattered = FALSE): ONE pass over the nodes in
\* cyclic order from the persistent offset `off`; a stretch of nodes may be partial on its first and on
\* its last node only (an MPI request), every node in between gives a full node's worth of slots; a node
\* which yields nothing breaks the stretch and the search starts afresh behind it; nodes the colocate
\* history excludes are skipped without breaking the stretch.
RECURSIVE ContSearch(_, _, _, _, _, _, _)
ContSearch(O, sh, hist, off, i, rem, first) ==
  IF rem = 0 THEN TRUE
  ELSE IF i >= NNodes THEN FALSE
  ELSE LET n       == (off + i) % NNodes
           spn     == SPN(sh)
           want    == Min2(rem, spn)
           cap     == Avail(O, n, sh, FALSE, FALSE)
           partial == sh.ranks > 1 /\ (first \/ rem < spn)
           found   == IF partial THEN Min2(cap, want) ELSE (IF cap >= want THEN want ELSE 0)
       IN  IF n \notin Eligible(sh, hist) THEN ContSearch(O, sh, hist, off, i + 1, rem, first)
           ELSE IF found = 0 THEN ContSearch(O, sh, hist, off, i + 1, sh.ranks, TRUE)
           ELSE ContSearch(O, sh, hist, off, i + 1, rem - found, FALSE)

FitsCont(O, sh, hist, off) == ~Oversize(sh) /\ SPN(sh) > 0 /\ ContSearch(O, sh, hist, off, 0, sh.ranks, TRUE)

(* ---- canonical placement: what a first-fit search from node 0 yields --- *)
NodeSlots(O, n, sh, k, fracSame) ==
  LET fc  == SetToSortSeq(FreeCores(O, n), <)
      fg  == SetToSortSeq(FreeGpus(O, n), <)
      cpr == CprOf(sh)
      w   == sh.gpr \div SU
      per == IF sh.gpr > 0 /\ sh.gpr < SU THEN SU \div sh.gpr ELSE 1
  IN [i \in 1 .. k |->
        [node  |-> n,
         cores |-> {fc[j] : j \in ((i - 1) * cpr + 1) .. (i * cpr)},
         gpus  |-> IF sh.gpr = 0 THEN {}
                   ELSE IF sh.gpr >= SU THEN {<<fg[j], SU>> : j \in ((i - 1) * w + 1) .. (i * w)}
                   ELSE IF fracSame THEN {<<fg[1], sh.gpr>>}
                   ELSE {<<fg[((i - 1) \div per) + 1], sh.gpr>>},
         lfs   |-> sh.lfs,
         mem   |-> sh.mem]]

RECURSIVE PlaceFrom(_, _, _, _, _, _, _)
PlaceFrom(O, sh, hist, n, rem, noLfs, fracSame) ==
  IF rem = 0 \/ n >= NNodes THEN <<>>
  ELSE LET k == IF n \in Eligible(sh, hist) THEN Min2(rem, Avail(O, n, sh, noLfs, fracSame)) ELSE 0
       IN  NodeSlots(O, n, sh, k, fracSame) \o PlaceFrom(O, sh, hist, n + 1, rem - k, noLfs, fracSame)

CanonPlacement(O, sh, hist, noLfs, fracSame) == PlaceFrom(O, sh, hist, 0, sh.ranks, noLfs, fracSame)
=============================================================================
