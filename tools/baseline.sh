#!/bin/sh
# run the repository's pinned baseline (guard OFF) and compare with BASELINE.json
unset RADICAL_PILOT_VERIF
out=$(mktemp /tmp/rp_base_XXXX.xml)
cd /repo && /venv/bin/python -m pytest -ra -q -p no:cacheprovider --timeout=900 --continue-on-collection-errors --junitxml=$out >/dev/null 2>&1
/venv/bin/python - "$out" <<'PY'
import sys, json, xml.etree.ElementTree as ET
base = set(json.load(open('/root/.vp/BASELINE.json'))['stable_pass'])
passed = set()
for tc in ET.parse(sys.argv[1]).getroot().iter('testcase'):
    if not any(c.tag in ('failure', 'error', 'skipped') for c in tc):
        passed.add('%s::%s' % (tc.get('classname'), tc.get('name')))
missing = sorted(base - passed)
print('baseline: %d/%d stable tests pass' % (len(base & passed), len(base)))
for m in missing:
    print('  MISSING', m)
sys.exit(1 if missing else 0)
PY
rc=$?
rm -f $out /repo/rm_info.json
exit $rc
