#!/bin/sh
# round 2: candidates under /tmp/mut2, stored as <Cxx>-c / <Cxx>-d
mkdir -p /tmp/mut2/results
for d in /tmp/mut2/C*; do
  pid=$(basename $d)
  for w in a b; do
    [ -f $d/mutant_$w.diff ] || continue
    [ -f $d/demo_$w.py ] || continue
    [ -f $d/notes.md ] || continue
    [ -f /tmp/mut2/results/$pid-$w.log ] && continue
    lab=c; [ $w = b ] && lab=d
    /verif/tools/try_mutant.py $pid $w --src /tmp/mut2 --label $lab --keep "$@" > /tmp/mut2/results/$pid-$w.log 2>&1
    echo "$pid-$w: $(grep -h '^confirm\|^check' /tmp/mut2/results/$pid-$w.log | cut -c1-170 | tr '\n' ' ')"
  done
done
