#!/venv/bin/python
'''
tools/seeded_matrix.py [--jobs 3] [--only C01-a,C02-b] [--out /tmp/seedmx]

Re-run every stored seeded change against the CURRENT /repo HEAD and the current checks:
apply seeded/<id>/patch.diff to a scratch worktree (outside /repo and /verif), run the
demonstration (must fail with the change) and the quick check(s) recorded in meta.json with
RP_VERIF_SRC=<scratch>/src.  Prints one line per change: CAUGHT / MISSED / CONFLICT
(patch no longer applies to HEAD) / DEMO-PASSES (the change no longer manifests).
Evidence files are not touched (EVIDENCE_DIR is redirected).
'''
import os, sys, json, glob, shutil, argparse, subprocess, tempfile
from concurrent.futures import ThreadPoolExecutor

VERIF = os.path.dirname(os.path.dirname(os.path.abspath(__file__)))


def sh(cmd, env=None, cwd=None, timeout=3600):
    p = subprocess.run(cmd, shell=True, cwd=cwd, env=env, timeout=timeout,
                       stdout=subprocess.PIPE, stderr=subprocess.STDOUT)
    return p.returncode, p.stdout.decode('utf-8', 'replace')


def one(sid, out):
    d    = os.path.join(VERIF, 'seeded', sid)
    meta = json.load(open(os.path.join(d, 'meta.json')))
    wt   = tempfile.mkdtemp(prefix='rp_seedmx_', dir='/tmp'); os.rmdir(wt)
    res  = {'id': sid}
    sh('git -C /repo worktree add -q --detach %s HEAD' % wt)
    try:
        rc, o = sh('git -C %s apply %s' % (wt, os.path.join(d, 'patch.diff')))
        if rc:
            res['verdict'] = 'CONFLICT'; res['detail'] = o[-300:]
            return res
        rc, o = sh('/venv/bin/python %s' % os.path.join(d, 'demo.py'), env=dict(os.environ, RP_SRC=wt + '/src'),
                   cwd='/tmp', timeout=900)
        res['demo_rc'] = rc
        checks = [c for c, v in meta.get('checks', {}).items() if v.get('rc') == 1] or [sid.split('-')[0]]
        res['checks'] = {}
        ev = tempfile.mkdtemp(prefix='rp_seedev_', dir='/tmp')
        for c in checks:
            env = dict(os.environ, RP_VERIF_SRC=wt + '/src', RP_VERIF_EVIDENCE=ev)
            rc, o = sh('./check %s --tier quick' % c, cwd=VERIF, env=env)
            viol = [l for l in o.split('\n') if l.startswith('VIOLATION')]
            res['checks'][c] = {'rc': rc, 'first': viol[0][:260] if viol else o[-200:]}
        shutil.rmtree(ev, ignore_errors=True)
        caught = any(v['rc'] == 1 for v in res['checks'].values())
        broken = any(v['rc'] not in (0, 1) for v in res['checks'].values())
        res['verdict'] = ('MACHINERY' if broken else 'CAUGHT' if caught else
                          ('DEMO-PASSES' if res['demo_rc'] == 0 else 'MISSED'))
        return res
    finally:
        sh('git -C /repo worktree remove --force %s' % wt)
        shutil.rmtree(wt, ignore_errors=True)
        json.dump(res, open(os.path.join(out, sid + '.json'), 'w'), indent=1)
        print('%-7s %-11s %s' % (sid, res.get('verdict'), json.dumps(res.get('checks', res.get('detail', '')))[:230]))
        sys.stdout.flush()


def main():
    ap = argparse.ArgumentParser()
    ap.add_argument('--jobs', type=int, default=3); ap.add_argument('--only'); ap.add_argument('--out', default='/tmp/seedmx')
    a = ap.parse_args()
    os.makedirs(a.out, exist_ok=True)
    ids = sorted(os.path.basename(p) for p in glob.glob(os.path.join(VERIF, 'seeded', 'C*')))
    if a.only:
        ids = [i for i in ids if i in a.only.split(',')]
    ids = [i for i in ids if not os.path.exists(os.path.join(a.out, i + '.json'))]
    with ThreadPoolExecutor(a.jobs) as ex:
        list(ex.map(lambda i: one(i, a.out), ids))


if __name__ == '__main__':
    main()
