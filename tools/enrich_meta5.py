#!/usr/bin/env python3
'''round 5: add breaks_property / change / needs_to_manifest / origin to seeded/<Cxx>-<e|f>/meta.json'''
import json, os, sys
d = json.load(open(sys.argv[1] if len(sys.argv) > 1 else '/tmp/mut5/descr.json'))
for key, (change, needs) in sorted(d.items()):
    p = '/verif/seeded/%s/meta.json' % key
    if not os.path.exists(p):
        print('missing', key); continue
    m = json.load(open(p))
    m['breaks_property'] = key.split('-')[0]
    m['change'] = change
    m['needs_to_manifest'] = needs
    m['origin'] = ('independent sub-agent (round 5) given only the property text, a scratch worktree and the '
                   'list of earlier changes to avoid')
    json.dump(m, open(p, 'w'), indent=1)
    c = m['checks'].get(key.split('-')[0], {})
    print(key, 'confirmed' if m.get('confirmed') else 'NOT CONFIRMED', 'rc=%s' % c.get('rc'))
