#!/bin/sh
# round 3: candidates under /tmp/mut3, stored as <Cxx>-e / <Cxx>-f
mkdir -p /tmp/mut3/results
for d in /tmp/mut3/C*; do
  pid=$(basename $d)
  for w in a b; do
    [ -f $d/mutant_$w.diff ] || continue
    [ -f $d/demo_$w.py ] || continue
    [ -f $d/notes.md ] || continue
    [ -f /tmp/mut3/results/$pid-$w.log ] && continue
    lab=e; [ $w = b ] && lab=f
    /verif/tools/try_mutant.py $pid $w --src /tmp/mut3 --label $lab --keep "$@" > /tmp/mut3/results/$pid-$w.log 2>&1
    echo "$pid-$w: $(grep -h '^confirm\|^check' /tmp/mut3/results/$pid-$w.log | cut -c1-170 | tr '\n' ' ')"
  done
done
