#!/bin/sh
# round 5: candidates under /tmp/mut5, stored as <Cxx>-i / <Cxx>-j
mkdir -p /tmp/mut5/results
for d in /tmp/mut5/C*; do
  pid=$(basename $d)
  for w in a b; do
    [ -f $d/mutant_$w.diff ] || continue
    [ -f $d/demo_$w.py ] || continue
    [ -f $d/notes.md ] || continue
    [ -f /tmp/mut5/results/$pid-$w.log ] && continue
    lab=i; [ $w = b ] && lab=j
    /verif/tools/try_mutant.py $pid $w --src /tmp/mut5 --label $lab --keep "$@" > /tmp/mut5/results/$pid-$w.log 2>&1
    echo "$pid-$w: $(grep -h '^confirm\|^check' /tmp/mut5/results/$pid-$w.log | cut -c1-170 | tr '\n' ' ')"
  done
done
