#!/bin/sh
# evaluate every delivered candidate change that has no result yet (sequentially)
mkdir -p /tmp/mut/results
for d in /tmp/mut/C*; do
  pid=$(basename $d)
  for w in a b; do
    [ -f $d/mutant_$w.diff ] || continue
    [ -f $d/demo_$w.py ] || continue
    [ -f /tmp/mut/results/$pid-$w.log ] && continue
    /verif/tools/try_mutant.py $pid $w --keep "$@" > /tmp/mut/results/$pid-$w.log 2>&1
    tail -3 /tmp/mut/results/$pid-$w.log | head -2
  done
done
