#!/venv/bin/python
'''
tools/try_mutant.py <Cxx> <a|b> [--checks C01,C03] [--tier quick] [--inplace] [--keep]

1. confirm the candidate change in a scratch worktree of /repo (outside /repo and /verif):
   the diff applies, the repository's 95 baseline tests still pass, the demonstration fails
   with the change and passes without it;
2. run the registered check(s) against the changed tree
   (default: RP_VERIF_SRC=<scratch>/src; --inplace: git -C /repo apply ... checkout -- .);
3. with --keep store patch, demonstration and meta.json under /verif/seeded/<Cxx>-<a|b>/.
The scratch worktree is removed at the end.
'''
import os, sys, json, shutil, argparse, subprocess, tempfile, time

VERIF = os.path.dirname(os.path.dirname(os.path.abspath(__file__)))


def sh(cmd, env=None, cwd=None, timeout=3600):
    p = subprocess.run(cmd, shell=True, cwd=cwd, env=env, timeout=timeout,
                       stdout=subprocess.PIPE, stderr=subprocess.STDOUT)
    return p.returncode, p.stdout.decode('utf-8', 'replace')


def baseline(tree):
    out = tempfile.mktemp(prefix='rp_mut_', suffix='.xml')
    # radical.pilot is an editable install of /repo: without this the tests in the scratch tree
    # would import the code of /repo/src, not the changed code
    sh('/venv/bin/python -m pytest -q -p no:cacheprovider --timeout=900 '
       '--continue-on-collection-errors --junitxml=%s' % out, cwd=tree,
       env=dict(os.environ, PYTHONPATH=os.path.join(tree, 'src')))
    import xml.etree.ElementTree as ET
    base = set(json.load(open('/root/.vp/BASELINE.json'))['stable_pass'])
    passed = set()
    for tc in ET.parse(out).getroot().iter('testcase'):
        if not any(c.tag in ('failure', 'error', 'skipped') for c in tc):
            passed.add('%s::%s' % (tc.get('classname'), tc.get('name')))
    os.remove(out)
    for f in ('rm_info.json',):
        try: os.remove(os.path.join(tree, f))
        except OSError: pass
    return len(base & passed), sorted(base - passed)


def main():
    ap = argparse.ArgumentParser()
    ap.add_argument('pid'); ap.add_argument('which')
    ap.add_argument('--checks'); ap.add_argument('--tier', default='quick')
    ap.add_argument('--inplace', action='store_true'); ap.add_argument('--keep', action='store_true')
    ap.add_argument('--src', default='/tmp/mut')
    ap.add_argument('--label')
    a = ap.parse_args()
    diff = '%s/%s/mutant_%s.diff' % (a.src, a.pid, a.which)
    demo = '%s/%s/demo_%s.py' % (a.src, a.pid, a.which)
    checks = (a.checks or a.pid).split(',')
    res = {'property': a.pid, 'mutant': a.which, 'checks': {}}

    wt = tempfile.mkdtemp(prefix='rp_mutwt_', dir='/tmp')
    os.rmdir(wt)
    rc, out = sh('git -C /repo worktree add -q --detach %s HEAD' % wt)
    try:
        # demo on the unchanged tree
        env = dict(os.environ, RP_SRC=wt + '/src')
        rc0, o0 = sh('/venv/bin/python %s' % demo, env=env, cwd='/tmp', timeout=600)
        rc, out = sh('git -C %s apply %s' % (wt, diff))
        res['applies'] = rc == 0
        if rc:
            print('diff does not apply:', out[-500:]); print(json.dumps(res)); return 1
        npass, missing = baseline(wt)
        rc1, o1 = sh('/venv/bin/python %s' % demo, env=env, cwd='/tmp', timeout=600)
        res.update({'baseline_pass': npass, 'baseline_missing': missing,
                    'demo_unchanged_rc': rc0, 'demo_changed_rc': rc1})
        ok = npass == 95 and rc0 == 0 and rc1 != 0
        res['confirmed'] = ok
        print('confirm: baseline %d/95, demo unchanged rc=%d, changed rc=%d -> %s'
              % (npass, rc0, rc1, 'OK' if ok else 'NOT CONFIRMED'))
        if not ok:
            print(o0[-600:]); print(o1[-600:])
        for c in checks:
            t0 = time.time()
            if a.inplace:
                sh('git -C /repo apply %s' % diff)
                try:
                    rc, out = sh('./check %s --tier %s' % (c, a.tier), cwd=VERIF)
                finally:
                    sh('git -C /repo checkout -- .')
            else:
                # evidence of runs against a changed tree goes to a scratch directory
                env2 = dict(os.environ, RP_VERIF_SRC=wt + '/src', RP_VERIF_EVIDENCE=wt + '.evidence')
                rc, out = sh('./check %s --tier %s' % (c, a.tier), cwd=VERIF, env=env2)
            viol = [l for l in out.split('\n') if l.startswith('VIOLATION')]
            res['checks'][c] = {'rc': rc, 'violations': [v[:300] for v in viol[:6]],
                                'wall_s': round(time.time() - t0, 1),
                                'tail': out[-400:] if rc not in (0, 1) else ''}
            print('check %s: rc=%d %s (%.0fs)' % (c, rc, ('DETECTED: ' + viol[0][:200]) if viol else
                                                  ('machinery failure' if rc == 2 else 'missed'),
                                                  time.time() - t0))
        if a.keep:
            d = os.path.join(VERIF, 'seeded', '%s-%s' % (a.pid, a.label or a.which))
            os.makedirs(d, exist_ok=True)
            shutil.copy(diff, os.path.join(d, 'patch.diff'))
            shutil.copy(demo, os.path.join(d, 'demo.py'))
            notes = '%s/%s/notes.md' % (a.src, a.pid)
            if os.path.exists(notes):
                shutil.copy(notes, os.path.join(d, 'notes.md'))
            res['ran'] = ('scratch worktree of /repo HEAD + patch: baseline pytest, demo with RP_SRC; '
                          'checks: ./check <id> --tier %s with %s' %
                          (a.tier, 'git -C /repo apply / checkout' if a.inplace else 'RP_VERIF_SRC=<scratch>/src'))
            json.dump(res, open(os.path.join(d, 'meta.json'), 'w'), indent=1)
        print(json.dumps({k: v for k, v in res.items() if k != 'checks'}))
        return 0
    finally:
        sh('git -C /repo worktree remove --force %s' % wt)
        shutil.rmtree(wt, ignore_errors=True)
        shutil.rmtree(wt + '.evidence', ignore_errors=True)


if __name__ == '__main__':
    sys.exit(main())
