#!/bin/sh
# round 4: candidates under /tmp/mut4, stored as <Cxx>-g / <Cxx>-h
mkdir -p /tmp/mut4/results
for d in /tmp/mut4/C*; do
  pid=$(basename $d)
  for w in a b; do
    [ -f $d/mutant_$w.diff ] || continue
    [ -f $d/demo_$w.py ] || continue
    [ -f $d/notes.md ] || continue
    [ -f /tmp/mut4/results/$pid-$w.log ] && continue
    lab=g; [ $w = b ] && lab=h
    /verif/tools/try_mutant.py $pid $w --src /tmp/mut4 --label $lab --keep "$@" > /tmp/mut4/results/$pid-$w.log 2>&1
    echo "$pid-$w: $(grep -h '^confirm\|^check' /tmp/mut4/results/$pid-$w.log | cut -c1-170 | tr '\n' ' ')"
  done
done
