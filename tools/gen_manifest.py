#!/venv/bin/python
'''regenerate /verif/MANIFEST.json from the table below (keeps it valid at all times)'''
import os, json

HERE = os.path.dirname(os.path.dirname(os.path.abspath(__file__)))

BASELINE = ("cd /repo && env -u RADICAL_PILOT_VERIF /venv/bin/python -m pytest -ra -q -p no:cacheprovider "
            "--timeout=900 --continue-on-collection-errors")

# pid -> (engine, technique, level text, level note, design ref)
CHECKS = {
 'C01': ('AgentSched', 'TLC exhaustive on AgentSched + TLC behaviours replayed into the real scheduler + trace validation by AgentSchedTrace',
         'Design model of the scheduler (occupancy map vs. ghost holdings) checked exhaustively by TLC for small '
         'layouts; every execution of the real Continuous scheduler driven by TLC-generated and seeded random '
         'environments is validated step by step by the TLA+ trace monitor, which evaluates the no-oversubscription '
         'invariants on what tasks really hold after every event.',
         'Bounded: 2-4 nodes, <= 6 tasks per run; queues are FIFO/lossless; node list from the real Fork RM. '
         'Rig binds to internal names (_try_allocation, _schedule_tasks, ...).', '5/C01'),
 'C02': ('AgentSched', 'TLC exhaustive on AgentSched + trace validation (ShapeOK conjuncts in AgentSchedTrace)',
         'Every placement the real scheduler grants, in every occupancy state reached by the driven histories, is '
         'checked against ShapeOK (ranks, cores/GPUs/lfs/mem per rank, ranks_per_node, colocate history, oversize '
         'rejection) by the TLA+ monitor; the design model proves the same for the canonical placement.',
         'Bounded histories; GPU shares in units of 1/SU; exclusive tags and partitions not modelled.', '5/C02'),
 'C03': ('AgentSched', 'TLC exhaustive on AgentSched + trace validation (Release effect, idle == initial)',
         'Release restores exactly what Grant took (action property in the model, per-event comparison of the real '
         'node map in the monitor), released at most once, idle pilot has its initial map and _active_cnt == 0.',
         'Scheduler side only so far; the executor side (one unschedule publication per task) is added with the '
         'Executor spec.', '5/C03'),
 'C04': ('AgentSched', 'TLC exhaustive on AgentSched (loop phases, quiescence obligations) + trace validation',
         'Loop phases of _schedule_tasks modelled one action per queue operation / allocation attempt; TLC checks '
         'exactly-one-place, reported-once and the quiescence obligations (alone starts, unfit alone fails, idle '
         'starts some, no false failure, priority wins); the monitor checks the same on every real trace at every '
         'sleep of the real loop, with cancel requests injected between the steps of the loop.',
         'Starvation obligations only for scattered mode (the shipped default) and only at quiescence.', '5/C04'),
}

NOT_YET = {
}


def main():
    props = [json.loads(l) for l in open(os.path.join(HERE, 'properties.jsonl'))]
    checks, na = [], []
    for p in props:
        pid = p['id']
        if pid in CHECKS:
            eng, tech, text, note, ref = CHECKS[pid]
            checks.append({
                'property_id': pid,
                'quick_cmd': './check %s --tier quick' % pid,
                'thorough_cmd': './check %s --tier thorough' % pid,
                'evidence_file': '/verif/evidence/%s.json' % pid,
                'replay_cmd_template': './check %s --replay {path}' % pid,
                'engine': eng,
                'level_claimed': {'category': 'model_checking', 'text': text, 'design_ref': ref},
                'level_note': note,
                'technique': tech,
            })
        else:
            na.append({'property_id': pid,
                       'reason': NOT_YET.get(pid, 'not claimed yet: specification and rig for this property are '
                                                  'still being built (see DESIGN.md section 5)')})
    engines = {}
    for c in checks:
        engines.setdefault(c['engine'], []).append(c['property_id'])
    man = {
        'version': 1,
        'setup_cmd': '/venv/bin/python /verif/harness/setup.py',
        'hooks': {'guard': 'RADICAL_PILOT_VERIF',
                  'enable': 'none needed so far: rigs instrument instances at run time; the guard is reserved',
                  'baseline_off_cmd': BASELINE,
                  'source_commits': [],
                  'add_only': True},
        'engines': [{'name': e, 'path': '/verif/spec/%s' % e.split('+')[0], 'serves_properties': ps,
                     'kind_free_text': 'TLA+ specification checked with TLC, bound to the code by trace validation / replay'}
                    for e, ps in sorted(engines.items())],
        'checks': checks,
        'not_applicable': na,
        'notes': 'single entry point ./check <Cxx>; specs under /verif/spec, rigs under /verif/harness/rigs; '
                 'known findings in /verif/known_findings.json',
    }
    with open(os.path.join(HERE, 'MANIFEST.json'), 'w') as fh:
        json.dump(man, fh, indent=1)
    try:
        import jsonschema
        jsonschema.validate(man, json.load(open('/root/.vp/MANIFEST.schema.json')))
        print('MANIFEST.json valid: %d checks, %d not claimed' % (len(checks), len(na)))
    except ImportError:
        print('MANIFEST.json written (jsonschema not available for validation)')


if __name__ == '__main__':
    main()
