#!/venv/bin/python
'''
Re-run the repository's baseline test suite against every stored seeded change with the CHANGED
code on the import path (radical.pilot is an editable install of /repo, so a plain pytest run in
a scratch tree imports /repo/src: the first three rounds confirmed 'tests still pass' that way,
which says nothing about the change).  Records the result in meta.json (baseline_with_change).
'''
import os, sys, json, glob, shutil, subprocess, tempfile, importlib.util
from concurrent.futures import ThreadPoolExecutor
VERIF = os.path.dirname(os.path.dirname(os.path.abspath(__file__)))
spec = importlib.util.spec_from_file_location('tm', os.path.join(VERIF, 'tools', 'try_mutant.py'))
tm = importlib.util.module_from_spec(spec); spec.loader.exec_module(tm)

def one(sid):
    d = os.path.join(VERIF, 'seeded', sid)
    wt = tempfile.mkdtemp(prefix='rp_rebase_', dir='/tmp'); os.rmdir(wt)
    tm.sh('git -C /repo worktree add -q --detach %s HEAD' % wt)
    try:
        rc, o = tm.sh('git -C %s apply %s' % (wt, os.path.join(d, 'patch.diff')))
        if rc:
            res = {'applies': False}
        else:
            n, missing = tm.baseline(wt)
            res = {'applies': True, 'pass': n, 'missing': missing}
        m = json.load(open(os.path.join(d, 'meta.json')))
        m['baseline_with_change'] = res
        json.dump(m, open(os.path.join(d, 'meta.json'), 'w'), indent=1)
        print(sid, res); sys.stdout.flush()
    finally:
        tm.sh('git -C /repo worktree remove --force %s' % wt)
        shutil.rmtree(wt, ignore_errors=True)

ids = sorted(os.path.basename(p) for p in glob.glob(os.path.join(VERIF, 'seeded', 'C*')))
if len(sys.argv) > 1:
    ids = [i for i in ids if i in sys.argv[1].split(',')]
with ThreadPoolExecutor(4) as ex:
    list(ex.map(one, ids))
