#!/bin/sh
# round 6: candidates under /tmp/mut6, stored as <Cxx>-k
mkdir -p /tmp/mut6/results
for d in /tmp/mut6/C*; do
  pid=$(basename $d)
  for w in a b; do
    [ -f $d/mutant_$w.diff ] || continue
    [ -f $d/demo_$w.py ] || continue
    [ -f $d/notes.md ] || continue
    [ -f /tmp/mut6/results/$pid-$w.log ] && continue
    lab=k
    /verif/tools/try_mutant.py $pid $w --src /tmp/mut6 --label $lab --keep "$@" > /tmp/mut6/results/$pid-$w.log 2>&1
    echo "$pid-$w: $(grep -h '^confirm\|^check' /tmp/mut6/results/$pid-$w.log | cut -c1-170 | tr '\n' ' ')"
  done
done
