#!/bin/sh
# run every registered quick (or $1) check on /repo and summarise
tier=${1:-quick}
cd /verif
for i in 01 02 03 04 05 06 07 08 09 10 11 12 13 14 15 16 17 18 19 20; do
  s=$(date +%s)
  out=$(./check C$i --tier $tier 2>&1); rc=$?
  e=$(date +%s)
  echo "C$i rc=$rc $((e-s))s $(echo "$out" | grep -c '^VIOLATION') violations $(echo "$out" | grep -c '^KNOWN-FINDING') known"
  echo "$out" | grep '^VIOLATION\|MACHINERY' | cut -c1-250
done
