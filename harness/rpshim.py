'''
Import radical.pilot from the working tree of /repo (or $RP_VERIF_SRC).

`import radical.pilot` raises in this checkout because src/radical/pilot/VERSION
is git-ignored and absent.  We wrap `radical.utils.get_version` with a fallback
in the harness process only; nothing is written into /repo.
'''

import os
import sys

SRC = os.environ.get('RP_VERIF_SRC', '/repo/src')

os.environ.setdefault('PYTHONHASHSEED', '0')
os.environ.setdefault('RADICAL_LOG_LVL', 'OFF')
os.environ.setdefault('RADICAL_PROFILE', 'FALSE')
os.environ.setdefault('RADICAL_PILOT_VERIF', '1')

_rp = None


def load():
    '''return the fully initialised radical.pilot module of the tree under test'''
    global _rp
    if _rp is not None:
        return _rp

    # drop any editable-install finder result for radical.pilot: SRC goes first
    if SRC in sys.path:
        sys.path.remove(SRC)
    sys.path.insert(0, SRC)

    import radical.utils as ru

    _orig = ru.get_version

    def _get_version(paths=None):
        try:
            return _orig(paths)
        except Exception:
            return ('0.0.0', '0.0.0', 'verif', '0.0.0', '0.0.0-verif')

    ru.get_version = _get_version
    # the misc module holds its own reference
    try:
        import radical.utils.misc as _m
        if hasattr(_m, 'get_version'):
            _m.get_version = _get_version
    except Exception:
        pass

    # radical is a namespace package: make sure radical.pilot resolves to SRC
    import radical
    p = os.path.join(SRC, 'radical')
    if p not in list(radical.__path__):
        try:
            radical.__path__.insert(0, p)
        except AttributeError:
            radical.__path__ = [p] + list(radical.__path__)

    import radical.pilot as rp
    here = os.path.realpath(rp.__file__)
    if not here.startswith(os.path.realpath(SRC) + os.sep):
        raise RuntimeError('radical.pilot imported from %s, not from %s'
                           % (here, SRC))
    _rp = rp
    return rp


class NullLog(object):
    '''logger / profiler stand-in: every method is a no-op'''
    _debug_level = 0
    num_level    = 100
    def __getattr__(self, name):
        return lambda *a, **k: None
