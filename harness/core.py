'''
Shared check plumbing: verdicts, known findings, evidence files.
'''

import os
import sys
import json
import time
import hashlib

VERIF    = os.path.dirname(os.path.dirname(os.path.abspath(__file__)))
# (RP_VERIF_EVIDENCE: the seeded-change tools run checks against changed trees and must not
#  overwrite the evidence of the real tree)
EVIDENCE = os.environ.get('RP_VERIF_EVIDENCE') or os.path.join(VERIF, 'evidence')
REPLAYS  = os.path.join(EVIDENCE, 'replay')
FINDINGS = os.path.join(VERIF, 'known_findings.json')


class Machinery(Exception):
    '''the check itself is broken (exit 2), nothing is said about the property'''


def load_findings():
    if not os.path.exists(FINDINGS):
        return {'findings': [], 'fixed': []}
    with open(FINDINGS) as fh:
        return json.load(fh)


class Check(object):
    '''collects what one run of one property check did'''

    def __init__(self, pid, tier, seed):
        self.pid   = pid
        self.tier  = tier
        self.seed  = seed
        self.t0    = time.time()
        self.viol  = []      # dicts: clause, cls, what, replay
        self.known = []
        self.states = 0
        self.transitions = 0
        self.traces = 0       # real-code traces accepted / examined by a trace spec
        self.samples = []
        self.cmds  = []
        self.cov   = {}
        self.assumptions = []
        self.nontrivial = set()
        self.evaluations = 0
        self.exhaustive = False
        self.notes = []
        self._findings = [f for f in load_findings().get('findings', [])
                          if f.get('property') == pid]

    # ----------------------------------------------------------------------
    def add_tlc(self, res, label=None):
        self.states      += res.distinct
        self.transitions += res.generated
        self.cmds.append(res.cmd)
        if label:
            self.cov.setdefault('tlc_runs', []).append(
                dict(label=label, **res.summary()))

    def sample(self, obj, limit=4):
        if len(self.samples) < limit:
            self.samples.append(obj)

    # ----------------------------------------------------------------------
    def violation(self, clause, cls, what, replay_obj):
        '''
        clause : failing clause of the spec ("C01.LfsBound", invariant name ...)
        cls    : input / call-site / history class the failure belongs to
        a violation listed in known_findings.json (same property, clause and
        class) is reported as KNOWN-FINDING, everything else as VIOLATION
        '''
        for f in self._findings:
            if (f.get('clause') == clause or clause in f.get('clauses', [])) and f.get('cls') == cls:
                key = (f.get('id'), f.get('cls'))
                hit = [k for k in self.known if k['key'] == key]
                if hit:
                    if clause not in hit[0]['clause']:
                        hit[0]['clause'].append(clause)
                else:
                    self.known.append({'key': key, 'clause': [clause], 'cls': cls,
                                       'what': f.get('what', what)})
                return False
        if any(v['clause'] == clause and v['cls'] == cls for v in self.viol):
            return True
        os.makedirs(REPLAYS, exist_ok=True)
        blob = json.dumps(replay_obj, sort_keys=True, default=str)
        name = '%s-%s.json' % (self.pid, hashlib.sha1(blob.encode()).hexdigest()[:10])
        path = os.path.join(REPLAYS, name)
        with open(path, 'w') as fh:
            fh.write(blob)
        self.viol.append({'clause': clause, 'cls': cls, 'what': what, 'replay': path})
        return True

    # ----------------------------------------------------------------------
    def finish(self, level='model_checking', rule='', write=True):
        os.makedirs(EVIDENCE, exist_ok=True)
        cov = dict(self.cov)
        cov.update({
            'states'     : int(self.states),
            'transitions': int(self.transitions),
            'traces_validated_against_impl': int(self.traces),
            'samples'    : self.samples or [{'note': 'no sample recorded'}],
            'checker_cmd': ' ; '.join(sorted(set(self.cmds)))[:4000],
            'evaluations': int(max(self.evaluations, self.traces, 1)),
            'distinct_nontrivial': int(len(self.nontrivial)),
            'rule'       : rule,
            'exhaustive' : bool(self.exhaustive),
            'known_findings': self.known,
            'violations_detail': [{k: v[k] for k in ('clause', 'cls', 'what')} for v in self.viol],
            'notes'      : self.notes,
        })
        ev = {'property_id': self.pid, 'tier': self.tier, 'seed': int(self.seed),
              'level': level, 'coverage': cov, 'assumptions': self.assumptions,
              'wall_s': round(time.time() - self.t0, 2), 'violations': len(self.viol)}
        # a --replay run re-examines one stored case: it does not replace the evidence of a check run
        target = os.path.join(EVIDENCE, '%s.json' % self.pid) if write else \
                 os.path.join(REPLAYS, 'last-replay-%s.json' % self.pid)
        os.makedirs(os.path.dirname(target), exist_ok=True)
        with open(target, 'w') as fh:
            json.dump(ev, fh, indent=1, default=str)
        for k in self.known:
            print('KNOWN-FINDING: property=%s %s [%s / %s]'
                  % (self.pid, k['what'], ','.join(k['clause']), k['cls']))
        for v in self.viol:
            print('VIOLATION property=%s replay=%s  (%s / %s: %s)'
                  % (self.pid, v['replay'], v['clause'], v['cls'], v['what']))
        if not self.viol:
            print('OK property=%s tier=%s states=%d transitions=%d impl_traces=%d wall=%.1fs'
                  % (self.pid, self.tier, self.states, self.transitions, self.traces,
                     time.time() - self.t0))
        sys.stdout.flush()
        return 1 if self.viol else 0
