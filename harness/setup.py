'''
MANIFEST.setup_cmd: nothing is compiled; verify the tools and parse every spec.
'''
import os, sys, glob, subprocess
HERE = os.path.dirname(os.path.dirname(os.path.abspath(__file__)))
sys.path.insert(0, HERE)
from harness import tlc, rpshim

def main():
    for tool in ['java', 'tlc', 'tla-sany']:
        if subprocess.call(['which', tool], stdout=subprocess.DEVNULL):
            print('missing tool', tool); return 1
    rp = rpshim.load()
    print('radical.pilot from', rp.__file__)
    bad = 0
    for d in sorted(glob.glob(os.path.join(HERE, 'spec', '*'))):
        spec = os.path.basename(d)
        if spec == 'common':
            continue
        for f in sorted(glob.glob(os.path.join(d, '*.tla'))):
            mod = os.path.basename(f)[:-4]
            if mod.startswith('MC'):
                continue
            if 'Apalache' in open(f).read():
                print('skip %-14s %-22s (Apalache module, checked by apalache-mc)' % (spec, mod))
                continue
            ok, out = tlc.sany(spec, mod)
            print('sany %-14s %-22s %s' % (spec, mod, 'ok' if ok else 'FAILED'))
            if not ok:
                print(out[-1500:]); bad += 1
    os.makedirs(os.path.join(HERE, 'evidence'), exist_ok=True)
    return 1 if bad else 0

if __name__ == '__main__':
    sys.exit(main())
