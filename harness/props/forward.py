'''
C16: client and agents exchange each forwarded message exactly once.

1. design model Forward (exhaustive TLC, safety + `<>[]Quiet` under fairness),
2. sensitivity of the model to its deviation constants (thorough),
3. TLC behaviours (publish + delivery orders) replayed step by step into the
   real `Session.crosswire_pubsub` forwarders on the in-memory fabric, with
   got[][] / queue contents compared against the TLC states,
4. small-scope enumeration (every side x flag x origin marker x channel kind,
   1..3 pilots) and seeded random traffic / delivery orders,
5. the default fwd flag of the real AgentComponent / ClientComponent.advance,
6. the real Session.close(terminate=True) of a client with several real pilot
   managers: what the closing code publishes with the forward flag must still
   reach every pilot,
7. every recorded trace validated by the ForwardTrace monitor (which also
   demands pairwise distinct side identities, as computed by Session.__init__).
'''

import os
import re
import glob
import random
import shutil
import subprocess

from concurrent.futures import ThreadPoolExecutor

from .. import tlc, tracecheck
from ..core import Machinery
from ..rigs import fwd_rig as R

WORKERS = 8
MAXHOPS = 2
DEVS    = ['DevKeepFwd', 'DevL2PAnyOrigin', 'DevL2PIgnoreFwd', 'DevP2LNoSelfDrop',
           'DevResultCopiesFwd', 'DevBulkHeadDecides', 'DevRepublishOnTimeout']
STRUCT  = ['TypeOK', 'InvCleared', 'InvHopsWhere']
PROPINV = ['InvAtMostOnce', 'InvStaysLocal', 'InvSettled', 'InvHops', 'InvRpcReturns',
           'InvRpcServedOnce', 'InvClientUpdate']
UNKNOWN = 'nobody'                       # origin marker naming no connected side
FWDVALS = ('true', 'false', 'absent')
MONITOR_CONSTANTS = 'MaxHops = %d' % MAXHOPS


# ------------------------------------------------------------------------------
def mc_cfg(npilots, nmsgs, devs=(), invs=None, props=(), fair=False, fwdchoice=FWDVALS,
           sym=False, eager=False, nrpc=0, nadv=0):
    '''sym: pilots are model values and a symmetry set (safety runs only)'''
    assert not (sym and (fair or props))
    c  = 'CONSTANTS\n'
    c += ' Pilots = {%s}\n' % ', '.join(('p%d' if sym else '"p%d"') % (i + 1) for i in range(npilots))
    c += ' Unknown = {"%s"}\n NMsgs = %d\n MaxHops = %d\n' % (UNKNOWN, nmsgs, MAXHOPS)
    c += ' EagerApp = %s\n NRpc = %d\n NAdv = %d\n' % ('TRUE' if eager else 'FALSE', nrpc, nadv)
    c += ' FwdChoice = {%s}\n' % ', '.join('"%s"' % f for f in fwdchoice)
    for d in DEVS:
        c += ' %s = %s\n' % (d, 'TRUE' if d in devs else 'FALSE')
    c += 'SPECIFICATION %s\nCHECK_DEADLOCK FALSE\n' % ('FairSpec' if fair else 'Spec')
    for i in (STRUCT + PROPINV if invs is None else invs):
        c += 'INVARIANT %s\n' % i
    for p in props:
        c += 'PROPERTY %s\n' % p
    if sym:
        c += 'SYMMETRY PilotPerms\n'
    return {'MC.cfg': c}


def side_name(s):
    '''model name -> name used by the code'''
    if s.startswith('p') and s[1:].isdigit():
        return R.pilot_id(int(s[1:]) - 1)
    return s          # client, absent, nobody


# ------------------------------------------------------------------------------
def script_from_steps(steps):
    '''TLC behaviour -> list of [action, args..., model got after the step]'''
    script = []
    for act, args, state in steps:
        if act == 'Init':
            continue
        a   = re.findall(r'"([^"]*)"', args or '')
        got = state.get('got') if isinstance(state, dict) else None
        mg  = {side_name(s): list(v) for s, v in got.items()} if isinstance(got, dict) else {}
        script.append({'act': act, 'args': a, 'got': mg, 'queues': model_queues(state)})
    return script


def model_queues(state):
    '''ids queued per link in a TLC state, keyed like rig_queues()'''
    out = {}
    try:
        for s, ks in state['qloc'].items():
            for k, q in ks.items():
                if q:
                    src, sub = {'AA': ('app', 'app'), 'AL': ('app', 'l2p'),
                                'PA': ('p2l', 'app'), 'PL': ('p2l', 'l2p')}[k]
                    out['%s:%s>%s:%s' % (src, side_name(s), sub, side_name(s))] = [m['id'] for m in q]
        for s, ts in state['qpx'].items():
            for t, q in ts.items():
                if q:
                    out['l2p:%s>p2l:%s' % (side_name(s), side_name(t))] = [m['id'] for m in q]
    except Exception:
        return {}
    return out


def rig_queues(rig, kind):
    out = {}
    for (p, s), q in rig.fab.queues.items():
        if q and s.bridge.kind == kind:
            out['%s:%s>%s:%s' % (p.role, p.side, s.role, s.side)] = [e.gid for e in q]
    return out


def got_table(rig, like):
    '''counts of the rig, padded to the number of ids of the model'''
    n = max([len(v) for v in like.values()] + [rig.fab.ngid])
    return {s: [rig.got[s].get(i, 0) for i in range(1, n + 1)] for s in rig.sides}


def run_script(npilots, chan, script):
    '''replay one TLC behaviour on the real forwarders; returns (rig, notes, final_ok)'''
    with_rpc   = any(st['act'] == 'PublishReq' for st in script)
    rig, notes, free = R.FwdRig(npilots, with_rpc=with_rpc), [], set()
    if with_rpc:
        chan = 'control'
    elif any(st['act'] == 'Advance' for st in script):
        chan = 'state'
    for n, st in enumerate(script):
        act, a = st['act'], st['args']
        link = None
        if act == 'PublishReq':
            rig.publish_req(side_name(a[0]), side_name(a[1]))
        elif act == 'Advance':
            tasks = [('task.%03d.%d' % (n, k), o if o == 'client' else ('raptor', 'agent')[(n + k) % 2])
                     for k, o in enumerate(a[1:-1])]
            if 'client' not in a[1:-1]:
                free.add(rig.fab.ngid + 1)     # pilot-internal bulk: not compared
            rig.advance_bulk(side_name(a[0]), tasks, ADV_STATES[n % len(ADV_STATES)][0],
                             push=ADV_STATES[n % len(ADV_STATES)][1], fwd=(a[-1] == 'true'))
        elif act == 'Publish':
            o = side_name(a[1])
            rig.publish(side_name(a[0]), chan, origin=rig.ident.get(o, o), fwd=a[2])
        else:
            if act == 'DeliverApp':
                link = rig.find_link(chan, 'app', side_name(a[0]), a[1], side_name(a[0]))
            elif act == 'DeliverL2P':
                link = rig.find_link(chan, 'l2p', side_name(a[0]), a[1], side_name(a[0]))
            elif act == 'DeliverP2L':
                link = rig.find_link(chan, 'p2l', side_name(a[1]), 'l2p', side_name(a[0]))
            else:
                raise Machinery('unknown action %s in TLC behaviour' % act)
            if link is None:
                notes.append('step %d %s%s: queue empty in the code' % (n + 1, act, a))
            else:
                rig.deliver(link)
        if st['got'] and st['got'] != got_table(rig, st['got']):
            notes.append('step %d %s%s: got differs from model' % (n + 1, act, a))
        if st['queues'] != rig_queues(rig, chan) and (st['queues'] or st['got']):
            notes.append('step %d %s%s: queues differ from model' % (n + 1, act, a))
    at_rest  = bool(script) and not script[-1]['queues'] and not rig.links()
    final_ok = True
    rig.quiet(rig.drain())
    if script and not script[-1]['queues'] and script[-1]['got']:
        # the model is at rest: the counts there are the ones the property demands
        mine, model = got_table(rig, script[-1]['got']), script[-1]['got']
        final_ok = all(mine[s][i] == model[s][i] for s in model for i in range(len(model[s]))
                       if i + 1 not in free)
    return rig, notes, final_ok, at_rest


# ------------------------------------------------------------------------------
def origin_choices(rig, side):
    '''absent, own identity, the identity of every other side, a marker naming nobody'''
    return ['absent', 'own'] + [rig.ident[s] for s in rig.sides if s != side] + ['pilot.9999']


def run_close(npilots, groups, seed):
    '''client session with one real PilotManager per group of pilots; some
       traffic while everything is up, then the REAL Session.close(terminate=True)'''
    rng = random.Random(seed)
    rig = R.FwdRig(npilots)
    for i, grp in enumerate(groups):
        rig.add_pmgr('pmgr.%04d' % i, [R.pilot_id(j) for j in grp])
    for side in rig.sides:
        rig.publish(side, rng.choice(rig.kinds), origin='absent', fwd='true')
    rig.drain(rng)
    rig.close_client(rng)
    rig.quiet(rig.drain(rng))
    return rig


def run_enum(npilots, side, chan, origin, fwd, order):
    '''one message, every delivery order class: fifo / lifo-ish / seeded'''
    rig = R.FwdRig(npilots)
    rig.publish(side, chan, origin=origin, fwd=fwd)
    if order == 'fifo':
        ok = rig.drain()
    else:
        ok = rig.drain(random.Random(order))
    rig.quiet(ok)
    return rig


def run_random(npilots, nmsgs, seed):
    rng = random.Random(seed)
    rig = R.FwdRig(npilots)
    left = nmsgs
    while left or rig.links():
        ls = rig.links()
        if left and (not ls or rng.random() < 0.3):
            side = rng.choice(rig.sides)
            chan = rng.choice(rig.kinds)
            r    = rng.random()
            if r < 0.70:
                origin = rng.choice(origin_choices(rig, side)[:2] * 2 + origin_choices(rig, side)[2:])
                fwd    = rng.choice(['true', 'true', 'false', 'absent'])
                rig.publish(side, chan, origin=origin, fwd=fwd)
            elif r < 0.85:
                rig.publish(side, 'control', origin='asis', fwd='asis',
                            via=rng.choice(['rpc_req', 'rpc_res', 'comp_start']))
            elif r < 0.95:
                rig.publish_advance(side)
            else:
                rig.publish_advance(side, fwd=rng.choice([True, False]))
            left -= 1
        elif ls:
            if len(rig.events) > 4000:
                break
            rig.deliver(rng.choice(ls))
    rig.quiet(rig.drain(rng))
    return rig


ADV_STATES = [(R.rps.AGENT_EXECUTING, True), (R.rps.DONE, False), (R.rps.FAILED, False),
              (R.rps.CANCELED, False), (R.rps.AGENT_STAGING_OUTPUT_PENDING, False)]
ORIGINS    = ('client', 'raptor', 'agent')


def bulk_shapes(maxlen=3):
    out = [[]]
    for _ in range(maxlen):
        out = out + [b + [o] for b in out if len(b) == _ for o in ORIGINS]
    return [b for b in out if b]


def run_advance(npilots, calls, seed):
    '''state bulks through the real AgentComponent.advance(.., publish=True, fwd=True):
       calls = [(pilot index, origins in bulk order, index into ADV_STATES, fwd, preset)]'''
    rng = random.Random(seed)
    rig = R.FwdRig(npilots)
    for n, (pi, origins, si, fwd, preset) in enumerate(calls):
        side  = rig.sides[1 + pi % npilots]
        tasks = [('task.%03d.%d' % (n, k), o) for k, o in enumerate(origins)]
        rig.advance_bulk(side, tasks, ADV_STATES[si][0], fwd=fwd, push=ADV_STATES[si][1], preset=preset)
        for _ in range(rng.randint(0, 6)):
            ls = rig.links()
            if ls:
                rig.deliver(rng.choice(ls))
    rig.quiet(rig.drain(rng))
    return rig


def advance_calls(rng, quick):
    '''every order of origins in a bulk (up to 3 tasks) x final / non-final states'''
    calls = []
    for b in bulk_shapes(3):
        for si in range(len(ADV_STATES)):
            if quick and len(b) == 3 and si not in (0, 2):
                continue
            calls.append((rng.randrange(3), b, si, rng.choice([True, True, None]), rng.random() < 0.2))
    rng.shuffle(calls)
    return calls


def run_rpc(npilots, seed):
    '''RPC round trips between every pair of sides: real Pilot.rpc (client ->
       pilot), real BaseComponent.rpc (other pairs) and bare requests with
       random delivery orders; served by the real _control_cb / _handle_rpc_msg'''
    rng = random.Random(seed)
    rig = R.FwdRig(npilots, with_rpc=True)
    for s in rig.sides[1:]:
        if rng.random() < 0.7:
            rig.add_pilot_handle(s)
    pairs = [(a, b) for a in rig.sides for b in rig.sides]
    rng.shuffle(pairs)
    for a, b in pairs:
        r = rng.random()
        if r < 0.45:
            # the reply comes at once / after k timed-out wait periods of the caller
            rig.rpc_call(a, b, rng, delay=rng.choice([0, 1, 1, 2, 3]))
        else:
            rig.publish_req(a, b)
            if r < 0.7:
                rig.publish(rng.choice(rig.sides), 'control', origin='absent',
                            fwd=rng.choice(FWDVALS))
            for _ in range(rng.randint(0, 8)):
                ls = rig.links()
                if ls:
                    rig.deliver(rng.choice(ls))
    # ... or never: a pilot which is gone, an address nobody serves
    if rng.random() < 0.6:
        rig.add_pilot_handle('pilot.9999')
        rig.rpc_call(R.CLIENT, 'pilot.9999', rng, delay=rng.choice([0, 1, 2]))
    if rng.random() < 0.6:
        rig.rpc_call(rng.choice(rig.sides), 'nobody', rng, delay=rng.choice([1, 2]))
    rig.quiet(rig.drain(rng))
    return rig


# ------------------------------------------------------------------------------
# proxy service
PX_DEVS = ['DevMonitorReapsAll', 'DevHeartbeatAll', 'DevUnregisterAll', 'DevSharedReportQueue']
PX_INVS = ['TypeOK', 'InvLiveRegistered', 'InvDelivers', 'InvUpIffReg', 'InvOwnEndpoints']
PX_ACTS = ['ActIsolation', 'ActMonitorExact']
PX_TIMEOUT = 2


def px_cfg(nsess, maxt=4, maxops=8, devs=(), invs=None, props=None, maxw=3):
    c  = 'CONSTANTS\n Sessions = {%s}\n' % ', '.join('"s%d"' % (i + 1) for i in range(nsess))
    c += ' Timeout = %d\n MaxT = %d\n MaxOps = %d\n MaxW = %d\n' % (PX_TIMEOUT, maxt, maxops, maxw)
    for d in PX_DEVS:
        c += ' %s = %s\n' % (d, 'TRUE' if d in devs else 'FALSE')
    c += 'SPECIFICATION Spec\nCHECK_DEADLOCK FALSE\n'
    for i in (PX_INVS if invs is None else invs):
        c += 'INVARIANT %s\n' % i
    for q in (PX_ACTS if props is None else props):
        c += 'PROPERTY %s\n' % q
    return {'PX.cfg': c}


def px_ops_from_steps(steps):
    '''ProxySvc behaviour -> request level operations: Spawn .. Finish is a
       registration whose worker reports in time, Spawn .. Timeout one whose worker
       is given up; a Report after that is the late report of worker w'''
    acts = [(act, re.findall(r'"([^"]*)"', args or ''), re.findall(r'\b(\d+)\b', args or ''))
            for act, args, _ in steps if act != 'Init']
    ops, i, nspawn = [], 0, 0
    while i < len(acts):
        act, strs, nums = acts[i]
        if act == 'Spawn':
            nspawn += 1
            before, after, own_seen, end, j = [], [], False, None, i + 1
            while j < len(acts) and acts[j][0] not in ('Finish', 'Timeout_'):
                if acts[j][0] == 'Report':
                    w = int(acts[j][2][0])
                    if w == nspawn:
                        own_seen = True
                    else:
                        (after if own_seen else before).append(['Report', str(w - 1)])
                j += 1
            if j >= len(acts):
                break                      # behaviour ends inside a registration
            ops += before
            ops.append(['Register' if acts[j][0] == 'Finish' else 'RegisterLate', strs[0]])
            ops += after
            i = j + 1
            continue
        if act == 'Report':
            ops.append(['Report', str(int(nums[0]) - 1)])
        elif act in ('Tick', 'Monitor'):
            ops.append([act, 'none'])
        else:
            ops.append([act, strs[0] if strs else 'none'])
        i += 1
    return ops


def px_random_ops(rng, sessions, n):
    ops = []
    for _ in range(n):
        r = rng.random()
        s = rng.choice(sessions)
        if   r < 0.14: ops.append(['Register', s])
        elif r < 0.19: ops.append([rng.choice(['RegisterLate', 'RegisterLate', 'RegisterNever']), s])
        elif r < 0.23: ops.append(['Report', 'none'])
        elif r < 0.28: ops.append(['Unregister', s])
        elif r < 0.44: ops.append(['Heartbeat', s])
        elif r < 0.52: ops.append(['Lookup', s])
        elif r < 0.70: ops.append(['Tick', 'none'])
        elif r < 0.82: ops.append(['Monitor', 'none'])
        else         : ops.append(['Send', s])
    return ops


def run_proxy(sessions, npilots, ops, with_rpc=False, seed=0):
    '''drive the real Proxy request handlers / monitor pass; Send only for the
       sessions the property calls live (registered by their client, not
       unregistered, not past the timeout at a monitor pass - own bookkeeping)'''
    rng = random.Random(seed)
    pr  = R.ProxyRig(sessions, npilots=npilots, timeout_ticks=PX_TIMEOUT, with_rpc=with_rpc)
    wanted, ghb = set(), {}
    for op, sid in ops:
        if op in ('Register', 'RegisterLate', 'RegisterNever'):
            mode = {'Register': 'intime', 'RegisterLate': 'late', 'RegisterNever': 'never'}[op]
            if pr.register(sid, mode)['ok']:
                wanted.add(sid)
                ghb[sid] = pr.now
        elif op == 'Report':
            pr.late_report(None if sid == 'none' else int(sid))
        elif op == 'Unregister':
            pr.unregister(sid)
            wanted.discard(sid)
        elif op == 'Heartbeat':
            known = sid in pr.proxy._clients
            pr.heartbeat(sid)
            if known:
                ghb[sid] = pr.now
        elif op == 'Lookup':
            pr.lookup(sid)
        elif op == 'Tick':
            pr.tick_()
        elif op == 'Monitor':
            pr.monitor()
            wanted -= {s for s in wanted if pr.now > ghb[s] + PX_TIMEOUT}
        elif op == 'Send':
            if sid in wanted:
                pr.send(sid, rng)
        else:
            raise Machinery('unknown proxy action %s' % op)
    # at the end every live session talks once more
    for sid in sorted(wanted):
        pr.send(sid, rng)
    return pr


def check_proxy(chk, runs):
    '''runs: list of (ProxyRig, input); the service traces go to ProxySvcTrace, the
       forwarding traces of the hosted sessions are returned for ForwardTrace'''
    fwd, ptraces = [], []
    for pr, inp in runs:
        pt, fts = pr.traces()
        ptraces.append(pt)
        for sid, n, tr in fts:
            fwd.append((tr, dict(inp, session=sid, incarnation=n)))
    if not ptraces:
        return fwd
    res, st = tracecheck.validate('Forward', 'ProxySvcTrace', MONITOR_CONSTANTS, ptraces,
                                  max_batch=1500)
    chk.states      += st['states']
    chk.transitions += st['transitions']
    chk.cmds.append(st['cmd'])
    div = {}
    for (pr, inp), pt, errs in zip(runs, ptraces, res):
        chk.traces += 1
        if any(e['op'] == 'Monitor' and any(x['reg'] for x in e['st']) and
               not all(x['reg'] == y['reg'] for x, y in zip(e['st'], p['st']))
               for p, e in zip(pt['events'], pt['events'][1:])):
            chk.nontrivial.add(('proxy-reap-some', len(pt['sessions'])))
        for err in errs:
            if err.split('.')[0] != chk.pid:
                div[err] = div.get(err, 0) + 1
                continue
            chk.violation(err, 'proxy service shared by %d sessions' % len(pt['sessions']),
                          'real Proxy request handlers / monitor pass violate %s' % err,
                          {'rig': 'forward', 'input': inp, 'errs': errs, 'trace': pt})
    for k, n in sorted(div.items()):
        chk.notes.append('proxy service step differs from the design model (%s) in %d traces' % (k, n))
    return fwd


# ------------------------------------------------------------------------------
APALACHE = [('base',      ['--init=Init',    '--inv=IndInv',   '--length=0']),
            ('step',      ['--init=IndInit', '--inv=IndInv',   '--length=1']),
            ('hop bound', ['--init=IndInit', '--inv=HopBound', '--length=0'])]


def apalache_inductive(chk, limit=300):
    '''NoCirculation for a symbolic set of pilots: IndInv of ForwardInd.tla is
       inductive and implies hops <= 2.  An attempt: a stall or a missing tool is
       noted, a counterexample means the design model is wrong (machinery)'''
    if not shutil.which('apalache-mc'):
        chk.notes.append('apalache-mc not found: inductive invariant not attempted')
        return
    wd = tlc.scratch('rpapa_')
    try:
        shutil.copy(os.path.join(tlc.SPEC_DIR, 'Forward', 'ForwardInd.tla'), wd)
        for name, args in APALACHE:
            cmd = ['timeout', str(limit), 'apalache-mc', 'check', '--cinit=ConstInit'] + args + \
                  ['--out-dir=' + os.path.join(wd, 'out'), 'ForwardInd.tla']
            try:
                p   = subprocess.run(cmd, cwd=wd, stdout=subprocess.PIPE, stderr=subprocess.STDOUT,
                                     timeout=limit + 30)
                out = p.stdout.decode('utf-8', 'replace')
            except subprocess.TimeoutExpired:
                out = 'timeout'
            chk.cmds.append('apalache-mc check --cinit=ConstInit %s ForwardInd.tla' % ' '.join(args))
            if 'EXITCODE: OK' in out:
                continue
            if 'The outcome is: Error' in out and 'EXITCODE: ERROR (12)' in out:
                raise Machinery('ForwardInd: inductive invariant fails (%s):\n%s' % (name, out[-1500:]))
            chk.notes.append('Apalache inductive check (%s) inconclusive: dropped, the bounded TLC '
                             'result stands alone' % name)
            return
        chk.notes.append('Apalache: IndInv (hops fixed by place, flag cleared and origin stamped after '
                         'the first hop) is inductive for any set of <= 4 pilot names and implies '
                         'hops <= 2')
    finally:
        shutil.rmtree(wd, ignore_errors=True)


# ------------------------------------------------------------------------------
def offending(trace):
    '''message classes whose final counts are off / which circulate (python
       side, only to name the input class of a violation)'''
    pubs, got, out = {}, {}, []
    for e in trace['events']:
        if e['ev'] == 'Publish':
            pubs[e['id']] = e
        elif e['ev'] == 'Deliver':
            if e['sub'] == 'app':
                got[e['side'], e['id']] = got.get((e['side'], e['id']), 0) + 1
            if e['hops'] > MAXHOPS or any(o['hops'] > MAXHOPS for o in e['outs']):
                out.append(e['id'])
    for i, p in sorted(pubs.items()):
        fw = p['fwd'] == 'true' and p['origin'] in ('absent', p.get('ident', p['side']))
        for s in trace['sides']:
            if got.get((s, i), 0) != (1 if (fw or s == p['side']) else 0):
                out.append(i)
    return [pubs[i] for i in sorted(set(out)) if i in pubs]


def classify(trace):
    if len(set(trace.get('idents', trace['sides']))) < len(trace['sides']):
        return 'side identities not distinct'
    ruids = [e['ruid'] for e in trace['events'] if e['ev'] == 'Publish' and e.get('ruid', 'none') != 'none']
    if len(ruids) != len(set(ruids)) or any(e['ev'] == 'Served' and e['runs'] > e['reqs']
                                            for e in trace['events']):
        return 'rpc request'
    if any(e['ev'] == 'Update' and e['n'] != 1 for e in trace['events']):
        return 'bulk of tasks published through advance'
    if any(e['ev'] == 'Publish' and e.get('re') for e in trace['events']) and not offending(trace):
        return 'rpc result'
    off = offending(trace)
    if not off:
        return 'any message'
    p = off[0]
    o = 'absent' if p['origin'] == 'absent' else ('own' if p['origin'] == p.get('ident', p['side']) else 'foreign')
    return 'fwd=%s origin=%s published by %s' % (
        p['fwd'], o, 'client' if p['side'] == R.CLIENT else 'pilot')


def nontrivial_keys(trace):
    keys = set()
    hops2 = {e['id'] for e in trace['events'] if e['ev'] == 'Deliver' and e['hops'] == 2}
    for e in trace['events']:
        if e['ev'] == 'Publish' and e['id'] in hops2:
            o = 'absent' if e['origin'] == 'absent' else 'own'
            keys.add((len(trace['sides']), e['side'] == R.CLIENT, e['kind'], o, e['via']))
    return keys


# ------------------------------------------------------------------------------
def check_traces(chk, items):
    '''items: list of (trace, input); validate with the monitor and report'''
    traces = [t for t, _ in items]
    res, st = tracecheck.validate('Forward', 'ForwardTrace', MONITOR_CONSTANTS, traces,
                                  max_batch=1500)
    chk.states      += st['states']
    chk.transitions += st['transitions']
    chk.cmds.append(st['cmd'])
    model_div = {}
    for (tr, inp), errs in zip(items, res):
        chk.traces += 1
        for k in nontrivial_keys(tr):
            chk.nontrivial.add(k)
        for err in errs:
            if err.split('.')[0] != chk.pid:
                model_div[err] = model_div.get(err, 0) + 1
                continue
            cls = 'session hosted by a shared proxy service' if inp.get('kind') == 'proxy' \
                  else classify(tr)
            chk.violation(err, cls,
                          'real crosswire_pubsub forwarders on the fabric violate %s' % err,
                          {'rig': 'forward', 'input': inp, 'errs': errs, 'trace': tr})
    for k, n in sorted(model_div.items()):
        chk.notes.append('forwarder step differs from the design model (%s) in %d traces' % (k, n))
    return res


def run(chk, tier, seed):
    quick = tier == 'quick'
    rng   = random.Random(seed * 7919 + 16)

    # ---- 1. design model, exhaustive -----------------------------------------
    # runs without symmetry also check liveness; eager = the sound reduction EagerApp
    # of the model (quick tier: larger instances); nrpc = RPC round trips; fc = flag
    # values of plain publishes (() = RPC traffic only)
    P = lambda np_, nm, **k: dict(dict(np=np_, nm=nm, sym=False, eager=False, nrpc=0, nadv=0, fc=FWDVALS,
                                       fair=None), **k)
    plan = [P(1, 2, nrpc=1, nadv=1), P(2, 2, nrpc=1, nadv=1, fc=(), sym=True),
            P(3, 2, sym=True, eager=True)]
    if not quick:
        plan += [P(2, 2, sym=True, eager=True), P(2, 1), P(3, 1), P(2, 2, sym=True), P(2, 2),
                 P(1, 3, fair=False),
                 P(2, 2, nrpc=1, fair=False), P(1, 4, nrpc=2, fc=()), P(3, 2, nadv=2, fc=(), sym=True,
                                                                         eager=True)]
    # the exhaustive runs do not depend on the code under test: they run in the
    # background while the rig is driven, and are collected before the verdict
    pool, futs = ThreadPoolExecutor(max_workers=4 if quick else 3), []
    for c in plan:
        fair = (not c['sym']) if c['fair'] is None else c['fair']
        label = 'exhaustive%s:%dpilots-%dmsgs%s%s%s%s' % (
            '+liveness' if fair else '', c['np'], c['nm'], '-sym' if c['sym'] else '',
            '-eager' if c['eager'] else '',
            ('-rpc%d' % c['nrpc'] if c['nrpc'] else '') + ('-adv%d' % c['nadv'] if c['nadv'] else ''),
            '-rpconly' if not c['fc'] else '')
        futs.append((label, 'Forward', pool.submit(
            tlc.run, 'Forward', 'Forward', 'MC.cfg', workers=4 if quick else WORKERS, timeout=1500,
            extra_files=mc_cfg(c['np'], c['nm'], sym=c['sym'], fair=fair, eager=c['eager'],
                               nrpc=c['nrpc'], nadv=c['nadv'], fwdchoice=c['fc'],
                               props=['Termination', 'AllSettledAtRest'] if fair else ()))))
    # the proxy service hosting the proxy pubsubs of several sessions
    for ns, maxt, maxops in ([(2, 3, 12)] if quick else [(2, 3, 12), (3, 3, 12)]):
        futs.append(('exhaustive:proxy-%dsessions' % ns, 'ProxySvc', pool.submit(
            tlc.run, 'Forward', 'ProxySvc', 'PX.cfg', workers=4 if quick else WORKERS, timeout=900,
            extra_files=px_cfg(ns, maxt, maxops))))

    def collect_models():
        for label, module, fut in futs:
            res = fut.result()
            chk.add_tlc(res, label)
            if not res.ok:
                raise Machinery('design model %s violates %s (%s) (intended design must hold; '
                                'temporal = some behaviour never comes to rest):\n%s'
                                % (module, res.violated, label, res.trace[:3000]))
        pool.shutdown()

    # ---- 2. deviation sensitivity ------------------------------------------------
    if not quick:
        expect = [(['DevP2LNoSelfDrop'], PROPINV, 'InvAtMostOnce'),
                  (['DevL2PIgnoreFwd'],  PROPINV, 'InvStaysLocal'),
                  (['DevL2PAnyOrigin'],  ['InvAtMostOnce'], 'InvAtMostOnce'),
                  (['DevKeepFwd', 'DevL2PAnyOrigin'], ['InvHops'], 'InvHops'),
                  (['DevKeepFwd'], STRUCT, 'InvCleared'),
                  (['DevKeepFwd'], PROPINV, None),
                  (['DevResultCopiesFwd'], PROPINV, 'InvRpcReturns'),
                  (['DevBulkHeadDecides'], PROPINV, 'InvClientUpdate'),
                  (['DevRepublishOnTimeout'], PROPINV, 'InvAtMostOnce')]
        for devs, invs, want in expect:
            rpcdev = any(d in devs for d in ('DevResultCopiesFwd', 'DevBulkHeadDecides',
                                             'DevRepublishOnTimeout'))
            res = tlc.run('Forward', 'Forward', 'MC.cfg', workers=WORKERS, timeout=600,
                          extra_files=mc_cfg(2, 2 if rpcdev else 1, devs=devs, invs=invs,
                                             nrpc=1 if rpcdev else 0,
                                             nadv=1 if 'DevBulkHeadDecides' in devs else 0,
                                             fwdchoice=() if rpcdev else FWDVALS))
            chk.add_tlc(res, 'deviation:' + '+'.join(devs))
            if res.violated != want:
                raise Machinery('deviation %s: expected %s, TLC reports %s'
                                % (devs, want, res.violated))
            if want:
                chk.notes.append('deviation %s breaks %s in the design model' % ('+'.join(devs), want))
            else:
                chk.notes.append('deviation %s alone keeps the property (the origin check of '
                                 'L2P makes the cleared flag redundant)' % '+'.join(devs))

        for dev, want, kind in [('DevMonitorReapsAll', 'InvLiveRegistered', 'invariant'),
                                ('DevUnregisterAll',   'InvLiveRegistered', 'invariant'),
                                ('DevSharedReportQueue', 'InvOwnEndpoints', 'invariant'),
                                ('DevHeartbeatAll',    'ActIsolation',      'action')]:
            res = tlc.run('Forward', 'ProxySvc', 'PX.cfg', workers=WORKERS, timeout=600,
                          extra_files=px_cfg(2, 3, 12, devs=[dev],
                                             invs=[want] if kind == 'invariant' else [],
                                             props=[want] if kind == 'action' else []))
            chk.add_tlc(res, 'deviation:' + dev)
            if res.violated != want:
                raise Machinery('deviation %s: expected %s, TLC reports %s' % (dev, want, res.violated))
            chk.notes.append('deviation %s breaks %s in the design model' % (dev, want))

        apalache_inductive(chk)

    items = []

    # ---- 3. TLC behaviours -> real forwarders, step by step -------------------------
    nsim = 60 if quick else 300
    # (pilots, messages, flag choice, rpc round trips)
    sims = [(2, 4, ('true', 'false'), 1), (3, 3, ('true',), 0)]
    if not quick:
        sims += [(1, 3, FWDVALS, 0), (1, 3, ('true',), 0), (2, 2, ('true',), 0), (2, 3, FWDVALS, 0),
                 (3, 3, ('true', 'false'), 1), (2, 4, ('true',), 0), (3, 2, FWDVALS, 0),
                 (3, 4, (), 2)]
    divergences, finals = 0, 0
    for k, (np_, nm, fc, nrpc) in enumerate(sims):
        dump = tlc.scratch('rpsim_')
        try:
            res = tlc.run('Forward', 'Forward', 'MC.cfg', workers=1, timeout=600,
                          simulate='num=%d' % nsim, depth=200, seed=rng.randrange(10 ** 6),
                          dump_dir=dump,
                          extra_files=mc_cfg(np_, nm, invs=['TypeOK'], fwdchoice=fc, nrpc=nrpc,
                                             nadv=0 if nrpc else 2))
            chk.add_tlc(res, 'simulate:%dpilots-%dmsgs' % (np_, nm))
            for j, f in enumerate(sorted(glob.glob(os.path.join(dump, 'tr_*')))):
                script = script_from_steps(tlc.parse_sim_file(f))
                chan   = ('control', 'state')[(j + k) % 2]
                rig, notes, final_ok, at_rest = run_script(np_, chan, script)
                inp = {'kind': 'tlc-behaviour', 'npilots': np_, 'chan': chan, 'script': script}
                tr  = rig.trace()
                items.append((tr, inp))
                divergences += 1 if notes else 0
                finals      += 1 if at_rest else 0
                if notes:
                    chk.notes.append('behaviour %s/%d diverges: %s' % (chan, j, notes[0]))
                if not final_ok:
                    chk.violation('C16.GotDiffersFromModel', classify(tr),
                                  'delivery counts of the real forwarders at rest differ from '
                                  'the TLC state after the same publish/delivery order: %s vs %s'
                                  % (got_table(rig, script[-1]['got']), script[-1]['got']),
                                  {'rig': 'forward', 'input': inp, 'trace': tr})
        finally:
            shutil.rmtree(dump, ignore_errors=True)
    chk.notes.append('%d TLC behaviours replayed (%d ran to rest inside the behaviour), '
                     '%d diverged from the model' % (sum(1 for _, i in items if i['kind'] == 'tlc-behaviour'),
                                                     finals, divergences))
    chk.notes = chk.notes[:40]

    # ---- 4a. enumeration: one message, every side / kind / flag / marker -----------
    for np_ in (1, 2, 3):
        probe = R.FwdRig(np_)
        for side in probe.sides:
            for chan in probe.kinds:
                for origin in origin_choices(probe, side):
                    for fwd in FWDVALS:
                        orders = ['fifo', rng.randrange(10 ** 6)]
                        if not quick:
                            orders += [rng.randrange(10 ** 6) for _ in range(3)]
                        for order in orders:
                            rig = run_enum(np_, side, chan, origin, fwd, order)
                            items.append((rig.trace(), {'kind': 'enum', 'npilots': np_, 'side': side,
                                                        'chan': chan, 'origin': origin, 'fwd': fwd,
                                                        'order': order}))

    # ---- 4b. seeded random traffic and delivery orders -------------------------------
    for i in range(150 if quick else 3000):
        np_, nm, s = rng.choice([1, 2, 2, 3, 3]), rng.randint(1, 6), rng.randrange(10 ** 9)
        rig = run_random(np_, nm, s)
        items.append((rig.trace(), {'kind': 'random', 'npilots': np_, 'nmsgs': nm, 'seed': s}))

    # ---- 5. default forward flag of the real advance() ---------------------------------
    d = R.advance_defaults()
    chk.evaluations += 2
    if d.get('agent') != 'true':
        chk.violation('C16.AgentAdvanceForwards', 'AgentComponent.advance default',
                      'agent-side state advances are published with fwd=%s by default: the '
                      'client never sees them' % d.get('agent'),
                      {'rig': 'forward', 'input': {'kind': 'advance'}})
    if d.get('client') != 'false':
        chk.violation('C16.ClientAdvanceLocal', 'ClientComponent.advance default',
                      'client-side state advances are published with fwd=%s by default'
                      % d.get('client'),
                      {'rig': 'forward', 'input': {'kind': 'advance'}})

    # ---- 6. forwarded messages published while the client session closes -----------------
    closes = [(2, [[0], [1]]), (3, [[0], [1], [2]]), (3, [[0, 1], [2]]), (1, [[0]])]
    for np_, groups in closes:
        for _ in range(1 if quick else 5):
            sd  = rng.randrange(10 ** 6)
            rig = run_close(np_, groups, sd)
            items.append((rig.trace(), {'kind': 'close', 'npilots': np_, 'groups': groups, 'seed': sd}))

    # ---- 7. RPC round trips: request on one side, result published on another --------------
    for i in range(12 if quick else 200):
        np_, sd = rng.choice([1, 2, 2, 3]), rng.randrange(10 ** 9)
        rig = run_rpc(np_, sd)
        items.append((rig.trace(), {'kind': 'rpc', 'npilots': np_, 'seed': sd}))

    # ---- 7b. bulks of tasks of different origin through AgentComponent.advance -------------
    calls = advance_calls(rng, quick)
    for i in range(0, len(calls), 12):
        np_, sd = 1 + (i // 12) % 3, rng.randrange(10 ** 9)
        rig = run_advance(np_, calls[i:i + 12], sd)
        items.append((rig.trace(), {'kind': 'advance-bulk', 'npilots': np_, 'calls': calls[i:i + 12],
                                    'seed': sd}))

    # ---- 8. the proxy service shared by several sessions --------------------------------------
    pruns = []
    dump  = tlc.scratch('rpsim_')
    try:
        res = tlc.run('Forward', 'ProxySvc', 'PX.cfg', workers=1, timeout=600,
                      simulate='num=%d' % (40 if quick else 300), depth=60,
                      seed=rng.randrange(10 ** 6), dump_dir=dump,
                      extra_files=px_cfg(3, 4, 24, invs=['TypeOK'], props=[], maxw=5))
        chk.add_tlc(res, 'simulate:proxy-3sessions')
        for j, f in enumerate(sorted(glob.glob(os.path.join(dump, 'tr_*')))):
            ops = px_ops_from_steps(tlc.parse_sim_file(f))
            inp = {'kind': 'proxy', 'sessions': ['s1', 's2', 's3'], 'npilots': 1 + j % 2,
                   'ops': ops, 'rpc': j % 3 == 0, 'seed': j}
            pruns.append((run_proxy(inp['sessions'], inp['npilots'], ops, inp['rpc'], j), inp))
    finally:
        shutil.rmtree(dump, ignore_errors=True)
    for i in range(40 if quick else 600):
        ns, sd = rng.choice([2, 3, 3, 4]), rng.randrange(10 ** 9)
        r2  = random.Random(sd)
        ses = ['s%d' % (k + 1) for k in range(ns)]
        ops = [['Register', s] for s in ses[:r2.randint(1, ns)]] + px_random_ops(r2, ses, r2.randint(6, 24))
        inp = {'kind': 'proxy', 'sessions': ses, 'npilots': r2.choice([1, 1, 2]), 'ops': ops,
               'rpc': r2.random() < 0.3, 'seed': sd}
        pruns.append((run_proxy(ses, inp['npilots'], ops, inp['rpc'], sd), inp))
    items += check_proxy(chk, pruns)

    # ---- 9. the monitor decides -----------------------------------------------------------
    check_traces(chk, items)
    collect_models()
    chk.exhaustive = True
    chk.evaluations += len(items)
    if items:
        tr = [t for t, i in items if i['kind'] == 'tlc-behaviour'][:1] or [items[0][0]]
        chk.sample({'sides': tr[0]['sides'], 'events': [
            {k: v for k, v in e.items() if k not in ('outs',)} for e in tr[0]['events'][:10]]})
    chk.assumptions += [
        'a pubsub bridge is lossless and keeps FIFO order per (publisher, subscriber) pair; '
        'no order is assumed across pairs (weaker than the single bridge thread of ru.zmq.PubSub)',
        'all forwarders and subscribers are connected before the first message is published '
        '(ZeroMQ drops messages published before a subscription is in place)',
        'the client application runs with RP_PILOT_ID unset and pilot ids are unique (the '
        'identities Session.__init__ derives from that are checked to be distinct)',
        'while the client session closes, what it publishes is delivered before close() goes on '
        '(a subscriber stopped by then gets nothing); all pilots are still connected',
        'a subscriber callback runs to completion per message (one listener thread per subscriber)',
        'proxy service: one monitor pass is one step (the unlocked snapshot of _monitor is not '
        'interleaved with requests); worker processes are stand-ins whose termination event '
        'takes the hosted proxy pubsubs down; the clock is virtual (ticks of _TIMEOUT / 2)',
        'the timed waits of a blocking rpc call run on a virtual clock: a wait period either '
        'times out with nothing delivered or ends with everything in flight delivered',
        'an RPC is served by the component whose handler address equals the addressed side '
        '(as agent_0 registers its handlers with rpc_addr = pilot id)',
        'messages published with an origin marker naming another side count as already forwarded '
        '(they stay local), as documented in crosswire_pubsub']


def replay(chk, obj):
    inp = obj['input']
    if inp['kind'] == 'advance':
        d = R.advance_defaults()
        if d.get('agent') != 'true':
            chk.violation('C16.AgentAdvanceForwards', 'AgentComponent.advance default',
                          'agent-side advance publishes fwd=%s by default' % d.get('agent'), obj)
        if d.get('client') != 'false':
            chk.violation('C16.ClientAdvanceLocal', 'ClientComponent.advance default',
                          'client-side advance publishes fwd=%s by default' % d.get('client'), obj)
        return
    if inp['kind'] == 'tlc-behaviour':
        rig, notes, final_ok, _ = run_script(inp['npilots'], inp['chan'], inp['script'])
        if not final_ok:
            chk.violation('C16.GotDiffersFromModel', classify(rig.trace()),
                          'replayed behaviour: counts at rest differ from the TLC state',
                          {'rig': 'forward', 'input': inp, 'trace': rig.trace()})
    elif inp['kind'] == 'close':
        rig = run_close(inp['npilots'], inp['groups'], inp['seed'])
    elif inp['kind'] == 'rpc':
        rig = run_rpc(inp['npilots'], inp['seed'])
    elif inp['kind'] == 'advance-bulk':
        rig = run_advance(inp['npilots'], [tuple(c) for c in inp['calls']], inp['seed'])
    elif inp['kind'] == 'proxy':
        pr = run_proxy(inp['sessions'], inp['npilots'], inp['ops'], inp['rpc'], inp['seed'])
        check_traces(chk, check_proxy(chk, [(pr, inp)]))
        return
    elif inp['kind'] == 'enum':
        rig = run_enum(inp['npilots'], inp['side'], inp['chan'], inp['origin'], inp['fwd'],
                       inp['order'])
    else:
        rig = run_random(inp['npilots'], inp['nmsgs'], inp['seed'])
    check_traces(chk, [(rig.trace(), inp)])
