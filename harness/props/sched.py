'''
C01 C02 C03 C04 (and the scheduler part of C08): AgentSched design model
(exhaustive TLC), TLC behaviours replayed as environment schedules into the
real scheduler, seeded random environments, and validation of every recorded
trace by the AgentSchedTrace monitor.
'''

import os
import re
import glob
import random
import shutil

from .. import tlc, tracecheck
from ..core import Machinery
from ..rigs import sched_rig as R

INVARIANTS = ['TypeOK', 'InvNoCoreShared', 'InvGpuShareBound', 'InvLfsBound', 'InvMemBound',
              'InvNoBlocked', 'InvOnlyNodes', 'InvOccMatchesHeld', 'InvShape',
              'InvRejectOversize', 'InvReleaseOnce', 'InvIdleIsInitial', 'InvActiveCount',
              'InvPoolMatches', 'InvReportedOnce', 'InvStartedHolds', 'InvSleepAlone',
              'InvSleepIdle', 'InvSleepUnfit']
PROPERTIES = ['ActColo', 'ActRestores', 'ActNoFalseFailure', 'ActPriorityWins']

DEVS = ['DevNoLfsCheck', 'DevFracSameGpu', 'DevSuppliedUnmarked', 'DevRanksFallthrough',
        'DevFracDownRaises', 'DevNoWakeOnRelease']

# which property an invariant of the design model belongs to
OWNER = {'InvNoCoreShared': 'C01', 'InvGpuShareBound': 'C01', 'InvLfsBound': 'C01',
         'InvMemBound': 'C01', 'InvNoBlocked': 'C01', 'InvOnlyNodes': 'C01',
         'InvOccMatchesHeld': 'C01', 'InvShape': 'C02', 'ActColo': 'C02',
         'InvRejectOversize': 'C02', 'InvReleaseOnce': 'C03', 'InvIdleIsInitial': 'C03',
         'InvActiveCount': 'C03', 'ActRestores': 'C03', 'InvPoolMatches': 'C04',
         'InvReportedOnce': 'C04', 'InvStartedHolds': 'C04', 'InvSleepAlone': 'C04',
         'InvSleepIdle': 'C04', 'InvSleepUnfit': 'C04', 'ActNoFalseFailure': 'C04',
         'ActPriorityWins': 'C04'}

S = R.shape


def slot(node, cores, gpus=(), lfs=0, mem=0):
    return {'node': node, 'cores': list(cores), 'gpus': [list(g) for g in gpus],
            'lfs': lfs, 'mem': mem}


# (name, layout, shapes, cancelable)
SCENARIOS = [
    ('lfs-prio',  R.Layout(2, 2, 1, 3, 2),
     {'t1': S(1, 1, 0, 2), 't2': S(2, 1, 1, 2, prio=1), 't3': S(3, 1)}, ['t1']),
    ('colo',      R.Layout(2, 2, 0, 0, 0),
     {'t1': S(2, 2, prio=0), 't2': S(1, 1, prio=1, colo='a'), 't3': S(1, 2, colo='a')}, ['t3']),
    ('gpu-share', R.Layout(1, 3, 2, 0, 0),
     {'t1': S(3, 1, 1), 't2': S(1, 1, 4), 't3': S(1, 1, 2, prio=1)}, ['t2']),
    ('blocked',   R.Layout(2, 3, 2, 0, 2, bc=(0,), bg=(1,)),
     {'t1': S(2, 1, 1, mem=1), 't2': S(1, 2, 2, mem=2), 't3': S(3, 1, 0, rpn=1)}, ['t1']),
    ('supplied',  R.Layout(2, 2, 0, 0, 0),
     {'t1': S(1, 1, supplied=[slot(0, [0])]), 't2': S(2, 1),
      't3': S(1, 2, supplied=[slot(0, [0, 1])])}, ['t2']),
    ('invalid',   R.Layout(2, 2, 1, 2, 0),
     {'t1': S(0, 1), 't2': S(1, 3), 't3': S(2, 1, 0, 1, rpn=1, prio=1)}, ['t3']),
    ('mem-gpu',   R.Layout(2, 2, 2, 0, 3),
     {'t1': S(2, 1, 2, mem=2), 't2': S(1, 1, 3), 't3': S(1, 2, 1, mem=1, prio=2)}, ['t1']),
    ('lfs-mem',   R.Layout(1, 2, 0, 2, 4),
     {'t1': S(2, 1, 0, 1, 2), 't2': S(1, 1, 0, 1, 1, prio=1), 't3': S(1, 1, 0, 2, 0)}, ['t3']),
    ('gpu-blocked', R.Layout(2, 2, 2, 0, 0, bg=(0,)),
     {'t1': S(1, 1, 2), 't2': S(2, 1, 1), 't3': S(1, 1, 4)}, ['t1']),
    ('nodes3',    R.Layout(3, 1, 0, 0, 0),
     {'t1': S(1, 1), 't2': S(1, 1, prio=1), 't3': S(2, 1)}, ['t2']),
    ('unfit-mpi', R.Layout(2, 2, 0, 0, 0),
     {'t1': S(1, 1), 't2': S(1, 1), 't3': S(6, 1)}, []),
    # GPU shares in tenths: five shares of 0.2 fill a GPU exactly
    ('tenths',    R.Layout(1, 6, 1, 0, 0, su=10),
     {'t1': S(5, 1, 2), 't2': S(3, 1, 3), 't3': S(1, 1, 10, prio=1)}, ['t2']),
    # exclusive colocate tags, more tag values than nodes
    ('exclusive', R.Layout(2, 2, 0, 0, 0),
     {'t1': S(1, 1, colo='a', excl=True), 't2': S(1, 1, colo='b', excl=True),
      't3': S(1, 1, colo='c', excl=True)}, ['t3']),
]

# directed environment schedules (scenario, script): interleavings worth having
# every time - a _SCHEDULE bulk and a _CANCEL item for a *waiting* task drained in
# the same pass of _schedule_incoming, completions racing with cancels
def directed():
    out = []
    for k in range(5, 16):
        out.append(('lfs-prio', [(1, ('arrive', ['t3'])), (1, ('arrive', ['t2'])),
                                 (k, ('arrive', ['t1'])), (k, ('cancelc', ['t2'])), (k, ('flush',))]))
        out.append(('nodes3',   [(1, ('arrive', ['t1', 't2'])), (2, ('arrive', ['t3'])),
                                 (k, ('complete', 't1')), (k + 2, ('cancelc', ['t3'])),
                                 (k + 2, ('flush',)), (k + 3, ('complete', 't2'))]))
        out.append(('nodes3',   [(1, ('arrive', ['t1', 't2'])), (3, ('arrive', ['t3'])),
                                 (k, ('complete', 't1')), (k + 6, ('complete', 't2'))]))
        out.append(('nodes3',   [(1, ('arrive', ['t1', 't2'])), (3, ('arrive', ['t3'])),
                                 (k, ('complete', 't2')), (k + 6, ('complete', 't1'))]))
        out.append(('colo',     [(1, ('arrive', ['t1'])), (1, ('arrive', ['t3'])),
                                 (k, ('cancelc', ['t3'])), (k, ('arrive', ['t2'])), (k, ('flush',)),
                                 (k + 4, ('complete', 't1'))]))
    # several completions in ONE unschedule message, then a request which can never fit
    for k in range(5, 12):
        out.append(('unfit-mpi', [(1, ('arrive', ['t1', 't2'])), (k, ('complete_bulk', ['t1', 't2'])),
                                  (k + 4, ('arrive', ['t3']))]))
        out.append(('unfit-mpi', [(1, ('arrive', ['t1', 't2'])), (k, ('arrive', ['t3'])),
                                  (k + 3, ('complete_bulk', ['t1', 't2']))]))
    return out


# ------------------------------------------------------------------------------
def tla_set(xs):
    return '{' + ', '.join(str(x) for x in xs) + '}'


def tla_shape(sh):
    return ('[ranks |-> %d, cpr |-> %d, gpr |-> %d, lfs |-> %d, mem |-> %d, rpn |-> %d, '
            'prio |-> %d, colo |-> "%s", excl |-> %s]'
            % (sh['ranks'], sh['cpr'], sh['gpr'], sh['lfs'], sh['mem'], sh['rpn'],
               sh['prio'], sh['colo'], 'TRUE' if sh.get('excl') else 'FALSE'))


def tla_placement(sup):
    if not sup:
        return '<<>>'
    out = []
    for s in sup:
        out.append('[node |-> %d, cores |-> %s, gpus |-> %s, lfs |-> %d, mem |-> %d]'
                   % (s['node'], tla_set(s['cores']),
                      '{' + ', '.join('<<%d, %d>>' % (g[0], g[1]) for g in s['gpus']) + '}',
                      s['lfs'], s['mem']))
    return '<<' + ', '.join(out) + '>>'


def mc_files(lay, shapes, cancelable, devs=(), maxbatch=2, invariants=None, props=None, fair=False):
    uids = sorted(shapes)
    case_sh  = ' [] '.join('t = "%s" -> %s' % (u, tla_shape(shapes[u])) for u in uids)
    case_sup = ' [] '.join('t = "%s" -> %s' % (u, tla_placement(shapes[u]['supplied'])) for u in uids)
    mod = ('---- MODULE MC ----\nEXTENDS AgentSched\n'
           'MCTasks == {%s}\n'
           'MCShape == [t \\in MCTasks |-> CASE %s]\n'
           'MCSupplied == [t \\in MCTasks |-> CASE %s]\n'
           'MCCanc == {%s}\n====\n'
           % (', '.join('"%s"' % u for u in uids), case_sh, case_sup,
              ', '.join('"%s"' % u for u in cancelable)))
    cfg = 'CONSTANTS\n ' + lay.cfg_constants()
    cfg += (' Tasks <- MCTasks\n Shape <- MCShape\n Supplied <- MCSupplied\n'
            ' Cancelable <- MCCanc\n MaxBatch = %d\n' % maxbatch)
    for d in DEVS:
        cfg += ' %s = %s\n' % (d, 'TRUE' if d in devs else 'FALSE')
    cfg += 'SPECIFICATION %s\nCHECK_DEADLOCK FALSE\n' % ('FairLive' if fair else 'Spec')
    for i in (INVARIANTS if invariants is None else invariants):
        cfg += 'INVARIANT %s\n' % i
    for p in (PROPERTIES if props is None else props):
        cfg += 'PROPERTY %s\n' % p
    return {'MC.tla': mod, 'MC.cfg': cfg}


# ------------------------------------------------------------------------------
_ACT = re.compile(r'^\\\* <(\w+)(?:\((.*)\))? line \d+', re.M)
POINT_ACTS = {'WaitTry', 'IncGet', 'IncDone', 'ITry', 'IInsert', 'UGet', 'UDone', 'Sleep'}


def script_from_behaviour(path):
    '''environment schedule of one TLC behaviour: (point number, action)'''
    txt = open(path).read()
    script, k = [], 0
    for m in _ACT.finditer(txt):
        name, args = m.group(1), m.group(2)
        if name in POINT_ACTS:
            k += 1
        elif name == 'Arrive':
            script.append((k + 1, ('arrive', re.findall(r'"(\w+)"', args))))
        elif name == 'CancelP':
            script.append((k + 1, ('cancelp', re.findall(r'"(\w+)"', args))))
        elif name == 'CancelC1':
            script.append((k + 1, ('cancelc', re.findall(r'"(\w+)"', args))))
        elif name == 'CancelC2':
            script.append((k + 1, ('flush',)))
        elif name == 'Complete':
            script.append((k + 1, ('complete', re.findall(r'"(\w+)"', args)[0])))
    return script


class ScriptRig(R.SchedRig):
    '''scripted mode counts only the points that have a counterpart in the spec'''
    def point(self, name):
        if name == 'adv' and self.script is not None:
            return
        return R.SchedRig.point(self, name)


# ------------------------------------------------------------------------------
CATALOGUE = [
    S(1, 1), S(1, 2), S(2, 1), S(3, 1), S(4, 1), S(2, 2), S(1, 1, 1), S(2, 1, 1), S(3, 1, 1),
    S(1, 1, 2), S(2, 1, 2), S(1, 1, 4), S(1, 1, 0, 2), S(2, 1, 0, 2), S(1, 1, 0, 1, 1),
    S(2, 1, 0, 0, 2), S(3, 1, rpn=1), S(2, 1, rpn=1), S(4, 1, rpn=2), S(1, 1, colo='a'),
    S(2, 1, colo='a'), S(1, 2, colo='b'), S(0, 1), S(1, 9), S(1, 1, 3), S(1, 0), S(1, 1, 64),
    S(2, 1, 1, 1, 1), S(1, 1, named_env=True), S(1, 3), S(6, 1),
    S(2, 1, 0, 1, 2), S(3, 1, 0, 1, 2), S(2, 1, 0, 2, 1), S(2, 1, 1, 1, 2), S(2, 2, 0, 1, 3),
    # exclusive colocate tags: a new tag avoids nodes other tags used, unless all nodes are tagged
    S(1, 1, colo='c', excl=True), S(1, 1, colo='d', excl=True), S(2, 1, colo='e', excl=True),
    S(1, 2, colo='a', excl=True), S(1, 1, colo='f', excl=True),
    S(1, 1, 3), S(3, 1, 1), S(2, 1, 3), S(5, 1, 2), S(10, 1, 1),
]

LAYOUTS = [
    R.Layout(2, 2, 1, 3, 2), R.Layout(3, 4, 2, 4, 4), R.Layout(1, 4, 2, 2, 2),
    R.Layout(2, 3, 2, 0, 2, bc=(0,), bg=(1,)), R.Layout(4, 2, 0, 0, 0),
    R.Layout(2, 4, 2, 3, 3, su=4), R.Layout(2, 2, 1, 2, 2, agents=1),
    R.Layout(3, 3, 1, 2, 0, bc=(2,)),
    R.Layout(2, 2, 2, 0, 0, bg=(0,)), R.Layout(1, 2, 0, 2, 4), R.Layout(2, 3, 0, 2, 6),
    # GPU shares in tenths: 0.1, 0.2, 0.3 do not add up exactly in floating point
    R.Layout(2, 4, 2, 0, 0, su=10), R.Layout(1, 6, 1, 0, 0, su=10),
]


def random_shape(rng, lay):
    '''attributes combined freely (the catalogue only has the combinations somebody thought of)'''
    gpr = 0
    if lay.ng and rng.random() < 0.45:
        gpr = rng.choice([1, 2, 3, lay.su, lay.su, 2 * lay.su] if lay.su > 2 else [1, lay.su, 2 * lay.su])
    return S(rng.choice([1, 1, 2, 2, 3, 4, 5]), rng.choice([1, 1, 1, 2]), gpr,
             rng.choice([0, 0, 1, 2]) if lay.lfs else 0, rng.choice([0, 0, 1, 2]) if lay.mem else 0,
             rpn=rng.choice([0, 0, 1, 2]), colo=rng.choice(['none', 'none', 'none', 'a', 'b', 'c', 'd']),
             excl=rng.random() < 0.5)


def random_case(rng, with_supplied=True):
    lay = rng.choice(LAYOUTS)
    n   = rng.randint(2, 6)
    shapes = {}
    free_form = rng.random() < 0.4
    for i in range(n):
        sh = random_shape(rng, lay) if free_form else dict(rng.choice(CATALOGUE))
        sh['prio'] = rng.choice([0, 0, 0, 1, 2])
        if sh['gpr'] and lay.su == 4 and sh['gpr'] in (1, 2):
            sh['gpr'] = rng.choice([1, 2, 4])
        if with_supplied and rng.random() < 0.12 and sh['ranks'] > 0 and sh['cpr'] <= lay.nc \
                and sh['gpr'] == 0 and not sh['named_env'] and sh['colo'] == 'none':
            sup, ok = [], True
            for r in range(sh['ranks']):
                node  = rng.randrange(lay.nn)
                cores = rng.sample(range(lay.nc), max(sh['cpr'], 1))
                sup.append(slot(node, sorted(cores), (), sh['lfs'], sh['mem']))
            sh['supplied'] = sup
        shapes['t%d' % (i + 1)] = sh
    canc = [u for u in shapes if rng.random() < 0.25]
    return lay, shapes, canc


# ------------------------------------------------------------------------------
SUPPLIED = 'application-supplied slots (task description carries slots)'


def classify(trace, clause):
    '''input / call-site class of a failing trace (for known-findings matching):
       runs in which some task arrives with application-supplied slots are a
       class of their own'''
    if any(trace['supplied'][u] for u in trace['uids']):
        return SUPPLIED
    return 'scheduler-chosen placement'


def run(chk, tier, seed):
    pid = chk.pid
    rng = random.Random(seed * 7919 + 13)
    quick = tier == 'quick'

    # ---- 1. design model, exhaustive ------------------------------------------
    scen = SCENARIOS[:4] if quick else SCENARIOS
    for name, lay, shapes, canc in scen:
        files = mc_files(lay, shapes, canc)
        res = tlc.run('AgentSched', 'MC', 'MC.cfg', workers=16, timeout=1500,
                      extra_files=files)
        chk.add_tlc(res, 'exhaustive:' + name)
        if not res.ok:
            raise Machinery('design model AgentSched violates %s in scenario %s '
                            '(intended design must hold):\n%s'
                            % (res.violated, name, res.trace[:3000]))
    chk.exhaustive = True

    # ---- 1b. liveness of the design model (C04, no starvation): weak fairness of the
    #          loop and of every completion; whole state graph, no state constraint
    if pid == 'C04':
        for name, lay, shapes, canc in (SCENARIOS[:3] if quick else SCENARIOS):
            res = tlc.run('AgentSched', 'MC', 'MC.cfg', workers=16, timeout=1500,
                          extra_files=mc_files(lay, shapes, canc, invariants=['TypeOK'], fair=True,
                                               props=['LiveNoStarve', 'LiveReleased']))
            chk.add_tlc(res, 'liveness:' + name)
            if not res.ok:
                raise Machinery('design model AgentSched violates %s in scenario %s under fairness:\n%s'
                                % (res.violated, name, res.trace[:3000]))

    # ---- 2. deviation sensitivity (non-vacuity of the model's invariants) -------
    if not quick:
        expect = [('DevNoLfsCheck', 'lfs-prio', 'InvLfsBound'),
                  ('DevFracSameGpu', 'gpu-share', 'InvGpuShareBound'),
                  ('DevSuppliedUnmarked', 'supplied', None),
                  ('DevRanksFallthrough', 'invalid', None),
                  ('DevFracDownRaises', 'blocked', 'ActNoFalseFailure'),
                  ('DevNoWakeOnRelease', 'lfs-prio', 'LiveNoStarve')]
        for dev, sname, inv in expect:
            _, lay, shapes, canc = [s for s in SCENARIOS if s[0] == sname][0]
            if inv.startswith('Live') if inv else False:
                files = mc_files(lay, shapes, canc, devs=[dev], invariants=['TypeOK'], fair=True,
                                 props=['LiveNoStarve', 'LiveReleased'])
            else:
                files = mc_files(lay, shapes, canc, devs=[dev])
            res = tlc.run('AgentSched', 'MC', 'MC.cfg', workers=16, timeout=900,
                          extra_files=files)
            chk.add_tlc(res, 'deviation:' + dev)
            if res.ok or (inv and res.violated != inv):
                raise Machinery('deviation %s not detected by the model (got %s)'
                                % (dev, res.violated))
            chk.notes.append('deviation %s breaks %s in the design model' % (dev, res.violated))

    # ---- 3. TLC behaviours -> environment schedules for the real scheduler ------
    traces, inputs = [], []
    nsim = 40 if quick else 400
    for name, lay, shapes, canc in (SCENARIOS if quick else SCENARIOS * 2):
        dump = tlc.scratch('rpsim_')
        try:
            res = tlc.run('AgentSched', 'MC', 'MC.cfg', workers=1, timeout=600,
                          simulate='num=%d' % nsim, depth=70, seed=rng.randrange(10 ** 6),
                          dump_dir=dump, extra_files=mc_files(lay, shapes, canc, invariants=['TypeOK'], props=[]))
            chk.add_tlc(res, 'simulate:' + name)
            for f in sorted(glob.glob(os.path.join(dump, 'tr_*'))):
                script = script_from_behaviour(f)
                # each behaviour drives the shipped default (scattered) and the
                # non-scattered mode (safety clauses only)
                for sc in (True, False):
                    rig = ScriptRig(lay, shapes, script=list(script), seed=0, cancelable=canc,
                                    scattered=sc)
                    tr  = rig.run()
                    traces.append((lay, tr))
                    inputs.append({'kind': 'tlc-behaviour', 'scenario': name, 'script': script,
                                   'layout': lay.__dict__, 'shapes': shapes, 'scattered': sc})
        finally:
            shutil.rmtree(dump, ignore_errors=True)

    # ---- 3b. directed schedules ---------------------------------------------------
    for sname, script in directed():
        _, lay, shapes, canc = [x for x in SCENARIOS if x[0] == sname][0]
        for sc in (True, False):
            rig = ScriptRig(lay, shapes, script=list(script), seed=0, cancelable=canc, scattered=sc)
            tr  = rig.run()
            traces.append((lay, tr))
            inputs.append({'kind': 'tlc-behaviour', 'scenario': sname, 'script': script,
                           'layout': lay.__dict__, 'shapes': shapes, 'scattered': sc})

    # ---- 4. seeded random environments, larger layouts -------------------------
    nrand = 300 if quick else 6000
    for i in range(nrand):
        lay, shapes, canc = random_case(rng)
        s   = rng.randrange(10 ** 9)
        sc  = rng.random() < 0.65
        pe  = rng.choice([0.1, 0.25, 0.4])
        rig = R.SchedRig(lay, shapes, seed=s, cancelable=canc, scattered=sc, p_env=pe)
        tr  = rig.run()
        traces.append((lay, tr))
        inputs.append({'kind': 'random', 'seed': s, 'layout': lay.__dict__, 'shapes': shapes,
                       'cancelable': canc, 'scattered': sc, 'p_env': pe})

    # ---- 4b. fragmentation workloads: many small nodes, mixed rank counts, both
    #          node-iteration modes (continuity restarts in the non-scattered search)
    FRAG = [R.Layout(4, 1, 0, 0, 0), R.Layout(3, 2, 0, 0, 0), R.Layout(4, 2, 0, 0, 0),
            R.Layout(3, 1, 0, 0, 0), R.Layout(4, 4, 0, 0, 0), R.Layout(4, 3, 0, 0, 0)]
    for i in range(160 if quick else 3000):
        lay = rng.choice(FRAG)
        big = lay.nc >= 3
        shapes = {'t%d' % (j + 1): S(rng.choice([1, 2, 2, 3, 3, 5, 6, 7] if big else [1, 1, 1, 2, 2, 3]), 1,
                                     prio=rng.choice([0, 0, 1]))
                  for j in range(rng.randint(5, 8) if big else rng.randint(4, 7))}
        s, sc, pe = rng.randrange(10 ** 9), (i % 4 == 0), rng.choice([0.1, 0.25])
        rig = R.SchedRig(lay, shapes, seed=s, cancelable=[], scattered=sc, p_env=pe)
        traces.append((lay, rig.run()))
        inputs.append({'kind': 'random', 'seed': s, 'layout': lay.__dict__, 'shapes': shapes,
                       'cancelable': [], 'scattered': sc, 'p_env': pe})

    # ---- 4b'. one MPI request waiting ALONE on a full pilot while single-core fillers complete one by
    #           one in random order: every release is followed by a quiescence point at which the
    #           'alone starts' obligation is judged - in scattered and (mostly) non-scattered mode
    for i in range(60 if quick else 900):
        lay = rng.choice([R.Layout(4, 2, 0, 0, 0), R.Layout(4, 3, 0, 0, 0), R.Layout(4, 4, 0, 0, 0),
                          R.Layout(3, 2, 0, 0, 0), R.Layout(5, 2, 0, 0, 0)])
        nfill  = lay.nn * lay.nc
        shapes = {'f%02d' % j: S(1, 1) for j in range(nfill)}
        shapes['tm'] = S(rng.randint(lay.nc + 1, 2 * lay.nc + 1), 1)
        order  = sorted(u for u in shapes if u != 'tm')
        rng.shuffle(order)
        script = [(1, ('arrive', sorted(u for u in shapes if u != 'tm'))), (6 + 3 * nfill, ('arrive', ['tm']))]
        at = 6 + 3 * nfill + 8
        for u in order[:rng.randint(2, nfill)]:
            script.append((at, ('complete', u)))
            at += rng.choice([9, 12, 15])
        sc = (i % 5 == 0)
        rig = ScriptRig(lay, shapes, script=list(script), seed=0, cancelable=[], scattered=sc,
                        max_points=4000)
        traces.append((lay, rig.run()))
        inputs.append({'kind': 'tlc-behaviour', 'scenario': 'alone-mpi', 'script': script,
                       'layout': lay.__dict__, 'shapes': shapes, 'scattered': sc})

    # ---- 4c. (thorough) a pilot-sized bulk: more than 512 releases pending in one loop
    #          iteration (the drain of the unschedule queue works in bulks of 512)
    if not quick:
        # 576 cores, 600 single-core tasks: 24 wait; all running ones complete in one drain (> 512),
        # the waiting ones are placed on what was released
        lay = R.Layout(9, 64, 0, 0, 0)
        shapes = {'t%03d' % i: S(1, 1) for i in range(600)}
        script = [(1, ('arrive', sorted(shapes))), (5000, ('complete_all',))]
        rig = ScriptRig(lay, shapes, script=list(script), seed=0, cancelable=[], max_points=20000)
        traces.append((lay, rig.run()))
        inputs.append({'kind': 'tlc-behaviour', 'scenario': 'bulk-560', 'script': script,
                       'layout': lay.__dict__, 'shapes': shapes, 'scattered': True})

    # ---- 5. validate all traces with the monitor, grouped by layout -------------
    groups = {}
    for i, (lay, tr) in enumerate(traces):
        groups.setdefault(lay.key(), []).append(i)
    for key, idxs in groups.items():
        lay = traces[idxs[0]][0]
        res, st = tracecheck.validate('AgentSched', 'AgentSchedTrace', lay.cfg_constants(),
                                      [traces[i][1] for i in idxs])
        chk.states += st['states']
        chk.transitions += st['transitions']
        chk.cmds.append(st['cmd'])
        for i, errs in zip(idxs, res):
            tr = traces[i][1]
            chk.traces += 1
            evs = [e['ev'] + ':' + e.get('res', e.get('state', '')) for e in tr['events']]
            if any(e.startswith('Try:nofit') for e in evs) or any(e.startswith('Adv:canceled') for e in evs):
                chk.nontrivial.add(hash(tuple(evs)))
            for err in errs:
                if err.split('.')[0] != pid:
                    continue
                chk.violation(err, classify(tr, err),
                              'real scheduler trace violates %s' % err,
                              {'rig': 'sched', 'input': inputs[i], 'errs': errs, 'trace': tr})
    if traces:
        tr = traces[0][1]
        chk.sample({'kind': inputs[0]['kind'], 'events': [
            {k: v for k, v in e.items() if k not in ('nodes',)} for e in tr['events'][:12]]})
    chk.assumptions += [
        'ZeroMQ queues between the parent part and the scheduler process are FIFO and lossless',
        'the scheduler loop is single-threaded; the control subscriber thread interleaves only '
        'at the cancel list and at the put of the _CANCEL item (both are schedule points)',
        'node list comes from the real Fork resource manager (_init_from_scratch/_filter_nodes)']


def replay(chk, obj):
    lay = R.Layout(**{k: v for k, v in obj['input']['layout'].items()})
    inp = obj['input']
    if inp['kind'] == 'random':
        rig = R.SchedRig(lay, inp['shapes'], seed=inp['seed'], cancelable=inp['cancelable'],
                         scattered=inp['scattered'], p_env=inp.get('p_env', 0.35))
    else:
        rig = ScriptRig(lay, inp['shapes'], script=[(k, tuple(a)) for k, a in inp['script']],
                        scattered=inp.get('scattered', True))
    tr = rig.run()
    res, st = tracecheck.validate('AgentSched', 'AgentSchedTrace', lay.cfg_constants(), [tr])
    chk.traces += 1
    for err in res[0]:
        if err.split('.')[0] == chk.pid:
            chk.violation(err, classify(tr, err), 'replayed trace violates %s' % err,
                          {'rig': 'sched', 'input': inp, 'errs': res[0], 'trace': tr})
